from props import job

PROP = dict(
    level="exploration",
    technique="property-based (rapid): exact-integer reference for the fee schedule; "
              "validity predicate on every transaction the real TxPublisher hands to a stub wallet",
    rule=("Three generators. (1) FeeFunction: (relay fee, ceiling incl. below relay, conf target 0..50000 "
          "biased to 0..12 and 1000..1012, estimator {fixed|slope|error|below relay|above ceiling|mixed}, "
          "starting-rate option) then a drawn walk of 1..60 Increment / IncreaseFeeRate(ct) steps "
          "(one block, skips of 2..1200 heights, jump to <=3 remaining, repeated and out-of-order targets). "
          "Non-trivial = the walk skips >=2 heights, or climbs from a start strictly below the ceiling up to it. "
          "(2) Publisher: 1..2 BumpRequests on one real TxPublisher (1..24 real input.Input values of 14 kinds "
          "incl. CSV, CLTV, second-level inputs with required outputs, wallet top-ups sized around the dust "
          "limit; Budget as a rate class x weight; MaxFeeRate 253..2.5M sat/kw; deadline -3..+1200 blocks; "
          "starting rate none / carried / above budget ceiling / above max), a drawn sequence of wallet "
          "answers (nil, ErrInsufficientFee, ErrMempoolMinFeeNotMet, ErrMempoolFee, ErrMinRelayFeeNotMet, "
          "ErrBackendVersion, ErrUnimplemented, ErrMissingInputs, other) and a walk of 2..16 block beats with "
          "skipped heights and spend notifications. Non-trivial = at least one fee-related (RBF) rejection and "
          "at least one publication. (3) Aggregator: 1..10 offered inputs with per-input budget / deadline / "
          "starting rate / immediate / exclusive group and 0..4 wallet utxos through the real "
          "BudgetAggregator.ClusterInputs -> BudgetInputSet (NeedWalletInput/AddWalletInputs) -> BumpRequest as "
          "UtxoSweeper.sweep builds it -> the same publisher walk; failed sets are re-offered once with the "
          "publisher-reported starting rate, some inputs dropped, and re-clustered. Non-trivial = a publication "
          "from a multi-input set, a set with a wallet top-up, or after an RBF rejection. "
          "Distinct = distinct fingerprint of the generated parameters."),
    assumptions=[
        "fee rates are measured against the BIP-141 upper-bound weight (per-witness-type bounds published by package input, one change output of the delivery script), which is how lnd defines the rate of a sweep; the serialized transaction can be lighter (shorter signatures, no change output)",
        "when the change would be dust it is, as documented in prepareSweepTx, added to the fee: for a transaction without change output the fee-rate bound is relaxed by dust_limit(change script)-1 sat (fee <= budget is still enforced exactly)",
        "a block beat is delivered by calling TxPublisher.processRecords after storing the height and waiting on the publisher's wait group (what monitor() does per beat); chainio.BeatConsumer plumbing is not exercised",
        "no AuxSweeper (no extra outputs / extra budget), no unconfirmed-parent (CPFP) inputs, signatures are fixed-size dummies (witness content is not validated, only its presence)",
        "required outputs handed directly to the publisher are not dust (the aggregator filters them; that filter is checked in part 3)",
        "known findings C18:start-above-ceiling and C18:budget-rate-rounded-up are excluded by construction while listed as known",
    ],
    jobs=dict(
        quick=[
            job("sweep", "^TestVerifC18RefWeight$", ["TestVerifC18RefWeight"], 1, shards=1),
            job("sweep", "^TestVerifC18FeeFunction$", ["TestVerifC18FeeFunction"], 40000, shards=2),
            job("sweep", "^TestVerifC18Publisher$", ["TestVerifC18Publisher"], 12000, shards=4),
            job("sweep", "^TestVerifC18Aggregator$", ["TestVerifC18Aggregator"], 8000, shards=4),
        ],
        thorough=[
            job("sweep", "^TestVerifC18RefWeight$", ["TestVerifC18RefWeight"], 1, shards=1),
            job("sweep", "^TestVerifC18FeeFunction$", ["TestVerifC18FeeFunction"], 240000, shards=4, timeout=1500),
            job("sweep", "^TestVerifC18Publisher$", ["TestVerifC18Publisher"], 60000, shards=6, timeout=1500),
            job("sweep", "^TestVerifC18Aggregator$", ["TestVerifC18Aggregator"], 36000, shards=6, timeout=1500),
        ],
    ),
)
