from props import job

PROP = dict(
    level="exploration",
    technique="property-based (rapid): exact-integer reference for the fee schedule; "
              "validity predicate on every transaction the real TxPublisher hands to a stub wallet; "
              "model-based state machine around the real UtxoSweeper + TxPublisher + BudgetAggregator",
    rule=("Four generators. (1) FeeFunction: (relay fee, ceiling incl. below relay, conf target 0..50000 "
          "biased to 0..12 and 1000..1012, estimator {fixed|slope|error|below relay|above ceiling|mixed}, "
          "starting-rate option) then a drawn walk of 1..60 Increment / IncreaseFeeRate(ct) steps "
          "(one block, skips of 2..1200 heights, jump to <=3 remaining, repeated and out-of-order targets). "
          "Non-trivial = the walk skips >=2 heights, or climbs from a start strictly below the ceiling up to it. "
          "(2) Publisher: 1..2 BumpRequests on one real TxPublisher (1..24 real input.Input values of 14 kinds "
          "incl. CSV, CLTV, second-level inputs with required outputs, wallet top-ups sized around the dust "
          "limit; Budget as a rate class x weight; MaxFeeRate 253..2.5M sat/kw; deadline -3..+1200 blocks; "
          "starting rate none / carried / above budget ceiling / above max), a drawn sequence of wallet "
          "answers (nil, ErrInsufficientFee, ErrMempoolMinFeeNotMet, ErrMempoolFee, ErrMinRelayFeeNotMet, "
          "ErrBackendVersion, ErrUnimplemented, ErrMissingInputs, other) and a walk of 2..16 block beats with "
          "skipped heights and spend notifications. In a third of the cases the publisher runs with a harness "
          "AuxSweeper (custom channels) that follows the interface contract from generated facts: each input "
          "carries a resolution blob or not, cells NO-blob / ALL-blob / MIXED (blob inputs grouped with a wallet "
          "utxo, anchor or plain output; 50% of the aux cases); DeriveSweepAddr returns one extra P2TR output of "
          "330..1000 sat iff any passed input has a blob; the reference weight (hence the ceiling budget/size and "
          "the max-rate bound) gains the extra output's 172 wu from those facts, and the per-tx oracle wants the "
          "extra output iff expected and NotifyBroadcast(tx, true fee, request.ExtraTxOut) before every publish. "
          "Non-trivial = at least one fee-related (RBF) rejection and "
          "at least one publication. (3) Aggregator: 1..10 offered inputs with per-input budget / deadline / "
          "starting rate / immediate / exclusive group and 0..4 wallet utxos through the real "
          "BudgetAggregator.ClusterInputs -> BudgetInputSet (NeedWalletInput/AddWalletInputs) -> BumpRequest as "
          "UtxoSweeper.sweep builds it -> the same publisher walk; failed sets are re-offered once with the "
          "publisher-reported starting rate, some inputs dropped, and re-clustered. A third of the cases use the "
          "harness AuxSweeper on aggregator and publisher: 60% of the channel outputs carry a blob, half of those an "
          "extra budget of 1..2000 sat (set budget = sum of budgets + extra budgets, NeedWalletInput counts it as "
          "needed); lnd's own wallet top-ups make the sets MIXED. Non-trivial = a publication "
          "from a multi-input set, a set with a wallet top-up, or after an RBF rejection. "
          "(4) Sweeper: a drawn sequence of 6..28 actions on one real UtxoSweeper wired to the real TxPublisher and "
          "BudgetAggregator (stub wallet / estimator / notifier / store; handlers of the collector loop called "
          "synchronously, block delivered to the sweeper first, then to the publisher): SweepInput of a new input "
          "(14 kinds, value, budget class, deadline none/shared/near/past, immediate, starting rate incl. above the "
          "maximum), the same input offered again with other parameters, UpdateParams, block beat (+1, skips, jump to "
          "a deadline, leaps; publisher results relayed before or after the publisher sees the block), confirmation "
          "of the latest or an older accepted transaction, third-party spend of 1..2 inputs (sweeper notified at once "
          "or one block late), new mempool answer plans (answers are a function of the txid). MaxFeeRate 2..10000 "
          "sat/vb, MaxInputsPerTx {100,2,3,5}, NoDeadlineConfTarget {1008,144,6,2,1}, 0..3 wallet utxos. "
          "Non-trivial = at least one accepted publication and at least one of: an input carried into a second "
          "request (re-grouping), a replacement at a later block, an unknown spend handled, an own transaction "
          "confirmed. "
          "Distinct = distinct fingerprint of the generated parameters."),
    assumptions=[
        "fee rates are measured against the BIP-141 upper-bound weight (per-witness-type bounds published by package input, one change output of the delivery script), which is how lnd defines the rate of a sweep; the serialized transaction can be lighter (shorter signatures, no change output)",
        "when the change would be dust it is, as documented in prepareSweepTx, added to the fee: for a transaction without change output the fee-rate bound is relaxed by dust_limit(change script)-1 sat (fee <= budget is still enforced exactly)",
        "a block beat is delivered by calling TxPublisher.processRecords after storing the height and waiting on the publisher's wait group (what monitor() does per beat); chainio.BeatConsumer plumbing is not exercised",
        "aux mode (publisher and aggregator parts, 1/3 of the cases): the AuxSweeper is a harness stub that obeys sweep/interface.go - one extra P2TR output exactly when an input of the set carries a non-empty resolution blob ('no output' is the Result shape prepareSweepTx reads as such: nil error and LeftToSome()==None, i.e. fn.Err[SweepOutput](nil)), extra budget non-negative and additive; blobs are only generated when an aux sweeper is configured (blob inputs exist only with custom channels, which require it), and wallet utxos / anchors never carry one; the extra output's value comes out of the inputs like a required output; the sweeper part runs without AuxSweeper",
        "half of the anchor inputs carry an unconfirmed parent (CPFP, fee and weight of the commitment) as contractcourt sets it - the budget, maximum-rate and reported-rate bounds speak about the sweep transaction itself, signatures are fixed-size dummies (witness content is not validated, only its presence)",
        "required outputs handed directly to the publisher are not dust (the aggregator filters them; that filter is checked in part 3)",
        "known findings C18:start-above-ceiling and C18:budget-rate-rounded-up are excluded by construction while listed as known",
        "sweeper part: the collector goroutine is not started; the harness calls the handlers its select loop calls (handleNewInput / handleUpdateReq / handleInputSpent / handleBumpEvent / beat body) followed by updateSweeperInputs, reading spend details and bump results from the sweeper's own channels (monitorSpend and monitorFeeBumpResult goroutines are the real ones); a block reaches the sweeper before the publisher (server.registerBlockConsumers order)",
        "sweeper part: the per-input clauses that compare two requests (carried fee rate, no input in two live requests) hold for inputs whose parameters the caller did not replace in between (re-offer, UpdateParams) - replacing them is documented to overwrite the carried starting rate, and UpdateParams deliberately creates a second, competing request; a carried rate is capped by the new set's ceiling min(budget/size, max rate); a set that fails before its first transaction with ErrZeroFeeRateDelta/ErrTxNoOutput reports rate 0 and thereby resets the carried rate (labelled, not asserted)",
        "sweeper part: whether the confirmation of one of the node's own transactions is reported to the caller as success or as ErrRemoteSpend is not asserted (the sweeper store loses replacements after a refused publish, see notes O2); a third party's transaction must be reported as an error; no exclusive groups, no mempool lookup (neutrino-style decideRBFInfo), no AuxSweeper",
    ],
    jobs=dict(
        quick=[
            job("sweep", "^TestVerifC18RefWeight$", ["TestVerifC18RefWeight"], 1, shards=1),
            job("sweep", "^TestVerifC18FeeFunction$", ["TestVerifC18FeeFunction"], 40000, shards=2),
            job("sweep", "^TestVerifC18Publisher$", ["TestVerifC18Publisher"], 12000, shards=4),
            job("sweep", "^TestVerifC18Aggregator$", ["TestVerifC18Aggregator"], 8000, shards=4),
            job("sweep", "^TestVerifC18Sweeper$", ["TestVerifC18Sweeper"], 4000, shards=4),
        ],
        thorough=[
            job("sweep", "^TestVerifC18RefWeight$", ["TestVerifC18RefWeight"], 1, shards=1),
            job("sweep", "^TestVerifC18FeeFunction$", ["TestVerifC18FeeFunction"], 240000, shards=4, timeout=1500),
            job("sweep", "^TestVerifC18Publisher$", ["TestVerifC18Publisher"], 60000, shards=6, timeout=1500),
            job("sweep", "^TestVerifC18Aggregator$", ["TestVerifC18Aggregator"], 36000, shards=6, timeout=1500),
            job("sweep", "^TestVerifC18Sweeper$", ["TestVerifC18Sweeper"], 30000, shards=6, timeout=1500),
        ],
    ),
)
