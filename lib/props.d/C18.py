from props import job

PROP = dict(
    level="exploration",
    rule=("TBD"),
    assumptions=[],
    jobs=dict(
        quick=[
            job("sweep", "^TestVerifC18RefWeight$", ["TestVerifC18RefWeight"], 1, shards=1),
            job("sweep", "^TestVerifC18FeeFunction$", ["TestVerifC18FeeFunction"], 20000, shards=2),
            job("sweep", "^TestVerifC18Publisher$", ["TestVerifC18Publisher"], 6000, shards=4),
            job("sweep", "^TestVerifC18Aggregator$", ["TestVerifC18Aggregator"], 4000, shards=4),
        ],
        thorough=[
            job("sweep", "^TestVerifC18RefWeight$", ["TestVerifC18RefWeight"], 1, shards=1),
            job("sweep", "^TestVerifC18FeeFunction$", ["TestVerifC18FeeFunction"], 400000, shards=4, timeout=1500),
            job("sweep", "^TestVerifC18Publisher$", ["TestVerifC18Publisher"], 100000, shards=6, timeout=1500),
            job("sweep", "^TestVerifC18Aggregator$", ["TestVerifC18Aggregator"], 60000, shards=6, timeout=1500),
        ],
    ),
)
