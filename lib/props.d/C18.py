from props import job

PROP = dict(
    level="exploration",
    rule=("TBD"),
    assumptions=[],
    jobs=dict(
        quick=[
            job("sweep", "^TestVerifC18FeeFunction$", ["TestVerifC18FeeFunction"], 5000, shards=2),
            job("sweep", "^TestVerifC18Publisher$", ["TestVerifC18Publisher"], 2000, shards=2),
            job("sweep", "^TestVerifC18Aggregator$", ["TestVerifC18Aggregator"], 1500, shards=2),
        ],
        thorough=[
            job("sweep", "^TestVerifC18FeeFunction$", ["TestVerifC18FeeFunction"], 50000, shards=4),
            job("sweep", "^TestVerifC18Publisher$", ["TestVerifC18Publisher"], 20000, shards=4),
            job("sweep", "^TestVerifC18Aggregator$", ["TestVerifC18Aggregator"], 15000, shards=4),
        ],
    ),
)
