from props import job

PROP = dict(
    technique='the C01 state machine with disconnect/reload and database-write-failure actions; crash-point enumeration by loading both sides afresh from the database (bbolt job and sqlite-kvdb job) after every state-machine call; model-based comparison of the restored state, persisted-vs-memory round trip',
    level="fault_enumeration",
    rule=("C01's generated schedules with cuts; after EVERY state-machine call (each call is one atomic kvdb "
          "write, so this enumerates the crash points of the schedule) both sides are loaded afresh from their "
          "databases: load must succeed; the fetched OpenChannel must equal the in-memory one on every persisted "
          "field (commitments incl. signatures and output indexes, revocation store/points, LastWasRevoke); the "
          "persisted local height must equal the number of revocations handed out; restored update logs must hold "
          "every signed update a commitment still needs, nothing unsigned, and the signed HTLC counters; forwarding "
          "packages must equal the revocations received. Cuts make reloaded channels continue under all C01 oracles. "
          "Writes by other subsystems: every side also has a second handle of the channel record that was loaded when "
          "the channel was created and is never refreshed (what the funding manager and the chain watcher hold); through "
          "it MarkCloseConfirmationHeight / ResetCloseConfirmationHeight are called at generated points on every channel "
          "and, on the third of the channels that carry the zero-conf bits, MarkConfirmationHeight and MarkRealScid (then "
          "the link's handle is refreshed from disk as lnd does); such a write must change nothing but its own field: all "
          "oracles above apply to what is on disk afterwards. Transaction retries: in a quarter of the cases every database "
          "write transaction of both sides runs its closure twice (the first execution is rolled back and the reset callback "
          "called), which is what lnd's SQL-backed and etcd kvdb backends do on a serialisation conflict; what is committed "
          "must be what a single execution commits. "
          "Non-trivial = a schedule in which a crash point was checked with a pending remote commitment and with "
          "unsigned-acked or remote-unsigned-local updates. counters.crash_points_checked is the number of (side, "
          "instant) reloads verified. Distinct = distinct (parameters, trace)."),
    assumptions=[
        "each channeldb write is one atomic kvdb transaction (a crash inside a transaction is not simulated)",
        "backends: bbolt, and lnd's SQL-backed kvdb on sqlite (build tag kvdb_sqlite, separate job); the postgres and etcd backends need servers the sandbox does not have",
    ],
    jobs=dict(
        quick=[job("lnwallet", "^TestVerifC02", ["TestVerifC02Reload"], 40, shards=8, timeout=600,
                   env=dict(VERIF_STEPS=40)),
               job("lnwallet", "^TestVerifC02", ["TestVerifC02Reload"], 20, shards=8, timeout=900,
                   tags="verif kvdb_sqlite", env=dict(VERIF_STEPS=30))],
        thorough=[job("lnwallet", "^TestVerifC02", ["TestVerifC02Reload"], 160, shards=16, timeout=2400,
                      env=dict(VERIF_STEPS=80)),
                  job("lnwallet", "^TestVerifC02", ["TestVerifC02Reload"], 60, shards=16, timeout=2400,
                      tags="verif kvdb_sqlite", env=dict(VERIF_STEPS=80))],
    ),
    also=["C01"],
)
