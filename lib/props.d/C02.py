from props import job

PROP = dict(
    technique='the C01 state machine with disconnect/reload actions; crash-point enumeration by loading both sides afresh from bbolt after every state-machine call; model-based comparison of the restored state, persisted-vs-memory round trip',
    level="fault_enumeration",
    rule=("C01's generated schedules with cuts; after EVERY state-machine call (each call is one atomic kvdb "
          "write, so this enumerates the crash points of the schedule) both sides are loaded afresh from their "
          "databases: load must succeed; the fetched OpenChannel must equal the in-memory one on every persisted "
          "field (commitments incl. signatures and output indexes, revocation store/points, LastWasRevoke); the "
          "persisted local height must equal the number of revocations handed out; restored update logs must hold "
          "every signed update a commitment still needs, nothing unsigned, and the signed HTLC counters; forwarding "
          "packages must equal the revocations received. Cuts make reloaded channels continue under all C01 oracles. "
          "Non-trivial = a schedule in which a crash point was checked with a pending remote commitment and with "
          "unsigned-acked or remote-unsigned-local updates. counters.crash_points_checked is the number of (side, "
          "instant) reloads verified. Distinct = distinct (parameters, trace)."),
    assumptions=[
        "each channeldb write is one atomic kvdb transaction (a crash inside a transaction is not simulated)",
        "bbolt backend only (sqlite/postgres kvdb backends are behind build tags the baseline does not build)",
    ],
    jobs=dict(
        quick=[job("lnwallet", "^TestVerifC02", ["TestVerifC02Reload"], 40, shards=8, timeout=600,
                   env=dict(VERIF_STEPS=40))],
        thorough=[job("lnwallet", "^TestVerifC02", ["TestVerifC02Reload"], 160, shards=16, timeout=2400,
                      env=dict(VERIF_STEPS=80))],
    ),
    also=["C01"],
)
