from props import job

PKG = "payments/db"

PROP = dict(
    level="exploration",
    technique=("rapid state machine + reference model + KV/SQL differential; goroutine stress under -race; "
               "control tower: same-hash concurrent histories judged by a linearizability checker "
               "(Wing-Gong search against the sequential model), store spy + subscriber stream oracle, under -race"),
    rule=("A case is one generated history of 8-40 calls (InitPayment, RegisterAttempt with MPP / "
          "single-shot / blinded / blinded+MPP routes and matching or mismatching records, "
          "SettleAttempt, FailAttempt, Fail, DeleteFailedAttempts, DeletePayment, DeletePayments, "
          "FetchPayment, FetchInFlightPayments) over three payment hashes - including never "
          "initiated / deleted hashes, unknown, already resolved, duplicate and foreign attempt ids, "
          "amounts that fit exactly or exceed by one - executed call by call against the real "
          "KVStore (bbolt) and the real SQLStore (sqlite) in one process. After every call both "
          "stores are compared with a reference model written from payment_status.go's truth table "
          "and the interface/errors.go comments (success vs refusal, documented error, resulting "
          "state of every payment), with each other (hard: ok-vs-error, state, the four sentinels "
          "callers branch on; soft: other error identities, counted only), and every MPPayment "
          "handed back is checked against model-independent invariants (settled+in-flight <= value, "
          "status == truth table of its own HTLCs/reason, State fields truthful, admission only "
          "without settled attempt / failure reason, Init only from absent|Failed, Succeeded final, "
          "Failed leaves only through Init). The concurrent test runs 2-4 writer goroutines on "
          "disjoint payment hashes plus 1-2 readers; in the thorough tier under -race. "
          "Non-trivial = the history reached ErrValueExceedsAmt, ErrPaymentPendingSettled or "
          "ErrAlreadyPaid, or re-initiated a failed payment. Distinct = distinct call sequences "
          "(attempt ids relative to the case). "
          "TestVerifC16ControlTower (package routing): one generated plan = 2-4 goroutines x 3-10 calls "
          "(InitPayment, RegisterAttempt plain/MPP with fitting, overshooting, mismatching and duplicate "
          "attempts, SettleAttempt, FailAttempt incl. unknown/foreign/resolved ids, FailPayment, "
          "FetchPayment, DeleteFailedAttempts, SubscribePayment, SubscribeAllPayments, clients that close "
          "their subscription early) ON THE SAME 1-2 payment hashes through a real controlTower, run once "
          "over the KVStore and once over the SQLStore (each run is one evaluation). Every call's "
          "invocation/response is stamped with a logical clock owned by the harness; per hash the answers "
          "must be explainable by some sequential order consistent with real-time precedence under the "
          "reference model (fetches and first subscription updates are compared as full payment views). A "
          "spy between tower and store checks that RegisterAttempt/SettleAttempt/FailAttempt/Fail and the "
          "tower's notification fetches for one hash never overlap inside the store, evaluates the "
          "model-independent invariants on every store answer, fetch and notification, and keeps the "
          "ordered per-hash log of store answers; every SubscribePayment stream must equal that log from "
          "the subscription on up to the first terminal state and must then have been closed by the "
          "tower (all payments are driven to a terminal state at the end, closure is established without "
          "timing), SubscribeAllPayments streams opened before any payment exists must equal the log, "
          "later ones must contain its tail in order. Non-trivial (tower test) = >=2 goroutines had "
          "overlapping calls on the same hash and a documented refusal occurred (ErrValueExceedsAmt, "
          "ErrPaymentPendingSettled, ErrPaymentPendingFailed, ErrAlreadyPaid, ErrPaymentInFlight, "
          "ErrPaymentExists, ErrPaymentAlreadySucceeded, ErrPaymentAlreadyFailed)."),
    assumptions=[
        "attempt ids come from one node-wide sequencer: the same id is never offered to RegisterAttempt under two different payments (counted outside_domain); every attempt carries a fresh session key",
        "store-level tests (payments/db): calls for one payment hash are serialised by the caller (interface.go; control tower per-hash mutex): goroutines own disjoint hashes, same-hash races are not generated there - they are generated through the control tower in TestVerifC16ControlTower, which is the component that owes the serialisation",
        "both stores are shared by all cases of a process and emptied through their own API (DeletePayments / FailAttempt / Fail) before each case; bbolt's Batch coalescing delay is set to 0 in the sequential test (latency knob of the bbolt handle only) and left at its default in the concurrent test",
        "error identity is compared only for the documented sentinels; backends returning different non-sentinel errors are counted as soft divergences, not violations",
        "known findings C16:sql-settle-foreign-attempt and C16:kv-register-duplicate-attempt-id are excluded from generation by construction when listed as known; C16:sql-register-unknown-sentinel and C16:kv-delete-unknown-sentinel only suspend the sentinel comparison for that call",
        "sqlite lock timeouts in the concurrent test make the case inconclusive (skipped and counted), never a violation",
        "control tower test: attempts are plain or MPP only (blinded kinds are covered by the sequential test); attempt ids are unique per payment hash except the generated duplicate / foreign-id classes; the tower is created per case and backend over stores shared by the process, purged through their API before each run; bbolt's Batch delay is 0 unless VERIF_C16_KEEP_BATCH_DELAY=1",
        "control tower test: the spy identifies the tower's own fetches by the context the tower forwards (InitPayment's ctx is tagged by the harness, SubscribePayment uses context.TODO()); the first update of a SubscribePayment stream is located in the store log by object identity - if the tower ever copied the payment the stream would be counted inconclusive, not judged",
        "control tower test: the start of a SubscribeAllPayments stream opened while payments exist is documented to contain duplicates / out-of-order events and is only required to contain the updates that entered the store after the subscription returned; a subscriber that closed its subscription itself is only required to have seen a prefix",
        "control tower test: wall-clock deadlines (goroutine join 120 s, stream readers 30 s) only ever make a case inconclusive; yields injected by the spy are rapid draws (runtime.Gosched counts), not sleeps",
    ],
    jobs=dict(
        quick=[
            job(PKG, "^TestVerifC16Repro$", ["TestVerifC16Repro"], 1, shards=1),
            job(PKG, "^TestVerifC16Sequential$", ["TestVerifC16Sequential"], 250, shards=8),
            job(PKG, "^TestVerifC16Concurrent$", ["TestVerifC16Concurrent"], 30, shards=2),
            # control tower: 2-4 goroutines on the SAME hashes + subscribers, both backends
            job("routing", "^TestVerifC16ControlTower$", ["TestVerifC16ControlTower"], 300, shards=4),
            job("routing", "^TestVerifC16ControlTower$", ["TestVerifC16ControlTower"], 40, shards=4,
                race=True),
        ],
        thorough=[
            job(PKG, "^TestVerifC16Repro$", ["TestVerifC16Repro"], 1, shards=1),
            job(PKG, "^TestVerifC16Sequential$", ["TestVerifC16Sequential"], 800, shards=12,
                env=dict(VERIF_C16_OPS=60), timeout=1200),
            # goroutines + readers, no race detector (more cases than the race job can afford)
            job(PKG, "^TestVerifC16Concurrent$", ["TestVerifC16Concurrent"], 80, shards=6,
                env=dict(VERIF_C16_CONC_OPS=24), timeout=1200),
            # the same under -race (modernc sqlite is ~10x slower when instrumented)
            job(PKG, "^TestVerifC16Concurrent$", ["TestVerifC16Concurrent"], 25, shards=8,
                race=True, env=dict(VERIF_C16_CONC_OPS=20, VERIF_C16_READS=80), timeout=1200),
            job("routing", "^TestVerifC16ControlTower$", ["TestVerifC16ControlTower"], 1500, shards=8,
                env=dict(VERIF_C16_TOWER_OPS=12), timeout=1800),
            job("routing", "^TestVerifC16ControlTower$", ["TestVerifC16ControlTower"], 150, shards=8,
                race=True, env=dict(VERIF_C16_TOWER_OPS=12), timeout=1800),
        ],
    ),
)
