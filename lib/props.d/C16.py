from props import job

PROP = dict(
    level="exploration",
    rule="tbd",
    assumptions=[],
    jobs=dict(
        quick=[
            job("payments/db", "^TestVerifC16Repro$", ["TestVerifC16Repro"], 1, shards=1),
            job("payments/db", "^TestVerifC16Sequential$", ["TestVerifC16Sequential"], 400, shards=8),
            job("payments/db", "^TestVerifC16Concurrent$", ["TestVerifC16Concurrent"], 30, shards=2),
        ],
        thorough=[
            job("payments/db", "^TestVerifC16Repro$", ["TestVerifC16Repro"], 1, shards=1),
        ],
    ),
)
