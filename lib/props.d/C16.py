from props import job

PKG = "payments/db"

PROP = dict(
    level="exploration",
    technique="rapid state machine + reference model + KV/SQL differential; goroutine stress under -race",
    rule=("A case is one generated history of 8-40 calls (InitPayment, RegisterAttempt with MPP / "
          "single-shot / blinded / blinded+MPP routes and matching or mismatching records, "
          "SettleAttempt, FailAttempt, Fail, DeleteFailedAttempts, DeletePayment, DeletePayments, "
          "FetchPayment, FetchInFlightPayments) over three payment hashes - including never "
          "initiated / deleted hashes, unknown, already resolved, duplicate and foreign attempt ids, "
          "amounts that fit exactly or exceed by one - executed call by call against the real "
          "KVStore (bbolt) and the real SQLStore (sqlite) in one process. After every call both "
          "stores are compared with a reference model written from payment_status.go's truth table "
          "and the interface/errors.go comments (success vs refusal, documented error, resulting "
          "state of every payment), with each other (hard: ok-vs-error, state, the four sentinels "
          "callers branch on; soft: other error identities, counted only), and every MPPayment "
          "handed back is checked against model-independent invariants (settled+in-flight <= value, "
          "status == truth table of its own HTLCs/reason, State fields truthful, admission only "
          "without settled attempt / failure reason, Init only from absent|Failed, Succeeded final, "
          "Failed leaves only through Init). The concurrent test runs 2-4 writer goroutines on "
          "disjoint payment hashes plus 1-2 readers; in the thorough tier under -race. "
          "Non-trivial = the history reached ErrValueExceedsAmt, ErrPaymentPendingSettled or "
          "ErrAlreadyPaid, or re-initiated a failed payment. Distinct = distinct call sequences "
          "(attempt ids relative to the case)."),
    assumptions=[
        "attempt ids come from one node-wide sequencer: the same id is never offered to RegisterAttempt under two different payments (counted outside_domain); every attempt carries a fresh session key",
        "calls for one payment hash are serialised by the caller (interface.go; control tower per-hash mutex): goroutines own disjoint hashes, same-hash races are not generated",
        "both stores are shared by all cases of a process and emptied through their own API (DeletePayments / FailAttempt / Fail) before each case; bbolt's Batch coalescing delay is set to 0 in the sequential test (latency knob of the bbolt handle only) and left at its default in the concurrent test",
        "error identity is compared only for the documented sentinels; backends returning different non-sentinel errors are counted as soft divergences, not violations",
        "known findings C16:sql-settle-foreign-attempt and C16:kv-register-duplicate-attempt-id are excluded from generation by construction when listed as known; C16:sql-register-unknown-sentinel and C16:kv-delete-unknown-sentinel only suspend the sentinel comparison for that call",
        "sqlite lock timeouts in the concurrent test make the case inconclusive (skipped and counted), never a violation",
    ],
    jobs=dict(
        quick=[
            job(PKG, "^TestVerifC16Repro$", ["TestVerifC16Repro"], 1, shards=1),
            job(PKG, "^TestVerifC16Sequential$", ["TestVerifC16Sequential"], 250, shards=8),
            job(PKG, "^TestVerifC16Concurrent$", ["TestVerifC16Concurrent"], 30, shards=2),
        ],
        thorough=[
            job(PKG, "^TestVerifC16Repro$", ["TestVerifC16Repro"], 1, shards=1),
            job(PKG, "^TestVerifC16Sequential$", ["TestVerifC16Sequential"], 800, shards=12,
                env=dict(VERIF_C16_OPS=60), timeout=1200),
            # goroutines + readers, no race detector (more cases than the race job can afford)
            job(PKG, "^TestVerifC16Concurrent$", ["TestVerifC16Concurrent"], 80, shards=6,
                env=dict(VERIF_C16_CONC_OPS=24), timeout=1200),
            # the same under -race (modernc sqlite is ~10x slower when instrumented)
            job(PKG, "^TestVerifC16Concurrent$", ["TestVerifC16Concurrent"], 25, shards=8,
                race=True, env=dict(VERIF_C16_CONC_OPS=20, VERIF_C16_READS=80), timeout=1200),
        ],
    ),
)
