from props import job

PROP = dict(
    level="exploration",
    rule=("TODO"),
    assumptions=[],
    jobs=dict(
        quick=[
            job("discovery", "^TestVerifC20Histories$", ["TestVerifC20Histories"], 60, shards=4),
            job("discovery", "^TestVerifC20Mutants$", ["TestVerifC20Mutants"], 12, shards=4),
            job("graph", "^TestVerifC20Builder$", ["TestVerifC20Builder"], 100, shards=2),
        ],
        thorough=[
            job("discovery", "^TestVerifC20Histories$", ["TestVerifC20Histories"], 400, shards=8, timeout=900),
            job("discovery", "^TestVerifC20Mutants$", ["TestVerifC20Mutants"], 60, shards=8, timeout=900),
            job("graph", "^TestVerifC20Builder$", ["TestVerifC20Builder"], 1000, shards=4, timeout=900),
        ],
    ),
)
