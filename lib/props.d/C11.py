from props import job

_ALL = ["TestVerifC11Handshake", "TestVerifC11ConnHandshake",
        "TestVerifC11Transport", "TestVerifC11Tamper", "TestVerifC11Conn"]

PROP = dict(
    level="exploration",
    rule=("A case is non-trivial when it is (a) a transport plan in which at "
          "least one direction crosses a key rotation (>=500 messages = 1000 "
          "encryptions) and had >=1 timeout-interrupted, resumed Flush in "
          "that direction, or (b) a tamper case: a manipulated ciphertext "
          "stream (flip/insert/delete/drop/truncate/swap/replay/reflect/"
          "cross-session/appended bytes) or a handshake case whose three "
          "acts were swept with corruptions or whose initiator targeted a "
          "wrong static key. Honest controls (identical stream, fault-free "
          "Conn handshake, short plans) are counted as trivial. Distinct = "
          "distinct (keys, plan/manipulation) fingerprints."),
    assumptions=[
        "ChaCha20-Poly1305 forgeries and SHA-256/HKDF collisions do not occur (a manipulated frame or act that still authenticates is treated as impossible)",
        "the AEAD primitive (x/crypto chacha20poly1305) is trusted; the reference re-implements the BOLT-8 protocol around it (handshake, nonce encoding, rotation, framing) with its own HKDF",
        "nothing is asserted about reads after the first failed read (lnd disconnects; Decrypt advances the nonce on failure)",
        "writers follow the io.Writer contract: a short write is accompanied by an error, and only timeout errors are resumed",
    ],
    jobs=dict(
        quick=[
            job("brontide", "^TestVerifC11Handshake$", ["TestVerifC11Handshake"], 300, shards=2),
            job("brontide", "^TestVerifC11ConnHandshake$", ["TestVerifC11ConnHandshake"], 3000, shards=2),
            job("brontide", "^TestVerifC11Transport$", ["TestVerifC11Transport"], 220, shards=5),
            job("brontide", "^TestVerifC11Tamper$", ["TestVerifC11Tamper"], 1800, shards=4),
            job("brontide", "^TestVerifC11Conn$", ["TestVerifC11Conn"], 450, shards=3),
        ],
        thorough=[
            job("brontide", "^TestVerifC11Handshake$", ["TestVerifC11Handshake"], 1200, shards=3, timeout=900),
            job("brontide", "^TestVerifC11ConnHandshake$", ["TestVerifC11ConnHandshake"], 15000, shards=2, timeout=900),
            job("brontide", "^TestVerifC11Transport$", ["TestVerifC11Transport"], 300, shards=5, timeout=900,
                env=dict(VERIF_C11_STEPS=120, VERIF_C11_MAXMSG=10000)),
            job("brontide", "^TestVerifC11Tamper$", ["TestVerifC11Tamper"], 15000, shards=3, timeout=900),
            job("brontide", "^TestVerifC11Conn$", ["TestVerifC11Conn"], 1500, shards=2, timeout=900,
                env=dict(VERIF_C11_CONN_STEPS=30)),
            job("brontide", "^FuzzVerifC11Plan$", ["FuzzVerifC11Plan"], 0, shards=1, timeout=900,
                fuzz="^FuzzVerifC11Plan$", fuzztime="120s", parallel=4),
        ],
    ),
)
