from props import job

_ALL = ["TestVerifC11Handshake", "TestVerifC11ConnHandshake",
        "TestVerifC11Transport", "TestVerifC11Tamper", "TestVerifC11Conn"]

PROP = dict(
    level="exploration",
    technique=("differential against an independent BOLT-8 reference (handshake acts, "
               "transport ciphertext, rotation) written in the harness; scripted in-memory "
               "pipe with partial writes/timeouts/segmented reads; generic first-deviation "
               "oracle for manipulated ciphertext streams; direct (key, nonce) monitor on the "
               "AEAD; both directions of one session driven concurrently by four goroutines under "
               "the race detector (full-duplex plan, byte-exact in-order oracle); native fuzzing of byte-decoded plans (thorough)"),
    rule=("One case = one generated session. Machine level: (keys, bidirectional message "
          "plan with per-message partial-write scripts) / (keys, honest prefix, 1-4 victim "
          "frames, one manipulation, read API) / (keys, dialled key, every corruption of "
          "each act). Conn level: Dial<->Listener handshake over an in-memory connection "
          "with a wire fault, or a session of Write/WriteMessage+Flush/Read/ReadNext* "
          "operations ending in a manipulation. Duplex: (keys, per-direction message count, "
          "size mix, wire fragmentation) sent in both directions at once. A case is non-trivial when it is (a) a "
          "transport plan in which at least one direction crosses a key rotation (>=500 "
          "messages = 1000 encryptions) and had >=1 timeout-interrupted, resumed Flush in "
          "that direction, or (b) a tamper case: a manipulated ciphertext stream "
          "(flip/insert/delete/drop/truncate/swap/replay/reflect/cross-session/appended "
          "bytes), a handshake whose acts were swept with corruptions or hit by a wire "
          "fault, or an initiator dialling a wrong static key. Honest controls (identical "
          "stream, fault-free handshake, plans without rotation or without partial flush) "
          "are counted as trivial; a duplex case is non-trivial when both directions carry >=200 messages. Distinct = distinct (keys, plan / manipulation) "
          "fingerprints."),
    assumptions=[
        'fourth session: messages handed out by ReadMessage / ReadNextMessage are kept and compared again after the last read of a batch (a consumer may hold a message while it reads later ones)',
        "ChaCha20-Poly1305 forgeries and SHA-256/HKDF collisions do not occur (a manipulated frame or act that still authenticates is treated as impossible)",
        "the AEAD primitive (x/crypto chacha20poly1305) and btcec point multiplication are trusted; the reference re-implements the BOLT-8 protocol around them (handshake transcript, nonce encoding, rotation, framing) with its own HKDF",
        "nothing is asserted about reads after the first failed read (lnd disconnects on a read error; Decrypt advances the nonce even on failure, so the streams are no longer synchronised)",
        "writers follow the io.Writer contract (a short write comes with an error) and only timeout errors are resumed, as documented on Flush",
        "a stream Read with only empty messages in flight has nothing to return and waits; the in-memory pipe reports that as 'would block', which is accepted",
        "key rotation happens after 1000 encryptions = 500 messages per direction (BOLT-8 and the code); the statement's '1000-message rotations' is read that way",
    ],
    jobs=dict(
        quick=[
            job("brontide", "^TestVerifC11(RefVectors|Pinned)$", ["TestVerifC11RefVectors", "TestVerifC11Pinned"], 1, shards=1),
            job("brontide", "^TestVerifC11Handshake$", ["TestVerifC11Handshake"], 300, shards=2),
            job("brontide", "^TestVerifC11ConnHandshake$", ["TestVerifC11ConnHandshake"], 3000, shards=2),
            job("brontide", "^TestVerifC11Transport$", ["TestVerifC11Transport"], 220, shards=5),
            job("brontide", "^TestVerifC11Tamper$", ["TestVerifC11Tamper"], 1800, shards=4),
            job("brontide", "^TestVerifC11Conn$", ["TestVerifC11Conn"], 450, shards=3),
            job("brontide", "^TestVerifC11Duplex$", ["TestVerifC11Duplex"], 40, shards=3, race=True),
        ],
        thorough=[
            job("brontide", "^TestVerifC11(RefVectors|Pinned)$", ["TestVerifC11RefVectors", "TestVerifC11Pinned"], 1, shards=1),
            job("brontide", "^TestVerifC11Handshake$", ["TestVerifC11Handshake"], 1200, shards=3, timeout=900),
            job("brontide", "^TestVerifC11ConnHandshake$", ["TestVerifC11ConnHandshake"], 15000, shards=2, timeout=900),
            job("brontide", "^TestVerifC11Transport$", ["TestVerifC11Transport"], 300, shards=5, timeout=900,
                env=dict(VERIF_C11_STEPS=120, VERIF_C11_MAXMSG=10000)),
            job("brontide", "^TestVerifC11Tamper$", ["TestVerifC11Tamper"], 15000, shards=3, timeout=900),
            job("brontide", "^TestVerifC11Conn$", ["TestVerifC11Conn"], 1500, shards=2, timeout=900,
                env=dict(VERIF_C11_CONN_STEPS=30)),
            job("brontide", "^TestVerifC11Duplex$", ["TestVerifC11Duplex"], 300, shards=4, race=True, timeout=900,
                env=dict(VERIF_C11_DUPLEX_MAX=4000)),
            job("brontide", "^FuzzVerifC11Plan$", ["FuzzVerifC11Plan"], 0, shards=1, timeout=900,
                fuzz="^FuzzVerifC11Plan$", fuzztime="120s", parallel=4),
        ],
    ),
)
