from props import job

PROP = dict(
    technique='rapid-generated multigraphs and requests through findPath/newRoute/RequestRoute and through ChannelRouter.FindRoute/BuildRoute (explicit hop lists, minimum-amount mode); validity predicate on the returned route in exact math/big arithmetic (many routes are correct; errors always acceptable)',
    level="exploration",
    rule=("rapid draws a directed multigraph (3-7 nodes, 3-12 channels incl. parallel ones, "
          "per-direction policies that may be missing/disabled, inbound fees of either sign, "
          "capacities, local bandwidth hints) and a request (amount incl. values sitting on a "
          "min/max/capacity/bandwidth limit, FeeLimit, CltvLimit, OutgoingChannelIDs, LastHop, "
          "ignored pairs/nodes and amount thresholds through the probability source, invoice "
          "route hints, blinded tails, self-payments, foreign source); findPath+newRoute (and "
          "paymentSession.RequestRoute) answer it; when a route comes back a second request is "
          "derived from it (fee/CLTV/payload limit set to the used value -1/0/+1, used hop "
          "blocked, bandwidth of the used channel set to the amount, other outgoing channels "
          "only) and answered too. Every answer is one evaluation. Oracle: validity predicate on "
          "the returned route only, exact math/big fee arithmetic written from BOLT-7/BOLT-4 and "
          "lnd's inbound-fee rule; error returns are accepted. Non-trivial = a route with >=2 "
          "hops and (an inbound fee != 0 charged on the path, or a fee/CLTV limit within 1% of "
          "what the route uses, or a hop that had parallel channels with a different policy). "
          "Distinct = distinct (graph, request, phase). "
          "Extension (routes from the other constructors of routing/router.go): "
          "TestVerifC19FindRoute answers the same requests with the real ChannelRouter.FindRoute "
          "(routing.New over the model graph, bandwidthManager over a link lookup, chain height, "
          "Config.PathFindingConfig) and judges them with the same predicate and the same feedback. "
          "TestVerifC19BuildRoute: rapid draws the multigraph as above plus a hop list (loop-free "
          "walk from the own node over usable channel directions, occasionally over a missing / "
          "disabled / policy-less step; circular lists ending at the own node; lists revisiting "
          "nodes; 16-30 hop ping-pong lists; unknown nodes; empty), amount = explicit (incl. "
          "values on a min/max/capacity/bandwidth limit) or None (minimum routable amount, with a "
          "raised min_htlc somewhere on the path in 60%), outgoing channel, final CLTV delta, "
          "payment address, first-hop custom records, traffic shaper, link states (bandwidth, "
          "missing, ineligible, no HTLC slot); the real ChannelRouter.BuildRoute answers; when a "
          "route comes back a second call is derived from it (max_htlc / min_htlc / capacity of a "
          "used channel or the bandwidth of the first one set to the used amount -0/1/2/9/60/1000, "
          "max_htlc well below it, used direction disabled or policy removed, explicit<->minimum "
          "mode, amount +-1, other outgoing channel). Oracle: the route visits exactly the "
          "requested hops, delivers the requested amount (>= 1 msat in minimum mode), and passes "
          "the same validity predicate (c19Validate) with no fee/CLTV limit; additionally "
          "getEdgeUnifiers / senderAmtBackwardPass / receiverAmtForwardPass are called directly "
          "and compared with exact arithmetic from internal/verif/bigref over the model's "
          "policies: explicit mode sender amount >= exact requirement; minimum mode |exact "
          "requirement for the forward pass's receiver amount - backward sender amount| <= "
          "rounding slack, and the sender amount pays for >= 1 msat. Non-trivial (BuildRoute) = a "
          "returned route with (>= 3 hops and an inbound fee != 0 charged on it) or (>= 2 hops "
          "and a hop with parallel channels of different policy) or (minimum mode and the "
          "receiver amount > 1 msat, i.e. some min_htlc binds)."),
    assumptions=[
        "fourth session: TestVerifC19RequestRoute continues a session like the payment life cycle (first attempt, generated channel_update messages for the invoice's private edges through GetAdditionalEdgePolicy + UpdateAdditionalEdge incl. forged ones, next attempt judged against the updated edges); the payload tightening fills up either the metadata or the destination's custom record",
        "fee rates <= 1e6 ppm, |inbound rate| <= 1e6 ppm, requested amounts <= 7e10 msat; a returned route whose total amount exceeds 5e12 msat (fees compounding over extreme policies) is counted outside_domain and not judged: up to there lnd's uint64/int64 fee products cannot wrap",
        "for the node's own channels the bandwidth hint replaces the disabled flag (documented in graphParams.bandwidthHints); a missing hint means 'assume enough'",
        "OutgoingChannelIDs is only generated when the source is the own node (with a foreign source lnd applies the restriction to the own node's channels, not to the first hop)",
        "LastHop is not combined with blinded tails (the pathfinding target of a multi-hop blinded path is a dummy NUMS hop)",
        "route hints carry no min/max HTLC and no inbound fee (BOLT-11 cannot express them); the blinded tail is judged as one virtual channel from the introduction node with the aggregate relay parameters",
        "simple-path (no node visited twice) is recorded as a label, not asserted: the property text does not demand it",
        "FindRoute/BuildRoute: every channel of the own node has a bandwidth; a channel without a link, with a link that is not eligible to forward or that cannot take another HTLC has bandwidth 0 (bandwidthManager docs). FindRoute attaches no payment address (its caller does), so none is demanded of its routes",
        "BuildRoute: the traffic shaper, when present, handles no channel and declares no HTLC custom (custom-HTLC payments skip the amount checks by design); first-hop custom records are serialized CustomRecords as routerrpc produces them; explicit amounts >= 1 (routerrpc maps 0 to 'minimum')",
        "BuildRoute: a case is outside the domain (counted, not judged) when an upper bound of the sender amount computed from the model alone (largest fees of each node pair; for minimum mode starting from the largest min_htlc on the path and applied twice) exceeds 5e12 msat, or, in minimum mode, when a node on the path announces an inbound fee rate <= -100 % (outgoingFromIncoming documents that it gives up there)",
        "BuildRoute minimum mode: a hop above its channel's capacity is not judged when that channel's policy has no max_htlc or max_htlc > capacity: such an update cannot pass netann.ValidateChannelUpdateFields, and after a min_htlc bump the forward pass re-checks the chosen policy's min/max but only the largest capacity of the parallel channels (counted outside_domain_max_htlc_gt_capacity)",
    ],
    jobs=dict(
        quick=[
            job("routing", "^TestVerifC19FindPath$", ["TestVerifC19FindPath"], 12000, shards=6),
            job("routing", "^TestVerifC19RequestRoute$", ["TestVerifC19RequestRoute"], 4000, shards=3),
            job("routing", "^TestVerifC19BuildRoute$", ["TestVerifC19BuildRoute"], 30000, shards=6),
            job("routing", "^TestVerifC19FindRoute$", ["TestVerifC19FindRoute"], 1500, shards=2),
        ],
        thorough=[
            job("routing", "^TestVerifC19FindPath$", ["TestVerifC19FindPath"], 30000, shards=12,
                timeout=3000, env=dict(VERIF_C19_REPEATS=3, VERIF_C19_ONION_EVERY=4)),
            job("routing", "^TestVerifC19RequestRoute$", ["TestVerifC19RequestRoute"], 24000, shards=4,
                timeout=3000),
            job("routing", "^TestVerifC19BuildRoute$", ["TestVerifC19BuildRoute"], 100000, shards=4,
                timeout=3000),
            job("routing", "^TestVerifC19FindRoute$", ["TestVerifC19FindRoute"], 12000, shards=4,
                timeout=3000),
        ],
    ),
)
