from props import job

PROP = dict(
    technique='rapid-generated multigraphs and requests through findPath/newRoute/RequestRoute; validity predicate on the returned route in exact math/big arithmetic (many routes are correct; errors always acceptable)',
    level="exploration",
    rule=("rapid draws a directed multigraph (3-7 nodes, 3-12 channels incl. parallel ones, "
          "per-direction policies that may be missing/disabled, inbound fees of either sign, "
          "capacities, local bandwidth hints) and a request (amount incl. values sitting on a "
          "min/max/capacity/bandwidth limit, FeeLimit, CltvLimit, OutgoingChannelIDs, LastHop, "
          "ignored pairs/nodes and amount thresholds through the probability source, invoice "
          "route hints, blinded tails, self-payments, foreign source); findPath+newRoute (and "
          "paymentSession.RequestRoute) answer it; when a route comes back a second request is "
          "derived from it (fee/CLTV/payload limit set to the used value -1/0/+1, used hop "
          "blocked, bandwidth of the used channel set to the amount, other outgoing channels "
          "only) and answered too. Every answer is one evaluation. Oracle: validity predicate on "
          "the returned route only, exact math/big fee arithmetic written from BOLT-7/BOLT-4 and "
          "lnd's inbound-fee rule; error returns are accepted. Non-trivial = a route with >=2 "
          "hops and (an inbound fee != 0 charged on the path, or a fee/CLTV limit within 1% of "
          "what the route uses, or a hop that had parallel channels with a different policy). "
          "Distinct = distinct (graph, request, phase)."),
    assumptions=[
        "fee rates <= 1e6 ppm, |inbound rate| <= 1e6 ppm, requested amounts <= 7e10 msat; a returned route whose total amount exceeds 5e12 msat (fees compounding over extreme policies) is counted outside_domain and not judged: up to there lnd's uint64/int64 fee products cannot wrap",
        "for the node's own channels the bandwidth hint replaces the disabled flag (documented in graphParams.bandwidthHints); a missing hint means 'assume enough'",
        "OutgoingChannelIDs is only generated when the source is the own node (with a foreign source lnd applies the restriction to the own node's channels, not to the first hop)",
        "LastHop is not combined with blinded tails (the pathfinding target of a multi-hop blinded path is a dummy NUMS hop)",
        "route hints carry no min/max HTLC and no inbound fee (BOLT-11 cannot express them); the blinded tail is judged as one virtual channel from the introduction node with the aggregate relay parameters",
        "simple-path (no node visited twice) is recorded as a label, not asserted: the property text does not demand it",
    ],
    jobs=dict(
        quick=[
            job("routing", "^TestVerifC19FindPath$", ["TestVerifC19FindPath"], 12000, shards=6),
            job("routing", "^TestVerifC19RequestRoute$", ["TestVerifC19RequestRoute"], 3000, shards=2),
        ],
        thorough=[
            job("routing", "^TestVerifC19FindPath$", ["TestVerifC19FindPath"], 30000, shards=12,
                timeout=3000, env=dict(VERIF_C19_REPEATS=3, VERIF_C19_ONION_EVERY=4)),
            job("routing", "^TestVerifC19RequestRoute$", ["TestVerifC19RequestRoute"], 24000, shards=4,
                timeout=3000),
        ],
    ),
)
