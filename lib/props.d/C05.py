from props import job

PROP = dict(
    technique="rapid-generated channel states; every spend the node derives (own force close from a reloaded channel and from the live object between signature receipt and revocation, peer's current/pending commitment; via lnwallet descriptors and via contractcourt's real resolvers with a capturing sweeper) validated with btcd's script interpreter incl. negative controls; completeness against the bookkeeping model",
    level="exploration",
    rule=("states reached by C01-C03's generated schedules (mid-dance, with pending remote commitments, after "
          "reloads); at every k-th action and after every cut each side, loaded afresh from disk, force closes "
          "(signed commitment vs funding output, HTLC timeout/success txs, second-level and to_local sweeps incl. "
          "negative controls one block before CSV/CLTV maturity and with a wrong preimage) and sees the peer's current "
          "and pending commitments confirm (to_remote, direct HTLC claims, anchors); every spend runs through btcd's "
          "script interpreter with standard flags against the real previous outputs, and the set of resolutions must "
          "equal the outputs the bookkeeping model assigns to that side. Non-trivial = >=2 HTLC spends validated and "
          "(a pending remote commitment, a post-reload state, or a duplicate HTLC). Distinct = distinct (params, trace, phase)."),
    assumptions=[
        "lnwallet job: witness types per channel type are chosen by the harness with the same case analysis as contractcourt's resolvers; contractcourt's OWN selection of witness types / input constructors / lock times is exercised by the contractcourt job TestVerifC05Resolvers (real ChannelArbitrator + resolvers on the real close summaries, every input handed to a capturing sweeper stub is assembled like sweep/txgenerator.go, signed by its own CraftInputScript and run through the interpreter against the actual previous outputs, incl. second-level outputs; see notes/C05b.md)",
        "contractcourt job: the utxo nursery's own input construction for legacy second-level outputs is not driven (the second-level txs it is handed / that are published are validated); received HTLCs are treated as forwards (preimages come from the witness beacon); sweeps confirm regardless of height (maturity is checked by the interpreter with the sweeper's sequence/locktime convention plus one-block-early negative controls)",
        "the height-0 commitment carries a fixture signature and is not validated (counted skipped)",
        "BIP68/BIP65 maturity is checked through the interpreter's CSV/CLTV opcodes with the sweeper's sequence/locktime convention",
    ],
    jobs=dict(
        quick=[job("lnwallet", "^TestVerifC05", ["TestVerifC05Closes"], 25, shards=8, timeout=900,
                   env=dict(VERIF_STEPS=30, VERIF_C05_EVERY=3)),
               # contractcourt's own witness-type / input selection (notes/C05b.md)
               job("contractcourt", "^TestVerifC05Resolvers$", ["TestVerifC05Resolvers"], 25, shards=6, timeout=900,
                   env=dict(VERIF_STEPS=30, VERIF_C05_EVERY=4), flaky_is_violation=False)],
        thorough=[job("lnwallet", "^TestVerifC05", ["TestVerifC05Closes"], 130, shards=16, timeout=3000,
                      env=dict(VERIF_STEPS=80, VERIF_C05_EVERY=2)),
                  job("contractcourt", "^TestVerifC05Resolvers$", ["TestVerifC05Resolvers"], 80, shards=16, timeout=3000,
                      env=dict(VERIF_STEPS=60, VERIF_C05_EVERY=3), flaky_is_violation=False)],
    ),
    also=["C01"],
)
