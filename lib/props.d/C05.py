from props import job

PROP = dict(
    technique="rapid-generated channel states; every spend the node derives (own force close from a reloaded channel and from the live object between signature receipt and revocation, peer's current/pending commitment; via lnwallet descriptors and via contractcourt's real resolvers with a capturing sweeper) validated with btcd's script interpreter incl. negative controls; completeness against the bookkeeping model",
    level="exploration",
    rule=("states reached by C01-C03's generated schedules (mid-dance, with pending remote commitments, after "
          "reloads); at every k-th action and after every cut each side, loaded afresh from disk, force closes "
          "(signed commitment vs funding output, HTLC timeout/success txs, second-level and to_local sweeps incl. "
          "negative controls one block before CSV/CLTV maturity and with a wrong preimage) and sees the peer's current "
          "and pending commitments confirm (to_remote, direct HTLC claims, anchors); every spend runs through btcd's "
          "script interpreter with standard flags against the real previous outputs, and the set of resolutions must "
          "equal the outputs the bookkeeping model assigns to that side; in the contractcourt job also the inputs the real "
          "utxo nursery builds for pre-anchor second-level outputs (counters nursery_inputs_validated, nursery_input:<witness type>). "
          "Non-trivial = >=2 HTLC spends validated and "
          "(a pending remote commitment, a post-reload state, or a duplicate HTLC). Distinct = distinct (params, trace, phase)."),
    assumptions=[
        'adversarial peer (fourth session): chansim.TamperedSigEpilogue - after a finished run on a non-taproot channel the peer is shown a commitment_signed with one htlc signature replaced by a well-formed wrong one and must refuse; the channel object is not used afterwards (lnd fails the link on such a message); taproot channels are skipped',
        "lnwallet job: witness types per channel type are chosen by the harness with the same case analysis as contractcourt's resolvers; contractcourt's OWN selection of witness types / input constructors / lock times is exercised by the contractcourt job TestVerifC05Resolvers (real ChannelArbitrator + resolvers on the real close summaries, every input handed to a capturing sweeper stub is assembled like sweep/txgenerator.go, signed by its own CraftInputScript and run through the interpreter against the actual previous outputs, incl. second-level outputs; see notes/C05b.md)",
        "contractcourt job: for channel types without zero-fee second-level transactions (legacy, tweakless, plain anchors) the REAL UtxoNursery runs behind IncubateOutputs on a real NurseryStore in the close's bolt file (rig ccnursery_test.go / c05_nursery_test.go): it publishes the timeout tx itself (validated against the commitment output; must not be published before its CLTV), gets lazily pumped confirmations, the chain is advanced to every height at which its store holds a class, and every input it hands to its sweeper (kid outputs read back from the store: HtlcOfferedTimeoutSecondLevel / HtlcAcceptedSuccessSecondLevel) is validated exactly like the resolvers' inputs against the actual output of the real second-level tx, incl. the one-block-early CSV control, plus: not handed over before the tip after which it can be mined (confirmation height + CSV, CLTV). The nursery is never handed a commitment output by the current resolvers (commitSweepResolver sweeps it), so none occurs. Witness types that share one witness generator (all second-level / to_local CSV spends produce <sig> <> <script>) are validity-neutral and not distinguished",
        "contractcourt job: received HTLCs are treated as forwards (preimages come from the witness beacon); resolver sweeps confirm regardless of height (maturity is checked by the interpreter with the sweeper's sequence/locktime convention plus one-block-early negative controls); the chain jumps between the heights at which resolvers or the nursery act",
        "the height-0 commitment carries a fixture signature and is not validated (counted skipped)",
        "BIP68/BIP65 maturity is checked through the interpreter's CSV/CLTV opcodes with the sweeper's sequence/locktime convention",
    ],
    jobs=dict(
        quick=[job("lnwallet", "^TestVerifC05", ["TestVerifC05Closes"], 25, shards=8, timeout=900,
                   env=dict(VERIF_STEPS=30, VERIF_C05_EVERY=3)),
               # contractcourt's own witness-type / input selection (notes/C05b.md)
               job("contractcourt", "^TestVerifC05Resolvers$", ["TestVerifC05Resolvers"], 25, shards=6, timeout=900,
                   env=dict(VERIF_STEPS=30, VERIF_C05_EVERY=4), flaky_is_violation=False)],
        thorough=[job("lnwallet", "^TestVerifC05", ["TestVerifC05Closes"], 130, shards=16, timeout=3000,
                      env=dict(VERIF_STEPS=80, VERIF_C05_EVERY=2)),
                  job("contractcourt", "^TestVerifC05Resolvers$", ["TestVerifC05Resolvers"], 80, shards=16, timeout=3000,
                      env=dict(VERIF_STEPS=60, VERIF_C05_EVERY=3), flaky_is_violation=False)],
    ),
    also=["C01"],
)
