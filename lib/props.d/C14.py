from props import job

PROP = dict(
    level="exploration",
    rule=("TBD"),
    assumptions=[],
    jobs=dict(
        quick=[
            job("chainntnfs", "^TestVerifC14Machine$", ["TestVerifC14Machine"], 3000, shards=6),
            job("chainntnfs", "^TestVerifC14MachineBolt$", ["TestVerifC14MachineBolt"], 30, shards=4),
        ],
        thorough=[
            job("chainntnfs", "^TestVerifC14Machine$", ["TestVerifC14Machine"], 40000, shards=16, timeout=1500),
            job("chainntnfs", "^TestVerifC14MachineBolt$", ["TestVerifC14MachineBolt"], 300, shards=8, timeout=1500),
        ],
    ),
)
