from props import job

PROP = dict(
    level="exploration",
    rule=("TBD"),
    assumptions=[],
    jobs=dict(
        quick=[
            job("chainntnfs", "^TestVerifC14Machine$", ["TestVerifC14Machine"], 6000, shards=6),
            job("chainntnfs", "^TestVerifC14MachineBolt$", ["TestVerifC14MachineBolt"], 60, shards=4),
        ],
        thorough=[
            job("chainntnfs", "^TestVerifC14Machine$", ["TestVerifC14Machine"], 60000, shards=16, timeout=1500,
                env=dict(VERIF_C14_LEN=70)),
            job("chainntnfs", "^TestVerifC14MachineBolt$", ["TestVerifC14MachineBolt"], 600, shards=8, timeout=1500),
        ],
    ),
)
