from props import job

PROP = dict(
    level="exploration",
    technique="rapid state machine against a reference chain model (model-based, per-client event logs)",
    rule=("A case is a generated history of 5..45 (thorough: ..70) actions against a real "
          "chainntnfs.TxNotifier: connect (ConnectTip+NotifyHeight, sometimes with registrations/"
          "cancels/rescan answers squeezed between the two calls), disconnect (never deeper than "
          "reorgSafetyLimit-1 below the highest tip seen; limit drawn from {2..6,144}), "
          "HandleMissedBlocks/RewindChain branch switches, RegisterConf/RegisterSpend by txid/outpoint "
          "and by script with valid, boundary, future and (rarely) too-high hints, several clients per "
          "request, Cancel, restart (TearDown + new notifier on the same hint cache), and answers to "
          "HistoricalDispatch requests given *later* from the model's then-active chain "
          "(Update{Conf,Spend}Details / ProcessRelevantSpendTx). Universe: 1-3 watched outpoints, each "
          "with two conflicting spenders (RBF-like: same or different output script), P2WKH/P2WSH/P2TR/"
          "nested-P2WKH inputs. After every notifier call all channels are drained and the per-client "
          "oracle runs. Non-trivial = a block containing a watched tx/spend of a notified client was "
          "disconnected and the request was satisfied again later (re-inclusion / conflicting spender), "
          "or a rescan that finds the tx/spend was answered after >=1 further connect. Distinct = "
          "distinct full histories (actions + emitted events)."),
    level_note=("soundness (every event true on the active chain, <=1 outstanding Confirmed/Spend, reorg "
                "notice in the very call that removes the inclusion block, exact confs-left, reorg depth, "
                "Done only after maturity, channel capacity never exceeded in one call), completeness "
                "(after the request's rescan was answered: included => told, >=numConfs => Confirmed "
                "outstanding, spent => Spend outstanding) and the hint bound (persisted hint <= real "
                "confirmation/spend height; <= tip+1 while unconfirmed) are evaluated after each call."),
    assumptions=[
        "client height hints are lower bounds of the real confirmation/spend height (the documented contract); requests that received a too-high hint keep only the soundness checks",
        "a rescan is answered atomically from the chain the notifier has been told about at that moment (no backend that runs ahead of / behind the TxNotifier inside one rescan)",
        "every client drains its channels after every notifier call (no slow consumers); goroutine-level concurrency of the notifier (it is fully serialised by its mutex) is not explored",
        "no address reuse: at most one transaction on the active chain pays a watched script / spends a watched script (documented as ignored by the notifier)",
        "reorgs while a request is not registered in the running notifier (node offline, or before re-registration after a restart) may invalidate hints persisted earlier (documented limitation, CacheConfig.QueryDisable); such requests leave the hint/completeness domain",
        "findings are excluded by construction only while known_findings.json lists them as known (currently C14:pending-rescan-hint-not-lowered-on-disconnect; the two repaired ones are generated again, see notes/C14.md)",
    ],
    jobs=dict(
        quick=[
            job("chainntnfs", "^TestVerifC14Machine$", ["TestVerifC14Machine"], 12000, shards=6),
            job("chainntnfs", "^TestVerifC14MachineBolt$", ["TestVerifC14MachineBolt"], 30, shards=8),
        ],
        thorough=[
            job("chainntnfs", "^TestVerifC14Machine$", ["TestVerifC14Machine"], 25000, shards=16, timeout=1500,
                env=dict(VERIF_C14_LEN=70)),
            job("chainntnfs", "^TestVerifC14MachineBolt$", ["TestVerifC14MachineBolt"], 200, shards=16, timeout=1500,
                env=dict(VERIF_C14_LEN_BOLT=45)),
        ],
    ),
)
