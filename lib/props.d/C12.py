from props import job

PROP = dict(
    technique='rapid-generated HTLC sets/heights/preimage knowledge on a real ChannelArbitrator; decision band (MUST/MAY) oracle written from the property text; resolution oracle per confirmed commitment (one resolver per output, exactly-once fail-backs)',
    level="exploration",
    rule=("Synthesised channel states: a universe of <=6 HTLCs, each in a "
          "protocol-reachable life-cycle stage on the three commitments (ours, "
          "peer's current, peer's pending) with per-commitment dust bit and "
          "output index, preimage knowledge (witness beacon / settled invoice / "
          "none), forwarded-vs-own bit, uptime vs grace period, broadcast "
          "deltas 0..12. Decision: 1-4 ascending heights around every cut-off "
          "fed to the real advanceState(chainTrigger) and compared with a "
          "MUST/MAY band. Resolution: one close (own / peer current / peer "
          "pending / breach / coop), directly or after an own broadcast on a "
          "chain or user trigger, with consistent ContractResolutions; "
          "resolvers and upstream resolutions compared per HTLC. Non-trivial = "
          ">=3 HTLCs over >=2 distinct commitments with >=1 dust and >=1 "
          "dangling (offered, not on our commitment). Distinct = distinct "
          "(scenario, heights | close kind, pre-trigger, heights)."),
    assumptions=[
        "HTLC sets are synthesised (not read from a channel simulator); every HTLC is in a stage the update protocol can reach: offered on ours => on the peer's current; received => on ours",
        "ContractResolutions handed to the arbitrator are consistent with the confirmed commitment (one resolution per non-dust HTLC there), as lnwallet builds them",
        "resolver kind is checked by direction only (offered: timeout or outgoing-contest, received: incoming-contest or success); which of the two is lnd policy",
        "breach: every offered HTLC on the peer's commitments must be failed back at least once; duplicates are tolerated (labelled breach_dup_fail)",
        "an offered HTLC that is dust on our commitment, failed back when we broadcast, and has an output on the peer's commitment that confirms instead is lnd's documented trade-off and only labelled (prefail_then_output)",
        "witness beacon, invoice registry, switch, sweeper, notifier are stubs; expiry >= broadcast delta (link-level precondition)",
    ],
    jobs=dict(
        quick=[
            job("contractcourt", "^TestVerifC12Decision$", ["TestVerifC12Decision"], 2500, shards=4),
            job("contractcourt", "^TestVerifC12Resolution$", ["TestVerifC12Resolution"], 2500, shards=4),
            job("contractcourt", "^TestVerifC12Repro", ["TestVerifC12ReproDustAfterBroadcastLocal",
                "TestVerifC12ReproDustAfterBroadcastRemote", "TestVerifC12ReproDustBitMapOrder"], 1, shards=1, v=True),
            # real channel states from the channel simulator, real chain watcher / close summaries (notes/C12.md)
            job("contractcourt", "^TestVerifC12Sim$", ["TestVerifC12Sim"], 35, shards=6, timeout=600,
                env=dict(VERIF_STEPS=30, VERIF_C12SIM_EVERY=3)),
        ],
        thorough=[
            job("contractcourt", "^TestVerifC12Decision$", ["TestVerifC12Decision"], 80000, shards=12,
                timeout=900),
            job("contractcourt", "^TestVerifC12Resolution$", ["TestVerifC12Resolution"], 80000, shards=12,
                timeout=900),
            job("contractcourt", "^TestVerifC12Repro", ["TestVerifC12ReproDustAfterBroadcastLocal",
                "TestVerifC12ReproDustAfterBroadcastRemote", "TestVerifC12ReproDustBitMapOrder"], 1, shards=1, v=True),
            job("contractcourt", "^TestVerifC12Sim$", ["TestVerifC12Sim"], 120, shards=12, timeout=1800,
                env=dict(VERIF_STEPS=50, VERIF_C12SIM_EVERY=2)),
        ],
    ),
)
