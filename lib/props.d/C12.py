from props import job

PROP = dict(
    technique='rapid-generated HTLC sets/heights/preimage knowledge on a real ChannelArbitrator; decision band (MUST/MAY) oracle written from the property text; resolution oracle per confirmed commitment (one resolver per output, exactly-once fail-backs); the same oracles on REAL channel states of the two-party channel simulator (real lnwallet commitments, real chain watcher, real close summaries) with expectations from the simulator\'s independent bookkeeping model',
    level="exploration",
    rule=("Synthesised channel states: a universe of <=6 HTLCs, each in a "
          "protocol-reachable life-cycle stage on the three commitments (ours, "
          "peer's current, peer's pending) with per-commitment dust bit and "
          "output index, preimage knowledge (witness beacon / settled invoice / "
          "none), forwarded-vs-own bit, uptime vs grace period, broadcast "
          "deltas 0..12. Decision: 1-4 ascending heights around every cut-off "
          "fed to the real advanceState(chainTrigger) and compared with a "
          "MUST/MAY band. Resolution: one close (own / peer current / peer "
          "pending / breach / coop), directly or after an own broadcast on a "
          "chain or user trigger, with consistent ContractResolutions; "
          "resolvers and upstream resolutions compared per HTLC. Non-trivial = "
          ">=3 HTLCs over >=2 distinct commitments with >=1 dust and >=1 "
          "dangling (offered, not on our commitment). Distinct = distinct "
          "(scenario, heights | close kind, pre-trigger, heights). "
          "TestVerifC12Sim: real channel states instead - the channel simulator (all 8 channel types; generated "
          "add/settle/fail/update_fee/sign/revoke/reconnect schedules, amounts around both parties' dust thresholds, "
          "duplicates, an epilogue with an update_fee in flight) is sampled at every k-th action, where it stops and during "
          "the epilogue; for each side and each of {own, peer's current, peer's pending} commitment one evaluation (sub-case): "
          "HTLC sets from lnd's own newActiveChannelArbitrator on the side's database (or an earlier start-up snapshot plus "
          "the link's ContractUpdates since), generated deltas / grace / uptime / preimage knowledge / forwarded flags, "
          "0-4 blocks and/or a user trigger checked against the MUST/MAY band, then the commitment transaction is handed to "
          "the real chain watcher (handleCommitSpend -> newChainSet, NewLocalForceCloseSummary / NewUnilateralCloseSummary) "
          "and its close event to the real arbitrator on a real bolt log; resolvers, fail-backs, final outcomes, HTLC "
          "resolution counts and balance/anchor resolvers are compared with the bookkeeping model (which updates each "
          "commitment covers, amount vs the commitment owner's dust limit at that commitment's fee rate for the channel "
          "type). Evaluations of this job are sub-cases; its case count is the number of schedules."),
    assumptions=[
        'fourth session: preimage knowledge kinds of the generated scenarios: unknown / witness beacon / settled invoice / witness beacon plus an unsettled hold invoice for the hash in the registry / only such a hold invoice (unknown)',
        "Decision/Resolution jobs: HTLC sets are synthesised; every HTLC is in a stage the update protocol can reach: offered on ours => on the peer's current; received => on ours. The Sim job takes the sets from real lnwallet commitments instead (dust marking OutputIndex<0, all three commitments incl. the pending RemoteCommitChainTip)",
        "Decision/Resolution jobs: ContractResolutions handed to the arbitrator are consistent with the confirmed commitment (one resolution per non-dust HTLC there). The Sim job uses the resolutions lnwallet really builds (via the real chain watcher) and checks their number per direction against the model",
        "Sim job: expectations come from the simulator's bookkeeping model (never from lnwallet's markings); a resolver is matched to its HTLC by (direction, HTLC index) and must carry that HTLC's amount/hash/expiry and point at a distinct output of the confirmed transaction with the HTLC's sat value (script validity of the spends is C05's subject); ForceCloseChan returns the stored commitment unsigned and does not mark the channel borked; no breach / cooperative close (C04 / synthesised job); live-mode ContractUpdates carry the HTLC lists of the side's database at each sign / revoke / received revocation (the lists lnwallet returns to the link are not captured by the simulator)",
        "resolver kind is checked by direction only (offered: timeout or outgoing-contest, received: incoming-contest or success); which of the two is lnd policy",
        "breach: every offered HTLC on the peer's commitments must be failed back at least once; duplicates are tolerated (labelled breach_dup_fail)",
        "an offered HTLC that is dust on our commitment, failed back when we broadcast, and has an output on the peer's commitment that confirms instead is lnd's documented trade-off and only labelled (prefail_then_output)",
        "witness beacon, invoice registry, switch, sweeper, notifier are stubs; expiry >= broadcast delta (link-level precondition)",
    ],
    jobs=dict(
        quick=[
            job("contractcourt", "^TestVerifC12Decision$", ["TestVerifC12Decision"], 6000, shards=4),
            job("contractcourt", "^TestVerifC12Resolution$", ["TestVerifC12Resolution"], 6000, shards=4),
            job("contractcourt", "^TestVerifC12Repro", ["TestVerifC12ReproDustAfterBroadcastLocal",
                "TestVerifC12ReproDustAfterBroadcastRemote", "TestVerifC12ReproDustBitMapOrder"], 1, shards=1, v=True),
            # real channel states from the channel simulator, real chain watcher / close summaries (notes/C12.md)
            job("contractcourt", "^TestVerifC12Sim$", ["TestVerifC12Sim"], 60, shards=6, timeout=600,
                env=dict(VERIF_STEPS=30, VERIF_C12SIM_EVERY=3)),
        ],
        thorough=[
            job("contractcourt", "^TestVerifC12Decision$", ["TestVerifC12Decision"], 80000, shards=12,
                timeout=900),
            job("contractcourt", "^TestVerifC12Resolution$", ["TestVerifC12Resolution"], 80000, shards=12,
                timeout=900),
            job("contractcourt", "^TestVerifC12Repro", ["TestVerifC12ReproDustAfterBroadcastLocal",
                "TestVerifC12ReproDustAfterBroadcastRemote", "TestVerifC12ReproDustBitMapOrder"], 1, shards=1, v=True),
            job("contractcourt", "^TestVerifC12Sim$", ["TestVerifC12Sim"], 120, shards=12, timeout=1800,
                env=dict(VERIF_STEPS=50, VERIF_C12SIM_EVERY=2)),
        ],
    ),
)
