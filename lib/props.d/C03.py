from props import job

PROP = dict(
    technique='the C01 state machine with generated cuts (drop in-flight messages, reload both, reestablish) and database-write-failure actions; channel_reestablish fields compared with the bookkeeping model; model-based oracle for exactly-what-is-missing retransmission incl. order; acceptance of every retransmitted message',
    level="fault_enumeration",
    rule=("C01's generated schedules plus a `cut` action at generated points (also exactly between receiving a "
          "commit_sig and revoking): everything in flight is dropped, both sides are rebuilt from their databases and "
          "exchange channel_reestablish (with/without data-loss-protect fields per side); the messages returned by "
          "ProcessChanSyncMsg must be exactly what the BOLT-2 bookkeeping model says the peer lacks, in the original "
          "sign/revoke order; cuts may hit while retransmissions are in flight. Non-trivial = a cut that lost >=1 "
          "message and forced >=1 retransmission. Distinct = distinct (parameters, trace)."),
    assumptions=[
        "a reconnect is modelled as both peers reloading from disk (lnd builds a new LightningChannel per connection)",
        "channel_ready re-send at height 0 is a no-op for already initialised revocation points",
        "backends: bbolt (quick, thorough) and lnd's SQL-backed kvdb on sqlite (thorough job, build tag kvdb_sqlite)",
    ],
    jobs=dict(
        quick=[job("lnwallet", "^TestVerifC03", ["TestVerifC03Resync"], 120, shards=8, timeout=600,
                   env=dict(VERIF_STEPS=50))],
        thorough=[job("lnwallet", "^TestVerifC03", ["TestVerifC03Resync"], 500, shards=16, timeout=2400,
                      env=dict(VERIF_STEPS=120)),
                  job("lnwallet", "^TestVerifC03Resync$", ["TestVerifC03Resync"], 60, shards=16, timeout=2400,
                      tags="verif kvdb_sqlite", env=dict(VERIF_STEPS=80))],
    ),
    also=["C01"],
)
