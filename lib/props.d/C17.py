from props import job

PROP = dict(
    claimed=True,
    technique='rapid: coop-close transaction oracle on simulator-reached channel states (byte identity, interpreter validity, exact outputs); two real ChanClosers negotiating legacy fees with a round bound; RBF-coop state machine driven through ProcessEvent',
    level="exploration",
    rule=("(1) transaction level: a generated C01-C03 schedule (cuts included) is run, all HTLCs are resolved and "
          "drained, both sides are loaded afresh and propose a cooperative close with a generated fee (0, small, "
          "+-2 sat around the payer's balance, around its dust limit, arbitrary up to above capacity), generated "
          "P2WPKH/P2WSH/P2TR delivery scripts, default or custom payer, musig2 sessions for taproot; oracle: both "
          "transactions byte-identical, refusal iff the payer cannot afford the fee, completed tx valid under btcd's "
          "interpreter against the funding output on both sides, each output == model balance (+commit fee+anchors "
          "for the opener) - fee for the payer, outputs below the owner's dust limit omitted, outputs+fee+trimmed == "
          "capacity up to the two sub-satoshi remainders. Non-trivial = fee within 1 sat of the payer's balance, a "
          "trimmed output, a refused fee or a custom payer. Distinct = distinct (params, trace, fee, payer, scripts). "
          "(2) legacy negotiation (package chancloser): on a simulator channel pair in a generated HTLC-free state two real "
          "ChanCloser instances (real LightningChannels, harness mirror of peer.MusigChanCloser for taproot) negotiate: "
          "generated ideal fees >=100 sat (ratio <=40; small, at the payer's balance +-2, at its dust limit +-2, arbitrary), "
          "generated MaxFee of the requesting parties (unset=3x, ==ideal, ==peer's ideal +-1, up to 50x), delivery scripts "
          "(P2WPKH/P2WSH/P2TR/witness v2-16), close asked by A, B or both, Shutdown/ClosingSigned through lnd's wire codec in "
          "per-direction FIFO order interleaved with the two flush notifications by generated choice; up to "
          "VERIF_C17_PER_SIM negotiations per channel state. Oracle: never more than 64 closing_signed deliveries and never "
          "stuck; affordable ideal fees with the non-opener's ideal within the opener's cap => no error, both "
          "closeFinished, byte-identical ClosingTx (witness included), broadcast exactly once each, agreed fee named in a "
          "ClosingSigned of both, between the two ideal fees and <= opener's cap, and the part-1 output oracle with the opener "
          "paying; non-opener's ideal above the cap => that agreement or ErrProposalExceedsMaxFee from the opener with "
          "nobody broadcasting; if one party broadcasts the other must finish with the same tx. Non-trivial = >=3 distinct "
          "fee proposals, agreed fee within 1 sat of the payer's balance, a trimmed output, or the cap error. "
          "(3) RBF cooperative close (package chancloser): the protofsm states of rbf_coop_transitions.go are driven through "
          "ProcessEvent by a harness executor that mirrors StateMachine.applyEvents (no goroutines), one machine per party "
          "with the real channel as CloseSigner, a ChanStateObserver mirroring peer/chan_observer.go (with/without link), "
          "musig sessions for taproot, the real RbfMsgMapper, a fee-estimator stub mapping every generated rate to a "
          "generated absolute fee (0, small, closer's balance +-2, its dust limit +-2, arbitrary); close asked by A, B or "
          "both, up to 2 RBF bumps per party, generated interleaving of deliveries, post-send events, flush notifications "
          "and bumps. Oracle: a party offers exactly the fees the model says it can pay (CloseErr on an unaffordable bump), "
          "every offer is countersigned and completed by both with the byte-identical tx, sequence 0xfffffffd, lock time "
          "as offered, part-1 output oracle with the closer paying and the closee receiving its full balance; a state "
          "machine may fail only on an offer whose tx would have no outputs. Non-trivial = an offer completed and "
          "(trimmed output, fee within 1 sat of the closer's balance, an RBF iteration, a CloseErr or an early offer "
          "stashed), or the no-output refusal. Labels are prefixed neg:/rbf:."),
    assumptions=[
        "legacy negotiation: the 64-round bound is checked for ideal-fee ratios up to 40 (worst case ~44 messages by the 10%/30% rule); larger ratios are not generated",
        "legacy negotiation: a configured MaxFee is never below the party's own ideal fee rate (rpcserver rejects that) and only a party that was asked to close by its user has one; fee estimator stub: absolute fee == numeric value of the rate",
        "frozen-channel refusals are out of scope: the closers run at height 1,000,000 >= every generated thaw height",
        "RBF close: Environment.BlockHeight (the announced lock time) is 0 as left by its only constructor peer.initRbfChanCloser; a non-zero value makes lnd announce a lock time it does not sign for (latent, see notes/C17b.md); channels with a tapscript root are excluded (initRbfChanCloser refuses them); SpendEvent/CloseFin, upfront shutdown scripts, thaw-height and malformed-message rejections are not driven",
        "RBF close: the user's bump is only sent while the local half is in ClosePending (what peer.Brontide waits for); which of the three closing_complete signature fields is used is not compared with the transaction's outputs",
    ],
    jobs=dict(
        quick=[job("lnwallet", "^TestVerifC17CoopCloseTx$", ["TestVerifC17CoopCloseTx"], 40, shards=8, timeout=900,
                   env=dict(VERIF_STEPS=25)),
               job("lnwallet/chancloser", "^TestVerifC17Negotiation$", ["TestVerifC17Negotiation"], 150, shards=4, timeout=900,
                   env=dict(VERIF_STEPS=12, VERIF_C17_PER_SIM=4)),
               job("lnwallet/chancloser", "^TestVerifC17RbfCoop$", ["TestVerifC17RbfCoop"], 150, shards=4, timeout=900,
                   env=dict(VERIF_STEPS=12, VERIF_C17_PER_SIM=4))],
        thorough=[job("lnwallet", "^TestVerifC17CoopCloseTx$", ["TestVerifC17CoopCloseTx"], 400, shards=16, timeout=3000,
                      env=dict(VERIF_STEPS=60)),
                  job("lnwallet/chancloser", "^TestVerifC17Negotiation$", ["TestVerifC17Negotiation"], 500, shards=8, timeout=3000,
                      env=dict(VERIF_STEPS=30, VERIF_C17_PER_SIM=6)),
                  job("lnwallet/chancloser", "^TestVerifC17RbfCoop$", ["TestVerifC17RbfCoop"], 500, shards=8, timeout=3000,
                      env=dict(VERIF_STEPS=30, VERIF_C17_PER_SIM=6))],
    ),
    also=["C01"],
)
