from props import job

PROP = dict(
    claimed=True,
    level="exploration",
    rule=("(1) transaction level: a generated C01-C03 schedule (cuts included) is run, all HTLCs are resolved and "
          "drained, both sides are loaded afresh and propose a cooperative close with a generated fee (0, small, "
          "+-2 sat around the payer's balance, around its dust limit, arbitrary up to above capacity), generated "
          "P2WPKH/P2WSH/P2TR delivery scripts, default or custom payer, musig2 sessions for taproot; oracle: both "
          "transactions byte-identical, refusal iff the payer cannot afford the fee, completed tx valid under btcd's "
          "interpreter against the funding output on both sides, each output == model balance (+commit fee+anchors "
          "for the opener) - fee for the payer, outputs below the owner's dust limit omitted, outputs+fee+trimmed == "
          "capacity up to the two sub-satoshi remainders. Non-trivial = fee within 1 sat of the payer's balance, a "
          "trimmed output, a refused fee or a custom payer. Distinct = distinct (params, trace, fee, payer, scripts)."),
    assumptions=[
        "legacy fee negotiation and RBF-coop state machines (chancloser) are covered by TestVerifC17Negotiation if listed in the job table; otherwise only the transaction clause is decided",
    ],
    jobs=dict(
        quick=[job("lnwallet", "^TestVerifC17CoopCloseTx$", ["TestVerifC17CoopCloseTx"], 40, shards=8, timeout=900,
                   env=dict(VERIF_STEPS=25)),
               job("lnwallet/chancloser", "^TestVerifC17Negotiation$", ["TestVerifC17Negotiation"], 40, shards=4, timeout=900,
                   env=dict(VERIF_STEPS=12, VERIF_C17_PER_SIM=4)),
               job("lnwallet/chancloser", "^TestVerifC17RbfCoop$", ["TestVerifC17RbfCoop"], 40, shards=4, timeout=900,
                   env=dict(VERIF_STEPS=12, VERIF_C17_PER_SIM=4))],
        thorough=[job("lnwallet", "^TestVerifC17CoopCloseTx$", ["TestVerifC17CoopCloseTx"], 400, shards=16, timeout=3000,
                      env=dict(VERIF_STEPS=60)),
                  job("lnwallet/chancloser", "^TestVerifC17Negotiation$", ["TestVerifC17Negotiation"], 400, shards=8, timeout=3000,
                      env=dict(VERIF_STEPS=30, VERIF_C17_PER_SIM=6)),
                  job("lnwallet/chancloser", "^TestVerifC17RbfCoop$", ["TestVerifC17RbfCoop"], 400, shards=8, timeout=3000,
                      env=dict(VERIF_STEPS=30, VERIF_C17_PER_SIM=6))],
    ),
    also=["C01"],
)
