from props import job

PROP = dict(
    technique='rapid-generated asynchronous update/sign/revoke schedules on real lnwallet channel pairs; model-based oracle (BOLT-2 bookkeeping model predicts every persisted commitment) + signature acceptance + cross-party tx identity + conservation invariants',
    level="exploration",
    rule=("rapid draws channel parameters (8 channel types, opener, capacity, split, asymmetric dust limits, "
          "fee rate, HTLC limits) and an action schedule (add with dust-boundary-biased amounts and duplicates, "
          "settle/fail/fail_malformed of irrevocably committed HTLCs, update_fee, sign, in-order deliver, drain) "
          "over lnd's real lnwallet state machines on bbolt; after every action all persisted commitments of both "
          "sides are compared with an independent BOLT-2 bookkeeping model (balances, HTLC sets, fee, output values), "
          "conservation to the msat, no overdraw, cross-party tx identity; mirror image at quiescence. "
          "Non-trivial = a delivered commit_sig covering >=1 non-dust HTLC and both queues non-empty at some step. "
          "Distinct = distinct (parameters, action trace)."),
    assumptions=[
        'adversarial control (fourth session): the terminal TamperedSigEpilogue of C05 also runs here (a commitment_signed with one wrong htlc signature must be refused)',
        "secp256k1/sha256 behave as specified; musig2/ECDSA verification inside lnd is the agreement oracle for second-level txs",
        "aux (custom channel) leaves are the repo's MockAuxLeafStore (no extra leaves)",
        "known protocol race (concurrent adds violating reserve at receive time) ends a case as aborted_by_constraint, counted",
    ],
    jobs=dict(
        quick=[job("lnwallet", "^TestVerifC01", ["TestVerifC01Agreement"], 150, shards=8, timeout=600,
                   env=dict(VERIF_STEPS=40))],
        thorough=[job("lnwallet", "^TestVerifC01", ["TestVerifC01Agreement"], 500, shards=16, timeout=2400,
                      env=dict(VERIF_STEPS=120))],
    ),
)
