from props import job

PROP = dict(
    level="exploration",
    rule="tbd",
    assumptions=[],
    jobs=dict(
        quick=[
            job("invoices", "^TestVerifC15Registry$", ["TestVerifC15Registry"], 400, shards=8),
        ],
        thorough=[
            job("invoices", "^TestVerifC15Registry$", ["TestVerifC15Registry"], 3000, shards=12, timeout=900),
            job("invoices", "^TestVerifC15Concurrent$", ["TestVerifC15Concurrent"], 600, shards=4, timeout=900, race=True),
        ],
    ),
)
