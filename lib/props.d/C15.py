from props import job

PROP = dict(
    level="exploration",
    technique="rapid state machine over the real InvoiceRegistry on bbolt and sqlite in one process; "
              "validity predicate over the sent-HTLC history + LookupInvoice projections; bbolt-vs-sqlite differential",
    rule=("One evaluation = one generated history (6..45 events, 60 in the thorough tier) executed against two "
          "real InvoiceRegistry instances (bbolt channeldb store and SQL store on sqlite, fresh databases per case): "
          "addInvoice {regular, hold, AMP, blinded-path} x {zero amount} x payment-addr {absent, optional, required}; "
          "payment plans of 1-4 HTLCs (MPP total+addr, AMP shares via amp.SeedSharer, keysend, blinded pathID, "
          "legacy none, spontaneous keysend/AMP, unknown invoice) whose amounts split the declared total exactly / "
          "1 msat short / over, with wrong or foreign addresses, unequal totals, corrupted AMP shares and expiry = "
          "height+max(final delta, reject delta)+{-1,0,+1,+25}; interleaved sends, replays, CancelInvoice, "
          "SettleHodlInvoice, external CancelSet, block and clock advances (MPP set timeout through the real event "
          "loop). After every event every invoice is looked up and every oracle runs. "
          "Non-trivial = the history contains an MPP/AMP set of >=2 HTLCs that completed (settled, or accepted on a "
          "hold invoice), or a set of >=2 HTLCs whose last HTLC was failed while earlier ones were held, or a replay "
          "of an HTLC that is on record as settled or canceled. Distinct = distinct generated histories."),
    level_note=("exploration of generated histories; the set-timeout and replay points are generated, not enumerated"),
    assumptions=[
        "postgres is not available: the SQL store is exercised on sqlite only",
        "time/height based invoice expiry (InvoiceExpiryWatcher) is not exercised: the watcher runs on a frozen clock and sees no blocks; cancellation is issued explicitly through CancelInvoice",
        "the MPP set timeout is made deterministic by a test clock that pairs the event loop's Now()/TickAfter() calls (identified by the caller InvoiceRegistry.tickAt) and a sentinel invoice that keeps the release heap non-empty; a timeout not observed within 30 s wall clock makes the case inconclusive (skipped, counted), never a violation",
        "replays of HTLCs that were failed without ever being recorded on an invoice are treated as fresh notifications (no replay verdict is asserted for them); heights of replays are >= the original height",
        "the HTLC interceptor only answers CancelSet, and only for HTLCs that carry the address of the invoice they target; AmountPaid overrides are not generated",
        "after the first concurrent batch of a history the bbolt-vs-sqlite differential is switched off (schedules differ); all per-store oracles stay on",
        "SHA-256 collisions do not occur (hashes, preimages, addresses and AMP shares are derived from a rapid-drawn nonce)",
        "known finding C15:replay@spontaneous-expiry-precheck: replays of recorded AMP/keysend HTLCs at a height where expiry < height+FinalCltvRejectDelta with AcceptAMP/AcceptKeySend on are excluded by construction while the key is listed as known",
    ],
    jobs=dict(
        quick=[
            job("invoices", "^TestVerifC15ReplayPrecheck$", ["TestVerifC15ReplayPrecheck"], 1, shards=1,
                allow_short=True),
            job("invoices", "^TestVerifC15Registry$", ["TestVerifC15Registry"], 300, shards=8),
        ],
        thorough=[
            job("invoices", "^TestVerifC15ReplayPrecheck$", ["TestVerifC15ReplayPrecheck"], 1, shards=1,
                allow_short=True),
            job("invoices", "^TestVerifC15Registry$", ["TestVerifC15Registry"], 1000, shards=12, timeout=1500,
                env=dict(VERIF_C15_STEPS=60)),
            job("invoices", "^TestVerifC15Concurrent$", ["TestVerifC15Concurrent"], 250, shards=4, timeout=1500,
                race=True),
        ],
    ),
)
