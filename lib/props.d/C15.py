from props import job

PROP = dict(
    level="exploration",
    rule="tbd",
    assumptions=[],
    jobs=dict(
        quick=[
            job("invoices", "^TestVerifC15ReplayPrecheck$", ["TestVerifC15ReplayPrecheck"], 1, shards=1, allow_short=True),
            job("invoices", "^TestVerifC15Registry$", ["TestVerifC15Registry"], 300, shards=8),
        ],
        thorough=[
            job("invoices", "^TestVerifC15ReplayPrecheck$", ["TestVerifC15ReplayPrecheck"], 1, shards=1, allow_short=True),
            job("invoices", "^TestVerifC15Registry$", ["TestVerifC15Registry"], 1500, shards=12, timeout=1200,
                env=dict(VERIF_C15_STEPS=60)),
            job("invoices", "^TestVerifC15Concurrent$", ["TestVerifC15Concurrent"], 400, shards=4, timeout=1200,
                race=True),
        ],
    ),
)
