from props import job

_CM = "TestVerifC07CircuitMap"
_SW = "TestVerifC07Switch"
_RACE = "TestVerifC07Race"
_LC = "TestVerifC07LinkLifecycle"

PROP = dict(
    level="exploration",
    technique="rapid state machines vs reference models (circuit map on bbolt with a write-fault wrapper; "
              "real Switch with harness-played links and a barrier command instead of waits); "
              "goroutine race checked for linearizability against the model",
    rule=("Four tests. (1) TestVerifC07CircuitMap: one case = one generated op sequence (5..50 ops: "
          "CommitCircuits batches with duplicates, OpenCircuits, TrimOpenCircuits, CloseCircuit, FailCircuit, "
          "DeleteCircuits, injected write failures, restarts with generated closed/pending/open channels, "
          "next-local-HTLC indexes and pending resolution messages) over the real circuit map on a bbolt file; "
          "after every op all lookups over the key universe, counters and both DB buckets are compared with "
          "the reference model. Non-trivial = the sequence contains a restart after >=1 open circuit that "
          "trimmed or purged >=1 keystone, or a duplicate CommitCircuits presentation of a circuit loaded "
          "from disk (the LoadedFromDisk cell). (2) TestVerifC07Switch: one case = 5..40 link/node actions "
          "against a real Switch; non-trivial = a duplicate add (same lifetime or after a switch restart), a "
          "duplicate response, a response replayed after the incoming link resolved the HTLC, or a re-sent "
          "local payment attempt was presented. "
          "(2b) TestVerifC07LinkLifecycle: the same world with a link life cycle: one case = 8..60 actions, 60 % "
          "of them drawn among the actions that can currently advance some HTLC; links are added lazily after "
          "every switch (re)start, removed and re-added (new link object) at generated points; Switch.Start "
          "re-forwards the un-acked settles/fails of the outgoing channels' forwarding packages (written and "
          "acked by the harness as lnwallet does) and stored contract resolution messages; responses relayed "
          "while the incoming channel has no link yet are parked by the mail orchestrator and must be in the "
          "mailbox after AddLink (not lost), un-acked responses are handed over again at a relink (legitimate), "
          "and once the incoming link committed and acked a response (forwarding-package ack, DeleteCircuits, "
          "MailBox.AckPacket) no settle/fail for that HTLC may be handed over again at any later AddLink. "
          "Action ackTick forces the switch's AckEventTicker (flush of the settle/fail acks the switch queued in "
          "memory); the model persists only the acks of response copies whose circuit was already gone, so a "
          "response that was duplicated while the first copy was still un-committed must still be re-forwarded "
          "from the forwarding package after tick + switch restart (label "
          "lc:refwd_after_tick_after_dup_uncommitted). "
          "Non-trivial = a parked response was handed over at AddLink, a response was relayed while the link "
          "was removed, or a link was re-added while it had an un-acked response / after it had acked one. "
          "(3) TestVerifC07Race: 2-3 goroutines on one circuit; non-trivial = >=2 calls competed for the "
          "response slot of the same live circuit. Distinct = distinct op logs."),
    level_note=("The race part explores only the schedules the Go runtime happens to produce (weak by "
                "nature); crash points of the circuit map are covered because every mutating call is one "
                "atomic bbolt transaction and a restart is generated between any two calls."),
    assumptions=[
        "restarted open channels come in four flavours (regular, scid-alias, zero-conf unconfirmed, zero-conf confirmed with a different real scid); the links key their keystones by OpenChannel.ShortChanID() in all of them, so the model makes no distinction",
        "TrimOpenCircuits caller contract (documented in the function): keystones at or above the "
        "channel's next unallocated htlc index form a gap-free run; generated indexes are adjusted upwards "
        "to the next value that satisfies it (label start_adjusted)",
        "links open a forwarded packet once: OpenCircuits is never called for a circuit that already has a "
        "keystone, and outgoing/incoming keys inside one OpenCircuits batch are distinct",
        "incoming-link forwarding-package bookkeeping is modelled: every forwarded ADD carries a unique "
        "sourceRef; an ADD is acked only by committing a response whose sourceRef equals it; a restarted "
        "incoming link replays exactly its un-acked ADDs",
        "a remote peer answers only HTLCs that reached a commitment (outgoing id below the committed index)",
        "link life cycle: the harness link does at Start what channelLink.Start/htlcManager do "
        "(TrimOpenCircuits to the committed index, ResetMessages, ResetPackets, replay of un-acked ADDs in 70 % "
        "of the starts), at Stop what channelLink.Stop does (ResetPackets), on commit of a response what "
        "lnwallet + ackDownStreamPackets do (AckSettleFails of the packet's destRef, DeleteCircuits, AckPacket); "
        "'handed to the link' is read off the mailbox's un-acked response list under the mailbox lock (what the "
        "reset courier hands over), not off the outbox channel, so no waits are needed; only a registered link "
        "forwards/accepts/commits/responds; contract resolution messages are generated only for committed "
        "outgoing HTLCs of channels that currently have no link (channel went to chain); forwarding packages "
        "are never garbage-collected; the AckEventTicker of the life-cycle switch has a 24 h interval and fires "
        "only when the ackTick action forces it (tick delivered on the Force channel, then the barrier command, "
        "both handled by the forwarder goroutine: the AckSettleFails flush is complete when the barrier returns); "
        "the switch may queue the ack of a forwarding-package entry only for a response copy that finds no circuit "
        "(the incoming link committed it / the local payment completed), never for one whose circuit is open or "
        "closing; whether a legitimately queued ack was persisted before a restart is not observable (the "
        "re-forwarded copy finds no circuit)",
        "write failures are injected as a failing bbolt transaction of CommitCircuits/OpenCircuits/"
        "DeleteCircuits/NewCircuitMap; TrimOpenCircuits write failures are not injected (no documented "
        "rollback contract)",
        "switch level: results of locally initiated payments are counted at the HtlcNotifier (last step of "
        "handleLocalResponse) and compared exactly whenever the switch is stopped; a result not seen within "
        "60 s makes the case inconclusive (counter), never a violation; closed-channel purging is exercised "
        "at circuit-map level only",
    ],
    jobs=dict(
        quick=[
            job("htlcswitch", "^TestVerifC07CircuitMap$", [_CM], 800, shards=4),
            job("htlcswitch", "^TestVerifC07Switch$", [_SW], 500, shards=4),
            job("htlcswitch", "^TestVerifC07LinkLifecycle$", [_LC], 400, shards=4),
            job("htlcswitch", "^TestVerifC07Race$", [_RACE], 200, shards=2),
            # duplicate re-forwards after a restart of a REAL link: the start-up replay of its forwarding
            # packages (shared with C08; an acked ADD must never be reprocessed, an un-acked one exactly once)
            job("htlcswitch", "^TestVerifC08FwdPkgReplay$", ["TestVerifC08FwdPkgReplay"], 60, shards=3),
        ],
        thorough=[
            job("htlcswitch", "^TestVerifC07CircuitMap$", [_CM], 4000, shards=8, timeout=900,
                env=dict(VERIF_C07_STEPS=70)),
            job("htlcswitch", "^TestVerifC07Switch$", [_SW], 2000, shards=6, timeout=900,
                env=dict(VERIF_C07_SWSTEPS=60)),
            job("htlcswitch", "^TestVerifC07LinkLifecycle$", [_LC], 2000, shards=6, timeout=900,
                env=dict(VERIF_C07_LCSTEPS=80)),
            job("htlcswitch", "^TestVerifC07Race$", [_RACE], 800, shards=4, timeout=900, race=True),
            # the same machines on lnd's SQL-backed kvdb (sqlbase over sqlite)
            job("htlcswitch", "^TestVerifC07CircuitMap$", [_CM], 300, shards=8, timeout=1200,
                tags="verif kvdb_sqlite", env=dict(VERIF_C07_STEPS=50)),
            job("htlcswitch", "^TestVerifC07Switch$", [_SW], 150, shards=6, timeout=1200,
                tags="verif kvdb_sqlite", env=dict(VERIF_C07_SWSTEPS=40)),
            job("htlcswitch", "^TestVerifC07LinkLifecycle$", [_LC], 150, shards=6, timeout=1200,
                tags="verif kvdb_sqlite", env=dict(VERIF_C07_LCSTEPS=45)),
        ],
    ),
    also=["C08"],
)
