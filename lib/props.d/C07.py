from props import job

PROP = dict(
    level="exploration",
    rule=("TestVerifC07CircuitMap: one case = one generated op sequence (5..50 ops) over the real "
          "circuit map on a bbolt file; non-trivial = the sequence contains a restart after >=1 open "
          "circuit that trimmed or purged >=1 keystone, or a duplicate CommitCircuits presentation of a "
          "circuit loaded from disk (the LoadedFromDisk cell). Distinct = distinct op logs."),
    assumptions=[],
    jobs=dict(
        quick=[
            job("htlcswitch", "^TestVerifC07CircuitMap$", ["TestVerifC07CircuitMap"], 400, shards=4),
        ],
        thorough=[
            job("htlcswitch", "^TestVerifC07CircuitMap$", ["TestVerifC07CircuitMap"], 4000, shards=8,
                timeout=900),
        ],
    ),
)
