from props import job

PROP = dict(
    technique='rapid: exhaustive small shachain trees + structured sampling of the 2^48 index space against an independent BOLT-3 derivation (incl. corrupted/out-of-order secrets and serialisation round trips); release rule checked at every revoke_and_ack hand-out of the C01-C03 machine against a fresh DB read, under injected database write failures (sign / revoke / receive-revocation must hand out nothing), and the commitment point sent on reconnect compared with the own derivation chain',
    level="exploration",
    rule=("(a) shachain: rapid draws a seed and either inserts secrets 0..N-1 "
          "sequentially (every insert = one evaluation; full scan + serialisation "
          "round trip at powers of two) or crafts the store state after n prior "
          "insertions for a structured bit pattern n in [0,2^48] and inserts an "
          "honest / bit-flipped / foreign-root / out-of-order secret, then looks up "
          "generated earlier indices against an independent BOLT-3 derivation. "
          "Non-trivial = the inserted index has >=2 trailing zeros (>=2 lower "
          "buckets verified and superseded) or the secret was corrupted. Distinct "
          "= distinct (seed, index, mode). (b) release rule: in the C01-C03 channel machine (rapid schedules with "
          "cuts/reloads) every revoke_and_ack handed out (first time or retransmitted on reconnect) is checked "
          "against a fresh read of the database (newer peer-signed commitment durable), the own derivation chain "
          "(secret h, point h+2) and the no-gap/no-repeat rule; non-trivial = >=2 releases with a cut or "
          "retransmission in the schedule."),
    assumptions=[
        "SHA-256 collisions do not occur (a corrupted secret that still derives the stored lower buckets is treated as impossible)",
        "crafted store states (white-box construction of the bucket array) are validated against real sequential insertion only for n <= N of the exhaustive part",
    ],
    also=["C01"],
    jobs=dict(
        quick=[
            job("shachain", "^TestVerifC06Exhaustive$", ["TestVerifC06Exhaustive"], 3, shards=2,
                env=dict(VERIF_C06_N=4096)),
            job("shachain", "^TestVerifC06Structural$", ["TestVerifC06Structural"], 10000, shards=4),
            job("lnwallet", "^TestVerifC06Release$", ["TestVerifC06Release"], 80, shards=6, env=dict(VERIF_STEPS=40)),
        ],
        thorough=[
            job("shachain", "^TestVerifC06Exhaustive$", ["TestVerifC06Exhaustive"], 2, shards=8,
                env=dict(VERIF_C06_N=65536), timeout=1500),
            job("shachain", "^TestVerifC06Structural$", ["TestVerifC06Structural"], 60000, shards=16,
                timeout=1500),
            job("lnwallet", "^TestVerifC06Release$", ["TestVerifC06Release"], 300, shards=16, timeout=2400,
                env=dict(VERIF_STEPS=100)),
        ],
    ),
)
