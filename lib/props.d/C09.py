from props import job

_FWD = "TestVerifC09Forward"
_TRN = "TestVerifC09Transit"
_VEC = "TestVerifC09RefVectors"
_SW = "TestVerifC09Switch"
_IN = "TestVerifC09LinkInputs"
_IC = "TestVerifC09Intercepted"

PROP = dict(
    level="exploration",
    technique="differential against an exact math/big reference (set of violated rules), boundary-synthesising generators",
    rule=("A case is one full input (policy, local limits, height, inbound fee, "
          "amount pair, expiry pair, bandwidth source) given to the real "
          "channelLink.CheckHtlcForward / CheckHtlcTransit (or, for the Switch "
          "test, one packet given to Switch.handlePacketAdd over links that "
          "delegate to real channelLinks). Non-trivial = at least one rule of the "
          "property is within +-1 (msat or block) of flipping its individual "
          "verdict, as measured by the exact reference margins (for the Switch "
          "test: at least one candidate link is within +-1 of a rule boundary or "
          "the candidate links disagree). Distinct = distinct generated input "
          "tuples. TestVerifC09LinkInputs: a case is one generated forwarding package "
          "(1-4 ADDs: forwardable / undecodable onion / exit hop; generated link "
          "inbound fee) written to the real channel DB and run through the real "
          "channelLink.processRemoteAdds twice - first-time pass and, after a "
          "simulated restart with a generated FwdFilter/AckFilter state, the "
          "reforward pass; non-trivial = the reforward pass handed over >= 1 packet "
          "and (the link's inbound fee is non-zero or a reforwarded ADD sits behind "
          "an acked one). TestVerifC09RefVectors / TestVerifC09Pinned add 24 hand-computed "
          "vectors for the reference itself and 7 pinned inputs (finding F8 "
          "reproductions) through the real link. "
          "TestVerifC09Intercepted: a case is 1-3 generated forwards (each the "
          "C09Forward generator's policy / heights / amounts / expiries, re-based "
          "to one common height, each to its own outgoing link whose policy check "
          "is the real CheckHtlcForward) submitted through a real "
          "InterceptableSwitch (generated CltvRejectDelta / CltvInterceptDelta / "
          "RequireInterceptor, interceptor connected or not, replay flag) in "
          "front of a real started Switch, plus a generated interceptor script "
          "(<= 6 steps: Resume, ResumeModified with in/out amounts drawn around "
          "min/max/bandwidth/incoming amount/exact fee and custom records, Fail "
          "by code or message, Settle, erroneous resolutions, disconnect / "
          "reconnect, blocks around the auto-fail height, duplicate submission, "
          "second resolution) and <= 2 steps after everything is resolved. "
          "Observed: the update_add_htlc handed to the outgoing link and every "
          "packet delivered to the incoming link's mailbox. Non-trivial = at "
          "least one htlc of the case (a) reached the Switch through the "
          "interceptor (resumed, resumed-modified or released; not the "
          "pass-through without a registered interceptor) with a forwarding rule "
          "within +-1 msat/block of flipping for the ACTUAL amounts (incoming as "
          "accounted after an InAmountMsat override, outgoing as really sent) at "
          "the height of the decision, or (b) has its incoming expiry within +-1 "
          "block of height + CltvInterceptDelta when submitted, or (c) is held "
          "while a block within +-1 of its auto-fail height arrives."),
    assumptions=[
        'switch test (fourth session): outgoing links come in three flavours - regular, public zero-conf with a confirmed funding transaction (alias kept as ShortChanID; addressed by alias or confirmed scid), public option-scid-alias (addressed by the confirmed scid or an alias); private alias channels are left out (their failures hide the channel_update on purpose)',
        "realistic domain: block height <= 2^32-1-2^17 and OutgoingCltvRejectDelta, MaxOutgoingCltvExpiry <= 2^16, so height+delta cannot wrap uint32 (wrapping heights are generated, run for crashes only and counted as outside_domain)",
        "realistic domain: incoming HTLC amount <= 1e13 msat (100 BTC, 10x lnd's wumbo channel limit); outbound fee rate <= 1e6 ppm (100%); base fee <= 2^32-1 (the advertised field is 32 bit); outgoing (onion) amount and both expiries range over their whole integer type",
        "the inbound fee rate clamp to +-10x and the separate truncation toward zero of the inbound component are taken from lnd's documentation of InboundFee.CalcFee as the specified rounding",
        "custom (aux-channel) HTLCs, for which lnd skips the min/max rule by design, are outside the property; an AuxTrafficShaper is used only as a source of arbitrary bandwidth values",
        "the spendable bandwidth itself (LightningChannel.AvailableBalance) is an input of this property, not checked by it",
        "Intercepted: block heights <= 2^31-1-2^17 (the InterceptableSwitch gets heights as int32 block epochs); heights above are folded into that range together with both expiries. The incoming amount the node accounts after ResumeModified(InAmountMsat) is the override (doc comment of ResumeModified: 'the value of the inbound HTLC should be interpreted differently ... during further validation'), overrides <= 1e13 msat. The behaviour of the interception state machine itself (who is offered / held / released / auto-failed and with which code) is taken from the doc comments of InterceptableSwitchConfig, FwdResolution, heldHtlcSet and from lnd's own TestSwitchHoldForward / TestInterceptableSwitchWatchDog / TestInterceptableSwitchExpiryTooFar. On-chain (contractcourt) interception, blinded/node-addressed next hops and local payments are not driven. A duplicate submission of a held htlc after a block made it 'too soon' is not driven (lnd answers it with a second, independent failure). bbolt's MaxBatchDelay of the Switch's test database is set to 0 (latency knob of the handle; VERIF_C09_KEEP_BATCH_DELAY=1 keeps it)",
        "LinkInputs: onions are lnd's mock hop iterator encoding (the sphinx layer is not under test); a 'restart' is a reload of the forwarding package from the real channel DB plus a fresh onion decoder; crafted FwdFilter subsets are written through the real ChannelPackager; ADDs are not present in the channel's update log (fail-backs of undecodable/exit ADDs are therefore no-ops and not observed)",
    ],
    jobs=dict(
        quick=[
            job("htlcswitch", "^TestVerifC09(RefVectors|Pinned)$", [_VEC, "TestVerifC09Pinned"], 1, shards=1),
            job("htlcswitch", "^TestVerifC09Forward$", [_FWD], 100000, shards=8),
            job("htlcswitch", "^TestVerifC09Transit$", [_TRN], 50000, shards=4),
            job("htlcswitch", "^TestVerifC09Switch$", [_SW], 30000, shards=4),
            job("htlcswitch", "^TestVerifC09LinkInputs$", [_IN], 20000, shards=4),
            job("htlcswitch", "^TestVerifC09Intercepted$", [_IC], 40000, shards=4),
            job("htlcswitch", "^TestVerifC09InterceptReplayTooSoon$", ["TestVerifC09InterceptReplayTooSoon"], 1, shards=1),
        ],
        thorough=[
            job("htlcswitch", "^TestVerifC09(RefVectors|Pinned)$", [_VEC, "TestVerifC09Pinned"], 1, shards=1),
            job("htlcswitch", "^TestVerifC09Forward$", [_FWD], 400000, shards=12, timeout=1500),
            job("htlcswitch", "^TestVerifC09Transit$", [_TRN], 200000, shards=4, timeout=1500),
            job("htlcswitch", "^TestVerifC09Switch$", [_SW], 100000, shards=4, timeout=1500),
            job("htlcswitch", "^TestVerifC09LinkInputs$", [_IN], 60000, shards=8, timeout=1500),
            job("htlcswitch", "^TestVerifC09Intercepted$", [_IC], 250000, shards=8, timeout=1500),
            job("htlcswitch", "^TestVerifC09InterceptReplayTooSoon$", ["TestVerifC09InterceptReplayTooSoon"], 1, shards=1),
        ],
    ),
)
