from props import job

_FWD = "TestVerifC09Forward"
_TRN = "TestVerifC09Transit"
_VEC = "TestVerifC09RefVectors"
_SW = "TestVerifC09Switch"
_IN = "TestVerifC09LinkInputs"

PROP = dict(
    level="exploration",
    technique="differential against an exact math/big reference (set of violated rules), boundary-synthesising generators",
    rule=("A case is one full input (policy, local limits, height, inbound fee, "
          "amount pair, expiry pair, bandwidth source) given to the real "
          "channelLink.CheckHtlcForward / CheckHtlcTransit (or, for the Switch "
          "test, one packet given to Switch.handlePacketAdd over links that "
          "delegate to real channelLinks). Non-trivial = at least one rule of the "
          "property is within +-1 (msat or block) of flipping its individual "
          "verdict, as measured by the exact reference margins (for the Switch "
          "test: at least one candidate link is within +-1 of a rule boundary or "
          "the candidate links disagree). Distinct = distinct generated input "
          "tuples. TestVerifC09LinkInputs: a case is one generated forwarding package "
          "(1-4 ADDs: forwardable / undecodable onion / exit hop; generated link "
          "inbound fee) written to the real channel DB and run through the real "
          "channelLink.processRemoteAdds twice - first-time pass and, after a "
          "simulated restart with a generated FwdFilter/AckFilter state, the "
          "reforward pass; non-trivial = the reforward pass handed over >= 1 packet "
          "and (the link's inbound fee is non-zero or a reforwarded ADD sits behind "
          "an acked one). TestVerifC09RefVectors / TestVerifC09Pinned add 24 hand-computed "
          "vectors for the reference itself and 7 pinned inputs (finding F8 "
          "reproductions) through the real link."),
    assumptions=[
        "realistic domain: block height <= 2^32-1-2^17 and OutgoingCltvRejectDelta, MaxOutgoingCltvExpiry <= 2^16, so height+delta cannot wrap uint32 (wrapping heights are generated, run for crashes only and counted as outside_domain)",
        "realistic domain: incoming HTLC amount <= 1e13 msat (100 BTC, 10x lnd's wumbo channel limit); outbound fee rate <= 1e6 ppm (100%); base fee <= 2^32-1 (the advertised field is 32 bit); outgoing (onion) amount and both expiries range over their whole integer type",
        "the inbound fee rate clamp to +-10x and the separate truncation toward zero of the inbound component are taken from lnd's documentation of InboundFee.CalcFee as the specified rounding",
        "custom (aux-channel) HTLCs, for which lnd skips the min/max rule by design, are outside the property; an AuxTrafficShaper is used only as a source of arbitrary bandwidth values",
        "the spendable bandwidth itself (LightningChannel.AvailableBalance) is an input of this property, not checked by it",
        "LinkInputs: onions are lnd's mock hop iterator encoding (the sphinx layer is not under test); a 'restart' is a reload of the forwarding package from the real channel DB plus a fresh onion decoder; crafted FwdFilter subsets are written through the real ChannelPackager; ADDs are not present in the channel's update log (fail-backs of undecodable/exit ADDs are therefore no-ops and not observed)",
    ],
    jobs=dict(
        quick=[
            job("htlcswitch", "^TestVerifC09(RefVectors|Pinned)$", [_VEC, "TestVerifC09Pinned"], 1, shards=1),
            job("htlcswitch", "^TestVerifC09Forward$", [_FWD], 100000, shards=8),
            job("htlcswitch", "^TestVerifC09Transit$", [_TRN], 50000, shards=4),
            job("htlcswitch", "^TestVerifC09Switch$", [_SW], 30000, shards=4),
            job("htlcswitch", "^TestVerifC09LinkInputs$", [_IN], 20000, shards=4),
        ],
        thorough=[
            job("htlcswitch", "^TestVerifC09(RefVectors|Pinned)$", [_VEC, "TestVerifC09Pinned"], 1, shards=1),
            job("htlcswitch", "^TestVerifC09Forward$", [_FWD], 400000, shards=12, timeout=1500),
            job("htlcswitch", "^TestVerifC09Transit$", [_TRN], 200000, shards=4, timeout=1500),
            job("htlcswitch", "^TestVerifC09Switch$", [_SW], 100000, shards=4, timeout=1500),
            job("htlcswitch", "^TestVerifC09LinkInputs$", [_IN], 60000, shards=8, timeout=1500),
        ],
    ),
)
