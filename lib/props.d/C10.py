from props import job

TLV = "mod:github.com/lightningnetwork/lnd/tlv"

PROP = dict(
    level="exploration",
    level_text=("exploration: generated values, structure-aware mutations and raw bytes for every "
                "registered message type / failure code; no fault points to enumerate"),
    technique=("rapid property tests (value round trip, bytes fixpoint with double decode, "
               "allocation measurement, differential against an independent TLV/BigSize reference "
               "parser) + native Go fuzzing with a run-time seed corpus (thorough)"),
    rule=("lnwire: rapid draws a registered message type (every code < 32768 that makeEmptyMessage "
          "accepts, found by probing, plus custom-range codes) and either (1) a value from the "
          "repository's RandTestMessage generator, optionally with unknown odd TLV records injected: "
          "encode <= 65535 bytes, decode ~ value (compared with the value after Encode and with a deep "
          "copy taken before Encode), re-encode byte-identical, unknown records still on the wire; or "
          "(2) bytes = a valid encoding under one structure-aware mutation (truncate, extend, bit "
          "flip, hostile byte/u16, retype, TLV record splice/swap/dup/delete, non-minimal BigSize, "
          "lying TLV length, hand-built zlib/plain short-channel-id bodies) or raw bytes: decode "
          "must not panic or allocate > 24 MiB and, if it succeeds, Write/Read/Write is a fixpoint "
          "(m2 ~ m1 on a pristine second decode, b2 == b1); same for DecodeFailureMessage/"
          "EncodeFailureMessage over every failure code and the DecodeFailure/EncodeFailure packet. "
          "tlv: a generated set of known records (all primitive, truncated-int and BigSize codecs) "
          "and a generated stream with canonical-form faults: every Decode variant accepts iff the "
          "independent reference parser accepts and each known value fits its codec; on accept "
          "decode-then-encode reproduces the input. "
          "record lengths (TestVerifC10RecordLengths): in a generated message value of every type with "
          "an extension (optional typed records populated by the generators or the harness) the start p "
          "of the TLV extension is located behaviourally (smallest prefix that decodes, re-encodes "
          "exactly and behind which a probe record is taken for the extension; cross-checked with the "
          "reference parser and the suffix heuristic), then ONE record (T, value) is regrouped so that "
          "the stream stays canonical for the reference parser while its declared length L changes "
          "(value ++ a whole new odd record; value[:L] followed by a new record occupying exactly the "
          "other bytes; one byte more/less; two off-by-one shapes whose follower is crafted for a "
          "decoder one byte out of step; followers dropped to make room): if ReadMessage accepts, the "
          "re-encoding must keep the bytes in front of p and carry record T with exactly L bytes equal "
          "to the input's (the decoder consumed exactly what was declared); without a lie the message "
          "must decode and reproduce itself. "
          "Non-trivial = (bytes tests) input accepted AND different from a generator-produced "
          "encoding; (TLV tests) accepted with >= 2 records incl. a known one, or rejected for a "
          "canonical-form reason (non-minimal, order, too large, codec length) rather than plain "
          "truncation; (value tests) every generated message with a body; (size/alloc tests) every "
          "case; (record lengths) a lying length on a record the message gives a meaning to (deleting "
          "it changes the decoded value or makes decoding fail) - rejection and exact consumption are "
          "both verdicts. Distinct = distinct input bytes."),
    assumptions=[
        "fourth session: the bytes mutations include 'another value in one typed record' and 'a typed record the generators leave out'; generated channel_reestablish / revoke_and_ack values carry local_nonces maps of up to 16 entries (the decoder's documented maximum)",
        "value equivalence is deep equality with nil==empty slices/maps and net.Addr compared by String() (the relaxations lnd's own Fuzz* harnesses document); raw ExtraOpaqueData caches are decided by the byte-level fixpoint instead",
        "the allocation cap (24 MiB per decode of <= 65535 bytes; observed maximum 4.9 MiB = make([]Sig, 65535)) is a calibrated constant, not derived from the statement's '65 KB'",
        "the non-P2P tlv Decode is a trusted-input API and is only fed declared lengths <= 1 MiB (or >= 2^63 on the discard path)",
        "structure-aware mutations locate the TLV extension of a message by a suffix heuristic (smallest offset whose suffix is a canonical stream); it only aims mutations, it is not an oracle",
        "record lengths: the extension start is the smallest prefix that decodes, re-encodes exactly and after which an appended unknown odd record is accepted without changing any other field; messages without an ExtraOpaqueData field (ping, pong, error, warning, custom, onion_message) have no extension; records that open/accept_channel always emit (upfront_shutdown_script, type 0) lie in front of that prefix and are not regrouped; when a typed record is accepted with another length and then not re-emitted at all no verdict is given",
        "maxDecodedShortChanIDs (100000) is not reachable within the 65535-byte wire bound with any zlib stream the harness can build (Go's encoder tops out at ~33k ids), so its removal is not observable through ReadMessage",
    ],
    jobs=dict(
        quick=[
            job("lnwire", "^TestVerifC10ValueRoundTrip$", ["TestVerifC10ValueRoundTrip"], 15000, shards=2),
            job("lnwire", "^TestVerifC10SizeBoundary$", ["TestVerifC10SizeBoundary"], 400, shards=1),
            job("lnwire", "^TestVerifC10BytesFixpoint$", ["TestVerifC10BytesFixpoint"], 15000, shards=2),
            job("lnwire", "^TestVerifC10Prefixes$", ["TestVerifC10Prefixes"], 150, shards=1),
            job("lnwire", "^TestVerifC10AllocBound$", ["TestVerifC10AllocBound"], 25, shards=2),
            job("lnwire", "^TestVerifC10(OnionFailure|FailurePacket)$",
                ["TestVerifC10OnionFailure", "TestVerifC10FailurePacket"], 6000, shards=1),
            job("lnwire", "^TestVerifC10(ExtraDataTLV|CustomRecords)$",
                ["TestVerifC10ExtraDataTLV", "TestVerifC10CustomRecords"], 8000, shards=1),
            job("lnwire", "^TestVerifC10RecordLengths$", ["TestVerifC10RecordLengths"], 20000, shards=4),
            job(TLV, "^TestVerifC10TLVStream$", ["TestVerifC10TLVStream"], 50000, shards=2),
            job(TLV, "^TestVerifC10(VarInt|Truncated)$", ["TestVerifC10VarInt", "TestVerifC10Truncated"], 30000, shards=1),
        ],
        thorough=[
            job("lnwire", "^TestVerifC10ValueRoundTrip$", ["TestVerifC10ValueRoundTrip"], 30000, shards=3, timeout=900),
            job("lnwire", "^TestVerifC10SizeBoundary$", ["TestVerifC10SizeBoundary"], 4000, shards=1, timeout=900),
            job("lnwire", "^TestVerifC10BytesFixpoint$", ["TestVerifC10BytesFixpoint"], 40000, shards=3, timeout=900),
            job("lnwire", "^TestVerifC10Prefixes$", ["TestVerifC10Prefixes"], 1000, shards=1, timeout=900),
            job("lnwire", "^TestVerifC10AllocBound$", ["TestVerifC10AllocBound"], 100, shards=3, timeout=900),
            job("lnwire", "^TestVerifC10(OnionFailure|FailurePacket)$",
                ["TestVerifC10OnionFailure", "TestVerifC10FailurePacket"], 60000, shards=1, timeout=900),
            job("lnwire", "^TestVerifC10(ExtraDataTLV|CustomRecords)$",
                ["TestVerifC10ExtraDataTLV", "TestVerifC10CustomRecords"], 80000, shards=1, timeout=900),
            job("lnwire", "^TestVerifC10RecordLengths$", ["TestVerifC10RecordLengths"], 150000, shards=4, timeout=900),
            job(TLV, "^TestVerifC10TLVStream$", ["TestVerifC10TLVStream"], 150000, shards=3, timeout=900),
            job(TLV, "^TestVerifC10(VarInt|Truncated)$", ["TestVerifC10VarInt", "TestVerifC10Truncated"], 300000, shards=1, timeout=900),
            job("lnwire", "^FuzzVerifC10Message$", [], 0, fuzz="^FuzzVerifC10Message$", fuzztime="90s", parallel=4, timeout=900),
            job("lnwire", "^FuzzVerifC10Failure$", [], 0, fuzz="^FuzzVerifC10Failure$", fuzztime="60s", parallel=3, timeout=900),
            job("lnwire", "^FuzzVerifC10Mutate$", [], 0, fuzz="^FuzzVerifC10Mutate$", fuzztime="90s", parallel=4, timeout=900),
            job("lnwire", "^FuzzVerifC10Value$", [], 0, fuzz="^FuzzVerifC10Value$", fuzztime="60s", parallel=3, timeout=900),
            job(TLV, "^FuzzVerifC10TLVRaw$", [], 0, fuzz="^FuzzVerifC10TLVRaw$", fuzztime="90s", parallel=4, timeout=900),
            job(TLV, "^FuzzVerifC10TLVGen$", [], 0, fuzz="^FuzzVerifC10TLVGen$", fuzztime="60s", parallel=3, timeout=900),
        ],
    ),
)
