from props import job

TLV = "mod:github.com/lightningnetwork/lnd/tlv"

PROP = dict(
    level="exploration",
    level_text=("exploration: generated values, structure-aware mutations and raw bytes for every "
                "registered message type / failure code; no fault points to enumerate"),
    technique=("rapid property tests (value round trip, bytes fixpoint with double decode, "
               "allocation measurement, differential against an independent TLV/BigSize reference "
               "parser) + native Go fuzzing with a run-time seed corpus (thorough)"),
    rule=("lnwire: rapid draws a registered message type (every code < 32768 that makeEmptyMessage "
          "accepts, found by probing, plus custom-range codes) and either (1) a value from the "
          "repository's RandTestMessage generator, optionally with unknown odd TLV records injected: "
          "encode <= 65535 bytes, decode ~ value (compared with the value after Encode and with a deep "
          "copy taken before Encode), re-encode byte-identical, unknown records still on the wire; or "
          "(2) bytes = a valid encoding under one structure-aware mutation (truncate, extend, bit "
          "flip, hostile byte/u16, retype, TLV record splice/swap/dup/delete, non-minimal BigSize, "
          "lying TLV length, hand-built zlib/plain short-channel-id bodies) or raw bytes: decode "
          "must not panic or allocate > 24 MiB and, if it succeeds, Write/Read/Write is a fixpoint "
          "(m2 ~ m1 on a pristine second decode, b2 == b1); same for DecodeFailureMessage/"
          "EncodeFailureMessage over every failure code and the DecodeFailure/EncodeFailure packet. "
          "tlv: a generated set of known records (all primitive, truncated-int and BigSize codecs) "
          "and a generated stream with canonical-form faults: every Decode variant accepts iff the "
          "independent reference parser accepts and each known value fits its codec; on accept "
          "decode-then-encode reproduces the input. "
          "Non-trivial = (bytes tests) input accepted AND different from a generator-produced "
          "encoding; (TLV tests) accepted with >= 2 records incl. a known one, or rejected for a "
          "canonical-form reason (non-minimal, order, too large, codec length) rather than plain "
          "truncation; (value tests) every generated message with a body; (size/alloc tests) every "
          "case. Distinct = distinct input bytes."),
    assumptions=[
        "value equivalence is deep equality with nil==empty slices/maps and net.Addr compared by String() (the relaxations lnd's own Fuzz* harnesses document); raw ExtraOpaqueData caches are decided by the byte-level fixpoint instead",
        "the allocation cap (24 MiB per decode of <= 65535 bytes; observed maximum 4.9 MiB = make([]Sig, 65535)) is a calibrated constant, not derived from the statement's '65 KB'",
        "the non-P2P tlv Decode is a trusted-input API and is only fed declared lengths <= 1 MiB (or >= 2^63 on the discard path)",
        "structure-aware mutations locate the TLV extension of a message by a suffix heuristic (smallest offset whose suffix is a canonical stream); it only aims mutations, it is not an oracle",
        "maxDecodedShortChanIDs (100000) is not reachable within the 65535-byte wire bound with any zlib stream the harness can build (Go's encoder tops out at ~33k ids), so its removal is not observable through ReadMessage",
    ],
    jobs=dict(
        quick=[
            job("lnwire", "^TestVerifC10ValueRoundTrip$", ["TestVerifC10ValueRoundTrip"], 15000, shards=2),
            job("lnwire", "^TestVerifC10SizeBoundary$", ["TestVerifC10SizeBoundary"], 400, shards=1),
            job("lnwire", "^TestVerifC10BytesFixpoint$", ["TestVerifC10BytesFixpoint"], 15000, shards=2),
            job("lnwire", "^TestVerifC10Prefixes$", ["TestVerifC10Prefixes"], 150, shards=1),
            job("lnwire", "^TestVerifC10AllocBound$", ["TestVerifC10AllocBound"], 25, shards=2),
            job("lnwire", "^TestVerifC10(OnionFailure|FailurePacket)$",
                ["TestVerifC10OnionFailure", "TestVerifC10FailurePacket"], 6000, shards=1),
            job("lnwire", "^TestVerifC10(ExtraDataTLV|CustomRecords)$",
                ["TestVerifC10ExtraDataTLV", "TestVerifC10CustomRecords"], 8000, shards=1),
            job(TLV, "^TestVerifC10TLVStream$", ["TestVerifC10TLVStream"], 50000, shards=2),
            job(TLV, "^TestVerifC10(VarInt|Truncated)$", ["TestVerifC10VarInt", "TestVerifC10Truncated"], 30000, shards=1),
        ],
        thorough=[
            job("lnwire", "^TestVerifC10ValueRoundTrip$", ["TestVerifC10ValueRoundTrip"], 30000, shards=3, timeout=900),
            job("lnwire", "^TestVerifC10SizeBoundary$", ["TestVerifC10SizeBoundary"], 4000, shards=1, timeout=900),
            job("lnwire", "^TestVerifC10BytesFixpoint$", ["TestVerifC10BytesFixpoint"], 40000, shards=3, timeout=900),
            job("lnwire", "^TestVerifC10Prefixes$", ["TestVerifC10Prefixes"], 1000, shards=1, timeout=900),
            job("lnwire", "^TestVerifC10AllocBound$", ["TestVerifC10AllocBound"], 100, shards=3, timeout=900),
            job("lnwire", "^TestVerifC10(OnionFailure|FailurePacket)$",
                ["TestVerifC10OnionFailure", "TestVerifC10FailurePacket"], 60000, shards=1, timeout=900),
            job("lnwire", "^TestVerifC10(ExtraDataTLV|CustomRecords)$",
                ["TestVerifC10ExtraDataTLV", "TestVerifC10CustomRecords"], 80000, shards=1, timeout=900),
            job(TLV, "^TestVerifC10TLVStream$", ["TestVerifC10TLVStream"], 150000, shards=3, timeout=900),
            job(TLV, "^TestVerifC10(VarInt|Truncated)$", ["TestVerifC10VarInt", "TestVerifC10Truncated"], 300000, shards=1, timeout=900),
            job("lnwire", "^FuzzVerifC10Message$", [], 0, fuzz="^FuzzVerifC10Message$", fuzztime="90s", parallel=4, timeout=900),
            job("lnwire", "^FuzzVerifC10Failure$", [], 0, fuzz="^FuzzVerifC10Failure$", fuzztime="60s", parallel=3, timeout=900),
            job("lnwire", "^FuzzVerifC10Mutate$", [], 0, fuzz="^FuzzVerifC10Mutate$", fuzztime="90s", parallel=4, timeout=900),
            job("lnwire", "^FuzzVerifC10Value$", [], 0, fuzz="^FuzzVerifC10Value$", fuzztime="60s", parallel=3, timeout=900),
            job(TLV, "^FuzzVerifC10TLVRaw$", [], 0, fuzz="^FuzzVerifC10TLVRaw$", fuzztime="90s", parallel=4, timeout=900),
            job(TLV, "^FuzzVerifC10TLVGen$", [], 0, fuzz="^FuzzVerifC10TLVGen$", fuzztime="60s", parallel=3, timeout=900),
        ],
    ),
)
