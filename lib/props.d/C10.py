from props import job

TLV = "mod:github.com/lightningnetwork/lnd/tlv"

PROP = dict(
    level="exploration",
    rule=("draft"),
    assumptions=[],
    jobs=dict(
        quick=[
            job("lnwire", "^TestVerifC10ValueRoundTrip$", ["TestVerifC10ValueRoundTrip"], 3000, shards=2),
            job("lnwire", "^TestVerifC10SizeBoundary$", ["TestVerifC10SizeBoundary"], 300, shards=1),
            job("lnwire", "^TestVerifC10BytesFixpoint$", ["TestVerifC10BytesFixpoint"], 3000, shards=2),
            job("lnwire", "^TestVerifC10Prefixes$", ["TestVerifC10Prefixes"], 100, shards=1),
            job(TLV, "^TestVerifC10TLVStream$", ["TestVerifC10TLVStream"], 20000, shards=2),
            job(TLV, "^TestVerifC10(VarInt|Truncated)$", ["TestVerifC10VarInt", "TestVerifC10Truncated"], 20000, shards=1),
        ],
        thorough=[
        ],
    ),
)
