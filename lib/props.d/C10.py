from props import job

TLV = "mod:github.com/lightningnetwork/lnd/tlv"

PROP = dict(
    level="exploration",
    rule=("draft"),
    assumptions=[],
    jobs=dict(
        quick=[
            job("lnwire", "^TestVerifC10ValueRoundTrip$", ["TestVerifC10ValueRoundTrip"], 3000, shards=2),
            job("lnwire", "^TestVerifC10SizeBoundary$", ["TestVerifC10SizeBoundary"], 300, shards=1),
            job("lnwire", "^TestVerifC10BytesFixpoint$", ["TestVerifC10BytesFixpoint"], 3000, shards=2),
            job("lnwire", "^TestVerifC10Prefixes$", ["TestVerifC10Prefixes"], 100, shards=1),
            job("lnwire", "^TestVerifC10AllocBound$", ["TestVerifC10AllocBound"], 30, shards=2, v=True),
            job("lnwire", "^TestVerifC10(OnionFailure|FailurePacket)$", ["TestVerifC10OnionFailure", "TestVerifC10FailurePacket"], 3000, shards=1),
            job("lnwire", "^TestVerifC10(ExtraDataTLV|CustomRecords)$", ["TestVerifC10ExtraDataTLV", "TestVerifC10CustomRecords"], 5000, shards=1),
            job(TLV, "^TestVerifC10TLVStream$", ["TestVerifC10TLVStream"], 20000, shards=2),
            job(TLV, "^TestVerifC10(VarInt|Truncated)$", ["TestVerifC10VarInt", "TestVerifC10Truncated"], 20000, shards=1),
        ],
        thorough=[
            job("lnwire", "^FuzzVerifC10Message$", [], 0, fuzz="^FuzzVerifC10Message$", fuzztime="20s", parallel=4, timeout=600),
            job("lnwire", "^FuzzVerifC10Failure$", [], 0, fuzz="^FuzzVerifC10Failure$", fuzztime="20s", parallel=4, timeout=600),
            job("lnwire", "^FuzzVerifC10Mutate$", [], 0, fuzz="^FuzzVerifC10Mutate$", fuzztime="20s", parallel=4, timeout=600),
            job("lnwire", "^FuzzVerifC10Value$", [], 0, fuzz="^FuzzVerifC10Value$", fuzztime="20s", parallel=4, timeout=600),
            job(TLV, "^FuzzVerifC10TLVRaw$", [], 0, fuzz="^FuzzVerifC10TLVRaw$", fuzztime="20s", parallel=4, timeout=600),
            job(TLV, "^FuzzVerifC10TLVGen$", [], 0, fuzz="^FuzzVerifC10TLVGen$", fuzztime="20s", parallel=4, timeout=600),
        ],
    ),
)
