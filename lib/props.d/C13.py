from props import job

PROP = dict(
    technique='model-based rapid state machine over the real bolt arbitrator log (level A) + crash enumeration: every effect of an uninterrupted close run is a stop point, restart on the same bolt file, outcome equality as sets, sweeper inputs equal to the uninterrupted run and to the generated resolutions (level B; all channel kinds incl. simple taproot staging/final, real utxo nursery on a real nursery store for pre-anchor kinds)',
    level="fault_enumeration",
    rule=("Level B (TestVerifC13Crash): a C12-generated close scenario (<=4 HTLCs "
          "on the three commitments; channel kind in {legacy, tweakless, anchors "
          "zero-fee, simple taproot staging, taproot final (half of the cases "
          "taproot, a third of those with resolution blobs)}; confirmed commitment "
          "in {ours, peer's current, peer's pending, breach, coop}; optionally our "
          "own chain-triggered broadcast first; optionally the peer claiming "
          "offered HTLC outputs on chain) is run uninterrupted against the real "
          "bolt log, then once per k in 1..W with the process dying right after "
          "the k-th effect (every ArbitratorLog write, MarkChannelClosed, switch/"
          "beacon/final-outcome/report/notification side effect, every "
          "NurseryStore write and nursery publish) and restarted on the same "
          "bolt file, plus sampled double crashes. Between the death of a "
          "process life and the start of the next one the chain advances by a "
          "generated number of blocks d in {0,1,2,CSV-1,CSV,CSV+1,CSV+3,2*CSV+3} "
          "(CSV=4; three values per scenario, picked by the number of effects on "
          "record at the stop, so one scenario has restarts without and with "
          "downtime): transactions the node had published confirm, the peer's "
          "planned claims happen, CSV delays run out while nobody listens; the "
          "next life learns it the way lnd's notifier presents it (tip from "
          "ChainIO.GetBestBlock / first epoch of a subscriber that names no best "
          "block, historical confirmations and spends on re-registration, epochs "
          "only for new blocks). All runs of a scenario, the uninterrupted one "
          "included, are driven over the same chain: a run that does not become "
          "fully resolved ends at the common last height (old horizon + 2*max d). "
          "Oracles per crashed run: "
          "outcome sets equal to the uninterrupted run (terminal state, contracts "
          "left, upstream resolutions, final outcomes, reports, nursery hand-offs, "
          "preimages), no new contradiction, resolved only with 0 contracts left; "
          "every input handed to Sweeper.SweepInput (also by the nursery) carries "
          "the sign descriptor (key, tweaks, witness/leaf script, control block, "
          "tap tweak) and resolution blob the harness generated for that outpoint, "
          "a taproot witness type of the right generation, a preimage that opens "
          "the HTLC, and is identical (witness type, outpoint, CSV, CLTV, required "
          "output, preimage, budget/deadline/exclusive group (the height hint is counted, not compared), sign "
          "descriptor, blob) to what the uninterrupted run handed over for that "
          "outpoint. One evaluation = one (scenario, crash index) run. Non-trivial "
          "= the crash lands inside a transition (the effect before it is neither "
          "a CommitState nor a ResolveContract), or a double crash. Labels chan=*, "
          "taproot_htlc_resolvers, nursery=real|stub, nursery_completed, wt=* show "
          "the class distribution. Level A (TestVerifC13LogModel): "
          "4-40 generated log operations incl. reopen against a map model; "
          "non-trivial = >=1 reopen and >=1 checkpoint or swap with contracts "
          "still stored. Level C (TestVerifC13Finalize): the last stage, "
          "ChainArbitrator.ResolveContract: 1-3 pending-close channels (close type, "
          "channel type, logged resolutions generated) whose arbitrator logs say "
          "StateFullyResolved are finalised in a generated order by a real "
          "ChainArbitrator on a real channeldb; the run is repeated with the node "
          "stopped after the k-th durable write for every k; a channel that is still "
          "pending close must still have its recorded stage (state, resolutions, "
          "confirmed commit set), and a second ChainArbitrator on the same database "
          "must end with no pending channel and every close summary intact, once. "
          "One evaluation = one (channels, order) case with all its stop points."),
    level_text="fault_enumeration",
    assumptions=[
        "the arbitrator is not Start()ed: the harness goroutine plays channelAttendant (getStartState + progressStateMachineAfterRestart, handle*CloseEvent, advanceState on each resolutionSignal, launchResolvers per block), so schedules are deterministic",
        "a crash is modelled by muting: after the k-th effect every later durable write fails and every outward side effect of that process life is dropped; the zombie is then stopped and a fresh arbitrator is built on the same bolt file",
        "restart protocol as ChainArbitrator: channel not yet marked closed => started with its HTLC sets and the close event is re-delivered; marked closed => IsPendingClose/CloseType/ClosingHeight, empty HTLC sets",
        "driven to completion: commit-sweep, anchor, breach resolvers; outgoing contest/timeout on a remote commitment (our timeout sweep or the peer's preimage claim); incoming contest timing out or claimed with a beacon preimage on a remote commitment; second-level timeout/success on an anchor (zero-fee) or taproot local commitment via the sweeper; second-level timeout/success on a legacy/tweakless local commitment via the utxo nursery; dust and dangling fail-backs. Every uninterrupted run ends StateFullyResolved",
        "taproot: the C12 scenario is generated as an anchors/zero-fee channel and its resolutions are re-dressed as lnwallet dresses them for a taproot commitment (P2TR outputs, tapscript leaves as witness scripts, well-formed control blocks on every script-path sign descriptor and in the second-level witnesses, tap tweak on the anchor, optional resolution blobs); every byte string is a distinct function of (commitment, HTLC, role). Signatures are placeholders: validity of the spends is C05's subject, here only persistence/equality. FetchHistoricalChannel returns the taproot channel type and the delay/payment base points the commit-sweep resolver compares the sign key with. The peer's preimage claims and the world's answers to sweep requests have the taproot witness shapes (the answer is built from the offered input's leaf script, control block and preimage)",
        "SignDescriptor.SignMethod is not compared (not persisted by lnd; the witness generators set it)",
        "utxo nursery, 3 of 4 pre-anchor cases: a real UtxoNursery per process life on a real NurseryStore in the same bolt file, started before the arbitrator (reloadPreschool/reloadClasses after a restart); its store writes and PublishTransaction are crash points; confirmation notifications, block epochs and sweep results come from the stub world when pumped; FetchClosedChannel(s) from the world's closed bit. 1 of 4: a world-level stub (publishes the timeout tx at its CLTV, sweeps the second-level output CSV blocks after its confirmation) whose state survives restarts. Published second-level transactions confirm when pumped and only while the HTLC outpoint is unspent. An HTLC with an output is worth >= 1 sat (the nursery ignores zero-value outputs)",
        "NOT driven: exit-hop invoice settlement (every received HTLC is a forward), mempool preimage detection, re-orgs (neither the arbitrator nor the resolvers document a behaviour for them), the BreachArbitrator (stubbed completion signal; its taproot tap tweaks live in its own retribution store), lease channels",
        "blocks mined while the process is down ARE driven (0..11 blocks before every restart, see rule): confirmations of published second-level transactions, CSV maturities (nursery kindergarten/crib classes, late registration), confirmation depths and expiries of uncontested HTLCs are crossed while the node is down and must not change the outcome. Restrictions (the downtime is cut short, label offline_capped): (1) no block is mined offline before the channel is marked closed - until then the restarted arbitrator evaluates its chain trigger at the restart height and whether it broadcasts depends on that height by design (C12's subject); (2) while the contest of an incoming HTLC is undecided (contest resolver neither swapped for a success resolver nor given up) the downtime ends before the earliest expiry of an incoming HTLC - a node that is down at the expiry can legitimately no longer claim; (3) a planned on-chain claim of the peer on a still unspent offered-HTLC output is never crossed - who wins such an output depends on who spends first (our timeout path starts at expiry-1 from a contest resolver, at once from a timeout resolver, and the stub sweeper confirms when pumped) and an absent node is never first; (4) once the peer has claimed an offered HTLC before its expiry, the downtime ends before expiry-1 (a contest resolver restored at or after expiry-1 starts the timeout path, incl. the nursery hand-off, before it looks at the spend); (5) not beyond the common last height. Requests pending with the (non-persistent) sweeper when the process dies are dropped as at every restart (the sweeper had not broadcast yet); transactions published through PublishTx/PublishTransaction confirm at the height of the stop, before the first offline block, as they do before the next block of a live run",
        "sweeps confirm when the harness pumps them; the sweeper, notifier, switch, witness beacon are deterministic stubs whose state survives restarts like the chain / other subsystems would",
        "kvdb.Batch is routed to a plain Update (bbolt's 10ms batch timer removed); same atomicity",
        "outcome sets exclude the commitment transaction itself; in levels A/B NotifyChannelResolved stands for MarkChannelResolved + WipeHistory of ChainArbitrator; level C runs those two writes for real (ChainArbitrator.ResolveContract called synchronously where resolveContracts would call it; the chain arbitrator is not Start()ed, its pending-close arbitrators are loaded with loadPendingCloseChannels)",
    ],
    jobs=dict(
        quick=[
            job("contractcourt", "^TestVerifC13LogModel$", ["TestVerifC13LogModel"], 1200, shards=4),
            job("contractcourt", "^TestVerifC13Crash$", ["TestVerifC13Crash"], 80, shards=6,
                flaky_is_violation=False, timeout=400),
            job("contractcourt", "^TestVerifC13Repro", ["TestVerifC13ReproRestartInContractClosed",
                "TestVerifC13ReproResolvedCheckpoint", "TestVerifC13ReproContestOwnSweepPanic",
                "TestVerifC13ReproTaprootPreimageLost", "TestVerifC13ReproCribMaturedWhileDown"], 1, shards=1, v=True),
            job("contractcourt", "^TestVerifC13Finalize$", ["TestVerifC13Finalize"], 120, shards=2),
        ],
        thorough=[
            job("contractcourt", "^TestVerifC13LogModel$", ["TestVerifC13LogModel"], 4000, shards=12,
                env=dict(VERIF_C13_STEPS=80), timeout=900),
            job("contractcourt", "^TestVerifC13Crash$", ["TestVerifC13Crash"], 350, shards=12,
                env=dict(VERIF_C13_PAIRS=12), timeout=900, flaky_is_violation=False),
            job("contractcourt", "^TestVerifC13Repro", ["TestVerifC13ReproRestartInContractClosed",
                "TestVerifC13ReproResolvedCheckpoint", "TestVerifC13ReproContestOwnSweepPanic",
                "TestVerifC13ReproTaprootPreimageLost", "TestVerifC13ReproCribMaturedWhileDown"], 1, shards=1, v=True),
            job("contractcourt", "^TestVerifC13Finalize$", ["TestVerifC13Finalize"], 1500, shards=4, timeout=900),
        ],
    ),
    also=["C12"],
)
