from props import job

PROP = dict(
    technique='model-based rapid state machine over the real bolt arbitrator log (level A) + crash enumeration: every effect of an uninterrupted close run is a stop point, restart on the same bolt file, outcome equality as sets (level B)',
    level="fault_enumeration",
    rule=("Level B (TestVerifC13Crash): a C12-generated close scenario (<=4 HTLCs "
          "on the three commitments; confirmed commitment in {ours, peer's "
          "current, peer's pending, breach, coop}; optionally our own "
          "chain-triggered broadcast first; optionally the peer claiming offered "
          "HTLC outputs on chain) is run uninterrupted against the real bolt log, "
          "then once per k in 1..W with the process dying right after the k-th "
          "effect (every ArbitratorLog write, MarkChannelClosed, switch/beacon/"
          "final-outcome/report/notification side effect) and restarted on the "
          "same bolt file, plus sampled double crashes. One evaluation = one "
          "(scenario, crash index) run. Non-trivial = the crash lands inside a "
          "transition (the effect before it is neither a CommitState nor a "
          "ResolveContract), or a double crash. Level A (TestVerifC13LogModel): "
          "4-40 generated log operations incl. reopen against a map model; "
          "non-trivial = >=1 reopen and >=1 checkpoint or swap with contracts "
          "still stored."),
    level_text="fault_enumeration",
    assumptions=[
        "the arbitrator is not Start()ed: the harness goroutine plays channelAttendant (getStartState + progressStateMachineAfterRestart, handle*CloseEvent, advanceState on each resolutionSignal, launchResolvers per block), so schedules are deterministic",
        "a crash is modelled by muting: after the k-th effect every later durable write fails and every outward side effect of that process life is dropped; the zombie is then stopped and a fresh arbitrator is built on the same bolt file",
        "restart protocol as ChainArbitrator: channel not yet marked closed => started with its HTLC sets and the close event is re-delivered; marked closed => IsPendingClose/CloseType/ClosingHeight, empty HTLC sets",
        "driven to completion: commit-sweep, anchor, breach resolvers; outgoing contest/timeout on a remote commitment (our timeout sweep or the peer's preimage claim); incoming contest timing out or claimed with a beacon preimage on a remote commitment; second-level timeout/success on an anchor (zero-fee) local commitment via the sweeper; dust and dangling fail-backs",
        "NOT driven: the utxo nursery (legacy/tweakless local-commitment HTLC outputs are handed to IncubateOutputs and then stay unresolved in every run; equality of that stuck state is still compared), exit-hop invoice settlement (every received HTLC is a forward), mempool preimage detection, taproot resolvers, re-orgs, the BreachArbitrator (stubbed completion signal)",
        "sweeps confirm when the harness pumps them; the sweeper, notifier, switch, witness beacon are deterministic stubs whose state survives restarts like the chain / other subsystems would",
        "kvdb.Batch is routed to a plain Update (bbolt's 10ms batch timer removed); same atomicity",
        "outcome sets exclude the commitment transaction itself; NotifyChannelResolved stands for MarkChannelResolved + WipeHistory of ChainArbitrator",
    ],
    jobs=dict(
        quick=[
            job("contractcourt", "^TestVerifC13LogModel$", ["TestVerifC13LogModel"], 600, shards=4),
            job("contractcourt", "^TestVerifC13Crash$", ["TestVerifC13Crash"], 50, shards=6,
                flaky_is_violation=False, timeout=400),
            job("contractcourt", "^TestVerifC13Repro", ["TestVerifC13ReproRestartInContractClosed",
                "TestVerifC13ReproResolvedCheckpoint", "TestVerifC13ReproContestOwnSweepPanic"], 1, shards=1, v=True),
        ],
        thorough=[
            job("contractcourt", "^TestVerifC13LogModel$", ["TestVerifC13LogModel"], 4000, shards=12,
                env=dict(VERIF_C13_STEPS=80), timeout=900),
            job("contractcourt", "^TestVerifC13Crash$", ["TestVerifC13Crash"], 350, shards=12,
                env=dict(VERIF_C13_PAIRS=12), timeout=900, flaky_is_violation=False),
            job("contractcourt", "^TestVerifC13Repro", ["TestVerifC13ReproRestartInContractClosed",
                "TestVerifC13ReproResolvedCheckpoint", "TestVerifC13ReproContestOwnSweepPanic"], 1, shards=1, v=True),
        ],
    ),
    also=["C12"],
)
