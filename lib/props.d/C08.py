from props import job

_T = "TestVerifC08Atomic"
_TF = "TestVerifC08FwdPkgReplay"

PROP = dict(
    level="exploration",
    technique=("rapid-generated payment batches and fault plans executed on the repo's three-hop fixture (real "
               "channelLinks, lnwallet channels, circuit maps, invoice registry; one database per node), message tap and "
               "connection cuts through the mock servers' intercept hook, whole-network restarts on the same databases; "
               "scenario-independent conservation oracle on the durable state at quiescence plus causal rules on the "
               "tapped wire log. Second job (TestVerifC08FwdPkgReplay): ONE real channelLink on a real lnwallet channel pair "
               "and channeldb; generated bidirectional histories driven synchronously through the two state machines so that "
               "real forwarding packages are written by ReceiveRevocation, generated ack/forward-filter subsets set through "
               "the channeldb API or a signed fail carrying the SourceRef, then the link is started with ForwardPackets, the "
               "invoice registry and the peer queue recorded and its start-up replay is compared with a reference model of "
               "the forwarding-package contract (structural barrier: NotifyActiveChannel + no forwardBatch goroutine left)"),
    rule=("One case = one generated plan: 1-8 payments Alice->Bob->Carol / Carol->Bob->Alice (receiver amount around "
          "min_htlc 5 sat, around the dust limits 200/800 sat and dust+HTLC-fee thresholds, mid, 30-65% of a channel side, "
          "97-150% of a side; invoice kind valid / overpaid / underpaid / unknown hash / hold-then-settle / hold-then-cancel; "
          "forwarding fee exact, -1, +1, +777, 0 and negative; time lock exact or one block short; launch phase and "
          "trigger), 0-2 restarts of all three nodes (graceful stop, channels and switches rebuilt from the databases, "
          "invoice registries and preimage caches kept) triggered after a generated number of HTLC messages or when the "
          "wire is idle, 0-2 link flaps (both links of one channel stopped and re-created from the database while the "
          "switches, mailboxes and circuit maps keep running) and per phase 0-2 connection cuts (the k-th "
          "add/commit_sig/revoke_and_ack/fulfill/fail on one of the four directed edges and everything after it - optionally "
          "the reverse direction too - is lost until the peers reconnect: the next restart, a generated flap, or the flap the "
          "harness performs when the wire has gone idle in the last phase). A quarter of the cases use a burst template (>=3 adds in one commitment, one refused by the forwarder, "
          "one held, two restarts); a fifth use a slots template (the forwarder's outgoing channel has max_accepted_htlcs "
          "1-2, held payments occupy the slots, further adds of the same batch pass the switch but are refused by the "
          "outgoing link = mailbox FailAdd, then 1-2 restarts; half of these are preceded by slots+1 or slots+2 completed "
          "payments in the opposite direction, one at a time, so that incoming indexes of the refused adds equal earlier "
          "answered outgoing indexes on the shared channel; a third have no restart, flap or cut after the refusal). After the last phase all hold invoices are resolved and the harness polls for quiescence "
          "(every payment result known, all four channel ends IsChannelClean) with doomed 'nudge' payments when the wire is "
          "idle; deadline (90 s) => the case is counted 'inconclusive' and asserts nothing. Oracle: (A) no HTLC / pending "
          "commitment in any durable channel state, both ends agree, local+remote+fee == capacity; (B) Bob's total over both "
          "channels == start + sum of (incoming - outgoing) of the payments whose SENDER was told success, to the msat, no "
          "success with incoming < outgoing; Alice's and Carol's balance changes equal what their payment results imply; "
          "(C) sender result success <=> receiver invoice Settled with AmtPaid == receiver amount and the right preimage, "
          "failure => invoice neither Settled nor Accepted; (D) all three circuit maps empty in memory and when reloaded "
          "from disk (except the sender-side half-open circuit of a local add that was lost unsigned in a restart); (E) no "
          "forwarding package with an unacked add or an unacked fail; (F) wire rules for Bob: an upstream fulfill only after "
          "a fulfill with that preimage was received downstream; an upstream fail only after the downstream fail, a "
          "commit_sig and a revoke_and_ack were received downstream, or the outgoing add was never signed before a "
          "restart; each HTLC forwarded once (retransmission once per reconnect, same id), answered once per "
          "connection, never both settled and failed, never forwarded after its incoming side was answered and signed; "
          "(G) a forwarded HTLC whose circuit is half-open and loaded from disk after the incoming link finished "
          "reprocessing its packages, with nothing pending and a silent wire for 20 s, is reported as dangling; likewise a "
          "half-open circuit not loaded from disk whose add is in no mailbox, if no link flapped since the switches started; "
          "(G3) a fully open circuit whose outgoing HTLC was settled by the downstream peer (fulfill received on a live "
          "connection) while the incoming HTLC is still active, the incoming link is up and owes nothing, the settle is in "
          "no mailbox and the wire was silent for 20 s is reported as 'paid downstream, not claimed upstream' (lnd keeps a "
          "response in the incoming link's mailbox until the commitment removing the HTLC is signed and re-delivers it to "
          "every new link object; the rescue restart is withheld while this precondition holds). "
          "Non-trivial = the lifetimes (first add on the wire .. result known to the sender) of >=2 payments overlapped AND "
          "(a cut fired OR a restart found an HTLC / pending commitment in some durable channel state OR a flap hit a "
          "channel that was not clean). Distinct = "
          "distinct plans. "
          "TestVerifC08FwdPkgReplay (start-up replay of forwarding packages, deterministic): one case = 1-3 epochs on one "
          "channel Alice(link under test)<->Bob(bare state machine). Epoch = [Alice offers 0-4 outgoing HTLCs (the node's "
          "forwards), separately or in the same commitment dance as Bob's first round] + [0-2 rounds: Bob offers 0-3 ADDs "
          "(exit hop hold invoice / exit hop open invoice / exit hop unknown hash / forward to another channel / undecodable "
          "onion; dust or not) interleaved in a drawn order with 0-2 SETTLEs/FAILs of drawn locked-in outgoing HTLCs, full "
          "dance => ReceiveRevocation writes ONE package with exactly these updates; the package is left in FwdStateLockedIn "
          "(link went down right after the revocation was persisted; at most the last round of an epoch) or gets the "
          "forwarding decision persisted with SetFwdFilter] + [ack step over all packages on disk: forwarded/held ADDs of "
          "processed packages acked with p=1/2 via AckAddHtlcs or via FailHTLC(SourceRef)+signed commitment, SETTLE/FAILs "
          "acked via AckSettleFails with p=0.3 (0.12 in a locked-in package), or everything the link handed over so far, "
          "with the references carried by the recorded packets] + [link start on the restored channel, structural "
          "barrier, link stop] + [the peer takes the link's fulfill/fail/commit_sig and the dance is completed]. Oracle "
          "per start, from the forwarding-package contract: every SETTLE/FAIL whose SettleFailFilter bit is clear is handed "
          "to the switch exactly once with outgoing key (scid, htlc id), DestRef (scid, height, index) and the preimage / "
          "reason of the package, none whose bit is set; every ADD whose AckFilter bit is clear is reprocessed exactly once "
          "(forward: packet with incoming key, SourceRef (height, index), next channel, amount, expiry, hash, replay flag "
          "== forwarding decision was persisted; exit hop: one NotifyExitHopHtlc with hash/amount/circuit key, then one "
          "update_fulfill_htlc with the invoice preimage or one update_fail_htlc; undecodable: one "
          "update_fail_malformed_htlc), none that is acked; exactly one commit_sig iff the replay answered an HTLC, and the "
          "peer's state machine accepts it; afterwards on disk: completed packages removed, no other package removed, "
          "every locked-in package with ADDs is processed with FwdFilter == {forwards}, AckFilter == before + the ADDs "
          "answered in the signed commitment, SettleFailFilter unchanged, no unknown package. Non-trivial = some start "
          "replays a package holding an un-acked ADD together with a not yet acked SETTLE/FAIL."),
    level_note=("Weak by nature: the interleaving of link, switch and mailbox goroutines is chosen by the Go runtime; the "
                "harness controls only the payment batch, the cut points, the restart points and the order of its own "
                "calls. Trigger points are message counts, so the same plan explores different schedules on different "
                "runs (replays of a failing plan may not reproduce; rapid then reports the failure as flaky, which is "
                "still a violation). The thorough tier runs under the race detector, which also perturbs schedules."),
    assumptions=[
        "goroutine schedules are chosen by the Go runtime (with and without -race); only schedules that occurred were checked",
        "faults are connection cuts (a prefix of each directed message stream is delivered), graceful whole-network "
        "restarts (Switch.Stop / link.Stop, then everything rebuilt from the databases) and graceful link flaps "
        "(Switch.RemoveLink on both ends, queues drained, new links from the database, reestablish held until both "
        "exist); crashes inside a database transaction, one-sided link restarts and reordering are not generated",
        "one channeldb per node (createTestChannel re-implemented with the databases passed in): the repo fixture's "
        "createClusterChannels gives Bob's two channels separate files, which silently drops the cross-channel "
        "settle/fail acks this property is about",
        "invoice registry and preimage cache are durable node state and are carried over a restart by the harness; mock "
        "onion (hop payloads in clear), mock error encrypter, static fee estimator (no update_fee), constant block height",
        "settle acks in the forwarding package are lazy by design (Switch batch on AckEventTicker, dropped while the "
        "circuit is closing): the harness force-ticks the ack ticker and requires only fails and adds to be acked",
        "a locally initiated add that was handed to the link but not signed before a restart leaves a half-open circuit "
        "and no result at the SENDER (router-level concern): classified 'lost', expected by oracle (D)",
        "a node that restarts between its revoke_and_ack and its commit_sig does not sign until the next update on that "
        "channel (lnd liveness behaviour); the harness sends doomed payments in both directions when the wire is idle",
        "a link flap that interrupts Switch.ForwardPackets between CommitCircuits and routing leaves a half-open, "
        "not-loaded-from-disk circuit that only a switch restart resolves (lnd liveness behaviour); after three nudge "
        "rounds the harness performs one rescue restart, unless the dangling-forward precondition (G) holds",
        "waits are polls with a 90 s deadline (VERIF_C08_DEADLINE_S); a missed deadline, a link failure or a fixture "
        "fatal makes the case inconclusive (counter), never a violation; the dangling-HTLC verdict (G) is structural, "
        "not a timeout",
        "Switch.GetAttemptResult is never called concurrently with Switch.Stop (WaitGroup Add/Wait race in lnd otherwise)",
        "FwdPkgReplay: the history is driven on the lnwallet state machines while the link is down (no live link path), "
        "the switch is replaced by a recorder (ForwardPackets) so circuits and mailboxes are not involved; mock onion "
        "decoder (fresh per link), real invoice registry; link restarts without channel_reestablish (SyncStates=false), "
        "all commitment dances complete at a start so the link's revocation window is open; ack bits for ADDs only in "
        "packages whose forwarding decision is persisted (a locked-in package cannot have acked ADDs in lnd), FwdFilter "
        "written by the harness equals what the link computes (all decodable non-exit ADDs); a forward ADD missing from "
        "the FwdFilter of a processed package (not reachable without a policy change between restarts) is not generated",
        "FwdPkgReplay: a locked-in package WITHOUT ADDs is never marked processed by the start-up replay (resolveFwdPkg "
        "calls processRemoteAdds only when the AckFilter is not full), so it is never garbage collected - disk leak only, "
        "not asserted (its presence after the start is 'don't care'); a package completed by the replay's own signed "
        "answers may or may not have been collected by the garbage collector's initial pass",
        "FwdPkgReplay: the only wait is for the link goroutine to reach NotifyActiveChannel and for the forwardBatch "
        "goroutines it spawned to finish (runtime.Stack shows none); deadline 60 s (VERIF_C08F_DEADLINE_S) => inconclusive; "
        "any error of the harness' own state-machine calls => inconclusive (counter), never a violation",
    ],
    jobs=dict(
        quick=[
            job("htlcswitch", "^TestVerifC08Atomic$", [_T], 30, shards=8, timeout=1500),
            job("htlcswitch", "^TestVerifC08FwdPkgReplay$", [_TF], 100, shards=4, timeout=600),
            # a response lost between the outgoing forwarding package and the incoming link (paid downstream,
            # never claimed upstream): the switch-level link life-cycle machine shared with C07 (parked
            # responses, duplicate responses, ack ticks, restarts)
            job("htlcswitch", "^TestVerifC07LinkLifecycle$", ["TestVerifC07LinkLifecycle"], 300, shards=3),
        ],
        thorough=[
            job("htlcswitch", "^TestVerifC08Atomic$", [_T], 25, shards=12, timeout=2400, race=True),
            job("htlcswitch", "^TestVerifC08FwdPkgReplay$", [_TF], 40, shards=8, timeout=1500, race=True),
        ],
    ),
    also=["C07"],
)
