from props import job

_T = "TestVerifC08Atomic"

PROP = dict(
    level="exploration",
    rule="TBD",
    assumptions=[],
    jobs=dict(
        quick=[
            job("htlcswitch", "^TestVerifC08Atomic$", [_T], 12, shards=8, timeout=900),
        ],
        thorough=[
            job("htlcswitch", "^TestVerifC08Atomic$", [_T], 20, shards=12, timeout=2400, race=True),
        ],
    ),
)
