"""Per-property job tables for /verif/check.

A job = one test binary (pkg) x one -test.run pattern, sharded over
processes with distinct rapid seeds. `tests` lists the test function names
(used to find regression fail files under regress/<ID>/<Test>/ and to route
--replay).
"""


def job(pkg, run, tests, checks, shards=1, timeout=600, **kw):
    d = dict(pkg=pkg, run=run, tests=tests, checks=checks, shards=shards,
             timeout=timeout)
    d.update(kw)
    return d




import glob as _glob
import os as _os
import runpy as _runpy

PROPS = {}
# Properties that are deliberately not claimed: id -> one-line reason.
NOT_CLAIMED = {}


def _load():
    here = _os.path.dirname(_os.path.abspath(__file__))
    for f in sorted(_glob.glob(_os.path.join(here, "props.d", "C*.py"))):
        pid = _os.path.basename(f)[:-3]
        ns = _runpy.run_path(f)
        if "PROP" in ns:
            PROPS[pid] = ns["PROP"]
        if "NOT_CLAIMED" in ns:
            NOT_CLAIMED[pid] = ns["NOT_CLAIMED"]


_load()
