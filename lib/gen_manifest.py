#!/usr/bin/env python3
"""Regenerate /verif/MANIFEST.json from lib/props.py (single source of truth)."""
import json, os, sys
HERE = os.path.dirname(os.path.abspath(__file__))
sys.path.insert(0, HERE)
import props

ALL = ["C%02d" % i for i in range(1, 21)]
# Only properties listed in lib/ready.txt are claimed: a check is listed once
# it ran green on the unchanged tree at several seeds and its mutants were run.
READY = set(open(os.path.join(HERE, "ready.txt")).read().split())
checks = []
for pid in ALL:
    cfg = props.PROPS.get(pid)
    if not cfg or not cfg.get("claimed", True) or pid not in READY:
        continue
    checks.append(dict(
        property_id=pid,
        quick_cmd="./check %s --tier quick" % pid,
        thorough_cmd="./check %s --tier thorough" % pid,
        evidence_file="/verif/evidence/%s.json" % pid,
        replay_cmd_template="./check %s --replay {path}" % pid,
        engine="rapid+gofuzz",
        level_claimed=dict(category=cfg["level"], text=cfg.get("level_text", cfg["rule"]),
                           design_ref=cfg.get("design_ref", "DESIGN.md section 3, " + pid)),
        level_note=cfg.get("level_note", "; ".join(cfg.get("assumptions", [])) or "none"),
        technique=cfg.get("technique", "property-based testing (rapid) against an explicit oracle"),
    ))
na = []
for pid in ALL:
    cfg = props.PROPS.get(pid)
    if not cfg or not cfg.get("claimed", True) or pid not in READY:
        na.append(dict(property_id=pid, reason=props.NOT_CLAIMED.get(pid, "check not built yet (work in progress); the technique applies, see DESIGN.md")))
m = dict(
    version=1,
    setup_cmd="./check --setup",
    hooks=dict(
        guard="verif",
        enable=("go test -tags verif -overlay <generated> -modfile <generated>: harness files live under "
                "/verif/harness and are mapped into /repo's package directories by a build overlay at check "
                "time; nothing is committed to /repo for instrumentation"),
        baseline_off_cmd=json.load(open("/root/.vp/BASELINE.json"))["cmd"] if os.path.exists("/root/.vp/BASELINE.json") else "see BASELINE.json",
        source_commits=[],
        add_only=True,
    ),
    engines=[dict(name="rapid+gofuzz", path="/verif/check",
                  serves_properties=[c["property_id"] for c in checks],
                  kind_free_text="pgregory.net/rapid v1.3.0 state machines / generators and native go fuzzing, "
                                 "compiled into lnd packages through -overlay; python driver shards, merges evidence")],
    checks=checks,
    notes="See DESIGN.md. Exit 2 from a check means inconclusive (build failure/timeout), never a violation.",
    not_applicable=na,
)
json.dump(m, open(os.path.join(HERE, "..", "MANIFEST.json"), "w"), indent=1)
print("claimed:", [c["property_id"] for c in checks])
