#!/usr/bin/env python3
"""Sensitivity runner: apply each textual mutant of mutants/<ID>.json to a
copy of the lnd source file (never to /repo), run the property's quick check
with --mutate, and report whether it was caught.

  tools/mutants.py C01 [name-substring] [--tier quick] [--extra "--checks 30"]
Mutant entry: {"name":..., "file": "lnwallet/channel.go", "old": "...", "new": "...", "count": 1,
               "base": "<git rev>" (optional: take the file from that revision instead, old/new optional)}
"""
import json, os, subprocess, sys, time, shutil

VERIF = os.path.dirname(os.path.dirname(os.path.abspath(__file__)))
REPO = "/repo"


def main():
    pid = sys.argv[1]
    filt = None
    extra = []
    args = sys.argv[2:]
    while args:
        a = args.pop(0)
        if a == "--extra":
            extra = args.pop(0).split()
        else:
            filt = a
    muts = json.load(open(os.path.join(VERIF, "mutants", pid + ".json")))
    out = []
    for m in muts:
        if filt and filt not in m["name"]:
            continue
        d = "/dev/shm/mut/%s_%d" % (pid, os.getpid())
        os.makedirs(d, exist_ok=True)
        src = os.path.join(REPO, m["file"])
        if m.get("base"):
            text = subprocess.check_output(["git", "-C", REPO, "show", "%s:%s" % (m["base"], m["file"])], text=True)
        else:
            text = open(src).read()
        if m.get("patch"):
            # apply a unified diff (relative to /repo) to a scratch copy of the file
            import tempfile
            td = tempfile.mkdtemp(prefix="mutpatch", dir="/dev/shm")
            dstf = os.path.join(td, m["file"])
            os.makedirs(os.path.dirname(dstf), exist_ok=True)
            open(dstf, "w").write(text)
            pr = subprocess.run(["patch", "-p1", "-s", "-d", td, "-i", os.path.join(VERIF, m["patch"])],
                                stdout=subprocess.PIPE, stderr=subprocess.STDOUT, text=True)
            if pr.returncode != 0:
                print("MUTANT %s: patch failed: %s" % (m["name"], pr.stdout[-300:]))
                out.append(dict(name=m["name"], result="patch-failed"))
                shutil.rmtree(td, ignore_errors=True)
                continue
            text = open(dstf).read()
            shutil.rmtree(td, ignore_errors=True)
        if m.get("old") is not None:
            n = text.count(m["old"])
            if n != m.get("count", 1):
                print("MUTANT %s: pattern occurs %d times (want %d) - skipped" % (m["name"], n, m.get("count", 1)))
                out.append(dict(name=m["name"], result="pattern-mismatch"))
                continue
            text = text.replace(m["old"], m["new"])
        dst = os.path.join(d, os.path.basename(m["file"]))
        open(dst, "w").write(text)
        t0 = time.time()
        cmd = [os.path.join(VERIF, "check"), pid, "--mutate", "%s=%s" % (m["file"], dst)] + extra
        p = subprocess.run(cmd, cwd=VERIF, stdout=subprocess.PIPE, stderr=subprocess.STDOUT, text=True)
        dt = time.time() - t0
        res = {0: "MISSED", 1: "caught", 2: "inconclusive"}.get(p.returncode, "rc%d" % p.returncode)
        why = ""
        for ln in p.stdout.splitlines():
            if "[rapid] failed after" in ln or "[rapid] panic after" in ln:
                why = ln.strip()[:300]
                break
        if res == "inconclusive":
            why = p.stdout[-800:]
        print("MUTANT %-40s %-12s %5.0fs  %s" % (m["name"], res, dt, why), flush=True)
        out.append(dict(name=m["name"], result=res, wall_s=round(dt), detail=why))
        shutil.rmtree(d, ignore_errors=True)
    # mutant runs write replays; drop them
    os.makedirs(os.path.join(VERIF, "mutants", "results"), exist_ok=True)
    resf = os.path.join(VERIF, "mutants", "results", pid + ".json")
    prev = {}
    if os.path.exists(resf):
        prev = {r["name"]: r for r in json.load(open(resf))}
    for r in out:
        prev[r["name"]] = r
    json.dump(list(prev.values()), open(resf, "w"), indent=1)


if __name__ == "__main__":
    main()
