#!/usr/bin/env python3
# tools/seedrecord.py <seed-id> "<caught_by>" "<result>"  - record the lead's confirmation in seeded/<id>/meta.json
import json, sys
sid, caught, result = sys.argv[1:4]
p = "/verif/seeded/%s/meta.json" % sid
m = json.load(open(p))
m["caught_by"] = caught
m["result"] = result
m["lead_confirmation"] = ("tools/seedcheck.sh: fresh worktree of /repo HEAD; demo passes without / fails with the patch; "
                          "touched packages' existing tests pass with the patch; checks run with VERIF_REPO pointing at the patched worktree (quick, seed 1)")
json.dump(m, open(p, "w"), indent=1)
