#!/bin/bash
# tools/sweep.sh "<ids>" "<seeds>" [tier]  - run checks over seeds, print one line per run
ids="$1"; seeds="$2"; tier="${3:-quick}"
for s in $seeds; do for p in $ids; do
  out=$(VERIF_SEED=$s VERIF_PAR=${VERIF_PAR:-8} ./check $p --tier $tier 2>&1); rc=$?
  echo "SWEEP $p seed=$s tier=$tier rc=$rc $(echo "$out" | grep -E '^evidence' | cut -c1-120)"
  if [ $rc -ne 0 ]; then echo "$out" | grep -v "^KNOWN" | head -60 | cut -c1-600; fi
done; done
