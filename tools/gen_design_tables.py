#!/usr/bin/env python3
"""Regenerate the machine-written tables of DESIGN.md (between <!-- AUTO:x --> markers)."""
import json, os, re, glob, sys
V = os.path.dirname(os.path.dirname(os.path.abspath(__file__)))
sys.path.insert(0, os.path.join(V, "lib"))
import props

def findings():
    d = json.load(open(os.path.join(V, "known_findings.json")))
    out = ["| key | status | commit | what fails |", "|---|---|---|---|"]
    for f in d["findings"]:
        out.append("| `%s` | %s | %s | %s |" % (f["key"], f["status"], f.get("commit", ""), f["what"].replace("|", "/")))
    return "\n".join(out)

def status():
    ready = set(open(os.path.join(V, "lib", "ready.txt")).read().split())
    out = ["| id | claimed | level | quick jobs (pkg: tests x cases x shards) | notes |", "|---|---|---|---|---|"]
    for i in range(1, 21):
        pid = "C%02d" % i
        cfg = props.PROPS.get(pid)
        if not cfg:
            out.append("| %s | no | - | - | not built |" % pid); continue
        jobs = "; ".join("%s: %s x%s x%s" % (j["pkg"].replace("mod:github.com/lightningnetwork/lnd/", ""), "+".join(t.replace("TestVerif", "") for t in j.get("tests", [])) or j["run"], j.get("checks"), j.get("shards", 1)) for j in cfg["jobs"]["quick"])
        note = "notes/%s.md" % pid if os.path.exists(os.path.join(V, "notes", pid + ".md")) else "§7.3"
        out.append("| %s | %s | %s | %s | %s |" % (pid, "yes" if pid in ready else "no", cfg["level"], jobs, note))
    return "\n".join(out)

def mutants():
    out = ["| property | mutant | result | detail |", "|---|---|---|---|"]
    for f in sorted(glob.glob(os.path.join(V, "mutants", "results", "*.json"))):
        pid = os.path.basename(f)[:-5]
        for r in json.load(open(f)):
            out.append("| %s | %s | %s | %s |" % (pid, r["name"], r["result"], (r.get("detail") or "")[:160].replace("|", "/")))
    return "\n".join(out)

def seeded():
    out = ["| seeded change | property | needs | caught by | result |", "|---|---|---|---|---|"]
    for f in sorted(glob.glob(os.path.join(V, "seeded", "*", "meta.json"))):
        m = json.load(open(f))
        out.append("| %s | %s | %s | %s | %s |" % (os.path.basename(os.path.dirname(f)), m.get("property"), (m.get("needs") or "")[:140].replace("|", "/"), m.get("caught_by", ""), m.get("result", "")))
    return "\n".join(out)

gen = dict(findings=findings, status=status, mutants=mutants, seeded=seeded)
p = os.path.join(V, "DESIGN.md")
s = open(p).read()
for k, fn in gen.items():
    a, b = "<!-- AUTO:%s -->" % k, "<!-- /AUTO:%s -->" % k
    if a in s and b in s:
        s = s[:s.index(a) + len(a)] + "\n" + fn() + "\n" + s[s.index(b):]
open(p, "w").write(s)
