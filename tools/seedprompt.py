#!/usr/bin/env python3
# tools/seedprompt.py <property-id> <round-letter>  - print the brief for an independent seeding sub-agent
# (the property's text, the scratch worktree to use, the mechanisms earlier seeds of the property used).
import glob, json, os, sys
pid, rnd = sys.argv[1:3]
prop = None
for l in open("/verif/properties.jsonl"):
    p = json.loads(l)
    if p["id"] == pid:
        prop = p
sid = pid + rnd
wt = "/tmp/seedagent_%s" % sid
prev = []
for d in sorted(glob.glob("/verif/seeded/%s*" % pid)):
    try:
        m = json.load(open(os.path.join(d, "meta.json")))
    except Exception:
        continue
    if m.get("property") != pid:
        continue
    s = m.get("summary", "")
    prev.append("- files %s: %s" % (",".join(m.get("files", [])), s[:420].replace("\n", " ")))
anch = prop.get("anchors", {})
print("""You are helping to evaluate a verification effort for lnd (Lightning Network Daemon, Go). Your job is to play a
maintainer who introduces a subtle regression. You work ONLY in your own scratch git worktree of the lnd repository; create it with

    git -C /repo worktree add --detach %(wt)s HEAD

and work only inside %(wt)s. Never edit, build or test inside /repo itself, and do not read anything under /verif.
The sandbox is offline: always `export GOFLAGS=-mod=mod GOPROXY=off` before go commands (do NOT set GOSUMDB or
GOTOOLCHAIN). Other people use the machine at the same time (16 cores shared): run only the tests of the packages you
touch (`go test -count=1 ./pkg/`), never the whole suite; `go build ./...` is fine. htlcswitch tests need `-tags dev`;
invoices' TestInvoiceRegistry/TestInvoices need a postgres fixture that does not exist here and fail regardless.

THE PROPERTY (id %(pid)s) — "%(title)s":

%(stmt)s

Code it is anchored in: %(anch)s

TASK. Produce ONE change to lnd's non-test source (a small, plausible-looking edit a maintainer could make by mistake or as
a "clean-up"/"optimisation": an off-by-one, a wrong branch, a dropped field, swapped arguments, a missing re-read, a stale
cache, a lost persistence step, wrong rounding ...) such that
  1. the tree still compiles (`go build ./...`) and every EXISTING test of the packages you touched, and of the packages
     that directly use the changed code, still passes (run them; say which);
  2. the property above is violated by the changed code;
  3. the violation needs something SPECIFIC to manifest: a particular interleaving, a crash/restart or fault at a particular
     point, a multi-step sequence of operations, an unusual input or parameter combination, a particular channel type or
     backend, or two cooperating sites that each look fine alone. NOT something ordinary use would expose at once.
  4. you write a demonstration: a new Go test file (package-internal or external, your choice) that FAILS with your change
     and PASSES without it (verify both directions with `git apply -R` / `git apply`; NEVER use `git stash`: stashes are shared between all worktrees of the repository and other people are working in theirs), deterministic, runs in < 60 s.

Earlier rounds already used the mechanisms below for this property — choose a DIFFERENT mechanism, in a different function /
file where possible, and a different cell of the property's quantifier (another clause of the statement if it has several):
%(prev)s

Deliverables, all inside %(wt)s/SEED/ (create the directory):
  * patch.diff       — `git diff` of the non-test change only (must apply to /repo HEAD with `git apply`)
  * demo_test.go.txt — the demonstration test file's content, plus state in meta.json which package directory it goes in
  * meta.json        — {"property": "%(pid)s", "summary": "<what was changed and why it breaks the property>",
                        "needs": "<what is needed for the violation to manifest>", "files": [...],
                        "demo_pkg": "<package dir relative to repo root>", "demo_run": "<test name regex>",
                        "demo_tags": "<build tags needed or empty>", "existing_tests_run": ["<command -> result>", ...],
                        "demo_result_with_change": "...", "demo_result_without_change": "..."}
Leave the worktree in place (with your change applied) when you finish. NEVER run `go clean` (the Go build cache is shared
with other people's running builds); there is nothing else to clean up.
Your final reply: a 10-line summary (what, where, needs, demo name, tests run). Do not spend more than about 40 minutes;
if a candidate is killed by an existing test, pick another rather than weakening requirement 1.""" % dict(
    wt=wt, pid=pid, title=prop.get("title", ""), stmt=prop.get("statement", ""), anch=json.dumps(anch)[:900],
    prev="\n".join(prev) if prev else "(none)"))
