#!/bin/bash
# tools/seedingest.sh <seed-id> ["<check ids>"]  - take over what a seeding sub-agent left in /tmp/seedagent_<id>/SEED,
# drop its worktree, confirm the change in a fresh worktree (tools/seedcheck.sh) and run the given checks against it.
id=$1; checks=${2:-${id:0:3}}
A=/tmp/seedagent_$id
mkdir -p /verif/seeded/$id
if [ -d $A/SEED ]; then
  cp $A/SEED/patch.diff $A/SEED/demo_test.go.txt $A/SEED/meta.json /verif/seeded/$id/ || exit 2
fi
[ -d $A ] && git -C /repo worktree remove --force $A
S=/verif/seeded/$id
demopkg=$(python3 -c "import json;print(json.load(open('$S/meta.json'))['demo_pkg'].strip('./').rstrip('/'))")
demorun=$(python3 -c "import json;print(json.load(open('$S/meta.json'))['demo_run'])")
tags=$(python3 -c "import json;t=json.load(open('$S/meta.json')).get('demo_tags','');import re;m=re.search(r'\b(dev|test_db_sqlite|kvdb_sqlite)\b',t);print('-tags '+m.group(1) if m else '')")
pkgs=$(python3 -c "
import json,os
m=json.load(open('$S/meta.json'))
print(' '.join(sorted({'./'+os.path.dirname(f)+'/' for f in m['files']})))")
case "$pkgs" in *htlcswitch*) [ -z "$tags" ] && tags="-tags dev";; esac
echo "seed $id demo=$demopkg:$demorun tags='$tags' pkgs=$pkgs checks=$checks"
SEEDTAGS="$tags" /verif/tools/seedcheck.sh $id "$demopkg" "$demorun" "$pkgs" "$checks"
