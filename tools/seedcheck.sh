#!/bin/bash
# tools/seedcheck.sh <seed-id> <demo pkg dir> <demo run regex> "<pkgs to test>" "<check ids>"
# 1. confirm in a scratch worktree of /repo HEAD: patch applies, packages' tests pass, demo fails with / passes without
# 2. apply to /repo, run the given checks (quick), undo.
id=$1; demopkg=$2; demorun=$3; pkgs=$4; checks=$5
S=/verif/seeded/$id; WT=/tmp/seedwt_$id
export GOFLAGS=-mod=mod GOPROXY=off
git -C /repo worktree add -q --detach $WT HEAD || exit 2
cd $WT
if [ -z "$SEED_SKIP_CONFIRM" ]; then
cp $S/demo_test.go.txt $demopkg/zz_seed_demo_test.go
echo "== demo WITHOUT patch"; go test ${SEEDTAGS} -count=1 -run "$demorun" ./$demopkg/ 2>&1 | tail -3
git apply $S/patch.diff || { echo "patch does not apply"; }
echo "== demo WITH patch"; go test ${SEEDTAGS} -count=1 -run "$demorun" ./$demopkg/ 2>&1 | tail -4 | cut -c1-300
rm $demopkg/zz_seed_demo_test.go
echo "== existing tests WITH patch"; go build ./... && go test ${SEEDTAGS} -count=1 $pkgs 2>&1 | grep -E "^(ok|FAIL|---)" | head
fi
cd /verif
echo "== checks against the seeded change"
# The patched tree is the scratch worktree (VERIF_REPO), so that checks other
# people run against /repo at the same time are not disturbed. Without
# concurrency `git -C /repo apply` / `git -C /repo checkout -- .` is equivalent.
( cd $WT && git checkout -q -- . && git clean -fdq && git apply $S/patch.diff ) || echo "patch does not apply"
for c in $checks; do
  out=$(VERIF_REPO=$WT VERIF_EVIDENCE_DEV=1 VERIF_PAR=${VERIF_PAR:-8} ./check $c 2>&1); rc=$?
  echo "CHECK $c rc=$rc $(echo "$out" | grep -m1 -E 'rapid\] (failed|panic) after' | cut -c1-260)"
  [ $rc -eq 2 ] && echo "$out" | tail -5 | cut -c1-300
done
git -C /repo worktree remove --force $WT
git -C /repo status --short | head -3
