#!/usr/bin/env python3
"""Regenerates the C16 mutants under /dev/shm/mut/c16 (never touches /repo).
Usage: python3 /verif/notes/C16_mutants.py ; then
  ./check C16 --mutate payments/db/<file>=/dev/shm/mut/c16/<name>__<file>
"""
import os
R = '/repo/payments/db/'
OUT = '/dev/shm/mut/c16/'
os.makedirs(OUT, exist_ok=True)
LIST = []


def mut(name, src, old, new):
    s = open(R + src).read()
    assert s.count(old) == 1, (name, 'pattern count', s.count(old))
    s = s.replace(old, new, 1)
    open(OUT + '%s__%s' % (name, src), 'w').write(s)
    LIST.append((name, src))


# --- DESIGN sensitivity plan
mut('m01_registrable_ignores_settled', 'payment.go',
    '	if m.State.HasSettledHTLC {\n		return ErrPaymentPendingSettled',
    '	if false {\n		return ErrPaymentPendingSettled')
mut('m02_sentamt_skips_inflight', 'payment.go',
    '''		if h.Failure != nil {
			continue
		}

		// The attempt was not failed, meaning the amount was''',
    '''		if h.Settle == nil {
			continue
		}

		// The attempt was not failed, meaning the amount was''')
mut('m03_status_row_allfailed', 'payment_status.go',
    '	case htlcFailed:\n		return StatusInFlight, nil',
    '	case htlcFailed:\n		return StatusFailed, nil')
mut('m04_status_settled_and_failed', 'payment_status.go',
    '	case htlcSettled:\n		return StatusSucceeded, nil',
    '	case htlcSettled && !paymentFailed:\n		return StatusSucceeded, nil')
mut('m05_sql_init_sentinel', 'sql_store.go',
    '				return fmt.Errorf("payment is not "+\n					"initializable: %w", err)',
    '				return fmt.Errorf("payment is not "+\n					"initializable: %v", err)')
# --- own
mut('m06_kv_reinit_keeps_htlcs', 'kv_store.go',
    '''		err = bucket.DeleteNestedBucket(paymentHtlcsBucket)
		if err != nil && !errors.Is(err, kvdb.ErrBucketNotFound) {
			return err
		}''', '''		err = nil''')
mut('m07_exceeds_off_by_one', 'payment.go',
    '	if sentAmt+amt > payment.Info.Value {',
    '	if sentAmt+amt >= payment.Info.Value {')
mut('m08_removable_inflight', 'payment_status.go',
    '''	case StatusInFlight:
		return ErrPaymentInFlight

	// The payment has been attempted and is succeeded and is allowed to be''',
    '''	case StatusInFlight:
		return nil

	// The payment has been attempted and is succeeded and is allowed to be''')
mut('m09_kv_settle_after_fail', 'kv_store.go',
    '''		if htlcsBucket.Get(failKey) != nil {
			return ErrAttemptAlreadyFailed
		}''', '''		if htlcsBucket.Get(failKey) != nil && false {
			return ErrAttemptAlreadyFailed
		}''')
mut('m10_updatable_failed', 'payment_status.go',
    '	case StatusFailed:\n		return ErrPaymentAlreadyFailed',
    '	case StatusFailed:\n		return nil')
mut('m11_sql_deletepayments_ignores_failedonly', 'sql_store.go',
    '			if failedOnly && status != StatusFailed {',
    '			if false && status != StatusFailed {')
mut('m12_verify_against_all_htlcs', 'payment.go',
    '	for _, h := range payment.InFlightHTLCs() {\n		hMpp',
    '	for _, h := range payment.HTLCs {\n		hMpp')
mut('m13_initializable_succeeded', 'payment_status.go',
    '	case StatusSucceeded:\n		return ErrAlreadyPaid',
    '	case StatusSucceeded:\n		return nil')
mut('m14_kv_delfailed_deletes_settled', 'kv_store.go',
    '''		if h.Failure == nil {
			continue
		}

		htlcKeyBytes''', '''		if h.Failure == nil && h.Settle == nil {
			continue
		}

		htlcKeyBytes''')
mut('m15_registrable_ignores_failreason', 'payment.go',
    '	if m.State.PaymentFailed {\n		return ErrPaymentPendingFailed',
    '	if false {\n		return ErrPaymentPendingFailed')
mut('m16_sql_fail_keeps_first_reason', 'sql_store.go',
    '		result, err := db.FailPayment(ctx, sqlc.FailPaymentParams{',
    '''		if pre, perr := db.FetchPayment(ctx, paymentHash[:]); perr == nil && pre.Payment.FailReason.Valid {
			reason = FailureReason(pre.Payment.FailReason.Int32)
		}
		result, err := db.FailPayment(ctx, sqlc.FailPaymentParams{''')
mut('m17_kv_reinit_keeps_reason', 'kv_store.go',
    '''		return bucket.Delete(paymentFailInfoKey)
	})
	if err != nil {
		return fmt.Errorf("unable to init payment: %w", err)''',
    '''		return nil
	})
	if err != nil {
		return fmt.Errorf("unable to init payment: %w", err)''')
mut('m18_sql_mpp_total_dropped', 'sql_converters.go',
    '				lnwire.MilliSatoshi(hop.MppTotalMsat.Int64),',
    '				lnwire.MilliSatoshi(0),')
mut('m20_sql_settle_skips_status_check', 'sql_store.go',
    '''		if err := paymentStatus.updatable(); err != nil {
			return fmt.Errorf("payment is not updatable: %w", err)
		}

		err = db.SettleAttempt(''',
    '''		if err := paymentStatus.updatable(); err != nil && false {
			return fmt.Errorf("payment is not updatable: %w", err)
		}

		err = db.SettleAttempt(''')
mut('m21_sentamt_uses_total_amount', 'payment.go',
    '		sent += h.Route.ReceiverAmt()',
    '		sent += h.Route.TotalAmount')
with open(OUT + 'LIST', 'w') as fh:
    for n, s in LIST:
        fh.write('%s %s\n' % (n, s))
print(len(LIST), 'mutants in', OUT)
