#!/usr/bin/env python3
"""Regenerates the C17 parts 2/3 mutants under /dev/shm/mut/c17b (never
touches /repo) and optionally runs them.

  python3 /verif/notes/C17b_mutants.py            # generate only
  python3 /verif/notes/C17b_mutants.py run [name-prefix ...]

`run` executes, for every mutant, the quick-tier jobs of the named harness
test (`./check C17 --run <test> --mutate <file>=<mutant>`) and prints one
line per mutant: verdict, rapid cases until the first failure, wall seconds,
first line of the failure. Replay files written for the mutants are removed
again.
"""
import glob
import os
import re
import subprocess
import sys
import time

R = '/repo/'
OUT = '/dev/shm/mut/c17b/'
os.makedirs(OUT, exist_ok=True)
LIST = []  # (name, repo file, harness test)

NEG = 'TestVerifC17Negotiation'
RBF = 'TestVerifC17RbfCoop'


def mut(name, src, test, subs):
    s = open(R + src).read()
    for old, new in subs:
        assert s.count(old) == 1, (name, 'pattern count', s.count(old), old)
        s = s.replace(old, new, 1)
    open(OUT + name + '.go', 'w').write(s)
    LIST.append((name, src, test))


cc = 'lnwallet/chancloser/chancloser.go'
tr = 'lnwallet/chancloser/rbf_coop_transitions.go'
stt = 'lnwallet/chancloser/rbf_coop_states.go'

# ---- DESIGN sensitivity plan -------------------------------------------------
CREDIT = ('''	if isInitiator {
		ourBalance += initiatorDelta
	} else {
		theirBalance += initiatorDelta
	}''', '''	if !isInitiator {
		ourBalance += initiatorDelta
	} else {
		theirBalance += initiatorDelta
	}''')
DUST = [('haveLocalOutput := ourBalance >= localDust',
         'haveLocalOutput := ourBalance >= remoteDust'),
        ('haveRemoteOutput := theirBalance >= remoteDust',
         'haveRemoteOutput := theirBalance >= localDust')]
mut('d1n_credit_nonopener', 'lnwallet/commitment.go', NEG, [CREDIT])
mut('d1r_credit_nonopener', 'lnwallet/commitment.go', RBF, [CREDIT])
mut('d2n_dust_other_party', 'lnwallet/channel.go', NEG, DUST)
mut('d2r_dust_other_party', 'lnwallet/channel.go', RBF, DUST)
TRIM = [('haveRemoteOutput := theirBalance >= remoteDust',
         'haveRemoteOutput := theirBalance > remoteDust'),
        ('haveLocalOutput := ourBalance >= localDust',
         'haveLocalOutput := ourBalance > localDust')]
mut('d4n_trim_off_by_one', 'lnwallet/channel.go', NEG, TRIM)
mut('d4r_trim_off_by_one', 'lnwallet/channel.go', RBF, TRIM)
mut('d3_accept_band_3pct', cc, NEG, [
    ('acceptableRange := localFee + ((localFee * 3) / 10)',
     'acceptableRange := localFee + ((localFee * 3) / 100)'),
    ('acceptableRange := localFee - ((localFee * 3) / 10)',
     'acceptableRange := localFee - ((localFee * 3) / 100)')])

# ---- own: legacy negotiation (chancloser.go) -----------------------------------
mut('m4_cap_off_by_one', cc, NEG, [
    ('if c.cfg.Channel.IsInitiator() && proposal > c.maxFee {',
     'if c.cfg.Channel.IsInitiator() && proposal >= c.maxFee {')])
mut('m5_ratchet_wrong_dir', cc, NEG, [
    ('		return ratchetFee(lastSentFee, false)',
     '		return ratchetFee(lastSentFee, true)')])
mut('m6_stale_last_proposal', cc, NEG, [('	c.lastFeeProposal = fee\n', '')])
mut('m7_drop_cached_offer', cc, NEG, [
    ('		c.cachedClosingSigned = fn.Some(msg)\n', '')])
mut('m8_cap_check_dropped', cc, NEG, [
    ('if c.cfg.Channel.IsInitiator() && proposal > c.maxFee {',
     'if false && proposal > c.maxFee {')])
mut('m9_maxfee_ignored', cc, NEG, [
    ('	if c.cfg.MaxFee > 0 {', '	if c.cfg.MaxFee > 0 && false {')])
mut('m10_accept_band_inverted', cc, NEG, [
    ('''		acceptableRange := localFee + ((localFee * 3) / 10)
		return remoteFee <= acceptableRange''',
     '''		acceptableRange := localFee + ((localFee * 3) / 10)
		return remoteFee >= acceptableRange''')])
mut('m11_complete_with_own_last_fee', cc, NEG, [
    ('''			c.remoteDeliveryScript, remoteProposedFee, closeOpts...,
		)
		if err != nil {
			return noClosing, err
		}
		c.closingTx = closeTx''',
     '''			c.remoteDeliveryScript, c.lastFeeProposal, closeOpts...,
		)
		if err != nil {
			return noClosing, err
		}
		c.closingTx = closeTx''')])
mut('m12_ratchet_1pct', cc, NEG, [
    ('		return fee + ((fee * 1) / 10)', '		return fee + ((fee * 1) / 100)'),
    ('	return fee - ((fee * 1) / 10)', '	return fee - ((fee * 1) / 100)')])
mut('m13_responder_ignores_own_ideal', cc, NEG, [
    ('	case ourIdealFee == remoteFee || lastSentFee == 0:\n		return ourIdealFee',
     '	case ourIdealFee == remoteFee || lastSentFee == 0:\n		return remoteFee + remoteFee/2')])
mut('m14_scripts_swapped_on_propose', cc, NEG, [
    ('''	rawSig, _, _, err := c.cfg.Channel.CreateCloseProposal(
		fee, c.localDeliveryScript, c.remoteDeliveryScript,''',
     '''	rawSig, _, _, err := c.cfg.Channel.CreateCloseProposal(
		fee, c.remoteDeliveryScript, c.localDeliveryScript,''')])

# ---- own: RBF state machine -----------------------------------------------------
mut('r1_closer_payer_remote', tr, RBF, [
    ('''		closeOpts = append(closeOpts,
			lnwallet.WithCustomSequence(mempool.MaxRBFSequence),
			lnwallet.WithCustomPayer(lntypes.Local),
		)

		// For taproot channels, we need to use the LocalMusigSession
		// for signing when we're the closer''',
     '''		closeOpts = append(closeOpts,
			lnwallet.WithCustomSequence(mempool.MaxRBFSequence),
			lnwallet.WithCustomPayer(lntypes.Remote),
		)

		// For taproot channels, we need to use the LocalMusigSession
		// for signing when we're the closer''')])
mut('r2_opener_always_pays', tr, RBF, [
    # both halves drop the custom payer: both sides build the same tx again,
    # signatures verify, but the channel opener pays instead of the closer.
    ('''		closeOpts = append(closeOpts,
			lnwallet.WithCustomSequence(mempool.MaxRBFSequence),
			lnwallet.WithCustomPayer(lntypes.Local),
		)

		// For taproot channels, we need to use the LocalMusigSession
		// for signing when we're the closer''',
     '''		closeOpts = append(closeOpts,
			lnwallet.WithCustomSequence(mempool.MaxRBFSequence),
			lnwallet.WithCustomPayer(vc17MutPayer(env, lntypes.Local)),
		)

		// For taproot channels, we need to use the LocalMusigSession
		// for signing when we're the closer'''),
    ('''		closeOpts = append(closeOpts,
			lnwallet.WithCustomSequence(mempool.MaxRBFSequence),
			lnwallet.WithCustomPayer(lntypes.Local),
		)

		// For taproot channels, update NonceState with the new nonce''',
     '''		closeOpts = append(closeOpts,
			lnwallet.WithCustomSequence(mempool.MaxRBFSequence),
			lnwallet.WithCustomPayer(vc17MutPayer(env, lntypes.Local)),
		)

		// For taproot channels, update NonceState with the new nonce'''),
    ('''			lnwallet.WithCustomLockTime(msg.SigMsg.LockTime),
			lnwallet.WithCustomPayer(lntypes.Remote),
		}''',
     '''			lnwallet.WithCustomLockTime(msg.SigMsg.LockTime),
			lnwallet.WithCustomPayer(vc17MutPayer(env, lntypes.Remote)),
		}'''),
    ('''// SigType represents either a regular or taproot signature.''',
     '''// vc17MutPayer (mutant): the channel opener pays whoever closes.
func vc17MutPayer(env *Environment, closer lntypes.ChannelParty,
) lntypes.ChannelParty {

	ch, ok := env.CloseSigner.(*lnwallet.LightningChannel)
	if !ok {
		return closer
	}
	if ch.IsInitiator() {
		return lntypes.Local
	}

	return lntypes.Remote
}

// SigType represents either a regular or taproot signature.''')])
mut('r3_can_pay_strict', stt, RBF, [
    ('	return c.LocalBalance.ToSatoshis() >= absoluteFee',
     '	return c.LocalBalance.ToSatoshis() > absoluteFee')])
mut('r4_noclosee_from_local', tr, RBF, [
    ('		case remoteTxOut == nil:\n			noClosee = true',
     '		case localTxOut == nil:\n			noClosee = true')])
mut('r5_ideal_rate_dropped', tr, RBF, [
    ('		idealFeeRate := c.IdealFeeRate.UnwrapOr(env.DefaultFeeRate)',
     '		idealFeeRate := env.DefaultFeeRate')])
mut('r6_early_offer_lost', tr, RBF, [
    ('''		// If we received a remote offer early from the remote party,
		// then we'll add that to the set of internal events to emit.
		c.EarlyRemoteOffer.WhenSome(func(offer OfferReceivedEvent) {
			internalEvents = append(internalEvents, &offer)
		})''', '')])
mut('r7_closee_signs_other_fee', tr, RBF, [
    ('''		wireSig, localSig, err := createLocalCloseeSignature(
			env, msg.SigMsg.FeeSatoshis, l.LocalDeliveryScript,''',
     '''		wireSig, localSig, err := createLocalCloseeSignature(
			env, msg.SigMsg.FeeSatoshis+1, l.LocalDeliveryScript,''')])
# (RemoteAmtIsDust is dead code; the closee's own predicate is the live one.)
mut('r8_local_dust_uses_remote_script', stt, RBF, [
    ('''	return c.LocalBalance.ToSatoshis() < lnwallet.DustLimitForSize(
		len(c.LocalDeliveryScript),''',
     '''	return c.LocalBalance.ToSatoshis() < lnwallet.DustLimitForSize(
		len(c.RemoteDeliveryScript),''')])
mut('r12_local_dust_off_by_one', stt, RBF, [
    ('''	return c.LocalBalance.ToSatoshis() < lnwallet.DustLimitForSize(
		len(c.LocalDeliveryScript),''',
     '''	return c.LocalBalance.ToSatoshis() <= lnwallet.DustLimitForSize(
		len(c.LocalDeliveryScript),''')])
mut('r9_rbf_bump_reuses_old_rate', tr, RBF, [
    ('''	case *SendOfferEvent:
		return &CloseStateTransition{
			NextState: &LocalCloseStart{
				CloseChannelTerms: c.CloseChannelTerms,
			},
			NewEvents: fn.Some(protofsm.EmittedEvent[ProtocolEvent]{
				InternalEvent: []ProtocolEvent{msg},
			}),
		}, nil

	// If we get an offer received event, then we're doing a state
	// transition to the RemoteCloseStart, as the remote peer wants to sign
	// a new closing tx.
	case *OfferReceivedEvent:
		return &CloseStateTransition{
			NextState: &RemoteCloseStart{
				CloseChannelTerms: c.CloseChannelTerms,
			},
			NewEvents: fn.Some(protofsm.EmittedEvent[ProtocolEvent]{
				InternalEvent: []ProtocolEvent{msg},
			}),
		}, nil

	default:

		return &CloseStateTransition{''',
     '''	case *SendOfferEvent:
		return &CloseStateTransition{
			NextState: &LocalCloseStart{
				CloseChannelTerms: c.CloseChannelTerms,
			},
			NewEvents: fn.Some(protofsm.EmittedEvent[ProtocolEvent]{
				InternalEvent: []ProtocolEvent{&SendOfferEvent{
					TargetFeeRate: c.FeeRate,
				}},
			}),
		}, nil

	// If we get an offer received event, then we're doing a state
	// transition to the RemoteCloseStart, as the remote peer wants to sign
	// a new closing tx.
	case *OfferReceivedEvent:
		return &CloseStateTransition{
			NextState: &RemoteCloseStart{
				CloseChannelTerms: c.CloseChannelTerms,
			},
			NewEvents: fn.Some(protofsm.EmittedEvent[ProtocolEvent]{
				InternalEvent: []ProtocolEvent{msg},
			}),
		}, nil

	default:

		return &CloseStateTransition{''')])
mut('r10_scripts_swapped_in_flushing', tr, RBF, [
    ('''					LocalDeliveryScript:  s.LocalDeliveryScript, //nolint:ll
					RemoteDeliveryScript: msg.ShutdownScript,    //nolint:ll''',
     '''					LocalDeliveryScript:  msg.ShutdownScript,    //nolint:ll
					RemoteDeliveryScript: s.LocalDeliveryScript, //nolint:ll''')])
mut('r11_rbf_sequence_final', tr, RBF, [
    ('''		closeOpts = append(closeOpts,
			lnwallet.WithCustomSequence(mempool.MaxRBFSequence),
			lnwallet.WithCustomPayer(lntypes.Local),
		)

		// For taproot channels, we need to use the LocalMusigSession
		// for signing when we're the closer''',
     '''		closeOpts = append(closeOpts,
			lnwallet.WithCustomSequence(wire.MaxTxInSequenceNum),
			lnwallet.WithCustomPayer(lntypes.Local),
		)

		// For taproot channels, we need to use the LocalMusigSession
		// for signing when we're the closer'''),
    ('''		closeOpts = append(closeOpts,
			lnwallet.WithCustomSequence(mempool.MaxRBFSequence),
			lnwallet.WithCustomPayer(lntypes.Local),
		)

		// For taproot channels, update NonceState with the new nonce''',
     '''		closeOpts = append(closeOpts,
			lnwallet.WithCustomSequence(wire.MaxTxInSequenceNum),
			lnwallet.WithCustomPayer(lntypes.Local),
		)

		// For taproot channels, update NonceState with the new nonce'''),
    ('''		chanOpts := []lnwallet.ChanCloseOpt{
			lnwallet.WithCustomSequence(mempool.MaxRBFSequence),''',
     '''		chanOpts := []lnwallet.ChanCloseOpt{
			lnwallet.WithCustomSequence(wire.MaxTxInSequenceNum),''')])


def run(selected):
    os.chdir('/verif')
    env = dict(os.environ, VERIF_PAR=os.environ.get('VERIF_PAR', '4'))
    for name, src, test in LIST:
        if selected and not any(name.startswith(p) for p in selected):
            continue
        before = set(glob.glob('/verif/replays/C17/*'))
        dirty0 = subprocess.run(['git', '-C', '/repo', 'status', '--short'],
                                stdout=subprocess.PIPE, text=True).stdout
        t0 = time.time()
        pr = subprocess.run(
            ['./check', 'C17', '--run', '^%s$' % test, '--mutate',
             '%s=%s%s.go' % (src, OUT, name)],
            env=env, stdout=subprocess.PIPE, stderr=subprocess.STDOUT,
            text=True)
        wall = time.time() - t0
        out = pr.stdout
        for f in set(glob.glob('/verif/replays/C17/*')) - before:
            os.remove(f)
        verdict = 'CAUGHT' if 'VIOLATION' in out else (
            'MISSED' if re.search(r'^OK property', out, re.M) else 'OTHER')
        m = re.search(r'failed after (\d+) tests: (.*)', out)
        built = re.search(r'built \S+ in (\d+)s', out)
        after, first = (m.group(1), m.group(2)[:230]) if m else ('-', '')
        dirty1 = subprocess.run(['git', '-C', '/repo', 'status', '--short'],
                                stdout=subprocess.PIPE, text=True).stdout
        if dirty0.strip() or dirty1.strip():
            # somebody else's seeded patch was in /repo during the run
            verdict += '(REPO_DIRTY)'
        if verdict == 'OTHER':
            first = out.strip().splitlines()[-1][:230] if out.strip() else ''
        print('%-34s %-7s cases_to_fail=%-4s wall=%3ds (build %ss)  %s' % (
            name, verdict, after, wall, built.group(1) if built else '?',
            first), flush=True)


if __name__ == '__main__':
    if len(sys.argv) > 1 and sys.argv[1] == 'run':
        run(sys.argv[2:])
    else:
        for n, s, t in LIST:
            print(n, s, t)
