#!/usr/bin/env python3
"""Regenerates (and optionally runs) the mutants for TestVerifC09Intercepted
under /dev/shm/mut_C09y (never touches /repo).

Usage:
  python3 notes/C09_intercept_mutants.py            # only write the files
  python3 notes/C09_intercept_mutants.py run [name] # write + run each in the
      quick-tier size of the Intercepted job and print a result table
Manual: ./check C09 --run '^TestVerifC09Intercepted$' \
      --mutate <path in repo>=/dev/shm/mut_C09y/<name>__<file>
"""
import os
import re
import subprocess
import sys
import time

R = '/repo/'
HERE = os.path.dirname(os.path.dirname(os.path.abspath(__file__)))
OUT = '/dev/shm/mut_C09y/'
os.makedirs(OUT, exist_ok=True)
LIST = []

IS = 'htlcswitch/interceptable_switch.go'
SW = 'htlcswitch/switch.go'
HS = 'htlcswitch/held_htlc_set.go'


def mut(name, src, old, new, count=1):
    s = open(R + src).read()
    assert s.count(old) >= count, (name, 'pattern count', s.count(old))
    idx = -1
    for _ in range(count):
        idx = s.index(old, idx + 1)
    s = s[:idx] + new + s[idx + len(old):]
    dst = OUT + '%s__%s' % (name, os.path.basename(src))
    open(dst, 'w').write(s)
    LIST.append((name, src, dst))


# x00: the seeded regression C09d (htlcPacket.amount keeps the onion amount).
mut('x00_seed_C09d', IS,
    '''		outAmountMsat.WhenSome(func(amount lnwire.MilliSatoshi) {
			f.packet.amount = amount
			htlc.Amount = amount
		})
''',
    '''		// The packet's amount always mirrors the amount of the wire
		// message that it carries.
		f.packet.amount = htlc.Amount

		outAmountMsat.WhenSome(func(amount lnwire.MilliSatoshi) {
			htlc.Amount = amount
		})
''')

# x01: mirror image of the seed: the decision sees the new amount, the wire
# keeps the onion's.
mut('x01_out_override_not_on_wire', IS,
    '''			f.packet.amount = amount
			htlc.Amount = amount
''',
    '''			f.packet.amount = amount
''')

# x02: incoming override not applied to packet.incomingAmount.
mut('x02_in_override_dropped', IS,
    '''	inAmountMsat.WhenSome(func(amount lnwire.MilliSatoshi) {
		f.packet.incomingAmount = amount
	})
''',
    '''	inAmountMsat.WhenSome(func(amount lnwire.MilliSatoshi) {
		_ = amount
	})
''')

# x03: incoming override only applied when it lowers the amount.
mut('x03_in_override_only_lowers', IS,
    '''		f.packet.incomingAmount = amount
''',
    '''		if amount < f.packet.incomingAmount {
			f.packet.incomingAmount = amount
		}
''')

# x04: custom records override dropped.
mut('x04_records_override_dropped', IS,
    '''		htlc.CustomRecords = htlc.CustomRecords.MergedCopy(
			validatedRecords,
		)
''',
    '''		htlc.CustomRecords = htlc.CustomRecords.MergedCopy(nil)
''')

# x05: custom records: existing values win over the modifier's.
mut('x05_records_existing_win', IS,
    '''		htlc.CustomRecords = htlc.CustomRecords.MergedCopy(
			validatedRecords,
		)
''',
    '''		htlc.CustomRecords = validatedRecords.MergedCopy(
			htlc.CustomRecords,
		)
''')

# x06: too-soon check off by one.
mut('x06_too_soon_off_by_one', IS,
    '''	if incomingTimeout >= height+s.cltvInterceptDelta {''',
    '''	if incomingTimeout > height+s.cltvInterceptDelta {''')

# x07: too-soon check uses the reject delta instead of the intercept delta.
mut('x07_too_soon_uses_reject_delta', IS,
    '''	if incomingTimeout >= height+s.cltvInterceptDelta {''',
    '''	if incomingTimeout >= height+s.cltvRejectDelta {''')

# x08: auto-fail of a held htlc one block late.
mut('x08_auto_fail_one_block_late', HS,
    '''	if h.autoFailHeight > height {''',
    '''	if h.autoFailHeight >= height {''')

# x09: released forwards stay in the held set (a later resolution forwards /
# answers them a second time).
mut('x09_release_keeps_entry', HS,
    '''			continue
		}

		delete(h.set, key)
	}

	return errs
}''',
    '''			continue
		}
	}

	return errs
}''')

# x10: a successful resolution keeps the entry (resolvable twice).
mut('x10_resolve_keeps_entry', HS,
    '''	if err := entry.resolve(res); err != nil {
		return err
	}

	delete(h.set, res.Key)
''',
    '''	if err := entry.resolve(res); err != nil {
		return err
	}
''')

# x11: a failed forward is reported for the wrong circuit.
mut('x11_fail_wrong_circuit', SW,
    '''		incomingHTLCID:  packet.incomingHTLCID,
		outgoingChanID:  packet.outgoingChanID,
		outgoingHop:     packet.outgoingHop,
		outgoingHTLCID:  packet.outgoingHTLCID,
		incomingAmount:  packet.incomingAmount,''',
    '''		incomingHTLCID:  packet.incomingHTLCID + 1,
		outgoingChanID:  packet.outgoingChanID,
		outgoingHop:     packet.outgoingHop,
		outgoingHTLCID:  packet.outgoingHTLCID,
		incomingAmount:  packet.incomingAmount,''')

# x12: interceptor-required mode: replay / new packet logic inverted.
mut('x12_require_replay_inverted', IS,
    '''		if !isReplay {
			err := fwd.FailWithCode(''',
    '''		if isReplay {
			err := fwd.FailWithCode(''')

# x13: disconnect releases held htlcs although an interceptor is required.
mut('x13_require_releases', IS,
    '''	if s.requireInterceptor {
		log.Infof("Interceptor disconnected, retaining held packets")

		return
	}
''',
    '''	if s.requireInterceptor && len(s.heldHtlcSet.set) > 1 {
		log.Infof("Interceptor disconnected, retaining held packets")

		return
	}
''')

# x14: Resume of a held packet loses the inbound fee (packet rebuilt).
mut('x14_resume_loses_inbound_fee', IS,
    '''	return f.htlcSwitch.ForwardPackets(nil, f.packet)
}

// ResumeModified''',
    '''	f.packet.inboundFee = models.InboundFee{}

	return f.htlcSwitch.ForwardPackets(nil, f.packet)
}

// ResumeModified''')

# x15: the auto-fail height handed to the interceptor / the held set is
# computed from the intercept delta instead of the reject delta.
mut('x15_auto_fail_height_uses_intercept_delta', IS,
    '''			autoFailHeight: int32(packet.incomingTimeout -
				s.cltvRejectDelta),''',
    '''			autoFailHeight: int32(packet.incomingTimeout -
				s.cltvInterceptDelta),''')

# x16: ResumeModified with an out amount also overwrites the incoming amount
# the node accounts (fee check always passes).
mut('x16_out_override_sets_incoming', IS,
    '''			f.packet.amount = amount
			htlc.Amount = amount
''',
    '''			f.packet.amount = amount
			htlc.Amount = amount
			if f.packet.incomingAmount < amount {
				f.packet.incomingAmount = amount
			}
''')

# x17: Settle no longer checks the preimage against the payment hash.
mut('x17_settle_skips_preimage_check', IS,
    '''	if !preimage.Matches(f.htlc.PaymentHash) {
		return errors.New("preimage does not match hash")
	}
''',
    '''''')


def run(names):
    rows = []
    for name, src, dst in LIST:
        if names and name not in names:
            continue
        t0 = time.time()
        p = subprocess.run(
            ['./check', 'C09', '--run', '^TestVerifC09Intercepted$',
             '--verbose', '--mutate', '%s=%s' % (src, dst)],
            cwd=HERE, stdout=subprocess.PIPE, stderr=subprocess.STDOUT,
            text=True)
        out = p.stdout
        ns = [int(x) for x in re.findall(r'failed after (\d+) tests', out)]
        shards = len(re.findall(r'^--- FAIL: TestVerifC09Intercepted',
                                out, re.M))
        m = re.search(r'failed after \d+ tests: (C09 Intercepted: [^\n]*)',
                      out)
        msg = m.group(1)[:170] if m else ''
        if 'build failed' in out or 'FAIL' not in out and p.returncode:
            msg = 'BUILD/OTHER: ' + out[-300:]
        rows.append((name, p.returncode, min(ns) if ns else None, shards,
                     round(time.time() - t0), msg))
        print(rows[-1], flush=True)
    return rows


if __name__ == '__main__':
    if len(sys.argv) > 1 and sys.argv[1] == 'run':
        run(set(sys.argv[2:]))
    else:
        for name, src, dst in LIST:
            print('%s  %s=%s' % (name, src, dst))
