#!/usr/bin/env python3
"""Regenerates the mutants for TestVerifC16ControlTower under
/dev/shm/mut_C16x (never touches /repo).
Usage: python3 notes/C16_tower_mutants.py ; then
  ./check C16 --run '^TestVerifC16ControlTower$' \
      --mutate <path in repo>=/dev/shm/mut_C16x/<name>__<file>
"""
import os
R = '/repo/'
OUT = '/dev/shm/mut_C16x/'
os.makedirs(OUT, exist_ok=True)
LIST = []

CT = 'routing/control_tower.go'


def mut(name, src, old, new, count=1):
    s = open(R + src).read()
    assert s.count(old) >= count, (name, 'pattern count', s.count(old))
    # replace the count-th occurrence only
    idx = -1
    for _ in range(count):
        idx = s.index(old, idx + 1)
    s = s[:idx] + new + s[idx + len(old):]
    dst = OUT + '%s__%s' % (name, os.path.basename(src))
    open(dst, 'w').write(s)
    LIST.append((name, src, dst))


LOCK = '''	p.paymentsMtx.Lock(paymentHash)
	defer p.paymentsMtx.Unlock(paymentHash)

'''

# occurrences of LOCK in file order: InitPayment(1) RegisterAttempt(2)
# SettleAttempt(3) FailAttempt(4) FailPayment(5) SubscribePayment(6)
mut('t01_register_no_lock', CT, LOCK, '', 2)
mut('t02_settle_no_lock', CT, LOCK, '', 3)
mut('t03_failpayment_no_lock', CT, LOCK, '', 5)
mut('t04_subscribe_no_lock', CT, LOCK, '', 6)
mut('t05_init_fetch_outside_lock', CT,
    '''	// Take lock before querying the db to prevent missing or duplicating
	// an update.
	p.paymentsMtx.Lock(paymentHash)
	defer p.paymentsMtx.Unlock(paymentHash)

	payment, err := p.db.FetchPayment(ctx, paymentHash)
	if err != nil {
		return err
	}
''',
    '''	payment, err := p.db.FetchPayment(ctx, paymentHash)
	if err != nil {
		return err
	}

	p.paymentsMtx.Lock(paymentHash)
	defer p.paymentsMtx.Unlock(paymentHash)
''')
mut('t06_terminal_keeps_subscribers', CT,
    '''	if terminal {
		delete(p.subscribers, paymentHash)
	}''',
    '''	if terminal {
	}''')
mut('t07_terminal_stream_not_closed', CT,
    '''			if terminal {
				close(subscriber.queue.ChanIn())
			}''',
    '''			if false {
				close(subscriber.queue.ChanIn())
			}''')
mut('t08_subscribe_terminated_registers', CT,
    '	if !payment.Terminated() {\n		p.subscribersMtx.Lock()',
    '	if true {\n		p.subscribersMtx.Lock()')
mut('t09_init_no_notify', CT,
    '''	p.notifySubscribers(paymentHash, payment)

	return nil
}

// DeleteFailedAttempts deletes all failed htlcs if the payment was''',
    '''	_ = payment

	return nil
}

// DeleteFailedAttempts deletes all failed htlcs if the payment was''')
mut('t10_failattempt_no_notify', CT,
    '''	// Notify subscribers of failed attempt.
	p.notifySubscribers(paymentHash, payment)
''',
    '''	// Notify subscribers of failed attempt.
''')
mut('t11_notify_skips_all_subscribers_when_hash_subscribed', CT,
    '''	subscribersAllPayments := make(map[uint64]*controlTowerSubscriberImpl)
	for k, v := range p.subscribersAllPayments {''',
    '''	subscribersAllPayments := make(map[uint64]*controlTowerSubscriberImpl)
	for k, v := range p.subscribersAllPayments {
		if ok {
			break
		}''')
mut('t12_settle_returns_before_notify_on_success', CT,
    '''	// Notify subscribers of success event.
	p.notifySubscribers(paymentHash, payment)
''',
    '''	// Notify subscribers of success event.
	if !payment.Terminated() {
		p.notifySubscribers(paymentHash, payment)
	}
''')
mut('t13_subscribe_appends_before_first_update', CT,
    '''	subscriber := newControlTowerSubscriber()

	// Always write current payment state to the channel.
	subscriber.queue.ChanIn() <- payment

	// Payment is currently in flight.''',
    '''	subscriber := newControlTowerSubscriber()

	// Payment is currently in flight.''')

mut('t14_subscribe_appends_without_subscribers_mutex', CT,
    '''		p.subscribersMtx.Lock()
		p.subscribers[paymentHash] = append(
			p.subscribers[paymentHash], subscriber,
		)
		p.subscribersMtx.Unlock()''',
    '''		p.subscribers[paymentHash] = append(
			p.subscribers[paymentHash], subscriber,
		)''')
mut('t15_init_swallows_refusal', CT,
    '''	err := p.db.InitPayment(ctx, paymentHash, info)
	if err != nil {
		return err
	}''',
    '''	err := p.db.InitPayment(ctx, paymentHash, info)
	if err != nil && err != paymentsdb.ErrPaymentExists {
		return err
	}''')

# store-level mutants seen through the tower (linearizability / invariants)
mut('s01_registrable_ignores_settled', 'payments/db/payment.go',
    '	if m.State.HasSettledHTLC {\n		return ErrPaymentPendingSettled',
    '	if false {\n		return ErrPaymentPendingSettled')
mut('s02_exceeds_off_by_one', 'payments/db/payment.go',
    '	if sentAmt+amt > payment.Info.Value {',
    '	if sentAmt+amt >= payment.Info.Value {')
mut('s03_initializable_allows_succeeded', 'payments/db/payment_status.go',
    '	case StatusSucceeded:\n		return ErrAlreadyPaid',
    '	case StatusSucceeded:\n		return nil')
mut('s04_initializable_allows_inflight', 'payments/db/payment_status.go',
    '	case StatusInFlight:\n		return ErrPaymentInFlight\n\n	// The payment has been attempted and is succeeded so',
    '	case StatusInFlight:\n		return nil\n\n	// The payment has been attempted and is succeeded so')

if __name__ == '__main__':
    for name, src, dst in LIST:
        print('%s=%s' % (src, dst))
