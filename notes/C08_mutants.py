#!/usr/bin/env python3
"""Sensitivity mutants for C08. Builds each mutant from the CURRENT /repo files
(textual replacements, asserted to match exactly once) into /dev/shm/mut/c08/,
runs `./check C08 --mutate ...` (quick tier) and prints a table.

  python3 notes/C08_mutants.py            # all
  python3 notes/C08_mutants.py M4 M6      # selected
  python3 notes/C08_mutants.py --build    # only write the mutated files

Nothing is written under /repo or /verif; remove /dev/shm/mut/c08 afterwards.
"""
import os
import re
import subprocess
import sys
import time

REPO = "/repo"
OUT = "/dev/shm/mut/c08"

LINK = "htlcswitch/link.go"
SWITCH = "htlcswitch/switch.go"
CMAP = "htlcswitch/circuit_map.go"
CHAN = "lnwallet/channel.go"

M = {}

# The defect this check found (fixed in /repo by 8a20947): processRemoteAdds
# indexes a partially acked forwarding package with positions of the unacked
# subset. The mutant is the pre-fix file.
PREFIX_COMMIT = "9270a21"
M["M0_prefix_fwdpkg_index_shift"] = "git:%s:htlcswitch/link.go" % PREFIX_COMMIT

# DESIGN #1: settle upstream on receipt of the downstream add's ack. Bob cannot
# know the preimage, so the mutant cheats: every link registers its invoice
# registry in a package-level set and the outgoing link looks the preimage up
# there when the peer's revoke_and_ack arrives.
M["M1_settle_upstream_on_add_ack"] = [
    (LINK, "func NewChannelLink(cfg ChannelLinkConfig,",
     "var verifMutRegs sync.Map\nvar verifMutAdds sync.Map\n\n"
     "func NewChannelLink(cfg ChannelLinkConfig,"),
    (LINK, "\tlogPrefix := fmt.Sprintf(\"ChannelLink(%v):\", channel.ChannelPoint())\n",
     "\tverifMutRegs.Store(cfg.Registry, struct{}{})\n"
     "\tlogPrefix := fmt.Sprintf(\"ChannelLink(%v):\", channel.ChannelPoint())\n"),
    (LINK, "\tpkt.outgoingChanID = l.ShortChanID()\n\tpkt.outgoingHTLCID = index\n\thtlc.ID = index\n",
     "\tpkt.outgoingChanID = l.ShortChanID()\n\tpkt.outgoingHTLCID = index\n\thtlc.ID = index\n"
     "\tif pkt.incomingChanID != hop.Source {\n"
     "\t\tverifMutAdds.Store([2]uint64{l.ShortChanID().ToUint64(), index}, htlc.PaymentHash)\n"
     "\t}\n"),
    (LINK, "\tfwdPkg, remoteHTLCs, err := l.channel.ReceiveRevocation(msg)\n",
     "\tfwdPkg, remoteHTLCs, err := l.channel.ReceiveRevocation(msg)\n"
     "\tif err == nil {\n"
     "\t\tme := l.ShortChanID().ToUint64()\n"
     "\t\tverifMutAdds.Range(func(k, v any) bool {\n"
     "\t\t\tkey := k.([2]uint64)\n"
     "\t\t\tif key[0] != me {\n\t\t\t\treturn true\n\t\t\t}\n"
     "\t\t\tverifMutAdds.Delete(k)\n"
     "\t\t\tverifMutRegs.Range(func(r, _ any) bool {\n"
     "\t\t\t\tinv, e := r.(InvoiceDatabase).LookupInvoice(ctx, v.([32]byte))\n"
     "\t\t\t\tif e != nil || inv.Terms.PaymentPreimage == nil {\n\t\t\t\t\treturn true\n\t\t\t\t}\n"
     "\t\t\t\tgo l.forwardBatch(false, &htlcPacket{\n"
     "\t\t\t\t\toutgoingChanID: l.ShortChanID(),\n"
     "\t\t\t\t\toutgoingHTLCID: key[1],\n"
     "\t\t\t\t\thtlc: &lnwire.UpdateFulfillHTLC{PaymentPreimage: *inv.Terms.PaymentPreimage},\n"
     "\t\t\t\t})\n"
     "\t\t\t\treturn false\n"
     "\t\t\t})\n"
     "\t\t\treturn true\n"
     "\t\t})\n"
     "\t}\n"),
]

# DESIGN #2: skip the SettleFailFilter ack (the DestRef never reaches the
# commit diff) ...
M["M2a_skip_settlefail_ack"] = [
    (CHAN, "\t\tFailReason:       reason,\n\t\tSourceRef:        sourceRef,\n\t\tDestRef:          destRef,\n",
     "\t\tFailReason:       reason,\n\t\tSourceRef:        sourceRef,\n\t\tDestRef:          nil,\n"),
]
# ... and its sibling: skip the add ack (SourceRef).
M["M2b_skip_add_ack"] = [
    (CHAN, "\t\tFailReason:       reason,\n\t\tSourceRef:        sourceRef,\n\t\tDestRef:          destRef,\n",
     "\t\tFailReason:       reason,\n\t\tSourceRef:        nil,\n\t\tDestRef:          destRef,\n"),
]

# DESIGN #3: reprocessing after a restart without consulting the FwdFilter.
# a: the filter is taken as empty (nothing is re-forwarded);
# b: the filter is taken as full (everything is re-forwarded).
M["M3a_refwd_filter_ignored_empty"] = [
    (LINK, "\t\t\t\tif !fwdPkg.FwdFilter.Contains(idx) {\n", "\t\t\t\tif true {\n"),
]
M["M3b_refwd_filter_ignored_full"] = [
    (LINK, "\t\t\t\tif !fwdPkg.FwdFilter.Contains(idx) {\n", "\t\t\t\tif false {\n"),
]

# own #1 (link.go): a fail from downstream is pipelined upstream on receipt,
# like a settle, instead of after it is locked in.
M["M4_own_fail_pipelined_on_receipt"] = [
    (LINK, "\terr := l.channel.ReceiveFailHTLC(idx, msg.Reason[:])\n\tif err != nil {\n\t\tl.failf(LinkFailureError{code: ErrInvalidUpdate},\n\t\t\t\"unable to handle upstream fail HTLC: %v\", err)\n\n\t\treturn err\n\t}\n",
     "\terr := l.channel.ReceiveFailHTLC(idx, msg.Reason[:])\n\tif err != nil {\n\t\tl.failf(LinkFailureError{code: ErrInvalidUpdate},\n\t\t\t\"unable to handle upstream fail HTLC: %v\", err)\n\n\t\treturn err\n\t}\n"
     "\tgo l.forwardBatch(false, &htlcPacket{\n"
     "\t\toutgoingChanID: l.ShortChanID(),\n"
     "\t\toutgoingHTLCID: idx,\n"
     "\t\thtlc:           &lnwire.UpdateFailHTLC{Reason: msg.Reason},\n"
     "\t})\n"),
]

# own #2 (circuit_map.go): a duplicate add after a restart is failed back even
# if its circuit has a keystone (outgoing HTLC committed and alive).
M["M5_own_fail_dup_with_keystone"] = [
    (CMAP, "\t\t\tcase foundCircuit.HasKeystone():\n",
     "\t\t\tcase foundCircuit.HasKeystone() && !foundCircuit.LoadedFromDisk:\n"),
]

# own #3 (link.go): closed circuits are not deleted after the commitment that
# removes the incoming HTLC.
M["M6_own_skip_delete_circuits"] = [
    (LINK, "\terr := l.cfg.Circuits.DeleteCircuits(l.closedCircuits...)\n\tswitch err {\n",
     "\tvar err error\n\tswitch err {\n"),
]

# own #4 (switch.go): a failure generated by the switch loses the reference to
# the add in the incoming forwarding package.
M["M7_own_switch_fail_drops_sourceref"] = [
    (SWITCH, "\tfailPkt := &htlcPacket{\n\t\tsourceRef:       packet.sourceRef,\n",
     "\tfailPkt := &htlcPacket{\n"),
]

# own #5 (switch.go): the switch relays a settle upstream but keeps the wrong
# amount bookkeeping is not observable here; instead: half-open circuits found
# after a restart are dropped instead of failed back (response lost).
M["M8_own_incomplete_forward_dropped"] = [
    (CMAP, "\t\t\tdefault:\n\t\t\t\tfails = append(fails, circuit)\n\t\t\t\taddFails = append(addFails, circuit)\n",
     "\t\t\tdefault:\n\t\t\t\tdrops = append(drops, circuit)\n"),
]

# own #6 (switch.go): of several incomplete forwards found in one replayed
# batch only the first is failed back (slice bound regression).
M["M9_own_only_first_incomplete_forward_failed"] = [
    (SWITCH, "\t\tfor _, packet := range failedPackets {\n", "\t\tfor _, packet := range failedPackets[:1] {\n"),
]

# Independently seeded regression (/verif/seeded/C07b): the fail the mailbox
# builds when the OUTGOING link gives up on an ADD loses the reference to the
# ADD in the incoming forwarding package.
M["M10_seeded_mailbox_failadd_drops_sourceref"] = [
    ("htlcswitch/mailbox.go", "\t\tcircuit:        pkt.circuit,\n\t\tsourceRef:      pkt.sourceRef,\n\t\thasSource:      true,\n",
     "\t\tcircuit:        pkt.circuit,\n\t\thasSource:      true,\n"),
]

# Independently seeded regression (/verif/seeded/C08b): CloseCircuit keeps its
# in-memory "closing" marker under the OUTGOING key; FailCircuit/DeleteCircuits
# use the incoming key, so the marker is never cleared and later collides with
# the incoming key of a reverse-direction add on the same channel.
M["M11_seeded_closecircuit_marker_under_outkey"] = [
    (CMAP, "\t_, ok = cm.closed[circuit.Incoming]\n\tif ok {\n\t\treturn nil, ErrCircuitClosing\n\t}\n\n\tcm.closed[circuit.Incoming] = struct{}{}\n",
     "\t_, ok = cm.closed[outKey]\n\tif ok {\n\t\treturn nil, ErrCircuitClosing\n\t}\n\n\tcm.closed[outKey] = struct{}{}\n"),
]


def build(name):
    if isinstance(M[name], str):
        _, rev, f = M[name].split(":")
        d = os.path.join(OUT, name)
        os.makedirs(d, exist_ok=True)
        p = os.path.join(d, f.replace("/", "_"))
        src = subprocess.run(["git", "-C", REPO, "show", "%s:%s" % (rev, f)],
                             stdout=subprocess.PIPE, check=True).stdout
        open(p, "wb").write(src)
        return ["%s=%s" % (f, p)]
    files = {}
    for f, old, new in M[name]:
        src = files.get(f)
        if src is None:
            src = open(os.path.join(REPO, f)).read()
        n = src.count(old)
        if n != 1:
            raise SystemExit("%s: pattern in %s matches %d times:\n%s" % (name, f, n, old))
        files[f] = src.replace(old, new)
    d = os.path.join(OUT, name)
    os.makedirs(d, exist_ok=True)
    args = []
    for f, src in files.items():
        p = os.path.join(d, f.replace("/", "_"))
        open(p, "w").write(src)
        args.append("%s=%s" % (f, p))
    return args


def main():
    sel = [a for a in sys.argv[1:] if not a.startswith("--")]
    names = [n for n in M if not sel or any(n.startswith(s) for s in sel)]
    rows = []
    for n in names:
        args = build(n)
        if "--build" in sys.argv:
            print(n, " ".join(args))
            continue
        cmd = ["./check", "C08"]
        for a in args:
            cmd += ["--mutate", a]
        t0 = time.time()
        p = subprocess.run(cmd, cwd="/verif", stdout=subprocess.PIPE, stderr=subprocess.STDOUT, text=True)
        dt = time.time() - t0
        out = p.stdout
        why = ""
        m = re.search(r"C08 violated:\n((?:\s{6,}.*\n){1,4})", out)
        if m:
            why = " | ".join(x.strip() for x in m.group(1).splitlines())[:300]
        after = re.search(r"failed after (\d+) tests", out)
        rows.append((n, p.returncode, "%.0fs" % dt, after.group(1) if after else "-", why))
        print(rows[-1], flush=True)
        open(os.path.join(OUT, n, "out.txt"), "w").write(out)
    print()
    for r in rows:
        print("| %s | exit %s | %s | case %s | %s |" % r)


if __name__ == "__main__":
    main()
