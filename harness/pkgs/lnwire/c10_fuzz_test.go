//go:build verif

package lnwire

// Native fuzz targets of C10 (thorough tier). The seed corpus is created at
// run time with f.Add: valid encodings of every registered message type from
// the repository's generators plus hostile constants. Crashers are written by
// the Go fuzzer to testdata/fuzz under the scratch working directory.

import (
	"encoding/binary"
	"testing"

	"github.com/lightningnetwork/lnd/internal/verif/vstats"
	"pgregory.net/rapid"
)

var c10HostileTails = [][]byte{
	{}, {0xfd, 0x00, 0xfc}, {0xfe, 0x00, 0x00, 0xff, 0xff},
	{0xff, 0xff, 0xff, 0xff, 0xff, 0xff, 0xff, 0xff, 0xff},
	{0xff, 0xff}, {0x01, 0xff, 0xff, 0xff, 0xff, 0xff, 0xff, 0xff, 0xff, 0xff},
	{0x01, 0xfd, 0xff, 0xff}, {0x01, 0xfe, 0xff, 0xff, 0xff, 0xff},
}

// c10SeedEncodings returns n valid encodings per registered type.
func c10SeedEncodings(n int) [][]byte {
	var out [][]byte
	types := append([]MessageType(nil), c10RegisteredTypes()...)
	types = append(types, CustomTypeStart, 65535)
	for _, typ := range types {
		typ := typ
		gen := rapid.Custom(func(t *rapid.T) []byte {
			m, ok := c10GenMessage(t, typ)
			if !ok {
				return binary.BigEndian.AppendUint16(nil, uint16(typ))
			}
			if rapid.Bool().Draw(t, "inject") {
				c10InjectUnknown(t, m)
			}
			b, err := c10Write(m)
			if err != nil {
				return binary.BigEndian.AppendUint16(nil, uint16(typ))
			}

			return b
		})
		for i := 0; i < n; i++ {
			out = append(out, gen.Example(int(typ)*131+i))
		}
	}

	return out
}

// c10SeedStreams returns deterministic pseudo-random byte strings that drive
// rapid generators under rapid.MakeFuzz.
func c10SeedStreams(n, size int) [][]byte {
	var out [][]byte
	x := uint64(0x9e3779b97f4a7c15)
	for i := 0; i < n; i++ {
		b := make([]byte, size)
		for j := 0; j < size; j += 8 {
			x ^= x << 13
			x ^= x >> 7
			x ^= x << 17
			v := x
			if j%16 == 0 {
				// small values keep rapid's integer draws in range
				v &= 0xffff
			}
			var tmp [8]byte
			binary.LittleEndian.PutUint64(tmp[:], v)
			copy(b[j:], tmp[:])
		}
		out = append(out, b)
	}

	return out
}

// FuzzVerifC10Message: raw bytes -> bytes fixpoint + allocation bound.
func FuzzVerifC10Message(f *testing.F) {
	for _, enc := range c10SeedEncodings(2) {
		f.Add(enc)
		for _, tail := range c10HostileTails[1:] {
			f.Add(append(append([]byte(nil), enc...), tail...))
		}
	}
	for _, typ := range c10RegisteredTypes() {
		for _, tail := range c10HostileTails {
			f.Add(append(binary.BigEndian.AppendUint16(nil, uint16(typ)),
				tail...))
		}
	}
	f.Fuzz(func(t *testing.T, data []byte) {
		if len(data) > MaxSliceLength {
			return
		}
		if len(data) < 2 {
			if _, _, err := c10Read(t, nil, data); err == nil {
				t.Fatalf("ReadMessage accepted %d bytes", len(data))
			}

			return
		}
		c10Fixpoint(t, nil, data)
	})
}

// FuzzVerifC10Failure: raw bytes -> failure message fixpoint, and the same
// bytes as a failure packet.
func FuzzVerifC10Failure(f *testing.F) {
	gen := rapid.Custom(func(t *rapid.T) []byte {
		b, _ := c10GenFailureMessage(t)
		return b
	})
	for i := 0; i < 200; i++ {
		f.Add(gen.Example(i))
	}
	for _, code := range c10FailCodes() {
		for _, tail := range c10HostileTails {
			f.Add(append(binary.BigEndian.AppendUint16(nil, uint16(code)),
				tail...))
		}
	}
	f.Fuzz(func(t *testing.T, data []byte) {
		if len(data) > MaxSliceLength {
			return
		}
		c10FailureFixpoint(t, data)
		if m, err := c10DecodeFailure(t, data); err == nil {
			if len(data) < 2 {
				t.Fatalf("packet of %d bytes accepted", len(data))
			}
			n := int(binary.BigEndian.Uint16(data))
			if ok, _ := c10FailureFixpoint(t, data[2:2+n]); !ok {
				t.Fatalf("packet accepted (%T), inner message rejected",
					m)
			}
		}
	})
}

// FuzzVerifC10Mutate: the structure-aware bytes property driven by the
// fuzzer's byte string through rapid.MakeFuzz.
func FuzzVerifC10Mutate(f *testing.F) {
	st := vstats.New("FuzzVerifC10Mutate")
	defer st.Flush()
	for _, s := range c10SeedStreams(64, 4096) {
		f.Add(s)
	}
	f.Fuzz(rapid.MakeFuzz(func(t *rapid.T) {
		c10BytesProp(t, st)
	}))
}

// FuzzVerifC10Value: the value round-trip property under rapid.MakeFuzz.
func FuzzVerifC10Value(f *testing.F) {
	st := vstats.New("FuzzVerifC10Value")
	defer st.Flush()
	for _, s := range c10SeedStreams(64, 4096) {
		f.Add(s)
	}
	f.Fuzz(rapid.MakeFuzz(func(t *rapid.T) {
		c10ValueProp(t, st)
	}))
}
