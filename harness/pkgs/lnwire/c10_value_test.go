//go:build verif

package lnwire

// C10 part 1 (value round trip): for every registered message type a value
// from the repository's RandTestMessage generator, optionally extended by the
// harness with unknown odd TLV records, encodes to at most 65535 bytes,
// decodes back to an equivalent value with the unknown records preserved, and
// re-encodes byte-identically. Plus the size boundary: a message either
// encodes within the bound or WriteMessage fails leaving the buffer untouched.

import (
	"bytes"
	"fmt"
	"sort"
	"testing"

	"github.com/lightningnetwork/lnd/internal/verif/c10ref"
	"github.com/lightningnetwork/lnd/internal/verif/vstats"
	"pgregory.net/rapid"
)

// c10GenMessage draws a value of the given type from the repository's
// generator. ok=false: the type has no generator.
func c10GenMessage(t *rapid.T, typ MessageType) (Message, bool) {
	empty, err := makeEmptyMessage(typ)
	if err != nil {
		t.Fatalf("makeEmptyMessage(%d): %v", typ, err)
	}
	tm, ok := empty.(TestMessage)
	if !ok {
		return nil, false
	}
	m := tm.RandTestMessage(t)
	if c, isCustom := m.(*Custom); isCustom && typ >= CustomTypeStart {
		c.Type = typ
	}
	c10ExtendMessage(t, m)

	return m, true
}

// c10InjectUnknown merges 1..3 generated unknown odd records into the
// message's ExtraOpaqueData field when that field holds a TLV stream (or is
// empty). It returns the injected records.
func c10InjectUnknown(t *rapid.T, m Message) []c10ref.Rec {
	f, ok := c10ExtraField(m)
	if !ok {
		return nil
	}
	cur := append([]byte(nil), f.Bytes()...)
	recs, why, _ := c10ref.Parse(cur, true)
	if why != c10ref.OK {
		return nil
	}
	have := map[uint64]bool{}
	for _, r := range recs {
		have[r.Type] = true
	}
	var injected []c10ref.Rec
	n := rapid.IntRange(1, 3).Draw(t, "nUnknown")
	for i := 0; i < n; i++ {
		typ := c10DrawUnknownType(t)
		if have[typ] {
			continue
		}
		have[typ] = true
		ln := rapid.SampledFrom([]int{4, 5, 8, 32, 33, 64, 253,
			300}).Draw(t, "unkLen")
		r := c10ref.Rec{Type: typ, Val: c10Bytes(t, ln, "unkVal")}
		injected = append(injected, r)
		recs = append(recs, r)
	}
	sort.Slice(recs, func(i, j int) bool { return recs[i].Type < recs[j].Type })
	f.SetBytes(c10ref.Encode(recs))

	return injected
}

func c10ValueProp(t *rapid.T, st *vstats.Collector) {
	typ := c10DrawType(t)
	m, ok := c10GenMessage(t, typ)
	if !ok {
		// A registered type without a generator is only reachable
		// through the bytes checks; make that visible.
		st.Count("no_generator", 1)
		t.Fatalf("registered message type %d has no RandTestMessage", typ)
	}
	labels := []string{"type=" + fmt.Sprintf("%T", m)}
	labels = append(labels, c10AddrLabels(m)...)

	var injected []c10ref.Rec
	if rapid.IntRange(0, 2).Draw(t, "inject") == 0 {
		injected = c10InjectUnknown(t, m)
		if len(injected) > 0 {
			labels = append(labels, "injected-unknown")
		}
	}

	// An independent copy of the value as generated: Encode sorts and
	// repacks its receiver in place.
	orig := c10DeepCopy(m)
	if err := c10Equiv(m, orig, false); err != nil {
		t.Fatalf("harness: deep copy differs: %v", err)
	}
	c10NormaliseOrder(orig)

	b0, err := c10Write(m)
	if err != nil {
		t.Fatalf("%T: generated value does not encode: %v", m, err)
	}
	if len(b0) > MaxSliceLength {
		t.Fatalf("%T encodes to %d bytes", m, len(b0))
	}
	m1, rest, err := c10Read(t, st, b0)
	if err != nil {
		t.Fatalf("%T: encoding of a generated value does not decode: "+
			"%v\nb0=%x", m, err, c10Head(b0))
	}
	if rest != 0 {
		t.Fatalf("%T: %d bytes of the encoding left unread", m, rest)
	}
	// m is compared after Encode, which sorts short channel ids and
	// repacks the extension in place (as the repository's own
	// round-trip test does); what Encode must not lose is decided
	// separately below.
	if err := c10Equiv(m, m1, false); err != nil {
		t.Fatalf("%T: decode(encode(v)) differs from v: %v\nb0=%x", m, err,
			c10Head(b0))
	}
	// ... and against the value as it was before Encode touched it
	// (extension caches excepted: they are decided on the bytes).
	if err := c10Equiv(orig, m1, true); err != nil {
		t.Fatalf("%T: decode(encode(v)) differs from the value as "+
			"generated: %v\nb0=%x", m, err, c10Head(b0))
	}
	b1, err := c10Write(m1)
	if err != nil {
		t.Fatalf("%T: decoded value does not encode: %v", m, err)
	}
	if !bytes.Equal(b0, b1) {
		t.Fatalf("%T: re-encoding differs\nb0=%x\nb1=%x", m, c10Head(b0),
			c10Head(b1))
	}
	if len(injected) > 0 {
		onWire := true
		for _, r := range injected {
			enc := c10ref.AppendRecord(nil, r.Type, r.Val)
			if !bytes.Contains(b0, enc) {
				onWire = false
			}
		}
		switch {
		case onWire:
			// m1 was re-encoded above; decode once more for an
			// untouched copy of what the decoder saw.
			seenMsg, _, _ := c10Read(t, nil, b0)
			if !c10UnknownPreserved(t, st, seenMsg, b0, injected, b1) {
				t.Fatalf("%T: unknown records on the wire were not "+
					"shown to the decoder\nb0=%x", m, c10Head(b0))
			}

		case c10RepacksExtension(m) && c10Known(c10KeyDropUnknown):
			st.Known(c10KeyDropUnknown)
			st.Count("excluded_known", 1)
			st.Count(fmt.Sprintf("drops-unknown:%T", m), 1)

		default:
			t.Fatalf("%T: Encode dropped the unknown TLV records of its "+
				"ExtraData (%d injected)\nb0=%x", m, len(injected),
				c10Head(b0))
		}
	}

	// The whole fixpoint chain on the valid encoding as well.
	if ok, _ := c10Fixpoint(t, st, b0); !ok {
		t.Fatalf("%T: valid encoding rejected on a later decode", m)
	}

	nontrivial := len(b0) > 2
	if tail, _ := c10ref.FindTLVTail(b0, 2); tail >= 0 {
		labels = append(labels, "has-tlv-tail")
	}
	var sample any
	if st.WantSample() {
		sample = map[string]any{"type": fmt.Sprintf("%T", m),
			"len": len(b0), "labels": labels}
	}
	st.Case(vstats.FP(b0), nontrivial, labels, sample)
}

// TestVerifC10ValueRoundTrip is part 1 of C10.
func TestVerifC10ValueRoundTrip(t *testing.T) {
	st := vstats.New("TestVerifC10ValueRoundTrip")
	defer st.Flush()

	rapid.Check(t, func(t *rapid.T) {
		c10ValueProp(t, st)
	})
}

// TestVerifC10SizeBoundary: messages with an opaque payload sized around the
// 65535-byte bound either encode within the bound and round-trip, or
// WriteMessage fails and leaves the caller's buffer exactly as it was.
func TestVerifC10SizeBoundary(t *testing.T) {
	st := vstats.New("TestVerifC10SizeBoundary")
	defer st.Flush()

	rapid.Check(t, func(t *rapid.T) {
		kind := rapid.IntRange(0, 8).Draw(t, "kind")
		// payload sizes straddling every header layout's limit
		n := rapid.IntRange(65400, 65700).Draw(t, "n")
		if rapid.IntRange(0, 3).Draw(t, "near") != 0 {
			n = rapid.IntRange(65490, 65540).Draw(t, "nNear")
		}
		if rapid.IntRange(0, 9).Draw(t, "wrap") == 0 {
			// lengths whose uint16 truncation is small
			n = 65536 + rapid.IntRange(0, 40).Draw(t, "nWrap")
		}
		payload := c10Bytes(t, n, "payload")
		var m Message
		switch kind {
		case 0:
			m = &Ping{NumPongBytes: 1, PaddingBytes: payload}
		case 1:
			m = &Pong{PongBytes: payload}
		case 2:
			m = &Error{Data: payload}
		case 3:
			m = &Warning{Data: payload}
		case 4:
			m = &Custom{Type: CustomTypeStart + 1, Data: payload}
		case 5:
			m = &UpdateFailHTLC{Reason: payload}
		case 6:
			m = &Stfu{ExtraData: payload[:n-40]}
		case 7:
			// short channel ids up to and beyond the plain limit
			k := rapid.IntRange(8170, 8200).Draw(t, "nScid")
			ids := make([]ShortChannelID, k)
			for i := range ids {
				ids[i] = NewShortChanIDFromInt(uint64(i)*7 + 1)
			}
			m = &QueryShortChanIDs{EncodingType: EncodingSortedPlain,
				ShortChanIDs: ids}
		default:
			k := rapid.IntRange(1000, 1030).Draw(t, "nSigs")
			sigs := make([]Sig, k)
			for i := range sigs {
				copy(sigs[i].bytes[:], payload[i:i+64])
			}
			m = &CommitSig{HtlcSigs: sigs}
		}

		prefix := c10Bytes(t, rapid.IntRange(0, 5).Draw(t, "pre"), "prefix")
		buf := bytes.NewBuffer(append([]byte(nil), prefix...))
		wrote, err := WriteMessage(buf, m, 0)
		labels := []string{fmt.Sprintf("type=%T", m)}
		if err != nil {
			labels = append(labels, "rejected")
			if wrote != 0 || !bytes.Equal(buf.Bytes(), prefix) {
				t.Fatalf("%T: failed WriteMessage (%v) reported %d "+
					"bytes and left %d bytes in the buffer (had %d)",
					m, err, wrote, buf.Len(), len(prefix))
			}
		} else {
			labels = append(labels, "encoded")
			enc := buf.Bytes()[len(prefix):]
			if wrote != len(enc) {
				t.Fatalf("%T: WriteMessage reported %d, wrote %d", m,
					wrote, len(enc))
			}
			if len(enc) > MaxSliceLength {
				t.Fatalf("%T: WriteMessage accepted a message of %d "+
					"bytes", m, len(enc))
			}
			m1, rest, err := c10Read(t, st, enc)
			if err != nil || rest != 0 {
				t.Fatalf("%T of %d bytes: decode err=%v rest=%d", m,
					len(enc), err, rest)
			}
			if err := c10Equiv(m, m1, false); err != nil {
				t.Fatalf("%T of %d bytes: round trip differs: %v", m,
					len(enc), err)
			}
		}
		st.Case(vstats.FP(kind, n, len(prefix)), true, labels,
			map[string]any{"type": fmt.Sprintf("%T", m), "n": n,
				"ok": err == nil})
	})
}
