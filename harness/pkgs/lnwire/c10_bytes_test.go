//go:build verif

package lnwire

// C10 part 2 (bytes fixpoint) and part 3 (allocation bound) for
// ReadMessage/WriteMessage: structure-aware mutations of valid encodings and
// raw bytes for every registered message type.

import (
	"bytes"
	"compress/zlib"
	"encoding/binary"
	"fmt"
	"sort"
	"testing"

	"github.com/lightningnetwork/lnd/internal/verif/c10ref"
	"github.com/lightningnetwork/lnd/internal/verif/vstats"
	"pgregory.net/rapid"
)

type c10Input struct {
	b      []byte
	labels []string

	// mutated: b differs from a generator-produced encoding.
	mutated bool

	// expectKept are unknown records the harness put into the TLV tail in
	// canonical position; if b is accepted they must survive re-encoding.
	expectKept []c10ref.Rec
}

var c10HostileTLVLens = []uint64{0, 1, 0xfc, 0xfd, 0xffff, 0x10000, 0xffffffff,
	0x100000000, 1 << 63, 1<<64 - 1}

// c10SignedUnknownType: an unknown odd type inside the signed ranges of a
// pure-TLV message (0..159 and 1e9..3e9), which lnd must re-emit.
func c10SignedUnknownType(t *rapid.T) uint64 {
	if rapid.Bool().Draw(t, "lowSigned") {
		return uint64(rapid.IntRange(50, 79).Draw(t, "lowT"))*2 + 1
	}

	return 1_000_000_001 + 2*uint64(rapid.IntRange(0, 40000).Draw(t, "hiT"))
}

// c10Mutate applies one structure-aware mutation to a valid encoding.
func c10Mutate(t *rapid.T, m Message, base []byte) c10Input {
	in := c10Input{mutated: true}
	b := append([]byte(nil), base...)
	tail, recs := c10ref.FindTLVTail(b, 2)
	_, pure := m.(PureTLVMessage)
	_, hasExtra := c10ExtraField(m)

	ops := []string{"truncate", "extend-raw", "flip-bit", "set-byte",
		"set-u16", "extend-tlv", "retype"}
	if tail >= 0 {
		ops = append(ops, "splice-record", "splice-record", "swap-records",
			"dup-record", "delete-record", "nonminimal", "tlv-length",
			"tlv-length", "record-value", "record-value")
	}
	if tail >= 0 || pure || hasExtra {
		// typed records the value generators leave out (flags that are
		// zero, optional fields), with values of the usual widths
		ops = append(ops, "small-record", "small-record")
	}
	if pure && tail >= 0 {
		// pure-TLV messages: every field is a typed record
		ops = append(ops, "record-value", "record-value", "record-value",
			"small-record", "small-record")
	}
	op := rapid.SampledFrom(ops).Draw(t, "op")
	in.labels = append(in.labels, "op="+op)

	unknownType := func() uint64 {
		if pure {
			return c10SignedUnknownType(t)
		}

		return c10DrawUnknownType(t)
	}
	unknownVal := func() []byte {
		n := rapid.SampledFrom([]int{0, 1, 4, 8, 33, 64, 253, 300}).Draw(t,
			"uvLen")

		return c10Bytes(t, n, "uv")
	}
	rebuild := func(rs []c10ref.Rec) []byte {
		return append(append([]byte(nil), b[:tail]...), c10ref.Encode(rs)...)
	}

	switch op {
	case "truncate":
		lo := 0
		if rapid.IntRange(0, 9).Draw(t, "keepType") != 0 && len(b) > 2 {
			lo = 2
		}
		b = b[:rapid.IntRange(lo, len(b)-1).Draw(t, "cut")]

	case "extend-raw":
		n := rapid.IntRange(1, 40).Draw(t, "extN")
		b = append(b, c10Bytes(t, n, "ext")...)

	case "extend-tlv":
		// A further record after the message. In canonical position
		// (type above every tail type) when the message has a tail.
		typ := unknownType()
		inOrder := true
		if len(recs) > 0 && recs[len(recs)-1].Type >= typ {
			inOrder = false
		}
		r := c10ref.Rec{Type: typ, Val: unknownVal()}
		b = c10ref.AppendRecord(b, r.Type, r.Val)
		if inOrder && (tail >= 0 || pure || hasExtra) && len(r.Val) >= 4 {
			in.expectKept = append(in.expectKept, r)
		}

	case "flip-bit":
		lo := 2
		if len(b) <= 2 || rapid.IntRange(0, 19).Draw(t, "inType") == 0 {
			lo = 0
		}
		pos := rapid.IntRange(lo, len(b)-1).Draw(t, "pos")
		b[pos] ^= 1 << uint(rapid.IntRange(0, 7).Draw(t, "bit"))

	case "set-byte":
		pos := rapid.IntRange(min(2, len(b)-1), len(b)-1).Draw(t, "pos")
		b[pos] = byte(rapid.SampledFrom([]int{0, 1, 2, 0x7f, 0x80, 0xfc,
			0xfd, 0xfe, 0xff}).Draw(t, "val"))

	case "set-u16":
		if len(b) < 4 {
			break
		}
		pos := rapid.IntRange(2, len(b)-2).Draw(t, "pos")
		remaining := len(b) - pos - 2
		v := rapid.SampledFrom([]int{0, 1, 0xffff, 0xfffe, 0x8000,
			remaining, remaining + 1, remaining - 1, remaining / 8,
			remaining / 64}).Draw(t, "u16")
		if v < 0 {
			v = 0
		}
		binary.BigEndian.PutUint16(b[pos:], uint16(v))

	case "retype":
		types := c10RegisteredTypes()
		nt := types[rapid.IntRange(0, len(types)-1).Draw(t, "newType")]
		binary.BigEndian.PutUint16(b, uint16(nt))

	case "splice-record":
		how := rapid.SampledFrom([]string{"unknown-odd", "unknown-odd",
			"unknown-even", "duplicate", "out-of-order"}).Draw(t, "how")
		in.labels = append(in.labels, "splice="+how)
		rs := append([]c10ref.Rec(nil), recs...)
		switch how {
		case "unknown-odd", "unknown-even":
			typ := unknownType()
			if how == "unknown-even" {
				typ++
			}
			dup := false
			for _, r := range rs {
				if r.Type == typ {
					dup = true
				}
			}
			if dup {
				break
			}
			r := c10ref.Rec{Type: typ, Val: unknownVal()}
			rs = append(rs, r)
			sort.SliceStable(rs, func(i, j int) bool {
				return rs[i].Type < rs[j].Type
			})
			if how == "unknown-odd" && len(r.Val) >= 4 {
				in.expectKept = append(in.expectKept, r)
			}
		case "duplicate":
			i := rapid.IntRange(0, len(rs)-1).Draw(t, "dupOf")
			rs = append(rs[:i+1], rs[i:]...)
		default:
			typ := uint64(0)
			if rs[len(rs)-1].Type > 0 {
				typ = rapid.Uint64Range(0, rs[len(rs)-1].Type-1).Draw(t,
					"lowType")
			}
			rs = append(rs, c10ref.Rec{Type: typ, Val: unknownVal()})
		}
		b = rebuild(rs)

	case "record-value":
		// Same stream shape, another value in one typed record: flag
		// and enum bytes take values the repository's generators never
		// produce (reserved bits, all ones), integers their extremes.
		// Added after seeded change C10e.
		rs := append([]c10ref.Rec(nil), recs...)
		i := rapid.IntRange(0, len(rs)-1).Draw(t, "rvAt")
		v := append([]byte(nil), rs[i].Val...)
		if len(v) == 0 {
			break
		}
		switch rapid.IntRange(0, 4).Draw(t, "rvHow") {
		case 0:
			pos := rapid.IntRange(0, len(v)-1).Draw(t, "rvPos")
			v[pos] = 1 << uint(rapid.IntRange(0, 7).Draw(t, "rvBit"))
		case 1:
			pos := rapid.IntRange(0, len(v)-1).Draw(t, "rvPos")
			v[pos] ^= 1 << uint(rapid.IntRange(0, 7).Draw(t, "rvBit"))
		case 2:
			for k := range v {
				v[k] = 0xff
			}
		case 3:
			for k := range v {
				v[k] = 0
			}
		default:
			v = c10Bytes(t, len(v), "rvVal")
		}
		rs[i].Val = v
		b = rebuild(rs)

	case "small-record":
		typ := rapid.Uint64Range(0, 30).Draw(t, "srType")
		rs := append([]c10ref.Rec(nil), recs...)
		dup := false
		for _, r := range rs {
			if r.Type == typ {
				dup = true
			}
		}
		if dup {
			break
		}
		n := rapid.SampledFrom([]int{1, 1, 2, 3, 4, 8, 32, 33, 34,
			64}).Draw(t, "srLen")
		v := c10Bytes(t, n, "srVal")
		if n <= 2 && rapid.Bool().Draw(t, "srOneBit") {
			for k := range v {
				v[k] = 0
			}
			v[rapid.IntRange(0, n-1).Draw(t, "srPos")] =
				1 << uint(rapid.IntRange(0, 7).Draw(t, "srBit"))
		}
		rs = append(rs, c10ref.Rec{Type: typ, Val: v})
		sort.SliceStable(rs, func(i, j int) bool {
			return rs[i].Type < rs[j].Type
		})
		if tail >= 0 {
			b = rebuild(rs)
		} else {
			b = append(b, c10ref.Encode(rs)...)
		}

	case "swap-records":
		if len(recs) < 2 {
			break
		}
		rs := append([]c10ref.Rec(nil), recs...)
		i := rapid.IntRange(0, len(rs)-2).Draw(t, "swapAt")
		rs[i], rs[i+1] = rs[i+1], rs[i]
		b = rebuild(rs)

	case "dup-record":
		rs := append([]c10ref.Rec(nil), recs...)
		i := rapid.IntRange(0, len(rs)-1).Draw(t, "dupAt")
		rs = append(rs[:i+1], rs[i:]...)
		b = rebuild(rs)

	case "delete-record":
		rs := append([]c10ref.Rec(nil), recs...)
		i := rapid.IntRange(0, len(rs)-1).Draw(t, "delAt")
		rs = append(rs[:i], rs[i+1:]...)
		b = rebuild(rs)

	case "nonminimal":
		i := rapid.IntRange(0, len(recs)-1).Draw(t, "nmAt")
		onLen := rapid.Bool().Draw(t, "nmLen")
		out := append([]byte(nil), b[:tail]...)
		for j, r := range recs {
			tw := c10ref.BigSizeLen(r.Type)
			lw := c10ref.BigSizeLen(uint64(len(r.Val)))
			if j == i {
				w := &tw
				if onLen {
					w = &lw
				}
				if *w < 9 {
					*w = map[int]int{1: 3, 3: 5, 5: 9}[*w]
				}
			}
			out = c10ref.AppendBigSizeWidth(out, r.Type, tw)
			out = c10ref.AppendBigSizeWidth(out, uint64(len(r.Val)), lw)
			out = append(out, r.Val...)
		}
		b = out

	case "tlv-length":
		i := rapid.IntRange(0, len(recs)-1).Draw(t, "tlAt")
		out := append([]byte(nil), b[:tail]...)
		for j, r := range recs {
			decl := uint64(len(r.Val))
			if j == i {
				switch rapid.IntRange(0, 2).Draw(t, "lie") {
				case 0:
					decl++
				case 1:
					if decl > 0 {
						decl--
					}
				default:
					decl = rapid.SampledFrom(c10HostileTLVLens).Draw(t,
						"hostile")
				}
			}
			out = c10ref.AppendBigSize(out, r.Type)
			out = c10ref.AppendBigSize(out, decl)
			out = append(out, r.Val...)
		}
		b = out
	}

	if len(b) > MaxSliceLength {
		b = b[:MaxSliceLength]
	}
	if bytes.Equal(b, base) {
		in.mutated = false
		in.labels = append(in.labels, "noop")
	}
	in.b = b

	return in
}

// c10GenScids draws a short-channel-id list for the zlib/plain builders.
func c10GenScids(t *rapid.T) ([]uint64, string) {
	n := rapid.SampledFrom([]int{0, 1, 2, 3, 10, 100, 1000, 8186, 8187,
		20000}).Draw(t, "nScid")
	if n >= 1000 && rapid.IntRange(0, 3).Draw(t, "bigScids") != 0 {
		n = rapid.IntRange(0, 30).Draw(t, "nScidSmall")
	}
	start := rapid.Uint64Range(0, 1<<40).Draw(t, "scidStart")
	step := rapid.Uint64Range(1, 1<<20).Draw(t, "scidStep")
	ids := make([]uint64, n)
	for i := range ids {
		ids[i] = start + uint64(i)*step
	}
	shape := "sorted"
	if n >= 2 {
		switch rapid.IntRange(0, 5).Draw(t, "scidShape") {
		case 0:
			i := rapid.IntRange(1, n-1).Draw(t, "dupAt")
			ids[i] = ids[i-1]
			shape = "duplicate"
		case 1:
			i := rapid.IntRange(1, n-1).Draw(t, "swapAt")
			ids[i], ids[i-1] = ids[i-1], ids[i]
			shape = "unsorted"
		}
	}

	return ids, shape
}

// c10BuildGossipQuery hand-assembles a query_short_chan_ids or
// reply_channel_range body with a generated encoding of the id list.
func c10BuildGossipQuery(t *rapid.T) c10Input {
	in := c10Input{mutated: true}
	reply := rapid.Bool().Draw(t, "isReply")
	var b []byte
	if reply {
		b = binary.BigEndian.AppendUint16(b, uint16(MsgReplyChannelRange))
	} else {
		b = binary.BigEndian.AppendUint16(b, uint16(MsgQueryShortChanIDs))
	}
	b = append(b, c10Bytes(t, 32, "chain")...)
	if reply {
		b = append(b, c10Bytes(t, 9, "range")...)
	}

	ids, shape := c10GenScids(t)
	in.labels = append(in.labels, "scids="+shape)
	var raw []byte
	for _, id := range ids {
		raw = binary.BigEndian.AppendUint64(raw, id)
	}
	if rapid.IntRange(0, 9).Draw(t, "partial") == 0 {
		raw = append(raw, c10Bytes(t, rapid.IntRange(1, 7).Draw(t, "pN"),
			"partialId")...)
		in.labels = append(in.labels, "partial-id")
	}

	enc := rapid.SampledFrom([]string{"plain", "zlib", "zlib", "zlib",
		"unknown"}).Draw(t, "enc")
	in.labels = append(in.labels, "enc="+enc)
	var body []byte
	switch enc {
	case "plain":
		body = append([]byte{0}, raw...)
	case "unknown":
		body = append([]byte{byte(rapid.IntRange(2, 255).Draw(t,
			"encByte"))}, raw...)
	default:
		level := rapid.SampledFrom([]int{zlib.NoCompression,
			zlib.BestSpeed, zlib.DefaultCompression,
			zlib.BestCompression, zlib.HuffmanOnly}).Draw(t, "level")
		var zb bytes.Buffer
		zw, err := zlib.NewWriterLevel(&zb, level)
		if err != nil {
			t.Fatalf("zlib: %v", err)
		}
		// several writes + flushes give multi-block streams
		chunk := rapid.SampledFrom([]int{1 << 20, 8, 13, 4096}).Draw(t,
			"chunk")
		for off := 0; off < len(raw); off += chunk {
			end := min(off+chunk, len(raw))
			_, _ = zw.Write(raw[off:end])
			if chunk < 4096 && off < 64 {
				_ = zw.Flush()
			}
		}
		_ = zw.Close()
		z := zb.Bytes()
		switch rapid.IntRange(0, 9).Draw(t, "zFault") {
		case 0:
			if len(z) > 0 {
				z = z[:rapid.IntRange(0, len(z)-1).Draw(t, "zCut")]
				in.labels = append(in.labels, "zlib-truncated")
			}
		case 1:
			if len(z) > 0 {
				z[rapid.IntRange(0, len(z)-1).Draw(t, "zPos")] ^= 1 <<
					uint(rapid.IntRange(0, 7).Draw(t, "zBit"))
				in.labels = append(in.labels, "zlib-corrupt")
			}
		case 2:
			z = append(z, c10Bytes(t, rapid.IntRange(1, 9).Draw(t,
				"zTrail"), "zt")...)
			in.labels = append(in.labels, "zlib-trailing")
		}
		body = append([]byte{1}, z...)
	}
	if len(ids) == 0 && rapid.Bool().Draw(t, "emptyBody") {
		body = nil
	}
	if len(body) > 0xffff {
		body = body[:0xffff]
	}
	decl := len(body)
	if rapid.IntRange(0, 9).Draw(t, "lenLie") == 0 {
		decl = rapid.SampledFrom([]int{0, 1, decl + 1, max(decl-1, 0),
			0xffff}).Draw(t, "declLen")
		in.labels = append(in.labels, "len-lie")
	}
	b = binary.BigEndian.AppendUint16(b, uint16(decl))
	b = append(b, body...)

	// extension: timestamps record (reply), query options, unknown records
	var tlvs []c10ref.Rec
	if rapid.IntRange(0, 2).Draw(t, "withTs") == 0 {
		n := len(ids)
		switch rapid.IntRange(0, 5).Draw(t, "tsCount") {
		case 0:
			n++
		case 1:
			n = max(n-1, 0)
		}
		if n > 2000 {
			n = 2000
		}
		tsEnc := byte(0)
		if rapid.IntRange(0, 4).Draw(t, "tsEnc") == 0 {
			tsEnc = byte(rapid.IntRange(1, 3).Draw(t, "tsEncB"))
		}
		val := []byte{tsEnc}
		for i := 0; i < n; i++ {
			val = append(val, c10Bytes(t, 8, "ts")...)
		}
		if tsEnc == 1 {
			var zb bytes.Buffer
			zw := zlib.NewWriter(&zb)
			_, _ = zw.Write(val[1:])
			_ = zw.Close()
			val = append([]byte{1}, zb.Bytes()...)
		}
		tlvs = append(tlvs, c10ref.Rec{Type: 1, Val: val})
		in.labels = append(in.labels, "timestamps")
	}
	if rapid.IntRange(0, 3).Draw(t, "withUnknown") == 0 {
		r := c10ref.Rec{Type: c10DrawUnknownType(t),
			Val: c10Bytes(t, rapid.IntRange(4, 40).Draw(t, "uN"), "u")}
		tlvs = append(tlvs, r)
		in.expectKept = append(in.expectKept, r)
	}
	b = append(b, c10ref.Encode(tlvs)...)
	if len(b) > MaxSliceLength {
		b = b[:MaxSliceLength]
		in.expectKept = nil
	}
	in.b = b

	return in
}

// c10GenInput draws one adversarial input.
func c10GenInput(t *rapid.T) (c10Input, Message) {
	mode := rapid.IntRange(0, 19).Draw(t, "mode")
	switch {
	case mode == 0:
		// raw bytes behind a type
		var typ uint16
		if rapid.IntRange(0, 9).Draw(t, "anyType") == 0 {
			typ = rapid.Uint16().Draw(t, "rawType")
		} else {
			typ = uint16(c10DrawType(t))
		}
		n := rapid.IntRange(0, 300).Draw(t, "rawLen")
		b := binary.BigEndian.AppendUint16(nil, typ)
		b = append(b, c10Bytes(t, n, "raw")...)
		if rapid.IntRange(0, 5).Draw(t, "short") == 0 {
			b = b[:rapid.IntRange(0, min(len(b), 3)).Draw(t, "shortN")]
		}

		return c10Input{b: b, mutated: true,
			labels: []string{"op=raw"}}, nil

	case mode <= 2:
		in := c10BuildGossipQuery(t)
		in.labels = append(in.labels, "op=gossip-query")

		return in, nil
	}

	typ := c10DrawType(t)
	m, ok := c10GenMessage(t, typ)
	if !ok {
		t.Fatalf("registered message type %d has no RandTestMessage", typ)
	}
	if rapid.IntRange(0, 3).Draw(t, "inject") == 0 {
		c10InjectUnknown(t, m)
	}
	base, err := c10Write(m)
	if err != nil {
		t.Fatalf("%T: generated value does not encode: %v", m, err)
	}
	if mode == 3 {
		return c10Input{b: base, labels: []string{"op=none"}}, m
	}
	in := c10Mutate(t, m, base)

	return in, m
}

func c10BytesProp(t *rapid.T, st *vstats.Collector) {
	in, m := c10GenInput(t)
	labels := in.labels
	if m != nil {
		labels = append(labels, fmt.Sprintf("type=%T", m))
	}
	if len(in.b) < 2 {
		_, _, err := c10Read(t, st, in.b)
		if err == nil {
			t.Fatalf("ReadMessage accepted %d bytes", len(in.b))
		}
		st.Case(vstats.FP(in.b), false, append(labels, "rejected"), nil)

		return
	}
	accepted, b1 := c10Fixpoint(t, st, in.b)
	if accepted {
		labels = append(labels, "accepted")
		if len(in.expectKept) > 0 {
			m1, _, _ := c10Read(t, nil, in.b)
			if c10UnknownPreserved(t, st, m1, in.b, in.expectKept, b1) {
				labels = append(labels, "unknown-kept-checked")
			}
		}
		if !bytes.Equal(b1, in.b) {
			labels = append(labels, "noncanonical-input")
		}
	} else {
		labels = append(labels, "rejected")
	}

	// Non-trivial: decodes successfully and differs from a
	// generator-produced canonical encoding.
	nontrivial := accepted && in.mutated
	var sample any
	if nontrivial && st.WantSample() {
		sample = map[string]any{"labels": labels, "len": len(in.b),
			"head": fmt.Sprintf("%x", c10Head(in.b)[:min(len(in.b), 48)])}
	}
	st.Case(vstats.FP(in.b), nontrivial, labels, sample)
}

// TestVerifC10BytesFixpoint is parts 2 and 3 of C10 for wire messages.
func TestVerifC10BytesFixpoint(t *testing.T) {
	st := vstats.New("TestVerifC10BytesFixpoint")
	defer st.Flush()

	rapid.Check(t, func(t *rapid.T) {
		c10BytesProp(t, st)
	})
	if testing.Verbose() {
		t.Logf("max allocation of one decode: %d bytes", c10MaxAlloc)
	}
}

// TestVerifC10Prefixes: every proper prefix of a valid encoding (truncation at
// every offset) either is rejected or satisfies the fixpoint; no prefix makes
// the decoder panic or over-allocate.
func TestVerifC10Prefixes(t *testing.T) {
	st := vstats.New("TestVerifC10Prefixes")
	defer st.Flush()

	rapid.Check(t, func(t *rapid.T) {
		typ := c10DrawType(t)
		m, ok := c10GenMessage(t, typ)
		if !ok {
			t.Fatalf("type %d has no generator", typ)
		}
		if rapid.Bool().Draw(t, "inject") {
			c10InjectUnknown(t, m)
		}
		base, err := c10Write(m)
		if err != nil {
			t.Fatalf("%T: %v", m, err)
		}
		// Long messages: every offset of the last 400 bytes and of the
		// first 200, sampled in between.
		accepted := 0
		for cut := 0; cut < len(base); cut++ {
			if len(base) > 800 && cut > 200 && cut < len(base)-400 &&
				cut%37 != 0 {

				continue
			}
			ok, _ := c10Fixpoint(t, nil, base[:cut])
			if ok {
				accepted++
			}
			st.Case(vstats.FP(base[:cut]), ok,
				[]string{fmt.Sprintf("type=%T", m),
					fmt.Sprintf("accepted=%v", ok)}, nil)
		}
		_ = accepted
	})
}

// TestVerifC10AllocBound is part 3 of C10, systematically: in a valid encoding
// of every message type each position in turn is overwritten with a hostile
// length (0xffff, a 2^32-1 and a 2^64-1 BigSize); decoding must stay below the
// amplification cap (and satisfy the fixpoint when it succeeds).
func TestVerifC10AllocBound(t *testing.T) {
	st := vstats.New("TestVerifC10AllocBound")
	defer st.Flush()

	hostile := [][]byte{
		{0xff, 0xff},
		{0xfe, 0xff, 0xff, 0xff, 0xff},
		{0xff, 0xff, 0xff, 0xff, 0xff, 0xff, 0xff, 0xff, 0xff},
		{0xfd, 0xff, 0xff},
	}
	rapid.Check(t, func(t *rapid.T) {
		typ := c10DrawType(t)
		m, ok := c10GenMessage(t, typ)
		if !ok {
			t.Fatalf("type %d has no generator", typ)
		}
		if rapid.Bool().Draw(t, "inject") {
			c10InjectUnknown(t, m)
		}
		base, err := c10Write(m)
		if err != nil {
			t.Fatalf("%T: %v", m, err)
		}
		phase := rapid.IntRange(0, 6).Draw(t, "phase")
		label := fmt.Sprintf("type=%T", m)
		for pos := 2; pos < len(base); pos++ {
			if len(base) > 600 && pos > 300 && pos < len(base)-300 &&
				pos%7 != phase {

				continue
			}
			for _, h := range hostile {
				if pos+len(h) > len(base) {
					continue
				}
				b := append([]byte(nil), base...)
				copy(b[pos:], h)
				// also with everything after the length cut off, the
				// classic "length without data"
				for _, in := range [][]byte{b, b[:pos+len(h)]} {
					ok, _ := c10Fixpoint(t, st, in)
					st.Case(vstats.FP(in), ok, []string{label,
						fmt.Sprintf("accepted=%v", ok)}, nil)
				}
			}
		}
	})
	if testing.Verbose() {
		t.Logf("max allocation of one decode: %d bytes", c10MaxAlloc)
	}
}
