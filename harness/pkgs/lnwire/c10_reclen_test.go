//go:build verif

package lnwire

// C10, length strictness of the TYPED TLV records inside lnwire messages
// ("a TLV stream is accepted exactly when ... lengths within bounds ... and
// decode-then-encode reproduces the input").
//
// tlv.Stream.decode hands the raw, unlimited reader and the declared length l
// to the record decoder and trusts it to consume exactly l bytes. A record
// decoder that ignores l (or reads a constant) silently swallows bytes of the
// neighbouring records, or leaves value bytes behind that are then parsed as
// records. The bytes fixpoint cannot see this (after the first decode
// everything is canonical), so this check regroups ONE record of a valid
// message's extension such that the stream stays canonical at the stream
// level while the record's declared length changes, and compares what the
// decoder did with the independent reference parser's view of the input.

import (
	"bytes"
	"fmt"
	"math"
	"reflect"
	"testing"

	"github.com/lightningnetwork/lnd/internal/verif/c10ref"
	"github.com/lightningnetwork/lnd/internal/verif/vstats"
	"github.com/lightningnetwork/lnd/tlv"
	"pgregory.net/rapid"
)

const (
	// c10KeyBigSizeLen: tlv.DBigSize ignores the record length, which
	// reaches every lnwire record with a BigSize codec.
	c10KeyBigSizeLen = "C10:tlv-bigsize-record-length-ignored"

	// Record decoders of the unchanged tree that do not consume exactly
	// the declared record length (reproductions in
	// c10_reclen_repro_test.go).
	//
	// outpointDecoder (channel_announcement_2, type 18) always reads 34
	// bytes.
	c10KeyOutPointLen = "C10:outpoint-record-length-ignored"

	// rgbDecoder (node_announcement_2, type 1) always reads 3 bytes.
	c10KeyColorLen = "C10:color-record-length-ignored"

	// booleanDecoder (channel_update_2, type 8) accepts the length 1 and
	// consumes nothing.
	c10KeyBoolLen = "C10:true-boolean-length-1-not-consumed"

	// c10KeyAddrAlias: ipv4AddrsDecoder / ipv6AddrsDecoder
	// (node_announcement_2, types 5 and 7) hand the same backing array to
	// every decoded address, so all of them end up with the IP of the
	// last one. Not a length defect, but this check's byte comparison
	// sees it as soon as a regrouped record holds two addresses (the
	// repository's generator only ever builds one).
	c10KeyAddrAlias = "C10:node-announcement-2-ip-addresses-aliased"
)

// c10AddrAliased: got is exactly what the known finding c10KeyAddrAlias makes
// of the node_announcement_2 address list in (record 5: entries of 4+2
// bytes, record 7: 16+2): at least two entries, every IP replaced by the
// last entry's, ports untouched.
func c10AddrAliased(mt MessageType, typ uint64, in, got []byte) bool {
	var ipLen int
	switch {
	case mt == MsgNodeAnnouncement2 && typ == 5:
		ipLen = 4
	case mt == MsgNodeAnnouncement2 && typ == 7:
		ipLen = 16
	default:
		return false
	}
	entry := ipLen + 2
	if len(in) < 2*entry || len(in)%entry != 0 || len(got) != len(in) {
		return false
	}
	last := in[len(in)-entry : len(in)-2]
	for off := 0; off < len(in); off += entry {
		if !bytes.Equal(got[off:off+ipLen], last) ||
			!bytes.Equal(got[off+ipLen:off+entry],
				in[off+ipLen:off+entry]) {

			return false
		}
	}

	return true
}

// c10BigSizePair lists exactly the (message type, record type) pairs whose
// codec is tlv.DBigSize (tlv.BigSizeT[...] and lnwire.MilliSatoshi records).
func c10BigSizePair(mt MessageType, typ uint64) bool {
	switch mt {
	case MsgDynPropose, MsgDynCommit:
		// dust limit, max value in flight, htlc minimum, reserve
		return typ == 0 || typ == 2 || typ == 4 || typ == 6

	case MsgChannelUpdate2:
		// htlc_minimum_msat, htlc_maximum_msat
		return typ == 12 || typ == 14
	}

	return false
}

// c10RecLenKnownKey returns the known-finding key that covers the declared
// length L on record typ of message type mt, or "". The classes are exactly:
// every length of a BigSize-coded record, of the outpoint and of the color
// record, and the length 1 of the true-boolean record. L < 0 asks whether
// every length of the record is covered.
func c10RecLenKnownKey(mt MessageType, typ uint64, L int) string {
	switch {
	case c10BigSizePair(mt, typ):
		return c10KeyBigSizeLen

	case mt == MsgChannelAnnouncement2 && typ == 18:
		return c10KeyOutPointLen

	case mt == MsgNodeAnnouncement2 && typ == 1:
		return c10KeyColorLen

	case mt == MsgChannelUpdate2 && typ == 8 && L == 1:
		return c10KeyBoolLen
	}

	return ""
}

// c10TryDecode is ReadMessage with a panic guard and without the allocation
// measurement (used for probing prefixes; the measured decode is c10Read).
func c10TryDecode(b []byte) (msg Message, rest int, err error) {
	defer func() {
		if r := recover(); r != nil {
			msg, err = nil, fmt.Errorf("panic: %v", r)
		}
	}()
	rd := bytes.NewReader(b)
	msg, err = ReadMessage(rd, 0)

	return msg, rd.Len(), err
}

// c10ExactPrefix: b decodes completely and re-encodes to exactly b.
func c10ExactPrefix(b []byte) bool {
	m, rest, err := c10TryDecode(b)
	if err != nil || rest != 0 {
		return false
	}
	b1, err := c10Write(m)

	return err == nil && bytes.Equal(b1, b)
}

// c10ProbeRecord is an odd record no message knows (and below the custom
// range), appended to a candidate prefix to see whether the decoder takes what
// follows the prefix for the TLV extension.
var c10ProbeRecord = []byte{0xfd, 0x27, 0x0f, 0x02, 0xaa, 0xbb}

// c10ExtensionFollows: base[:q] followed by one unknown odd record still
// decodes, to the same message as base[:q] up to the raw extension. It refutes
// a prefix at which the decoder merely tolerates the absence of optional FIXED
// fields (channel_reestablish without commit secret and point re-encodes
// exactly, yet what follows its 50 bytes is not an extension).
func c10ExtensionFollows(prefix []byte) bool {
	m0, _, err := c10TryDecode(prefix)
	if err != nil {
		return false
	}
	probed := append(append([]byte(nil), prefix...), c10ProbeRecord...)
	m1, rest, err := c10TryDecode(probed)
	if err != nil || rest != 0 {
		return false
	}

	return c10Equiv(m0, m1, true) == nil
}

// c10ExtStart determines where the TLV extension of the valid encoding base
// starts: the smallest prefix length p >= 2 such that base[:p] is a complete
// message (it decodes - with an empty extension, shorter prefixes miss fixed
// fields - and re-encodes to exactly base[:p]) behind which the decoder
// expects the extension (c10ExtensionFollows). The case is only judged when
// base[p:] is a non-empty canonical stream for the reference parser and the
// suffix heuristic c10ref.FindTLVTail does not contradict p: it returns p, or
// an earlier offset h behind which the decoder does not expect the extension
// (the last fixed bytes happen to parse as records; the decoder still reads
// them as fixed fields), or an earlier record boundary of the same extension
// (see below). A pure-TLV message has p = 2 by definition. why != "" names
// the reason the case is not judged.
func c10ExtStart(m Message, base []byte) (int, []c10ref.Rec, string) {
	_, pure := m.(PureTLVMessage)
	if _, hasExtra := c10ExtraField(m); !hasExtra && !pure {
		// ping, pong, error, warning, custom, onion_message: nowhere
		// to keep an extension (and a 64 KiB padding would be
		// allocated for every prefix probed below).
		return -1, nil, "no-extension-field"
	}
	h, _ := c10ref.FindTLVTail(base, 2)
	if h < 0 {
		return -1, nil, "no-tail"
	}
	p := -1
	if pure {
		p = 2
	} else {
		for q := 2; q <= len(base); q++ {
			if c10ExactPrefix(base[:q]) &&
				c10ExtensionFollows(base[:q]) {

				p = q
				break
			}
		}
	}
	switch {
	case p < 0:
		return -1, nil, "no-exact-prefix"

	case p == len(base):
		return -1, nil, "no-tail"

	case h < p && (pure || c10ExtensionFollows(base[:h])):
		// The heuristic found an earlier canonical suffix and the
		// decoder does take what follows it for the extension. That
		// is consistent with p only if base[h:p] consists of whole
		// records which the encoder always emits (the upfront
		// shutdown script, record 0 of open/accept_channel, is
		// written even when empty, so no shorter prefix re-encodes
		// exactly): p is then a record boundary inside the
		// extension, which serves the oracle just as well.
		if _, why, _ := c10ref.Parse(base[h:p], true); pure ||
			why != c10ref.OK {

			return -1, nil, "heuristic-conflict"
		}
	}
	recs, why, _ := c10ref.Parse(base[p:], true)
	if why != c10ref.OK || len(recs) == 0 {
		return -1, nil, "tail-not-canonical"
	}

	return p, recs, ""
}

// c10ClearSigned empties the unknown-record map of a pure-TLV message.
func c10ClearSigned(m Message) {
	v := reflect.ValueOf(m)
	if v.Kind() != reflect.Ptr || v.Elem().Kind() != reflect.Struct {
		return
	}
	s := v.Elem()
	want := reflect.TypeOf(ExtraSignedFields(nil))
	for i := 0; i < s.NumField(); i++ {
		if f := s.Field(i); f.Type() == want && f.CanSet() {
			f.Set(reflect.Zero(want))
		}
	}
}

// c10RecTyped decides behaviourally whether the message gives record i of the
// extension a meaning: without the record the message does not decode, or
// decodes to a different value outside its raw extension caches.
func c10RecTyped(base []byte, p int, recs []c10ref.Rec, i int) bool {
	full, _, err := c10TryDecode(base)
	if err != nil {
		return false
	}
	rest := append(append([]c10ref.Rec(nil), recs[:i]...), recs[i+1:]...)
	del := append(append([]byte(nil), base[:p]...), c10ref.Encode(rest)...)
	without, _, err := c10TryDecode(del)
	if err != nil {
		return true
	}
	c10ClearSigned(full)
	c10ClearSigned(without)

	return c10Equiv(full, without, true) != nil
}

// c10OddBetween draws an odd record type strictly between lo and hi (hi is
// ignored when !bounded).
func c10OddBetween(t *rapid.T, lo, hi uint64, bounded bool) (uint64, bool) {
	if lo >= math.MaxUint64-2 {
		return 0, false
	}
	first := lo + 1
	if first%2 == 0 {
		first++
	}
	last := uint64(math.MaxUint64)
	if bounded {
		if hi == 0 || first > hi-1 {
			return 0, false
		}
		last = hi - 1
	}
	span := (last - first) / 2 // number of further odd candidates
	switch rapid.IntRange(0, 3).Draw(t, "newTypeKind") {
	case 0:
		return first, true
	case 1:
		k := uint64(rapid.IntRange(0, 40000).Draw(t, "newTypeFar"))

		return first + 2*min(k, span), true
	default:
		k := uint64(rapid.IntRange(0, 12).Draw(t, "newTypeNear"))

		return first + 2*min(k, span), true
	}
}

// c10RecLenCase is one regrouped input.
type c10RecLenCase struct {
	shape  string
	typ    uint64 // T
	val    []byte // value' (its length is the declared length L)
	oldLen int
	b      []byte

	// dropped: number of records behind T that were left out.
	dropped int
}

// c10Regroup builds the mutated stream: record i gets the value val and, when
// ins != nil, the record ins is inserted right behind it.
func c10Regroup(base []byte, p int, recs []c10ref.Rec, i int, val []byte,
	ins *c10ref.Rec) []byte {

	out := append([]byte(nil), base[:p]...)
	for j, r := range recs {
		if j != i {
			out = c10ref.AppendRecord(out, r.Type, r.Val)
			continue
		}
		out = c10ref.AppendRecord(out, r.Type, val)
		if ins != nil {
			out = c10ref.AppendRecord(out, ins.Type, ins.Val)
		}
	}

	return out
}

// c10SplitRest: the value length r of a record of type typ whose header plus
// value occupy exactly k bytes.
func c10SplitRest(typ uint64, k int) (int, bool) {
	wT := c10ref.BigSizeLen(typ)
	for _, wL := range []int{1, 3} {
		r := k - wT - wL
		if r >= 0 && c10ref.BigSizeLen(uint64(r)) == wL {
			return r, true
		}
	}

	return 0, false
}

// c10FirstOdd: the smallest odd type above typ.
func c10FirstOdd(typ uint64) uint64 {
	if typ%2 == 0 {
		return typ + 1
	}

	return typ + 2
}

// c10DrawRecLenCase regroups record i of the extension. The shape is drawn
// first; records behind T whose types the shape needs for its new records are
// dropped (every record of an extension is optional for the stream decoder,
// and the densely typed pure-TLV messages otherwise leave no room behind most
// of their records), some more with a small probability.
//
// Shapes (n = len(value), L = declared length of the regrouped record):
//
//	identity       L = n, nothing changes
//	plus1, minus1  one junk byte appended to / one byte cut off the value
//	grow           value' = value ++ enc(T', v')
//	split          value' = value[:L], then a new record (T', rest) that
//	               occupies exactly the other n-L bytes
//	plus1-desync   L = n+1: value' = value ++ [T'], followed by a record
//	               (T', filler ++ enc(T3, x)) built so that a decoder which
//	               consumes only n bytes reads (T', len T': the length byte
//	               and the filler) and then (T3, x)
//	minus1-desync  L = n-1: value' = value[:n-1], followed by a record
//	               (T', [l] ++ l bytes ++ enc(T3, x)) of odd length D built
//	               so that a decoder which consumes n bytes swallows the
//	               type byte T' and reads (D, l bytes) and then (T3, x)
//
// grow and split are what a decoder that ignores L and reads its own fixed
// size silently accepts; the desync shapes catch a decoder that is off by a
// single byte, which no well-formed record fits into.
func c10DrawRecLenCase(t *rapid.T, base []byte, p int, recs []c10ref.Rec,
	i int) (c10RecLenCase, bool) {

	rec := recs[i]
	n := len(rec.Val)
	c := c10RecLenCase{typ: rec.Type, oldLen: n}

	shapes := []string{"identity", "plus1", "plus1"}
	if n >= 1 {
		shapes = append(shapes, "minus1", "minus1")
	}
	lo := c10FirstOdd(rec.Type)
	if rec.Type < math.MaxUint64-8 {
		shapes = append(shapes, "grow", "grow", "grow", "grow", "grow")
		if n >= 2 {
			shapes = append(shapes, "split", "split", "split", "split",
				"split")
		}
	}
	if rec.Type < 180 {
		shapes = append(shapes, "plus1-desync", "plus1-desync")
		if n >= 1 {
			shapes = append(shapes, "minus1-desync", "minus1-desync")
		}
	}
	c.shape = rapid.SampledFrom(shapes).Draw(t, "shape")

	// The largest record type the shape puts behind T: every follower
	// up to it has to go.
	var need uint64
	switch c.shape {
	case "grow", "split":
		need = lo
	case "plus1-desync":
		need = lo + 2
	case "minus1-desync":
		need = max(lo, 3) + 2
	}
	followers := len(recs) - i - 1
	drop := 0
	for drop < followers && recs[i+1+drop].Type <= need {
		drop++
	}
	if drop < followers && rapid.IntRange(0, 7).Draw(t, "dropMore") == 0 {
		drop = rapid.IntRange(drop+1, followers).Draw(t, "dropN")
	}
	if drop > 0 {
		recs = append(append([]c10ref.Rec(nil), recs[:i+1]...),
			recs[i+1+drop:]...)
		c.dropped = drop
	}
	var (
		next    uint64
		hasNext = i+1 < len(recs)
	)
	if hasNext {
		next = recs[i+1].Type
	}

	switch c.shape {
	case "identity":
		c.val = rec.Val
		c.b = c10Regroup(base, p, recs, i, c.val, nil)
		if c.dropped == 0 && !bytes.Equal(c.b, base) {
			t.Fatalf("harness: canonical re-assembly differs from base")
		}

	case "plus1":
		// One junk byte at the end of the value. Never zero, so that
		// a big-endian value that was minimal stays minimal.
		j := byte(rapid.IntRange(1, 255).Draw(t, "junk"))
		c.val = append(append([]byte(nil), rec.Val...), j)
		c.b = c10Regroup(base, p, recs, i, c.val, nil)

	case "minus1":
		c.val = rec.Val[:n-1]
		c.b = c10Regroup(base, p, recs, i, c.val, nil)

	case "grow":
		nt, ok := c10OddBetween(t, rec.Type, next, hasNext)
		if !ok {
			return c, false
		}
		// ... of any size, often of the size that doubles the value:
		// a one-entry list becomes a well-formed two-entry list, which
		// a correct decoder accepts.
		lens := []int{0, 0, 1, 2, 8, 32, 33, 66, 253}
		if k := n - c10ref.BigSizeLen(nt) - 1; k >= 0 && k < 253 {
			lens = append(lens, k, k, k)
		}
		vl := rapid.SampledFrom(lens).Draw(t, "growLen")
		inner := c10ref.AppendRecord(nil, nt, c10Bytes(t, vl, "growVal"))
		c.val = append(append([]byte(nil), rec.Val...), inner...)
		c.b = c10Regroup(base, p, recs, i, c.val, nil)

	case "split":
		nt, ok := c10OddBetween(t, rec.Type, next, hasNext)
		if !ok {
			return c, false
		}
		cands := []int{0, 1, n / 2, n - 2,
			rapid.IntRange(0, n-2).Draw(t, "splitAny")}
		l := rapid.SampledFrom(cands).Draw(t, "splitL")
		if l < 0 || l > n-2 {
			l = 0
		}
		r, ok := c10SplitRest(nt, n-l)
		if !ok {
			return c, false
		}
		// rest: the value bytes that were there (all but the new
		// header keeps its place), or fresh bytes.
		restVal := append([]byte(nil), rec.Val[n-r:]...)
		if rapid.IntRange(0, 2).Draw(t, "freshRest") == 0 {
			restVal = c10Bytes(t, r, "restVal")
		}
		c.val = rec.Val[:l]
		c.b = c10Regroup(base, p, recs, i, c.val,
			&c10ref.Rec{Type: nt, Val: restVal})
		if l+len(c10ref.AppendRecord(nil, nt, restVal)) != n {
			t.Fatalf("harness: split of %d bytes at %d does not add up",
				n, l)
		}

	case "plus1-desync":
		nt, t3 := lo, lo+2
		x := c10Bytes(t, rapid.IntRange(0, 4).Draw(t, "dsLen"), "dsVal")
		filler := c10Bytes(t, int(nt)-1, "dsFiller")
		ins := c10ref.Rec{Type: nt, Val: append(filler,
			c10ref.AppendRecord(nil, t3, x)...)}
		c.val = append(append([]byte(nil), rec.Val...), byte(nt))
		c.b = c10Regroup(base, p, recs, i, c.val, &ins)

	case "minus1-desync":
		// D = 1 + l + 2 + len(x) is the length of the inserted value
		// and, for the decoder out of step, a record type.
		nt, d := lo, max(lo, 3)
		t3 := d + 2
		l := int(d) - 3
		v := append([]byte{byte(l)}, c10Bytes(t, l, "dsFiller")...)
		v = c10ref.AppendRecord(v, t3, nil)
		if len(v) != int(d) {
			t.Fatalf("harness: desync value of %d bytes, want %d",
				len(v), d)
		}
		c.val = rec.Val[:n-1]
		c.b = c10Regroup(base, p, recs, i, c.val,
			&c10ref.Rec{Type: nt, Val: v})
	}
	c.shape = "shape=" + c.shape

	return c, len(c.b) <= MaxSliceLength
}

func c10FindRec(recs []c10ref.Rec, typ uint64) (c10ref.Rec, bool) {
	for _, r := range recs {
		if r.Type == typ {
			return r, true
		}
	}

	return c10ref.Rec{}, false
}

// c10DrawTypeFlat draws a registered type or (1 in 24) a type of the custom
// range. Two mixed draws flatten rapid's preference for a few small values,
// which c10DrawType maps onto a handful of (here mostly extension-less) types.
func c10DrawTypeFlat(t *rapid.T) MessageType {
	types := c10RegisteredTypes()
	x := rapid.Uint32().Draw(t, "typeSelA")
	y := rapid.Uint32().Draw(t, "typeSelB")
	k := c10Mix(x*0x9e3779b1 ^ c10Mix(y+0x7f4a7c15))
	if k%24 == 0 {
		return MessageType(rapid.SampledFrom([]int{32768, 40000,
			65535}).Draw(t, "customType"))
	}

	return types[(k/24)%uint32(len(types))]
}

func c10RecLenProp(t *rapid.T, st *vstats.Collector) {
	typ := c10DrawTypeFlat(t)
	if empty, err := makeEmptyMessage(typ); err == nil {
		_, hasExtra := c10ExtraField(empty)
		_, pure := empty.(PureTLVMessage)
		if !hasExtra && !pure {
			// ping, pong, error, warning, custom, onion_message:
			// nowhere to keep an extension.
			why := "no-extension-field"
			st.Count("not_judged:"+why, 1)
			st.Count(fmt.Sprintf("not_judged:%s:%T", why, empty), 1)
			st.Case(vstats.FP(uint16(typ)), false, []string{
				fmt.Sprintf("type=%T", empty), "skip=" + why}, nil)

			return
		}
	}
	m, ok := c10GenMessage(t, typ)
	if !ok {
		t.Fatalf("registered message type %d has no RandTestMessage", typ)
	}
	labels := []string{fmt.Sprintf("type=%T", m)}
	labels = append(labels, c10PopulateTyped(t, m)...)
	if rapid.IntRange(0, 3).Draw(t, "inject") == 0 {
		c10InjectUnknown(t, m)
	}
	mt := m.MsgType()
	_, pure := m.(PureTLVMessage)
	repacks := c10RepacksExtension(m)
	base, err := c10Write(m)
	if err != nil {
		t.Fatalf("%T: generated value does not encode: %v", m, err)
	}
	skip := func(why string) {
		st.Count("not_judged:"+why, 1)
		st.Count(fmt.Sprintf("not_judged:%s:%T", why, m), 1)
		st.Case(vstats.FP(base), false, append(labels, "skip="+why), nil)
	}
	excluded := func(key string) {
		st.Known(key)
		st.Count("excluded_known", 1)
	}

	p, recs, why := c10ExtStart(m, base)
	if why != "" {
		skip(why)

		return
	}

	// Which records does the message give a meaning to? Records all of
	// whose lengths fall into a known finding are taken out of the
	// candidates while the key is known.
	var typed, opaque []int
	for i, r := range recs {
		key := c10RecLenKnownKey(mt, r.Type, -1)
		switch {
		case key != "" && c10Known(key):
			excluded(key)

		case c10RecTyped(base, p, recs, i):
			typed = append(typed, i)

		default:
			opaque = append(opaque, i)
		}
	}
	if len(typed)+len(opaque) == 0 {
		skip("only-known-finding-records")

		return
	}
	pool, isTyped := typed, true
	if len(typed) == 0 || len(opaque) > 0 &&
		rapid.IntRange(0, 5).Draw(t, "pickOpaque") == 0 {

		pool, isTyped = opaque, false
	}
	i := pool[rapid.IntRange(0, len(pool)-1).Draw(t, "recAt")]

	c, ok := c10DrawRecLenCase(t, base, p, recs, i)
	if !ok {
		skip("shape-infeasible")

		return
	}
	L := len(c.val)
	lie := L != c.oldLen
	if key := c10RecLenKnownKey(mt, c.typ, L); lie && key != "" &&
		c10Known(key) {

		excluded(key)
		skip("known-finding-length")

		return
	}
	labels = append(labels, c.shape)
	if isTyped {
		labels = append(labels, "rec=typed",
			fmt.Sprintf("rec=%T/%d", m, min(c.typ, 65536)))
	} else {
		labels = append(labels, "rec=opaque")
	}
	if c.dropped > 0 {
		labels = append(labels, "followers-dropped")
	}

	// The regrouped stream must be canonical at the stream level and
	// show the reference exactly (T, value').
	in, rwhy, _ := c10ref.Parse(c.b[p:], true)
	got, found := c10FindRec(in, c.typ)
	if rwhy != c10ref.OK || !found || !bytes.Equal(got.Val, c.val) ||
		!bytes.Equal(c.b[:p], base[:p]) {

		t.Fatalf("harness: regrouped stream is not canonical (%v)\n"+
			"b=%x", rwhy, c10Head(c.b))
	}

	fail := func(format string, args ...any) {
		t.Fatalf("%T, extension at %d, record type %d, %s, declared "+
			"length %d (valid message: %d): %s\nbase=%x\n   b=%x", m, p,
			c.typ, c.shape, L, c.oldLen, fmt.Sprintf(format, args...),
			base, c.b)
	}

	accepted, b1 := c10Fixpoint(t, st, c.b)
	verdict := "rejected"
	switch {
	case accepted:
		verdict = "accepted-exact"
		if len(b1) < p || !bytes.Equal(b1[:p], c.b[:p]) {
			fail("the part in front of the extension changed in the "+
				"re-encoding\n  b1=%x", b1)
		}
		out, owhy, _ := c10ref.Parse(b1[p:], true)
		if owhy != c10ref.OK {
			fail("the re-encoded extension is not canonical (%v)\n"+
				"  b1=%x", owhy, b1)
		}
		r1, present := c10FindRec(out, c.typ)
		switch {
		case present && len(r1.Val) != L:
			fail("accepted, but the decoder did not consume the "+
				"declared %d bytes: the record is re-encoded with "+
				"%d bytes\n  b1=%x", L, len(r1.Val), b1)

		case present && !bytes.Equal(r1.Val, c.val) &&
			c10AddrAliased(mt, c.typ, c.val, r1.Val) &&
			c10Known(c10KeyAddrAlias):

			excluded(c10KeyAddrAlias)
			verdict = "accepted-aliased-known"

		case present && !bytes.Equal(r1.Val, c.val):
			fail("accepted, but the record is re-encoded with other "+
				"bytes (%x, input %x)\n  b1=%x", r1.Val, c.val, b1)

		case present:

		case !isTyped && repacks && c10Known(c10KeyDropUnknown):
			excluded(c10KeyDropUnknown)
			st.Count(fmt.Sprintf("drops-unknown:%T", m), 1)
			verdict = "accepted-dropped-known"

		case !isTyped && pure:
			// unknown records of the unsigned ranges are
			// dropped by design
			verdict = "accepted-absent-noverdict"

		case !isTyped:
			fail("accepted, but the unknown record is missing from "+
				"the re-encoding\n  b1=%x", b1)

		case !lie:
			fail("the valid message lost its typed record in the "+
				"re-encoding\n  b1=%x", b1)

		default:
			// A typed record that is accepted with another
			// length and then not re-emitted (e.g. an empty
			// list): no verdict at the record level.
			verdict = "accepted-absent-noverdict"
		}
		// The converse: without a lie the valid message reproduces
		// itself (unknown records of the repacking types and of the
		// unsigned ranges of a pure-TLV message excepted).
		if !lie && c.dropped == 0 && !bytes.Equal(b1, c.b) &&
			!(repacks && c10Known(c10KeyDropUnknown)) && !pure {

			fail("valid message does not reproduce itself\n  b1=%x", b1)
		}

	case !lie && c.dropped == 0:
		fail("valid message (no lie) rejected")

	case !lie:
		// a message stripped of some of its records may be refused
		verdict = "rejected-stripped-noverdict"
	}
	labels = append(labels, "verdict="+verdict)
	if lie {
		labels = append(labels, "lie")
	}

	// Non-trivial: a lying length on a record the message types; both
	// outcomes are verdicts (rejected = length enforced, accepted =
	// exactly the declared bytes consumed).
	nontrivial := lie && isTyped
	var sample any
	if nontrivial && st.WantSample() {
		sample = map[string]any{"labels": labels, "p": p, "T": c.typ,
			"L": L, "was": c.oldLen,
			"tail": fmt.Sprintf("%x", c10Head(c.b[p:]))}
	}
	st.Case(vstats.FP(c.b), nontrivial, labels, sample)
}

// c10PopulateTyped fills typed records that the repository's generators
// leave empty: the next closee nonce of closing_sig (type 22) and the custom
// records of init (its generator builds an extension and then returns a fresh
// message without it).
func c10PopulateTyped(t *rapid.T, m Message) []string {
	switch v := m.(type) {
	case *ClosingSig:
		if rapid.Bool().Draw(t, "withNextCloseeNonce") {
			v.NextCloseeNonce = tlv.SomeRecordT(
				tlv.NewRecordT[tlv.TlvType22](RandMusig2Nonce(t)),
			)

			return []string{"populated=closing_sig/22"}
		}

	case *Init:
		if rapid.Bool().Draw(t, "withInitCustom") {
			v.CustomRecords, _ = RandCustomRecords(t, nil)

			return []string{"populated=init/custom"}
		}
	}

	return nil
}

// TestVerifC10RecordLengths: see the file comment.
func TestVerifC10RecordLengths(t *testing.T) {
	st := vstats.New("TestVerifC10RecordLengths")
	defer st.Flush()

	rapid.Check(t, func(t *rapid.T) {
		c10RecLenProp(t, st)
	})
}
