//go:build verif

package lnwire

// C10 parts 2/3 for the onion failure codec: DecodeFailureMessage /
// EncodeFailureMessage over every failure code, and the fixed-size packet
// layer DecodeFailure / EncodeFailure.

import (
	"bytes"
	"encoding/binary"
	"fmt"
	"testing"

	"github.com/lightningnetwork/lnd/internal/verif/c10ref"
	"github.com/lightningnetwork/lnd/internal/verif/vstats"
	"pgregory.net/rapid"
)

// c10FailureLayout describes the payload of a failure as a list of field
// kinds, derived from the concrete type makeEmptyOnionError returns.
func c10FailureLayout(code FailCode) []string {
	f, err := makeEmptyOnionError(code)
	if err != nil {
		return nil
	}
	switch f.(type) {
	case *FailIncorrectDetails:
		return []string{"u64", "u32", "tlv"}
	case *FailInvalidOnionVersion, *FailInvalidOnionHmac,
		*FailInvalidOnionKey, *FailInvalidBlinding:

		return []string{"sha"}
	case *FailTemporaryChannelFailure, *FailExpiryTooSoon:
		return []string{"upd"}
	case *FailAmountBelowMinimum, *FailFeeInsufficient:
		return []string{"u64", "upd"}
	case *FailIncorrectCltvExpiry:
		return []string{"u32", "upd"}
	case *FailChannelDisabled:
		return []string{"u16", "upd"}
	case *FailFinalIncorrectCltvExpiry:
		return []string{"u32"}
	case *FailFinalIncorrectHtlcAmount:
		return []string{"u64"}
	case *InvalidOnionPayload:
		return []string{"bigsize", "u16"}
	}
	if _, ok := f.(Serializable); ok {
		// A failure with a payload this table does not know: raw bytes.
		return []string{"raw"}
	}

	return nil
}

// c10SpliceWireRecord merges r into the TLV tail of an encoded message (or
// appends it when there is none).
func c10SpliceWireRecord(enc []byte, r c10ref.Rec) []byte {
	tail, recs := c10ref.FindTLVTail(enc, 2)
	if tail < 0 {
		return c10ref.AppendRecord(append([]byte(nil), enc...), r.Type,
			r.Val)
	}
	var out []c10ref.Rec
	placed := false
	for _, x := range recs {
		if !placed && x.Type > r.Type {
			out = append(out, r)
			placed = true
		}
		if x.Type == r.Type {
			placed = true
		}
		out = append(out, x)
	}
	if !placed {
		out = append(out, r)
	}

	return append(append([]byte(nil), enc[:tail]...), c10ref.Encode(out)...)
}

// c10Int draws an n-byte big-endian integer with the boundary values (zero,
// one, all ones) well represented.
func c10Int(t *rapid.T, n int, label string) []byte {
	out := make([]byte, n)
	switch rapid.IntRange(0, 7).Draw(t, label+"Kind") {
	case 0, 1:
	case 2:
		out[n-1] = 1
	case 3:
		for i := range out {
			out[i] = 0xff
		}
	default:
		copy(out, c10Bytes(t, n, label))
	}

	return out
}

// c10GenFailureMessage draws the bytes of a failure message (code + payload).
func c10GenFailureMessage(t *rapid.T) ([]byte, []string) {
	codes := c10FailCodes()
	var (
		code   FailCode
		labels []string
	)
	if rapid.IntRange(0, 19).Draw(t, "anyCode") == 0 {
		code = FailCode(rapid.Uint16().Draw(t, "rawCode"))
		labels = append(labels, "code=random")
	} else {
		x := rapid.Uint32().Draw(t, "codeSel")
		code = codes[int(c10Mix(x)%uint32(len(codes)))]
		labels = append(labels, "code="+code.String())
	}
	b := binary.BigEndian.AppendUint16(nil, uint16(code))
	for _, kind := range c10FailureLayout(code) {
		switch kind {
		case "u64":
			b = append(b, c10Int(t, 8, "u64")...)
		case "u32":
			b = append(b, c10Int(t, 4, "u32")...)
		case "u16":
			b = append(b, c10Int(t, 2, "u16")...)
		case "sha":
			b = append(b, c10Bytes(t, 32, "sha")...)
		case "bigsize":
			v := rapid.SampledFrom([]uint64{0, 1, 0xfc, 0xfd, 0xffff,
				0x10000, 1 << 40, 1<<64 - 1}).Draw(t, "bsVal")
			w := c10ref.BigSizeLen(v)
			if rapid.IntRange(0, 4).Draw(t, "bsWide") == 0 && w < 9 {
				w = map[int]int{1: 3, 3: 5, 5: 9}[w]
				labels = append(labels, "nonminimal-bigsize")
			}
			b = c10ref.AppendBigSizeWidth(b, v, w)
		case "tlv":
			switch rapid.IntRange(0, 2).Draw(t, "withTlv") {
			case 0:
			case 1:
				b = c10ref.AppendRecord(b, c10DrawUnknownType(t),
					c10Bytes(t, rapid.SampledFrom([]int{0, 1, 4, 20, 240,
						300}).Draw(t, "tN"), "tV"))
			default:
				// total length around the 256-byte packet payload
				target := rapid.IntRange(250, 262).Draw(t, "target")
				vlen := target - len(b) - 3 - 1
				if vlen >= 0xfd {
					vlen -= 2
				}
				b = c10ref.AppendRecord(b, c10DrawUnknownType(t),
					c10Bytes(t, max(vlen, 0), "tV"))
				labels = append(labels, "near-packet-size")
			}
		case "raw":
			b = append(b, c10Bytes(t, rapid.IntRange(0, 64).Draw(t, "rN"),
				"rV")...)
		case "upd":
			shape := rapid.SampledFrom([]string{"prefixed", "prefixed",
				"bare", "none", "garbage"}).Draw(t, "updShape")
			labels = append(labels, "update="+shape)
			var upd []byte
			switch shape {
			case "prefixed", "bare":
				m := (&ChannelUpdate1{}).RandTestMessage(t)
				enc, err := c10Write(m)
				if err != nil {
					t.Fatalf("channel_update: %v", err)
				}
				if rapid.IntRange(0, 2).Draw(t, "updUnknown") == 0 {
					// an unknown record on the wire (Encode itself
					// would not emit it)
					enc = c10SpliceWireRecord(enc, c10ref.Rec{
						Type: c10DrawUnknownType(t),
						Val:  c10Bytes(t, 4, "updU"),
					})
				}
				upd = enc
				if shape == "bare" {
					upd = enc[2:]
				}
			case "garbage":
				upd = c10Bytes(t, rapid.IntRange(1, 140).Draw(t, "gN"),
					"gV")
			}
			decl := len(upd)
			if rapid.IntRange(0, 7).Draw(t, "updLenLie") == 0 {
				decl = rapid.SampledFrom([]int{0, 1, 2, decl + 1,
					max(decl-1, 0), decl + 100, 0xffff}).Draw(t, "updDecl")
				labels = append(labels, "update-len-lie")
			}
			b = binary.BigEndian.AppendUint16(b, uint16(decl))
			b = append(b, upd...)
		}
	}

	// byte-level mutation of the assembled message
	switch rapid.IntRange(0, 9).Draw(t, "fmut") {
	case 0:
		if len(b) > 0 {
			b = b[:rapid.IntRange(0, len(b)-1).Draw(t, "cut")]
			labels = append(labels, "truncate")
		}
	case 1:
		b = append(b, c10Bytes(t, rapid.IntRange(1, 300).Draw(t, "extN"),
			"ext")...)
		labels = append(labels, "extend")
	case 2:
		if len(b) > 2 {
			pos := rapid.IntRange(2, len(b)-1).Draw(t, "pos")
			b[pos] ^= 1 << uint(rapid.IntRange(0, 7).Draw(t, "bit"))
			labels = append(labels, "flip")
		}
	case 3:
		if len(b) > 3 {
			pos := rapid.IntRange(2, len(b)-2).Draw(t, "pos16")
			binary.BigEndian.PutUint16(b[pos:], uint16(rapid.SampledFrom(
				[]int{0, 1, 0xffff, len(b) - pos - 2,
					len(b) - pos - 1}).Draw(t, "v16")))
			labels = append(labels, "set-u16")
		}
	}

	return b, labels
}

func c10DecodeFailureMessage(t c10TB, b []byte) (FailureMessage, error) {
	var (
		m        FailureMessage
		err      error
		panicked any
	)
	alloc := c10Measure(func() {
		defer func() { panicked = recover() }()
		m, err = DecodeFailureMessage(bytes.NewReader(b), 0)
	})
	if panicked != nil {
		t.Fatalf("DecodeFailureMessage panicked: %v\ninput=%x", panicked,
			c10Head(b))
	}
	if alloc > c10AllocCap {
		t.Fatalf("DecodeFailureMessage of %d bytes allocated %d bytes",
			len(b), alloc)
	}

	return m, err
}

func c10DecodeFailure(t c10TB, b []byte) (FailureMessage, error) {
	var (
		m        FailureMessage
		err      error
		panicked any
	)
	alloc := c10Measure(func() {
		defer func() { panicked = recover() }()
		m, err = DecodeFailure(bytes.NewReader(b), 0)
	})
	if panicked != nil {
		t.Fatalf("DecodeFailure panicked: %v\ninput=%x", panicked,
			c10Head(b))
	}
	if alloc > c10AllocCap {
		t.Fatalf("DecodeFailure of %d bytes allocated %d bytes", len(b),
			alloc)
	}

	return m, err
}

// c10FailureFixpoint is the fixpoint oracle for one failure message; it
// returns whether b was accepted and the labels describing the case.
func c10FailureFixpoint(t c10TB, b []byte) (bool, []string) {
	m1, err := c10DecodeFailureMessage(t, b)
	if err != nil {
		return false, nil
	}
	if m1 == nil {
		t.Fatalf("DecodeFailureMessage: neither message nor error")
	}
	pristine, err := c10DecodeFailureMessage(t, b)
	if err != nil {
		t.Fatalf("second decode of the same failure bytes: %v", err)
	}
	var w1 bytes.Buffer
	if err := EncodeFailureMessage(&w1, m1, 0); err != nil {
		t.Fatalf("%T decoded from bytes cannot be re-encoded: %v\n"+
			"input=%x", m1, err, c10Head(b))
	}
	b1 := w1.Bytes()
	m2, err := c10DecodeFailureMessage(t, b1)
	if err != nil {
		t.Fatalf("%T: re-encoding does not decode: %v\ninput=%x\n   b1=%x",
			m1, err, c10Head(b), c10Head(b1))
	}
	if err := c10Equiv(pristine, m2, true); err != nil {
		t.Fatalf("%T: re-encoding decodes to a different failure: %v\n"+
			"input=%x\n   b1=%x", m1, err, c10Head(b), c10Head(b1))
	}
	if err := c10Equiv(m1, m2, false); err != nil {
		t.Fatalf("%T: re-encoding decodes to a different failure "+
			"(extension): %v\ninput=%x\n   b1=%x", m1, err, c10Head(b),
			c10Head(b1))
	}
	var w2 bytes.Buffer
	if err := EncodeFailureMessage(&w2, m2, 0); err != nil {
		t.Fatalf("%T: second re-encoding failed: %v", m1, err)
	}
	if !bytes.Equal(b1, w2.Bytes()) {
		t.Fatalf("%T: not a canonical fixpoint\ninput=%x\n   b1=%x\n   "+
			"b2=%x", m1, c10Head(b), c10Head(b1), c10Head(w2.Bytes()))
	}
	if m2.Code() != m1.Code() {
		t.Fatalf("code changed %v -> %v", m1.Code(), m2.Code())
	}

	// Packet layer: fixed 256-byte payload + two length fields.
	labels := []string{"accepted"}
	var pkt bytes.Buffer
	err = EncodeFailure(&pkt, m2, 0)
	if len(b1) > FailureMessageLength {
		labels = append(labels, "longer-than-packet")
		if err == nil {
			t.Fatalf("%T: EncodeFailure packed a %d-byte failure into "+
				"%d bytes", m1, len(b1), pkt.Len())
		}

		return true, labels
	}
	if err != nil {
		t.Fatalf("%T: EncodeFailure of a %d-byte failure: %v", m1, len(b1),
			err)
	}
	if pkt.Len() != FailureMessageLength+4 {
		t.Fatalf("%T: failure packet of %d bytes", m1, pkt.Len())
	}
	m3, err := c10DecodeFailure(t, pkt.Bytes())
	if err != nil {
		t.Fatalf("%T: own failure packet does not decode: %v", m1, err)
	}
	if err := c10Equiv(m2, m3, false); err != nil {
		t.Fatalf("%T: packet round trip differs: %v", m1, err)
	}
	var pkt2 bytes.Buffer
	if err := EncodeFailure(&pkt2, m3, 0); err != nil {
		t.Fatalf("%T: re-packing failed: %v", m1, err)
	}
	if !bytes.Equal(pkt.Bytes(), pkt2.Bytes()) {
		t.Fatalf("%T: failure packet is not a fixpoint", m1)
	}

	return true, labels
}

// TestVerifC10OnionFailure: failure messages over every failure code.
func TestVerifC10OnionFailure(t *testing.T) {
	st := vstats.New("TestVerifC10OnionFailure")
	defer st.Flush()

	rapid.Check(t, func(t *rapid.T) {
		b, labels := c10GenFailureMessage(t)
		ok, more := c10FailureFixpoint(t, b)
		labels = append(labels, more...)
		if !ok {
			labels = append(labels, "rejected")
		}
		var sample any
		if ok && st.WantSample() {
			sample = map[string]any{"labels": labels,
				"head": fmt.Sprintf("%x", c10Head(b)[:min(len(b), 40)])}
		}
		st.Case(vstats.FP(b), ok, labels, sample)
	})
}

// TestVerifC10FailurePacket: the packet layer on adversarial packets: lying
// lengths, short totals, trailing bytes; an accepted packet's inner message
// satisfies the failure fixpoint.
func TestVerifC10FailurePacket(t *testing.T) {
	st := vstats.New("TestVerifC10FailurePacket")
	defer st.Flush()

	rapid.Check(t, func(t *rapid.T) {
		inner, labels := c10GenFailureMessage(t)
		padLen := FailureMessageLength - len(inner)
		if padLen < 0 || rapid.IntRange(0, 5).Draw(t, "padAny") == 0 {
			padLen = rapid.IntRange(0, 300).Draw(t, "padLen")
			labels = append(labels, "pad=any")
		}
		declInner, declPad := len(inner), padLen
		switch rapid.IntRange(0, 9).Draw(t, "pktFault") {
		case 0:
			declInner = rapid.SampledFrom([]int{0, 1, declInner + 1,
				max(declInner-1, 0), 0xffff}).Draw(t, "declInner")
			labels = append(labels, "inner-len-lie")
		case 1:
			declPad = rapid.SampledFrom([]int{0, declPad + 1,
				max(declPad-1, 0), 0xffff}).Draw(t, "declPad")
			labels = append(labels, "pad-len-lie")
		}
		pkt := binary.BigEndian.AppendUint16(nil, uint16(declInner))
		pkt = append(pkt, inner...)
		pkt = binary.BigEndian.AppendUint16(pkt, uint16(declPad))
		pkt = append(pkt, make([]byte, padLen)...)
		switch rapid.IntRange(0, 9).Draw(t, "pktTail") {
		case 0:
			pkt = append(pkt, c10Bytes(t, rapid.IntRange(1, 5).Draw(t,
				"tailN"), "tail")...)
			labels = append(labels, "trailing")
		case 1:
			pkt = pkt[:rapid.IntRange(0, len(pkt)-1).Draw(t, "pktCut")]
			labels = append(labels, "truncate")
		}

		m, err := c10DecodeFailure(t, pkt)
		accepted := err == nil
		if accepted {
			// What the packet layer hands on is exactly the declared
			// inner message, which therefore must be well-formed.
			if len(pkt) < 2+declInner {
				t.Fatalf("accepted packet shorter than its inner length")
			}
			innerSeen := pkt[2 : 2+declInner]
			ok, _ := c10FailureFixpoint(t, innerSeen)
			if !ok {
				t.Fatalf("packet accepted but its inner message %x is "+
					"rejected on its own", c10Head(innerSeen))
			}
			direct, _ := c10DecodeFailureMessage(t, innerSeen)
			if err := c10Equiv(m, direct, false); err != nil {
				t.Fatalf("packet and direct decode differ: %v", err)
			}
			if declInner+declPad < FailureMessageLength {
				t.Fatalf("packet with %d+%d < 256 payload bytes accepted",
					declInner, declPad)
			}
			labels = append(labels, "accepted")
		} else {
			labels = append(labels, "rejected")
		}
		st.Case(vstats.FP(pkt), accepted, labels, nil)
	})
}
