//go:build verif

package lnwire

// Deterministic reproductions of the record-length findings of
// TestVerifC10RecordLengths. They are not part of any job table (the job
// patterns are anchored); run them with
//
//	VERIF_C10_REPRO=1 ./check C10 --run 'TestVerifC10ReproRecordLength' --checks 1 --shards 1 --verbose
//
// A FAIL means the defect is present in the tree.

import (
	"bytes"
	"encoding/hex"
	"os"
	"testing"

	"github.com/lightningnetwork/lnd/internal/verif/c10ref"
)

func c10ReproGate(t *testing.T) {
	if os.Getenv("VERIF_C10_REPRO") == "" {
		t.Skip("set VERIF_C10_REPRO=1")
	}
}

// c10ReproStream feeds a pure-TLV message body to ReadMessage. The body is a
// canonical TLV stream (checked with the reference parser) in which one typed
// record has a length its type does not allow; the message must be rejected.
func c10ReproStream(t *testing.T, mt MessageType, body string, typ uint64,
	declared int) {

	t.Helper()
	stream, err := hex.DecodeString(body)
	if err != nil {
		t.Fatal(err)
	}
	recs, why, _ := c10ref.Parse(stream, true)
	if why != c10ref.OK {
		t.Fatalf("harness: input stream not canonical: %v", why)
	}
	r, ok := c10FindRec(recs, typ)
	if !ok || len(r.Val) != declared {
		t.Fatalf("harness: record %d does not declare %d bytes", typ,
			declared)
	}
	wire := append([]byte{byte(mt >> 8), byte(mt)}, stream...)
	m, err := ReadMessage(bytes.NewReader(wire), 0)
	if err != nil {
		t.Logf("rejected: %v (defect absent)", err)
		return
	}
	b1, err := c10Write(m)
	if err != nil {
		t.Errorf("%T accepted, record %d declares %d bytes; it cannot be "+
			"re-encoded: %v", m, typ, declared, err)
		return
	}
	out, _, _ := c10ref.Parse(b1[2:], true)
	var seen []uint64
	for _, o := range out {
		seen = append(seen, o.Type)
	}
	r1, _ := c10FindRec(out, typ)
	t.Errorf("%T accepted although record %d declares %d bytes: the decoder "+
		"consumed %d of them and parsed the others as records\n   in=%x\n"+
		"  out=%x\nrecord types of the input %v, of the re-encoding %v", m,
		typ, declared, len(r1.Val), wire, b1, c10Types2(recs), seen)
}

func c10Types2(recs []c10ref.Rec) []uint64 {
	var out []uint64
	for _, r := range recs {
		out = append(out, r.Type)
	}

	return out
}

// outpointDecoder (lnwire/outpoint.go) never looks at the record length: it
// always reads 34 bytes. A channel_announcement_2 whose outpoint record
// (type 18) declares 36 bytes is accepted; the 2 surplus value bytes `13 00`
// are parsed as an empty record of type 19.
func TestVerifC10ReproRecordLengthOutPoint(t *testing.T) {
	c10ReproGate(t)
	body := "1224" + // type 18, length 36
		"1111111111111111111111111111111111111111111111111111111111111111" +
		"0001" + // txid, output index: the 34 bytes of an outpoint
		"1300" // still inside the value
	c10ReproStream(t, MsgChannelAnnouncement2, body, 18, 36)
}

// rgbDecoder (lnwire/node_announcement_2.go) never looks at the record
// length: it always reads 3 bytes. A node_announcement_2 whose color record
// (type 1) declares 5 bytes is accepted; the surplus `0d 00` is parsed as an
// empty record of type 13.
func TestVerifC10ReproRecordLengthColor(t *testing.T) {
	c10ReproGate(t)
	c10ReproStream(t, MsgNodeAnnouncement2, "0105"+"aabbcc"+"0d00", 1, 5)
}

// ... and a color record that declares 1 byte swallows the header of the next
// record: `01 01 aa | 0d 02 0f 00` (records 1 and 13 for the reference) is
// read as color aa0d02 followed by an empty record of type 15.
func TestVerifC10ReproRecordLengthColorShort(t *testing.T) {
	c10ReproGate(t)
	c10ReproStream(t, MsgNodeAnnouncement2, "0101"+"aa"+"0d020f00", 1, 1)
}

// booleanDecoder (lnwire/channel_update_2.go) accepts the lengths 0 and 1 but
// consumes nothing. In a channel_update_2 whose second_peer record (type 8)
// declares 1 byte, that value byte is parsed as the type of the next record:
// the reference sees the records (8, `0b`) and (13, 15 bytes), lnd decodes
// (8), (11, 13 bytes) and (15, 1 byte).
func TestVerifC10ReproRecordLengthTrueBoolean(t *testing.T) {
	c10ReproGate(t)
	body := "0801" + "0b" + // type 8, length 1, value 0b
		"0d0f" + "000102030405060708090a0b" + "0f01ff" // type 13, 15 bytes
	c10ReproStream(t, MsgChannelUpdate2, body, 8, 1)
}

// ipv4AddrsDecoder / ipv6AddrsDecoder (lnwire/node_announcement_2.go) declare
// one `ip` array outside their loop and store ip[:] in every address: all
// decoded addresses share it and carry the IP that was read last. Not a
// length defect; found by TestVerifC10RecordLengths when a regrouped record
// held two addresses (the repository's generator only builds one).
func TestVerifC10ReproAddrsAliased(t *testing.T) {
	c10ReproGate(t)
	for _, tc := range []struct {
		name string
		body string
	}{
		{"ipv4", "050c" + "01020304" + "2607" + "05060708" + "2608"},
		{"ipv6", "0724" + "20010db8000000000000000000000001" + "2607" +
			"20010db8000000000000000000000002" + "2608"},
	} {
		stream, _ := hex.DecodeString(tc.body)
		wire := append([]byte{0x01, 0x0d}, stream...)
		m, err := ReadMessage(bytes.NewReader(wire), 0)
		if err != nil {
			t.Fatalf("%s: two well-formed addresses rejected: %v",
				tc.name, err)
		}
		b1, err := c10Write(m)
		if err != nil {
			t.Fatalf("%s: %v", tc.name, err)
		}
		out, _, _ := c10ref.Parse(b1[2:], true)
		r1, _ := c10FindRec(out, uint64(stream[0]))
		if !bytes.Equal(r1.Val, stream[2:]) {
			t.Errorf("%s: address list\n   in=%x\n  out=%x", tc.name,
				stream[2:], r1.Val)
		}
	}
}

// The same decoders (and torV3AddrsDecoder) read with r.Read instead of
// io.ReadFull: an address list cut short at the end of the message is
// accepted, e.g. an ipv4 record that declares 6 bytes with 5 present.
func TestVerifC10ReproAddrsShortRead(t *testing.T) {
	c10ReproGate(t)
	wire, _ := hex.DecodeString("010d" + "0506" + "0102030426")
	m, err := ReadMessage(bytes.NewReader(wire), 0)
	if err != nil {
		t.Logf("rejected: %v (defect absent)", err)
		return
	}
	b1, _ := c10Write(m)
	t.Errorf("truncated ipv4 record (declares 6 bytes, 5 present) accepted\n"+
		"   in=%x\n  out=%x", wire, b1)
}
