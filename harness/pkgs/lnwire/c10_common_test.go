//go:build verif

package lnwire

// Shared machinery of the C10 checks in lnwire: enumeration of every
// registered message type and failure code, the value equivalence relation,
// allocation measurement, the codec drivers and the fixpoint oracle.

import (
	"bytes"
	"encoding/binary"
	"fmt"
	"net"
	"reflect"
	"runtime"
	"runtime/metrics"
	"sort"
	"sync"
	"unsafe"

	"github.com/btcsuite/btcd/btcec/v2"
	"github.com/lightningnetwork/lnd/internal/verif/c10ref"
	"github.com/lightningnetwork/lnd/internal/verif/vstats"
	"pgregory.net/rapid"
)

// Known-finding keys (see notes/C10.md).
const (
	// c10KeyDropUnknown: Encode of the messages that rebuild their
	// extension from the known records only (EncodeMessageExtraData /
	// PackRecords) drops unknown TLV records that Decode had kept.
	c10KeyDropUnknown = "C10:encode-drops-unknown-tlv-records"

	// c10KeyGrows: an accepted input within a few bytes of the 65535-byte
	// bound whose canonical re-encoding is longer (Encode emits a field
	// the input omitted, e.g. the encoding byte of an empty
	// encoded_short_ids) no longer fits and WriteMessage fails.
	c10KeyGrows = "C10:reencode-of-near-max-input-exceeds-bound"
)

// c10Known: the key is listed with status "known" in known_findings.json. Every
// guard has the shape `if c10Known(key) {exclude + count} else {assert}`, so a
// fix in /repo (status "fixed") re-enables the class.
func c10Known(key string) bool {
	return vstats.IsKnown(key)
}

// c10TB is what the oracles need from *rapid.T or *testing.T.
type c10TB interface {
	Fatalf(format string, args ...any)
	Skip(args ...any)
}

var (
	c10TypesOnce sync.Once
	c10Types     []MessageType
)

// c10RegisteredTypes probes every code below the custom range once.
func c10RegisteredTypes() []MessageType {
	c10TypesOnce.Do(func() {
		for c := 0; c < int(CustomTypeStart); c++ {
			if _, err := makeEmptyMessage(MessageType(c)); err == nil {
				c10Types = append(c10Types, MessageType(c))
			}
		}
	})

	return c10Types
}

// c10DrawType draws a registered type or (1 in 12) a type of the custom range.
// The index is a mixed 32-bit draw: rapid favours small values, which would
// otherwise starve the types late in the list.
func c10DrawType(t *rapid.T) MessageType {
	types := c10RegisteredTypes()
	n := len(types) + len(types)/12 + 1
	x := rapid.Uint32().Draw(t, "typeSel")
	i := int(c10Mix(x) % uint32(n))
	if i < len(types) {
		return types[i]
	}

	return MessageType(rapid.SampledFrom([]int{32768, 32769, 40000, 65534,
		65535}).Draw(t, "customType"))
}

// c10Mix spreads a drawn 32-bit value (murmur3 finaliser).
func c10Mix(x uint32) uint32 {
	x ^= x >> 16
	x *= 0x85ebca6b
	x ^= x >> 13
	x *= 0xc2b2ae35
	x ^= x >> 16

	return x
}

// c10FailCodes are all codes makeEmptyOnionError knows, found by probing the
// whole 16-bit space once.
var (
	c10CodesOnce sync.Once
	c10Codes     []FailCode
)

func c10FailCodes() []FailCode {
	c10CodesOnce.Do(func() {
		for c := 0; c <= 0xffff; c++ {
			if _, err := makeEmptyOnionError(FailCode(c)); err == nil {
				c10Codes = append(c10Codes, FailCode(c))
			}
		}
	})

	return c10Codes
}

var (
	c10AddrType   = reflect.TypeOf((*net.Addr)(nil)).Elem()
	c10PubKeyType = reflect.TypeOf((*btcec.PublicKey)(nil))
	c10ExtraType  = reflect.TypeOf(ExtraOpaqueData(nil))
)

// c10Equiv is the equivalence of message values the property is stated over:
// deep equality, except that nil and empty slices/maps are the same and that
// net.Addr values are compared through String() (the relaxations the
// repository's own Fuzz* harnesses document). skipExtra leaves
// ExtraOpaqueData fields out (they cache raw wire bytes and are decided by the
// byte-level fixpoint instead).
func c10Equiv(a, b any, skipExtra bool) error {
	return c10EquivV(reflect.ValueOf(a), reflect.ValueOf(b), "msg", skipExtra)
}

func c10EquivV(a, b reflect.Value, path string, skipExtra bool) error {
	if !a.IsValid() || !b.IsValid() {
		if a.IsValid() != b.IsValid() {
			return fmt.Errorf("%s: one side missing", path)
		}

		return nil
	}
	if a.Type() != b.Type() {
		return fmt.Errorf("%s: type %v vs %v", path, a.Type(), b.Type())
	}
	if skipExtra && a.Type() == c10ExtraType {
		return nil
	}

	switch a.Kind() {
	case reflect.Bool:
		if a.Bool() != b.Bool() {
			return fmt.Errorf("%s: %v vs %v", path, a.Bool(), b.Bool())
		}

	case reflect.Int, reflect.Int8, reflect.Int16, reflect.Int32,
		reflect.Int64:

		if a.Int() != b.Int() {
			return fmt.Errorf("%s: %d vs %d", path, a.Int(), b.Int())
		}

	case reflect.Uint, reflect.Uint8, reflect.Uint16, reflect.Uint32,
		reflect.Uint64, reflect.Uintptr:

		if a.Uint() != b.Uint() {
			return fmt.Errorf("%s: %d vs %d", path, a.Uint(), b.Uint())
		}

	case reflect.Float32, reflect.Float64:
		if a.Float() != b.Float() {
			return fmt.Errorf("%s: float differs", path)
		}

	case reflect.String:
		if a.String() != b.String() {
			return fmt.Errorf("%s: %q vs %q", path, a.String(),
				b.String())
		}

	case reflect.Ptr:
		if a.IsNil() || b.IsNil() {
			if a.IsNil() != b.IsNil() {
				return fmt.Errorf("%s: nil vs non-nil pointer", path)
			}

			return nil
		}
		if a.Type() == c10PubKeyType && a.CanInterface() &&
			b.CanInterface() {

			pa := a.Interface().(*btcec.PublicKey)
			pb := b.Interface().(*btcec.PublicKey)
			if !pa.IsEqual(pb) {
				return fmt.Errorf("%s: public keys differ", path)
			}

			return nil
		}

		return c10EquivV(a.Elem(), b.Elem(), path, skipExtra)

	case reflect.Interface:
		if a.IsNil() || b.IsNil() {
			if a.IsNil() != b.IsNil() {
				return fmt.Errorf("%s: nil vs non-nil interface",
					path)
			}

			return nil
		}
		if a.Type().Implements(c10AddrType) && a.CanInterface() &&
			b.CanInterface() {

			sa := a.Interface().(net.Addr).String()
			sb := b.Interface().(net.Addr).String()
			if sa != sb {
				return fmt.Errorf("%s: addr %s vs %s", path, sa, sb)
			}

			return nil
		}

		return c10EquivV(a.Elem(), b.Elem(), path, skipExtra)

	case reflect.Struct:
		for i := 0; i < a.NumField(); i++ {
			err := c10EquivV(a.Field(i), b.Field(i),
				path+"."+a.Type().Field(i).Name, skipExtra)
			if err != nil {
				return err
			}
		}

	case reflect.Array:
		for i := 0; i < a.Len(); i++ {
			err := c10EquivV(a.Index(i), b.Index(i),
				fmt.Sprintf("%s[%d]", path, i), skipExtra)
			if err != nil {
				return err
			}
		}

	case reflect.Slice:
		// nil and empty are equivalent.
		if a.Len() != b.Len() {
			return fmt.Errorf("%s: len %d vs %d", path, a.Len(),
				b.Len())
		}
		if a.Type().Elem().Kind() == reflect.Uint8 {
			if !bytes.Equal(a.Bytes(), b.Bytes()) {
				return fmt.Errorf("%s: bytes %x vs %x", path,
					c10Head(a.Bytes()), c10Head(b.Bytes()))
			}

			return nil
		}
		for i := 0; i < a.Len(); i++ {
			err := c10EquivV(a.Index(i), b.Index(i),
				fmt.Sprintf("%s[%d]", path, i), skipExtra)
			if err != nil {
				return err
			}
		}

	case reflect.Map:
		if a.Len() != b.Len() {
			return fmt.Errorf("%s: map len %d vs %d", path, a.Len(),
				b.Len())
		}
		it := a.MapRange()
		for it.Next() {
			bv := b.MapIndex(it.Key())
			if !bv.IsValid() {
				return fmt.Errorf("%s: key %v missing", path,
					it.Key())
			}
			err := c10EquivV(it.Value(), bv,
				fmt.Sprintf("%s[%v]", path, it.Key()), skipExtra)
			if err != nil {
				return err
			}
		}

	case reflect.Func, reflect.Chan, reflect.UnsafePointer:
		if a.IsNil() != b.IsNil() {
			return fmt.Errorf("%s: nil vs non-nil %v", path, a.Kind())
		}

	default:
		return fmt.Errorf("%s: unhandled kind %v", path, a.Kind())
	}

	return nil
}

func c10Head(b []byte) []byte {
	if len(b) > 120 {
		return b[:120]
	}

	return b
}

var c10Sample = []metrics.Sample{{Name: "/gc/heap/allocs:bytes"}}

func c10MetricsNow() uint64 {
	metrics.Read(c10Sample)

	return c10Sample[0].Value.Uint64()
}

// c10Measure returns the heap bytes f allocates. The cheap runtime/metrics
// counter (which may attribute up to a few MiB of earlier small allocations
// to the window) screens; anything above a quarter of the cap is measured
// again, exactly, with runtime.ReadMemStats (f is deterministic and is simply
// run once more).
func c10Measure(f func()) uint64 {
	before := c10MetricsNow()
	f()
	d := c10MetricsNow() - before
	if d <= c10AllocCap/4 {
		return d
	}
	var ms runtime.MemStats
	runtime.ReadMemStats(&ms)
	exact := ms.TotalAlloc
	f()
	runtime.ReadMemStats(&ms)

	return ms.TotalAlloc - exact
}

// c10AllocCap is the amplification cap of part 3: what decoding one message
// of at most 65535 bytes may allocate. Calibrated on the unchanged tree as
// about 4x the observed maximum (see notes/C10.md): the legitimate maxima are
// make([]Sig, 65535) = 4 MiB for a commit_sig that announces 65535 HTLC
// signatures, and ~5.6 MiB for 100 000 zlib-packed short channel ids.
const c10AllocCap = 24 << 20

func c10AllocBucket(a uint64) string {
	switch {
	case a < 64<<10:
		return "alloc<64K"
	case a < 256<<10:
		return "alloc<256K"
	case a < 1<<20:
		return "alloc<1M"
	case a < 4<<20:
		return "alloc<4M"
	case a < 8<<20:
		return "alloc<8M"
	default:
		return "alloc>=8M"
	}
}

var c10MaxAlloc uint64

// c10Read decodes one message from b, measuring what it allocates and
// converting a panic into a failure that shows the input.
func c10Read(t c10TB, st *vstats.Collector, b []byte) (msg Message, rest int,
	err error) {

	var (
		rd       *bytes.Reader
		panicked any
	)
	alloc := c10Measure(func() {
		defer func() { panicked = recover() }()
		rd = bytes.NewReader(b)
		msg, err = ReadMessage(rd, 0)
	})
	if panicked != nil {
		t.Fatalf("ReadMessage panicked: %v\ninput(%d)=%x", panicked,
			len(b), c10Head(b))
	}
	if alloc > c10MaxAlloc {
		c10MaxAlloc = alloc
	}
	if st != nil {
		st.Count(c10AllocBucket(alloc), 1)
	}
	if alloc > c10AllocCap {
		t.Fatalf("ReadMessage of %d bytes allocated %d bytes (cap %d)\n"+
			"input=%x", len(b), alloc, c10AllocCap, c10Head(b))
	}

	return msg, rd.Len(), err
}

func c10Write(msg Message) ([]byte, error) {
	var buf bytes.Buffer
	_, err := WriteMessage(&buf, msg, 0)
	if err != nil {
		return nil, err
	}

	return buf.Bytes(), nil
}

// c10Fixpoint is the oracle of part 2 for one input: if b decodes to m1 then
// b1 = Write(m1) succeeds and is within the message bound, Read(b1) = m2
// succeeds and consumes b1 entirely, m2 ~ m1, and Write(m2) == b1 byte for
// byte. m1 is decoded twice so that the comparison uses a copy that Encode
// (which sorts and repacks in place) never touched. It returns whether b was
// accepted, and b1.
func c10Fixpoint(t c10TB, st *vstats.Collector, b []byte) (bool, []byte) {
	if len(b) > MaxSliceLength {
		t.Fatalf("harness: input of %d bytes", len(b))
	}
	m1, _, err := c10Read(t, st, b)
	if err != nil {
		if m1 != nil {
			t.Fatalf("ReadMessage returned both a message and %v", err)
		}

		return false, nil
	}
	if m1 == nil {
		t.Fatalf("ReadMessage returned neither message nor error "+
			"input=%x", c10Head(b))
	}
	pristine, _, err := c10Read(t, nil, b)
	if err != nil {
		t.Fatalf("second decode of the same bytes failed: %v", err)
	}
	if err := c10Equiv(m1, pristine, false); err != nil {
		t.Fatalf("decoding the same bytes twice differs: %v\ninput=%x",
			err, c10Head(b))
	}
	if got := binary.BigEndian.Uint16(b); MessageType(got) != m1.MsgType() {
		t.Fatalf("decoded type %d from wire type %d", m1.MsgType(), got)
	}

	b1, err := c10Write(m1)
	if err != nil {
		var grown bytes.Buffer
		_ = m1.Encode(&grown, 0)
		if len(b) >= MaxSliceLength-8 && grown.Len() > MaxMsgBody &&
			grown.Len() <= MaxMsgBody+8 && c10Known(c10KeyGrows) {

			if st != nil {
				st.Known(c10KeyGrows)
				st.Count("excluded_known", 1)
			}

			return false, nil
		}
		t.Fatalf("%T decoded from wire bytes cannot be re-encoded: %v\n"+
			"input(%d)=%x", m1, err, len(b), c10Head(b))
	}
	if len(b1) > MaxSliceLength {
		t.Fatalf("%T re-encodes to %d bytes", m1, len(b1))
	}
	m2, rest, err := c10Read(t, st, b1)
	if err != nil {
		t.Fatalf("%T: re-encoding does not decode: %v\ninput=%x\n   "+
			"b1=%x", m1, err, c10Head(b), c10Head(b1))
	}
	if rest != 0 {
		t.Fatalf("%T: %d bytes of the re-encoding left unread", m1, rest)
	}
	// Everything but the raw extension cache against the untouched copy,
	// everything against the copy Encode worked on.
	if err := c10Equiv(pristine, m2, true); err != nil {
		t.Fatalf("%T: re-encoding decodes to a different message: %v\n"+
			"input=%x\n   b1=%x", m1, err, c10Head(b), c10Head(b1))
	}
	if err := c10Equiv(m1, m2, false); err != nil {
		t.Fatalf("%T: re-encoding decodes to a different message "+
			"(extension): %v\ninput=%x\n   b1=%x", m1, err, c10Head(b),
			c10Head(b1))
	}
	b2, err := c10Write(m2)
	if err != nil {
		t.Fatalf("%T: second re-encoding failed: %v", m1, err)
	}
	if !bytes.Equal(b1, b2) {
		t.Fatalf("%T: not a canonical fixpoint\ninput=%x\n   b1=%x\n   "+
			"b2=%x", m1, c10Head(b), c10Head(b1), c10Head(b2))
	}

	return true, b1
}

// c10UnknownPreserved: every expected unknown odd record that the decoder
// really was shown as a record of the message's TLV extension (the decoded
// ExtraOpaqueData, or the whole body of a pure-TLV message, parses as a
// canonical stream containing it) must survive the re-encoding b1. m is the
// message decoded from b, untouched by Encode.
func c10UnknownPreserved(t c10TB, st *vstats.Collector, m Message, b []byte,
	expect []c10ref.Rec, b1 []byte) bool {

	var stream []byte
	if _, pure := m.(PureTLVMessage); pure {
		stream = b[2:]
	} else if f, ok := c10ExtraField(m); ok {
		stream = f.Bytes()
	} else {
		return false
	}
	seen, why, _ := c10ref.Parse(stream, true)
	if why != c10ref.OK {
		return false
	}
	checked := false
	for _, r := range expect {
		shown := false
		for _, s := range seen {
			if s.Type == r.Type && bytes.Equal(s.Val, r.Val) {
				shown = true
			}
		}
		if !shown {
			continue
		}
		checked = true
		enc := c10ref.AppendRecord(nil, r.Type, r.Val)
		if bytes.Contains(b1, enc) {
			continue
		}
		if c10Known(c10KeyDropUnknown) && c10RepacksExtension(m) {
			st.Known(c10KeyDropUnknown)
			st.Count("excluded_known", 1)
			st.Count(fmt.Sprintf("drops-unknown:%T", m), 1)

			return true
		}
		t.Fatalf("%T: unknown record (type %d, %d bytes) of the decoded "+
			"message is missing from its re-encoding\n b=%x\nb1=%x", m,
			r.Type, len(r.Val), c10Head(b), c10Head(b1))
	}

	return checked
}

// c10RepacksExtension lists the messages whose Encode rebuilds ExtraData from
// the known records only (the class of the known finding).
func c10RepacksExtension(m Message) bool {
	switch m.(type) {
	case *AcceptChannel, *OpenChannel, *ChannelReady, *ChannelReestablish,
		*ChannelUpdate1, *ClosingComplete, *ClosingSig, *ClosingSigned,
		*FundingCreated, *FundingSigned, *GossipTimestampRange,
		*QueryChannelRange, *ReplyChannelRange, *RevokeAndAck:

		return true
	}

	return false
}

// c10Bytes draws n bytes; long slices are a drawn 32-byte block repeated
// (drawing 64 KiB byte by byte costs milliseconds).
func c10Bytes(t *rapid.T, n int, label string) []byte {
	if n <= 128 {
		return rapid.SliceOfN(rapid.Byte(), n, n).Draw(t, label)
	}
	blk := rapid.SliceOfN(rapid.Byte(), 32, 32).Draw(t, label)
	out := make([]byte, n)
	for i := range out {
		out[i] = blk[i%32] + byte(i/32)
	}

	return out
}

// c10UnknownTypes: odd record types no lnd message assigns a meaning to and
// below the custom-record range (known types are 0..22, 160, 55555, 65536+).
func c10DrawUnknownType(t *rapid.T) uint64 {
	return uint64(rapid.IntRange(500, 4999).Draw(t, "unkType"))*2 + 1
}

// c10ExtraField returns the ExtraOpaqueData field of a message struct.
func c10ExtraField(m Message) (reflect.Value, bool) {
	v := reflect.ValueOf(m)
	if v.Kind() != reflect.Ptr || v.Elem().Kind() != reflect.Struct {
		return reflect.Value{}, false
	}
	s := v.Elem()
	for i := 0; i < s.NumField(); i++ {
		f := s.Field(i)
		if f.Type() == c10ExtraType && f.CanSet() {
			return f, true
		}
	}

	return reflect.Value{}, false
}

// c10DeepCopy returns an independent deep copy of a message value (including
// unexported fields), taken before Encode gets to mutate it.
func c10DeepCopy(m Message) Message {
	src := reflect.ValueOf(m)
	dst := reflect.New(src.Type()).Elem()
	c10CopyInto(dst, src)

	return dst.Interface().(Message)
}

// c10Access makes a (possibly unexported) addressable field usable.
func c10Access(v reflect.Value) reflect.Value {
	if v.CanSet() || !v.CanAddr() {
		return v
	}

	return reflect.NewAt(v.Type(), unsafe.Pointer(v.UnsafeAddr())).Elem()
}

// c10CopyInto deep-copies src into the settable dst. src must be addressable
// or obtained through exported paths only.
func c10CopyInto(dst, src reflect.Value) {
	switch src.Kind() {
	case reflect.Ptr:
		if src.IsNil() {
			return
		}
		n := reflect.New(src.Type().Elem())
		c10CopyInto(n.Elem(), src.Elem())
		dst.Set(n)

	case reflect.Interface:
		if src.IsNil() {
			return
		}
		e := src.Elem()
		n := reflect.New(e.Type()).Elem()
		if e.CanAddr() {
			c10CopyInto(n, e)
		} else {
			// interface payloads are not addressable: copy through
			// an addressable temporary
			tmp := reflect.New(e.Type()).Elem()
			tmp.Set(e)
			c10CopyInto(n, tmp)
		}
		dst.Set(n)

	case reflect.Struct:
		// Work on an addressable copy so that unexported fields can be
		// reached.
		s := src
		if !s.CanAddr() {
			tmp := reflect.New(src.Type()).Elem()
			tmp.Set(src)
			s = tmp
		}
		for i := 0; i < s.NumField(); i++ {
			c10CopyInto(c10Access(dst.Field(i)), c10Access(s.Field(i)))
		}

	case reflect.Slice:
		if src.IsNil() {
			return
		}
		n := reflect.MakeSlice(src.Type(), src.Len(), src.Len())
		for i := 0; i < src.Len(); i++ {
			c10CopyInto(n.Index(i), src.Index(i))
		}
		dst.Set(n)

	case reflect.Array:
		for i := 0; i < src.Len(); i++ {
			c10CopyInto(dst.Index(i), src.Index(i))
		}

	case reflect.Map:
		if src.IsNil() {
			return
		}
		n := reflect.MakeMapWithSize(src.Type(), src.Len())
		it := src.MapRange()
		for it.Next() {
			k := reflect.New(src.Type().Key()).Elem()
			c10CopyInto(k, c10Temp(it.Key()))
			v := reflect.New(src.Type().Elem()).Elem()
			c10CopyInto(v, c10Temp(it.Value()))
			n.SetMapIndex(k, v)
		}
		dst.Set(n)

	default:
		dst.Set(src)
	}
}

// c10Temp copies a non-addressable value into an addressable temporary.
func c10Temp(v reflect.Value) reflect.Value {
	tmp := reflect.New(v.Type()).Elem()
	tmp.Set(v)

	return tmp
}

// c10NormaliseOrder applies, with an independent sort, the one reordering
// Encode is documented to perform: short channel ids ascending, timestamps
// moving with their id.
func c10NormaliseOrder(m Message) {
	switch v := m.(type) {
	case *QueryShortChanIDs:
		sort.Slice(v.ShortChanIDs, func(i, j int) bool {
			return v.ShortChanIDs[i].ToUint64() <
				v.ShortChanIDs[j].ToUint64()
		})

	case *ReplyChannelRange:
		type pair struct {
			id ShortChannelID
			ts ChanUpdateTimestamps
		}
		withTs := len(v.Timestamps) == len(v.ShortChanIDs) &&
			len(v.Timestamps) > 0
		ps := make([]pair, len(v.ShortChanIDs))
		for i, id := range v.ShortChanIDs {
			ps[i].id = id
			if withTs {
				ps[i].ts = v.Timestamps[i]
			}
		}
		sort.SliceStable(ps, func(i, j int) bool {
			return ps[i].id.ToUint64() < ps[j].id.ToUint64()
		})
		for i, p := range ps {
			v.ShortChanIDs[i] = p.id
			if withTs {
				v.Timestamps[i] = p.ts
			}
		}
	}
}
