//go:build verif

package lnwire

// C10 part 4 on the lnwire side: ExtraOpaqueData.ValidateTLV, ExtractRecords,
// NewExtraOpaqueData, CustomRecords parsing/serialisation and the
// ParseAndExtractCustomRecords / MergeAndEncode pair against the independent
// reference parser.

import (
	"bytes"
	"fmt"
	"math"
	"sort"
	"testing"

	"github.com/lightningnetwork/lnd/internal/verif/c10ref"
	"github.com/lightningnetwork/lnd/internal/verif/vstats"
	"github.com/lightningnetwork/lnd/tlv"
	"pgregory.net/rapid"
)

var c10ExtTypePool = []uint64{0, 1, 2, 3, 5, 0xfc, 0xfd, 0xff, 0x100, 1001,
	55555, 0xffff, 0x10000, 0x10001, 70000, 0xffffffff, 0x100000000,
	math.MaxUint64 - 1, math.MaxUint64}

// c10GenExtStream draws a TLV stream with optional canonical-form faults and
// reports the largest length any header declares.
func c10GenExtStream(t *rapid.T, customOnly bool) ([]byte, []string, uint64) {
	var labels []string
	type item struct {
		typ uint64
		val []byte
	}
	n := rapid.IntRange(0, 6).Draw(t, "nRec")
	var items []item
	for i := 0; i < n; i++ {
		var typ uint64
		switch {
		case customOnly && rapid.IntRange(0, 9).Draw(t, "low") != 0:
			typ = 0x10000 + uint64(rapid.IntRange(0, 40000).Draw(t,
				"customT"))
		case rapid.IntRange(0, 9).Draw(t, "pool") < 7:
			typ = rapid.SampledFrom(c10ExtTypePool).Draw(t, "poolT")
		default:
			typ = rapid.Uint64().Draw(t, "anyT")
		}
		ln := rapid.SampledFrom([]int{0, 1, 2, 8, 33, 252, 253,
			300}).Draw(t, "vLen")
		items = append(items, item{typ, c10Bytes(t, ln, "val")})
	}
	if rapid.IntRange(0, 9).Draw(t, "sorted") < 8 {
		sort.SliceStable(items, func(i, j int) bool {
			return items[i].typ < items[j].typ
		})
		out := items[:0]
		for i, it := range items {
			if i > 0 && it.typ == items[i-1].typ {
				continue
			}
			out = append(out, it)
		}
		items = out
	} else {
		labels = append(labels, "order")
	}
	faultAt, fault := -1, 0
	if len(items) > 0 && rapid.IntRange(0, 9).Draw(t, "hdrFault") < 3 {
		faultAt = rapid.IntRange(0, len(items)-1).Draw(t, "faultAt")
		fault = rapid.IntRange(1, 3).Draw(t, "fault")
	}
	var (
		b       []byte
		maxDecl uint64
	)
	_ = maxDecl
	for i, it := range items {
		tw := c10ref.BigSizeLen(it.typ)
		decl := uint64(len(it.val))
		lw := c10ref.BigSizeLen(decl)
		if i == faultAt {
			switch fault {
			case 1:
				if tw < 9 {
					tw = map[int]int{1: 3, 3: 5, 5: 9}[tw]
					labels = append(labels, "nonminimal-type")
				}
			case 2:
				if lw < 9 {
					lw = map[int]int{1: 3, 3: 5, 5: 9}[lw]
					labels = append(labels, "nonminimal-len")
				}
			default:
				decl = rapid.SampledFrom([]uint64{decl + 1, decl + 2, 0,
					0xffff, 0x10000, 0x100000000, 1 << 63,
					math.MaxUint64}).Draw(t, "lie")
				lw = c10ref.BigSizeLen(decl)
				labels = append(labels, "lying-len")
			}
		}
		if decl > maxDecl {
			maxDecl = decl
		}
		b = c10ref.AppendBigSizeWidth(b, it.typ, tw)
		b = c10ref.AppendBigSizeWidth(b, decl, lw)
		b = append(b, it.val...)
	}
	switch rapid.IntRange(0, 14).Draw(t, "tailFault") {
	case 0:
		if len(b) > 0 {
			b = b[:rapid.IntRange(0, len(b)-1).Draw(t, "cut")]
			labels = append(labels, "truncate")
		}
	case 1:
		b = append(b, rapid.SampledFrom([][]byte{{0xfd}, {0xff}, {0},
			{0xfd, 0, 1}, {1}}).Draw(t, "garbage")...)
		labels = append(labels, "trailing")
	}
	if len(labels) == 0 {
		labels = append(labels, "clean")
	}
	// What a decoder gets to see: walk the headers as the bytes stand.
	maxDecl = c10WalkMaxDecl(b)

	return b, labels, maxDecl
}

// c10WalkMaxDecl returns the largest length declared by any header a TLV
// decoder reads from b (it stops where a BigSize is malformed or a value is
// cut short, like any decoder must).
func c10WalkMaxDecl(b []byte) uint64 {
	var max uint64
	pos := 0
	for pos < len(b) {
		_, n, why := c10ref.ReadBigSize(b[pos:])
		if why != c10ref.OK {
			break
		}
		l, m, why := c10ref.ReadBigSize(b[pos+n:])
		if why != c10ref.OK {
			break
		}
		if l > max {
			max = l
		}
		pos += n + m
		if l > uint64(len(b)-pos) {
			break
		}
		pos += int(l)
	}

	return max
}

// TestVerifC10ExtraDataTLV: ValidateTLV accepts exactly the canonical p2p
// streams, ExtractRecords returns exactly their records and
// NewExtraOpaqueData reproduces the bytes.
func TestVerifC10ExtraDataTLV(t *testing.T) {
	st := vstats.New("TestVerifC10ExtraDataTLV")
	defer st.Flush()

	rapid.Check(t, func(t *rapid.T) {
		b, labels, _ := c10GenExtStream(t, false)
		recs, why, _ := c10ref.Parse(b, true)
		ext := ExtraOpaqueData(append([]byte(nil), b...))

		var err error
		alloc := c10Measure(func() { err = ext.ValidateTLV() })
		if alloc > c10AllocCap {
			t.Fatalf("ValidateTLV of %d bytes allocated %d", len(b), alloc)
		}
		if (err == nil) != (why == c10ref.OK) {
			t.Fatalf("ValidateTLV(%x) err=%v, reference %q", c10Head(b),
				err, why)
		}
		typeMap, err2 := ext.ExtractRecords()
		if (err2 == nil) != (why == c10ref.OK) {
			t.Fatalf("ExtractRecords(%x) err=%v, reference %q",
				c10Head(b), err2, why)
		}
		if why == c10ref.OK {
			labels = append(labels, "accept")
			if len(typeMap) != len(recs) {
				t.Fatalf("ExtractRecords: %d entries for %d records",
					len(typeMap), len(recs))
			}
			for _, r := range recs {
				got, ok := typeMap[tlv.Type(r.Type)]
				if !ok || got == nil || !bytes.Equal(got, r.Val) {
					t.Fatalf("ExtractRecords: type %d -> %x (present=%v)"+
						", stream has %x", r.Type, c10Head(got), ok,
						c10Head(r.Val))
				}
			}
			back, err := NewExtraOpaqueData(typeMap)
			if err != nil {
				t.Fatalf("NewExtraOpaqueData: %v", err)
			}
			if !bytes.Equal(back, b) {
				t.Fatalf("NewExtraOpaqueData(ExtractRecords(b)) != b\n"+
					" b=%x\nout=%x", c10Head(b), c10Head(back))
			}
		} else {
			labels = append(labels, "reject:"+string(why))
		}
		nontrivial := (why == c10ref.OK && len(recs) >= 2) ||
			(why != c10ref.OK && why != c10ref.Truncated)
		st.Case(vstats.FP(b), nontrivial, labels, fmt.Sprintf("%x",
			c10Head(b)[:min(len(b), 40)]))
	})
}

// TestVerifC10CustomRecords: ParseCustomRecords accepts exactly the canonical
// streams whose types are all >= 65536 and Serialize reproduces the input;
// ParseAndExtractCustomRecords splits a stream at 65536 and MergeAndEncode
// joins it back byte-identically.
func TestVerifC10CustomRecords(t *testing.T) {
	st := vstats.New("TestVerifC10CustomRecords")
	defer st.Flush()

	rapid.Check(t, func(t *rapid.T) {
		customOnly := rapid.Bool().Draw(t, "customOnly")
		b, labels, maxDecl := c10GenExtStream(t, customOnly)

		// ParseCustomRecords uses the trusted-input decoder, which
		// allocates the declared length: bounded lengths only.
		if maxDecl <= 1<<20 {
			recs, why, _ := c10ref.Parse(b, false)
			allCustom := true
			for _, r := range recs {
				if r.Type < MinCustomRecordsTlvType {
					allCustom = false
				}
			}
			want := why == c10ref.OK && allCustom
			cr, err := ParseCustomRecords(append([]byte(nil), b...))
			if (err == nil) != want {
				t.Fatalf("ParseCustomRecords(%x) err=%v, reference %q "+
					"allCustom=%v", c10Head(b), err, why, allCustom)
			}
			if want {
				if len(cr) != len(recs) {
					t.Fatalf("ParseCustomRecords: %d entries, %d records",
						len(cr), len(recs))
				}
				for _, r := range recs {
					if got, ok := cr[r.Type]; !ok ||
						!bytes.Equal(got, r.Val) {

						t.Fatalf("custom record %d: %x vs %x", r.Type,
							c10Head(got), c10Head(r.Val))
					}
				}
				back, err := cr.Serialize()
				if err != nil {
					t.Fatalf("Serialize: %v", err)
				}
				if !bytes.Equal(back, b) {
					t.Fatalf("Serialize(ParseCustomRecords(b)) != b\n"+
						" b=%x\nout=%x", c10Head(b), c10Head(back))
				}
				labels = append(labels, "custom-accept")
			} else {
				labels = append(labels, "custom-reject")
			}
		}

		// Split / merge on the p2p path.
		recs, why, _ := c10ref.Parse(b, true)
		custom, _, extra, err := ParseAndExtractCustomRecords(
			ExtraOpaqueData(append([]byte(nil), b...)),
		)
		if (err == nil) != (why == c10ref.OK) {
			t.Fatalf("ParseAndExtractCustomRecords(%x) err=%v, "+
				"reference %q", c10Head(b), err, why)
		}
		if why == c10ref.OK {
			var low []c10ref.Rec
			nCustom := 0
			for _, r := range recs {
				if r.Type < MinCustomRecordsTlvType {
					low = append(low, r)

					continue
				}
				nCustom++
				if got, ok := custom[r.Type]; !ok ||
					!bytes.Equal(got, r.Val) {

					t.Fatalf("split: custom record %d: %x vs %x", r.Type,
						c10Head(got), c10Head(r.Val))
				}
			}
			if len(custom) != nCustom {
				t.Fatalf("split: %d custom records, want %d", len(custom),
					nCustom)
			}
			if !bytes.Equal(extra, c10ref.Encode(low)) {
				t.Fatalf("split: extra data %x, want %x", c10Head(extra),
					c10Head(c10ref.Encode(low)))
			}
			merged, err := MergeAndEncode(nil, extra, custom)
			if err != nil {
				t.Fatalf("MergeAndEncode of a split stream: %v", err)
			}
			if !bytes.Equal(merged, b) {
				t.Fatalf("MergeAndEncode(split(b)) != b\n b=%x\nout=%x",
					c10Head(b), c10Head(merged))
			}
			labels = append(labels, "split-accept")
		}
		nontrivial := (why == c10ref.OK && len(recs) >= 2) ||
			(why != c10ref.OK && why != c10ref.Truncated)
		st.Case(vstats.FP(b), nontrivial, labels, fmt.Sprintf("%x",
			c10Head(b)[:min(len(b), 40)]))
	})
}
