//go:build verif

package shachain

// C06 (a): revocation secrets are stored compactly (<= 49 values), derived
// exactly, inconsistent secrets are rejected, and all of it survives
// serialisation. Oracle: an independent BOLT-3 derivation written below
// (refDerive) and a keep-everything reference store.

import (
	"bytes"
	"crypto/sha256"
	"fmt"
	"testing"

	"github.com/btcsuite/btcd/chainhash/v2"
	"github.com/lightningnetwork/lnd/internal/verif/vstats"
	"pgregory.net/rapid"
)

const c06Top = uint64(1)<<48 - 1

// refSecret is BOLT-3 generate_from_seed for "commitment number" v, i.e.
// per-commitment index I = 2^48-1-v.
func refSecret(seed [32]byte, v uint64) [32]byte {
	return refDeriveFrom(seed, 48, c06Top-v)
}

// refDeriveFrom is BOLT-3 derive_secret(base, bits, I).
func refDeriveFrom(base [32]byte, bits int, idx uint64) [32]byte {
	p := base
	for b := bits - 1; b >= 0; b-- {
		if (idx>>uint(b))&1 == 1 {
			p[b/8] ^= 1 << (uint(b) % 8)
			p = sha256.Sum256(p[:])
		}
	}

	return p
}

func refCtz(idx uint64) int {
	for b := 0; b < 48; b++ {
		if (idx>>uint(b))&1 == 1 {
			return b
		}
	}

	return 48
}

// craftStore builds, straight from the reference derivation, the store
// state that n honest sequential insertions (v = 0..n-1) produce: bucket b
// holds the most recently inserted element whose index has exactly b
// trailing zeros. Validated against real sequential insertion in
// TestVerifC06Exhaustive.
func craftStore(seed [32]byte, n uint64) *RevocationStore {
	s := NewRevocationStore()
	if n == 0 {
		return s
	}
	lo := c06Top - (n - 1) // smallest inserted index
	for b := 0; b <= 48; b++ {
		// smallest idx >= lo with exactly b trailing zeros
		var idx uint64
		if b == 48 {
			if lo != 0 {
				continue
			}
			idx = 0
		} else {
			step := uint64(1) << uint(b+1)
			base := uint64(1) << uint(b)
			if lo <= base {
				idx = base
			} else {
				m := (lo - base + step - 1) / step
				idx = base + m*step
			}
			if idx > c06Top {
				continue
			}
		}
		if b >= len(s.buckets) {
			// cannot be represented by this tree: leave to caller
			continue
		}
		h := refDeriveFrom(seed, 48, idx)
		s.buckets[b] = element{index: index(idx), hash: h}
		if uint8(b+1) > s.lenBuckets {
			s.lenBuckets = uint8(b + 1)
		}
	}
	s.index = index(c06Top - n) // wraps for n == 2^48 exactly like index--
	if n == c06Top+1 {
		s.index = ^index(0)
	}

	return s
}

func storesEqual(a, b *RevocationStore) error {
	if a.lenBuckets != b.lenBuckets {
		return fmt.Errorf("lenBuckets %d vs %d", a.lenBuckets, b.lenBuckets)
	}
	if a.index != b.index {
		return fmt.Errorf("index %d vs %d", a.index, b.index)
	}
	for i := uint8(0); i < a.lenBuckets; i++ {
		if !a.buckets[i].isEqual(&b.buckets[i]) {
			return fmt.Errorf("bucket %d differs: %v/%x vs %v/%x", i,
				a.buckets[i].index, a.buckets[i].hash[:4],
				b.buckets[i].index, b.buckets[i].hash[:4])
		}
	}

	return nil
}

func roundTrip(s *RevocationStore) (*RevocationStore, error) {
	var buf bytes.Buffer
	if err := s.Encode(&buf); err != nil {
		return nil, err
	}
	// At most 49 values of 8+32 bytes, plus 1+8.
	if buf.Len() > 1+49*40+8 {
		return nil, fmt.Errorf("encoding %d bytes > 49 entries", buf.Len())
	}

	return NewRevocationStoreFromBytes(&buf)
}

func lookupMust(s *RevocationStore, seed [32]byte, v uint64) error {
	got, err := s.LookUp(v)
	if err != nil {
		return fmt.Errorf("LookUp(%d): %v", v, err)
	}
	want := refSecret(seed, v)
	if !bytes.Equal(got[:], want[:]) {
		return fmt.Errorf("LookUp(%d)=%x want %x", v, got[:8], want[:8])
	}

	return nil
}

// TestVerifC06Exhaustive inserts secrets 0..N-1 sequentially for a generated
// seed. After every insert: producer agrees with the reference, a sampled
// set of earlier indices plus neighbours is looked up, and the crafted
// store equals the real one. At powers of two all earlier indices are looked
// up and the store is round-tripped through its serialisation.
func TestVerifC06Exhaustive(t *testing.T) {
	st := vstats.New("TestVerifC06Exhaustive")
	defer st.Flush()
	n := uint64(vstats.EnvInt("VERIF_C06_N", 4096))

	rapid.Check(t, func(t *rapid.T) {
		var seed [32]byte
		copy(seed[:], rapid.SliceOfN(rapid.Byte(), 32, 32).Draw(t, "seed"))
		prod := NewRevocationProducer(chainhash.Hash(seed))
		store := NewRevocationStore()
		probe := rapid.Uint64().Draw(t, "probe")

		for k := uint64(0); k < n; k++ {
			sec, err := prod.AtIndex(k)
			if err != nil {
				t.Fatalf("AtIndex(%d): %v", k, err)
			}
			want := refSecret(seed, k)
			if !bytes.Equal(sec[:], want[:]) {
				t.Fatalf("producer AtIndex(%d) != BOLT-3 reference", k)
			}
			if err := store.AddNextEntry(sec); err != nil {
				t.Fatalf("honest insert %d rejected: %v", k, err)
			}
			if store.lenBuckets > 49 {
				t.Fatalf("%d buckets in use", store.lenBuckets)
			}
			// sampled lookups among 0..k
			cands := []uint64{0, k, k / 2, k - k%2, probe % (k + 1),
				(probe >> 17) % (k + 1)}
			if k > 0 {
				cands = append(cands, k-1)
			}
			for _, v := range cands {
				if err := lookupMust(store, seed, v); err != nil {
					t.Fatalf("after %d inserts: %v", k+1, err)
				}
			}
			// not yet received secrets must not be derivable
			if _, err := store.LookUp(k + 1); err == nil {
				t.Fatalf("LookUp(%d) succeeded after only %d inserts",
					k+1, k+1)
			}
			if err := storesEqual(store, craftStore(seed, k+1)); err != nil {
				t.Fatalf("crafted store(%d) != real: %v", k+1, err)
			}
			pow2 := (k+1)&k == 0
			if pow2 || k+1 == n {
				for v := uint64(0); v <= k; v++ {
					if err := lookupMust(store, seed, v); err != nil {
						t.Fatalf("full scan after %d: %v", k+1, err)
					}
				}
				rt, err := roundTrip(store)
				if err != nil {
					t.Fatalf("round trip: %v", err)
				}
				if err := storesEqual(store, rt); err != nil {
					t.Fatalf("round trip changed store: %v", err)
				}
			}
			b := refCtz(c06Top - k)
			st.Case(vstats.FP(seed[:], k), b >= 2,
				[]string{fmt.Sprintf("bucket=%d", b)},
				map[string]any{"seed": fmt.Sprintf("%x", seed[:6]),
					"k": k, "bucket": b})
		}
	})
}

// genCount draws a number of prior insertions n in [0, 2^48] with a
// structured bit pattern.
func genCount(t *rapid.T) uint64 {
	kind := rapid.IntRange(0, 6).Draw(t, "kind")
	switch kind {
	case 0: // 2^j, 2^j+-1
		j := rapid.IntRange(0, 48).Draw(t, "j")
		d := rapid.IntRange(-2, 2).Draw(t, "d")
		v := int64(uint64(1)<<uint(j)) + int64(d)
		if v < 0 {
			v = 0
		}
		if uint64(v) > c06Top+1 {
			v = int64(c06Top + 1)
		}

		return uint64(v)
	case 1: // near the end of the index space
		return c06Top + 1 - uint64(rapid.IntRange(0, 70000).Draw(t, "fromEnd"))
	case 2: // run of ones then zeros
		hi := rapid.IntRange(1, 48).Draw(t, "hi")
		lo := rapid.IntRange(0, hi).Draw(t, "lo")
		return (uint64(1)<<uint(hi) - 1) &^ (uint64(1)<<uint(lo) - 1)
	case 3: // two single bits
		a := rapid.IntRange(0, 47).Draw(t, "a")
		b := rapid.IntRange(0, 47).Draw(t, "b")
		return uint64(1)<<uint(a) | uint64(1)<<uint(b)
	case 4: // complement patterns: 2^48 - 2^a - 2^b
		a := rapid.IntRange(0, 47).Draw(t, "a")
		b := rapid.IntRange(0, a).Draw(t, "b")
		return c06Top + 1 - uint64(1)<<uint(a) - uint64(1)<<uint(b) + uint64(rapid.IntRange(0, 2).Draw(t, "e"))
	case 5:
		return uint64(rapid.IntRange(0, 1<<20).Draw(t, "small"))
	default:
		return rapid.Uint64Range(0, c06Top+1).Draw(t, "any")
	}
}

// TestVerifC06Structural samples the 2^48 index space: the store state after
// n honest insertions is crafted from the reference (validated above for
// small n), then secret n is inserted honestly or corrupted, and earlier
// indices are looked up, before and after a serialisation round trip.
func TestVerifC06Structural(t *testing.T) {
	st := vstats.New("TestVerifC06Structural")
	defer st.Flush()

	rapid.Check(t, func(t *rapid.T) {
		var seed [32]byte
		copy(seed[:], rapid.SliceOfN(rapid.Byte(), 32, 32).Draw(t, "seed"))
		n := genCount(t)
		mode := rapid.SampledFrom([]string{"honest", "honest", "flip",
			"otherroot", "outoforder"}).Draw(t, "mode")
		labels := []string{"mode=" + mode}
		// A corrupted secret in bucket 0 cannot be detected when it
		// arrives (it claims no earlier index); the NEXT secret, whose
		// sub-tree covers it, exposes it. Steer a share of the corrupted
		// cases there, with the next secret s buckets up (added after
		// seeded change C06f).
		if (mode == "flip" || mode == "otherroot") &&
			rapid.IntRange(0, 2).Draw(t, "deepFollowUp") == 0 {

			sh := uint(rapid.IntRange(1, 47).Draw(t, "followUpBucket"))
			r := rapid.Uint64Range(0, c06Top).Draw(t, "followUpIdx")
			idx := (r>>sh)<<sh + 1
			if idx >= 3 && idx <= c06Top {
				n = c06Top - idx
			}
		}

		if n > c06Top {
			// All 2^48 secrets received: nothing further to insert. The
			// state itself must be representable and answer lookups.
			n = c06Top + 1
			labels = append(labels, "chain_exhausted")
		}

		// The last secret of the chain (index 0) occupies bucket 48.
		keyLast := "C06:insert@index0"
		if n >= c06Top && len(NewRevocationStore().buckets) < 49 {
			if vstats.IsKnown(keyLast) {
				st.Known(keyLast)
				st.Count("excluded_known", 1)
				t.Skip("known finding excluded")
			}
			if n > c06Top {
				t.Fatalf("store cannot represent all 2^48 received "+
					"secrets: %d buckets",
					len(NewRevocationStore().buckets))
			}
			// n == 2^48-1: fall through, the real insert below fails.
		}

		store := craftStore(seed, n)
		if store.lenBuckets > 49 {
			t.Fatalf("%d buckets", store.lenBuckets)
		}

		nontrivial := false
		if n <= c06Top {
			idx := c06Top - n
			b := refCtz(idx)
			labels = append(labels, fmt.Sprintf("bucket=%d", b))
			good := refSecret(seed, n)
			cand := good
			switch mode {
			case "flip":
				bit := rapid.IntRange(0, 255).Draw(t, "bit")
				cand[bit/8] ^= 1 << uint(bit%8)
			case "otherroot":
				var other [32]byte
				copy(other[:], rapid.SliceOfN(rapid.Byte(), 32, 32).Draw(t, "other"))
				if other == seed {
					other[0] ^= 1
				}
				cand = refSecret(other, n)
			case "outoforder":
				if n < c06Top {
					cand = refSecret(seed, n+1)
				} else {
					cand = refSecret(seed, n-1)
				}
			}
			h := chainhash.Hash(cand)
			err := store.AddNextEntry(&h)

			// Independent consistency reference: the candidate is
			// consistent with the earlier secrets iff every earlier
			// index it claims to derive (idx+1 .. idx+2^b-1, all of
			// which were received) is reproduced. It suffices to test
			// the b sub-tree roots idx+2^i (i<b), from which the rest
			// follow; they are compared with the reference chain.
			consistent := true
			for i := 0; i < b; i++ {
				j := idx + uint64(1)<<uint(i)
				d := refDeriveFrom(cand, b, j&(uint64(1)<<uint(b)-1))
				w := refDeriveFrom(seed, 48, j)
				if d != w {
					consistent = false
				}
			}
			if consistent && err != nil {
				t.Fatalf("n=%d mode=%s bucket=%d: consistent secret "+
					"rejected: %v", n, mode, b, err)
			}
			if !consistent && err == nil {
				t.Fatalf("n=%d mode=%s bucket=%d: inconsistent secret "+
					"accepted", n, mode, b)
			}
			if cand == good && err != nil {
				t.Fatalf("honest insert rejected: %v", err)
			}
			if err == nil {
				labels = append(labels, "accepted")
			} else {
				labels = append(labels, "rejected")
			}
			nontrivial = b >= 2 || mode != "honest"
			if err == nil && cand != good && n < c06Top {
				// Accepted although corrupted (only possible in bucket
				// 0): the store now holds a value that is not part of
				// the chain. The next genuine secret is not consistent
				// with it and must be refused - whichever of the two
				// is wrong, the store cannot reproduce both.
				nb := refCtz(idx - 1)
				g := chainhash.Hash(refSecret(seed, n+1))
				if err2 := store.AddNextEntry(&g); err2 == nil {
					t.Fatalf("n=%d mode=%s: a corrupted secret was stored "+
						"in bucket 0 and the next secret (bucket %d), "+
						"which does not derive it, was accepted", n, mode,
						nb)
				}
				labels = append(labels, "followup_rejected",
					fmt.Sprintf("followup_bucket=%d", nb))
			}
			if err != nil || cand != good {
				// rejected or undetectably corrupted (bucket 0): the
				// case ends here, earlier lookups must still work.
				store = craftStore(seed, n)
			} else {
				n++
			}
		} else {
			nontrivial = true
		}

		// look up a generated set of earlier indices
		check := func(s *RevocationStore) {
			if n == 0 {
				return
			}
			vs := []uint64{0, n - 1, (n - 1) / 2}
			cnt := rapid.IntRange(1, 12).Draw(t, "nlook")
			for i := 0; i < cnt; i++ {
				switch rapid.IntRange(0, 2).Draw(t, "lk") {
				case 0:
					vs = append(vs, rapid.Uint64Range(0, n-1).Draw(t, "v"))
				case 1: // near the newest
					d := rapid.Uint64Range(0, 300).Draw(t, "d")
					if d > n-1 {
						d = n - 1
					}
					vs = append(vs, n-1-d)
				default: // clear one bit of n-1
					bit := rapid.IntRange(0, 47).Draw(t, "cb")
					vs = append(vs, (n-1)&^(uint64(1)<<uint(bit)))
				}
			}
			for _, v := range vs {
				if err := lookupMust(s, seed, v); err != nil {
					t.Fatalf("n=%d: %v", n, err)
				}
			}
			if n <= c06Top {
				if _, err := s.LookUp(n); err == nil {
					t.Fatalf("n=%d: secret %d derivable before receipt", n, n)
				}
			}
		}
		check(store)
		rt, err := roundTrip(store)
		if err != nil {
			t.Fatalf("round trip: %v", err)
		}
		if err := storesEqual(store, rt); err != nil {
			t.Fatalf("round trip changed store: %v", err)
		}
		check(rt)
		// the next honest insert is still accepted after the round trip
		if n <= c06Top && (n < c06Top || len(rt.buckets) >= 49) {
			g := chainhash.Hash(refSecret(seed, n))
			if err := rt.AddNextEntry(&g); err != nil {
				t.Fatalf("n=%d: insert after round trip rejected: %v", n, err)
			}
			if err := lookupMust(rt, seed, n); err != nil {
				t.Fatalf("after round trip insert: %v", err)
			}
		}

		st.Case(vstats.FP(seed[:], n, mode), nontrivial, labels,
			map[string]any{"seed": fmt.Sprintf("%x", seed[:6]), "n": n,
				"mode": mode, "labels": labels})
	})
}
