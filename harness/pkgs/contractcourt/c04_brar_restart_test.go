//go:build verif

package contractcourt

// C04 extension, second part: the real BreachArbitrator object across a
// restart. Incarnation 1 receives the ContractBreachEvents of 1..2 generated
// channels (real revoked states from the channel simulator) and persists them
// through handleBreachHandoff into a RetributionStore on a bbolt file; it is
// stopped before the breach confirms and the DB is closed. Incarnation 2 is
// started on the re-opened file (Start -> ForAll -> exactRetribution) against a
// stub chain: the harness confirms the breach, lets the cheater confirm a
// generated subset of its second-level HTLC transactions (spend notifications),
// advances the chain past the split height, and finally confirms the
// arbitrator's own justice transaction input by input. Every transaction the
// arbitrator PUBLISHES is captured and must
//   - spend exactly the outputs that are still unspent in the harness's own
//     bookkeeping of the chain (revoked commitment outputs, minus what was
//     advanced, plus the second-level outputs),
//   - validate input by input under btcd's interpreter against those outputs,
//   - equal the transaction built from a fresh in-memory retribution up to the
//     fee of one P2TR output (see c04xAlignEmptyBlobs).
// The arbitrator must register for the persisted breach txid / height, must
// not log an error, must drop retributions of channels that are already fully
// closed at start-up, and must end with MarkChanFullyClosed + an empty store.
//
// All waits are bounded: a missed deadline without an error logged by the
// arbitrator is counted as inconclusive and the case is skipped.

import (
	"bytes"
	"errors"
	"fmt"
	"os"
	"path/filepath"
	"sort"
	"strings"
	"sync"
	"testing"
	"time"

	"github.com/btcsuite/btcd/btcec/v2"
	"github.com/btcsuite/btcd/chainhash/v2"
	"github.com/btcsuite/btcd/wire/v2"
	"github.com/btcsuite/btclog/v2"
	"github.com/lightningnetwork/lnd/chainntnfs"
	"github.com/lightningnetwork/lnd/chanstate"
	"github.com/lightningnetwork/lnd/fn/v2"
	"github.com/lightningnetwork/lnd/input"
	"github.com/lightningnetwork/lnd/internal/verif/vstats"
	"github.com/lightningnetwork/lnd/lnwallet"
	"pgregory.net/rapid"
)

// c04rLog captures error-level messages of the breach arbitrator.
type c04rLog struct {
	btclog.Logger
	mu   sync.Mutex
	errs []string
	sig  chan struct{}
}

func newC04rLog() *c04rLog {
	return &c04rLog{Logger: btclog.Disabled, sig: make(chan struct{}, 1)}
}

func (l *c04rLog) add(s string) {
	l.mu.Lock()
	l.errs = append(l.errs, s)
	l.mu.Unlock()
	select {
	case l.sig <- struct{}{}:
	default:
	}
}
func (l *c04rLog) Errorf(f string, a ...any) {
	// %w is only valid in fmt.Errorf
	l.add(fmt.Sprintf(strings.ReplaceAll(f, "%w", "%v"), a...))
}
func (l *c04rLog) Error(a ...any)               { l.add(fmt.Sprint(a...)) }
func (l *c04rLog) Criticalf(f string, a ...any) { l.add(fmt.Sprintf(f, a...)) }
func (l *c04rLog) Critical(a ...any)            { l.add(fmt.Sprint(a...)) }
func (l *c04rLog) errors() []string {
	l.mu.Lock()
	defer l.mu.Unlock()
	return append([]string(nil), l.errs...)
}

// c04rChain is the stub chain backend: notifier and publisher.
type c04rChain struct {
	mu sync.Mutex

	tip int32

	confs  map[chainhash.Hash][]*c04rConfReg
	spent  map[wire.OutPoint]*chainntnfs.SpendDetail
	spends map[wire.OutPoint][]*c04rSpendReg
	epochs []*c04rEpochReg

	// scripts are the real previous outputs, for checking what the
	// arbitrator registers.
	scripts map[wire.OutPoint][]byte
	regErrs []string

	pub chan *wire.MsgTx
}

type c04rConfReg struct {
	heightHint uint32
	pkScript   []byte
	ev         *chainntnfs.ConfirmationEvent
}

// c04rEpochReg is one block epoch subscription; last is the highest block
// delivered to it (every block is delivered once).
type c04rEpochReg struct {
	ch   chan *chainntnfs.BlockEpoch
	last int32
}

type c04rSpendReg struct {
	ev       *chainntnfs.SpendEvent
	notified bool
}

func newC04rChain() *c04rChain {
	return &c04rChain{
		tip:     1,
		confs:   map[chainhash.Hash][]*c04rConfReg{},
		spent:   map[wire.OutPoint]*chainntnfs.SpendDetail{},
		spends:  map[wire.OutPoint][]*c04rSpendReg{},
		scripts: map[wire.OutPoint][]byte{},
		pub:     make(chan *wire.MsgTx, 4096),
	}
}

func (n *c04rChain) RegisterConfirmationsNtfn(txid *chainhash.Hash,
	pkScript []byte, numConfs, heightHint uint32,
	_ ...chainntnfs.NotifierOption) (*chainntnfs.ConfirmationEvent, error) {

	n.mu.Lock()
	defer n.mu.Unlock()
	ev := chainntnfs.NewConfirmationEvent(numConfs, func() {})
	n.confs[*txid] = append(n.confs[*txid], &c04rConfReg{
		heightHint: heightHint, pkScript: pkScript, ev: ev,
	})
	return ev, nil
}

func (n *c04rChain) RegisterSpendNtfn(op *wire.OutPoint, pkScript []byte,
	heightHint uint32) (*chainntnfs.SpendEvent, error) {

	n.mu.Lock()
	defer n.mu.Unlock()
	if want, ok := n.scripts[*op]; !ok {
		n.regErrs = append(n.regErrs, fmt.Sprintf("spend notification "+
			"requested for %v which is not an output the harness "+
			"knows", *op))
	} else if !bytes.Equal(want, pkScript) {
		n.regErrs = append(n.regErrs, fmt.Sprintf("spend notification "+
			"for %v registered with script %x, the output's is %x",
			*op, pkScript, want))
	}
	reg := &c04rSpendReg{ev: &chainntnfs.SpendEvent{
		Spend:  make(chan *chainntnfs.SpendDetail, 1),
		Reorg:  make(chan struct{}, 1),
		Done:   make(chan struct{}, 1),
		Cancel: func() {},
	}}
	// historical dispatch: already spent
	if d, ok := n.spent[*op]; ok {
		reg.ev.Spend <- d
		reg.notified = true
	}
	n.spends[*op] = append(n.spends[*op], reg)
	return reg.ev, nil
}

func (n *c04rChain) RegisterBlockEpochNtfn(*chainntnfs.BlockEpoch) (
	*chainntnfs.BlockEpochEvent, error) {

	n.mu.Lock()
	defer n.mu.Unlock()
	ch := make(chan *chainntnfs.BlockEpoch, 64)
	// Like lnd's notifiers: without a best known block the client gets
	// the current tip right away.
	ch <- &chainntnfs.BlockEpoch{Height: n.tip}
	n.epochs = append(n.epochs, &c04rEpochReg{ch: ch, last: n.tip})
	return &chainntnfs.BlockEpochEvent{Epochs: ch, Cancel: func() {}}, nil
}

func (n *c04rChain) Start() error  { return nil }
func (n *c04rChain) Started() bool { return true }
func (n *c04rChain) Stop() error   { return nil }

func (n *c04rChain) publish(tx *wire.MsgTx, _ string) error {
	select {
	case n.pub <- tx.Copy():
	default:
		n.mu.Lock()
		n.regErrs = append(n.regErrs, "publish queue overflow")
		n.mu.Unlock()
	}
	return nil
}

// confirm delivers the confirmation of txid to all registrations.
func (n *c04rChain) confirm(txid chainhash.Hash, height uint32) int {
	n.mu.Lock()
	defer n.mu.Unlock()
	for _, r := range n.confs[txid] {
		select {
		case r.ev.Confirmed <- &chainntnfs.TxConfirmation{
			BlockHeight: height,
		}:
		default:
		}
	}
	return len(n.confs[txid])
}

// spend marks op as spent by tx (input index idx) and notifies.
func (n *c04rChain) spend(op wire.OutPoint, tx *wire.MsgTx, idx uint32,
	height int32) {

	n.mu.Lock()
	defer n.mu.Unlock()
	h := tx.TxHash()
	d := &chainntnfs.SpendDetail{
		SpentOutPoint:     &op,
		SpenderTxHash:     &h,
		SpendingTx:        tx,
		SpenderInputIndex: idx,
		SpendingHeight:    height,
	}
	n.spent[op] = d
	for _, r := range n.spends[op] {
		if r.notified {
			continue
		}
		r.ev.Spend <- d
		r.notified = true
	}
}

func (n *c04rChain) setTip(h int32) {
	n.mu.Lock()
	defer n.mu.Unlock()
	n.tip = h
	for _, r := range n.epochs {
		if r.last >= h {
			continue
		}
		r.last = h
		select {
		case r.ch <- &chainntnfs.BlockEpoch{Height: h}:
		default:
		}
	}
}

func (n *c04rChain) registrationErrors() []string {
	n.mu.Lock()
	defer n.mu.Unlock()
	return append([]string(nil), n.regErrs...)
}

// c04rClosedDB is the ClosedChannelStore of the node.
type c04rClosedDB struct {
	chanstate.ClosedChannelStore
	mu      sync.Mutex
	summary []*chanstate.ChannelCloseSummary
	marked  map[wire.OutPoint]int
}

func (d *c04rClosedDB) FetchClosedChannels(pendingOnly bool) (
	[]*chanstate.ChannelCloseSummary, error) {

	d.mu.Lock()
	defer d.mu.Unlock()
	var out []*chanstate.ChannelCloseSummary
	for _, s := range d.summary {
		if pendingOnly && !s.IsPending {
			continue
		}
		out = append(out, s)
	}
	return out, nil
}

func (d *c04rClosedDB) MarkChanFullyClosed(cp *wire.OutPoint) error {
	d.mu.Lock()
	defer d.mu.Unlock()
	d.marked[*cp]++
	return nil
}

// c04rChan is one breached channel in the restart scenario.
type c04rChan struct {
	c   *c04xChan
	r   *c04Revoked
	bh  uint32
	ref *retributionInfo
	// prevs: outputs currently unspent that belong to this breach.
	prevs map[wire.OutPoint]*wire.TxOut
	// hashes of the transactions whose outputs the justice txs spend.
	hashes    map[chainhash.Hash]bool
	leaseSkip *wire.OutPoint
	closed    bool
	lastAll   *wire.MsgTx
}

var errC04rInconclusive = errors.New("inconclusive")

// c04rSameModuloFee compares a published justice tx with the reference: same
// inputs in the same order, same sequences, same witness shapes, the same
// single sweep script; the swept value may differ by the fee of one P2TR
// output (172 wu at 1 sat/kw: at most 1 sat).
func c04rSameModuloFee(pub, ref *wire.MsgTx) error {
	if pub.Version != ref.Version || pub.LockTime != ref.LockTime {
		return fmt.Errorf("version/locktime %d/%d, expected %d/%d",
			pub.Version, pub.LockTime, ref.Version, ref.LockTime)
	}
	if len(pub.TxIn) != len(ref.TxIn) {
		return fmt.Errorf("%d inputs, expected %d", len(pub.TxIn),
			len(ref.TxIn))
	}
	for i := range pub.TxIn {
		a, b := pub.TxIn[i], ref.TxIn[i]
		if a.PreviousOutPoint != b.PreviousOutPoint ||
			a.Sequence != b.Sequence {

			return fmt.Errorf("input %d is %v seq %d, expected %v seq %d",
				i, a.PreviousOutPoint, a.Sequence, b.PreviousOutPoint,
				b.Sequence)
		}
		if len(a.Witness) != len(b.Witness) {
			return fmt.Errorf("input %d has %d witness items, expected "+
				"%d", i, len(a.Witness), len(b.Witness))
		}
	}
	if len(pub.TxOut) != len(ref.TxOut) {
		return fmt.Errorf("%d outputs, expected %d", len(pub.TxOut),
			len(ref.TxOut))
	}
	for i := range pub.TxOut {
		a, b := pub.TxOut[i], ref.TxOut[i]
		if !bytes.Equal(a.PkScript, b.PkScript) {
			return fmt.Errorf("output %d pays to %x, expected %x", i,
				a.PkScript, b.PkScript)
		}
		if d := a.Value - b.Value; d < -1 || d > 1 {
			return fmt.Errorf("output %d is %d sat, expected %d", i,
				a.Value, b.Value)
		}
	}
	return nil
}

type c04rStats struct {
	published, inputs, secondLevel, splits, finalRounds int
	leaseExcluded, completed, droppedClosed             int
}

// c04rScenario is the state of one generated restart scenario.
type c04rScenario struct {
	chain  *c04rChain
	log    *c04rLog
	brar   *BreachArbitrator
	refArb *BreachArbitrator
	chans  []*c04rChan
	stats  *c04rStats
	wait   time.Duration
	events []string
}

func (sc *c04rScenario) chanOf(tx *wire.MsgTx) *c04rChan {
	if len(tx.TxIn) == 0 {
		return nil
	}
	for _, ch := range sc.chans {
		if ch.hashes[tx.TxIn[0].PreviousOutPoint.Hash] {
			return ch
		}
	}
	return nil
}

// collect waits until every channel in want has published the given number of
// transactions, in order per channel.
func (sc *c04rScenario) collect(want map[*c04rChan]int) (
	map[*c04rChan][]*wire.MsgTx, error) {

	got := map[*c04rChan][]*wire.MsgTx{}
	need := 0
	for _, n := range want {
		need += n
	}
	deadline := time.After(sc.wait)
	for need > 0 {
		select {
		case tx := <-sc.chain.pub:
			ch := sc.chanOf(tx)
			if ch == nil {
				return nil, fmt.Errorf("published transaction spends "+
					"%v which belongs to no breached channel",
					tx.TxIn[0].PreviousOutPoint)
			}
			if len(got[ch]) >= want[ch] {
				return nil, fmt.Errorf("%s: unexpected extra "+
					"transaction published (%d inputs, first %v)",
					ch.c.name(), len(tx.TxIn),
					tx.TxIn[0].PreviousOutPoint)
			}
			got[ch] = append(got[ch], tx)
			need--

		case <-sc.log.sig:
			return nil, fmt.Errorf("breach arbitrator logged an "+
				"error: %v", sc.log.errors())

		case <-deadline:
			if errs := sc.log.errors(); len(errs) > 0 {
				return nil, fmt.Errorf("breach arbitrator logged an "+
					"error: %v", errs)
			}
			return nil, errC04rInconclusive
		}
	}
	return got, nil
}

// expected returns the transactions the arbitrator has to publish in one
// round for ch, from the in-memory reference: spendAll, and once the chain tip
// passed the split height also the split variants.
func (sc *c04rScenario) expected(ch *c04rChan, tip int32) ([]*justiceTxCtx,
	[]string, error) {

	txs, err := sc.refArb.createJusticeTx(ch.ref.breachedOutputs)
	if err != nil {
		return nil, nil, fmt.Errorf("harness: reference createJusticeTx: "+
			"%v", err)
	}
	out := []*justiceTxCtx{txs.spendAll}
	names := []string{"spendAll"}
	if uint32(tip) >= ch.bh+blocksPassedSplitPublish {
		if txs.spendCommitOuts != nil {
			out = append(out, txs.spendCommitOuts)
			names = append(names, "spendCommitOuts")
		}
		if txs.spendHTLCs != nil {
			out = append(out, txs.spendHTLCs)
			names = append(names, "spendHTLCs")
		}
		for i, jc := range txs.spendSecondLevelHTLCs {
			out = append(out, jc)
			names = append(names, fmt.Sprintf("secondLevel[%d]", i))
		}
	}
	return out, names, nil
}

// checkRound validates what ch published in one round.
func (sc *c04rScenario) checkRound(ch *c04rChan, when string,
	exp []*justiceTxCtx, names []string, got []*wire.MsgTx) error {

	for i, tx := range got {
		what := fmt.Sprintf("%s %s: published %s", ch.c.name(), when,
			names[i])
		// exactly the reference's inputs, which must all be unspent
		if err := c04rSameModuloFee(tx, exp[i].justiceTx); err != nil {
			return fmt.Errorf("%s differs from the transaction built "+
				"from the in-memory retribution: %v", what, err)
		}
		if i == 0 {
			// spendAll: exactly the harness's unspent set
			if len(tx.TxIn) != len(ch.prevsSpendable()) {
				return fmt.Errorf("%s spends %d outputs, %d breached "+
					"outputs are unspent", what, len(tx.TxIn),
					len(ch.prevsSpendable()))
			}
		}
		fetcher := newMultiFetcher(ch.prevs)
		for j, in := range tx.TxIn {
			prev, ok := ch.prevs[in.PreviousOutPoint]
			if !ok {
				return fmt.Errorf("%s: input %v is not an unspent "+
					"output of the breach", what, in.PreviousOutPoint)
			}
			if ch.leaseSkip != nil &&
				in.PreviousOutPoint == *ch.leaseSkip {

				sc.stats.leaseExcluded++
				continue
			}
			err := verifyWithFetcher(tx, j, prev, fetcher)
			if err != nil {
				return fmt.Errorf("%s: input %d (%v, %d sat) witness "+
					"invalid: %v", what, j, in.PreviousOutPoint,
					prev.Value, err)
			}
			sc.stats.inputs++
		}
		sc.stats.published++
		if i > 0 {
			sc.stats.splits++
		}
	}
	ch.lastAll = got[0]
	return nil
}

// spendable is the set of outpoints the reference info still wants to sweep.
func (ch *c04rChan) prevsSpendable() map[wire.OutPoint]bool {
	out := map[wire.OutPoint]bool{}
	for i := range ch.ref.breachedOutputs {
		out[ch.ref.breachedOutputs[i].outpoint] = true
	}
	return out
}

// round waits for and checks one publication round of the given channels.
func (sc *c04rScenario) round(when string, chans ...*c04rChan) error {
	want := map[*c04rChan]int{}
	exps := map[*c04rChan][]*justiceTxCtx{}
	names := map[*c04rChan][]string{}
	sc.chain.mu.Lock()
	tip := sc.chain.tip
	sc.chain.mu.Unlock()
	for _, ch := range chans {
		e, n, err := sc.expected(ch, tip)
		if err != nil {
			return err
		}
		exps[ch], names[ch], want[ch] = e, n, len(e)
	}
	got, err := sc.collect(want)
	if err != nil {
		return fmt.Errorf("%s: %w", when, err)
	}
	for _, ch := range chans {
		err := sc.checkRound(ch, when, exps[ch], names[ch], got[ch])
		if err != nil {
			return err
		}
	}
	return nil
}

func TestVerifC04BrarRestart(t *testing.T) {
	st := vstats.New("TestVerifC04BrarRestart")
	defer st.Flush()
	maxSteps := vstats.EnvInt("VERIF_STEPS", 30)
	maxChans := vstats.EnvInt("VERIF_BRAR_CHANS", 2)
	waitMs := vstats.EnvInt("VERIF_WAIT_MS", 20000)

	oldLog := brarLog
	defer UseBreachLogger(oldLog)

	rapid.Check(t, func(t *rapid.T) {
		nChans := rapid.IntRange(1, maxChans).Draw(t, "nChans")
		var (
			all    []*c04xChan
			params []string
			traces []string
			events []string
		)
		defer func() {
			for _, c := range all {
				c.s.Close()
			}
		}()
		fail := func(err error) {
			var sb strings.Builder
			for _, c := range all {
				fmt.Fprintf(&sb, "\n%s params: %v\ntrace:\n  %s",
					c.name(), c.p, strings.Join(c.s.Trace, "\n  "))
			}
			t.Fatalf("%v\nevents: %s%s", err, strings.Join(events, " "),
				sb.String())
		}
		for i := 0; i < nChans; i++ {
			c, err := c04xRunChannel(t, i, maxSteps)
			all = append(all, c)
			if err != nil {
				fail(err)
			}
			params = append(params, c.p.String())
			traces = append(traces, strings.Join(c.s.Trace, "|"))
		}

		// One revoked state per channel is broadcast by the cheater.
		chain := newC04rChain()
		var (
			stats c04rStats
			chans []*c04rChan
			keys  []*btcec.PrivateKey
			seen  = map[wire.OutPoint]bool{}
		)
		for _, c := range all {
			if len(c.revs) == 0 || seen[c.chanPoint] {
				continue
			}
			seen[c.chanPoint] = true
			var withSecond []int
			for i, r := range c.revs {
				if len(r.second) > 0 {
					withSecond = append(withSecond, i)
				}
			}
			var ri int
			if len(withSecond) > 0 &&
				rapid.IntRange(0, 7).Draw(t, "preferSecond") != 0 {

				ri = withSecond[rapid.IntRange(0, len(withSecond)-1).
					Draw(t, "revWithSecond")]
			} else {
				ri = rapid.IntRange(0, len(c.revs)-1).Draw(t, "rev")
			}
			ch := &c04rChan{
				c: c, r: c.revs[ri],
				bh: uint32(rapid.IntRange(1, 800_000).Draw(t,
					"breachHeight")),
				prevs:  map[wire.OutPoint]*wire.TxOut{},
				hashes: map[chainhash.Hash]bool{},
			}
			txid := ch.r.tx.TxHash()
			ch.hashes[txid] = true
			for i, o := range ch.r.tx.TxOut {
				op := wire.OutPoint{Hash: txid, Index: uint32(i)}
				ch.prevs[op] = o
				chain.scripts[op] = o.PkScript
			}
			chans = append(chans, ch)
			keys = append(keys, c.s.Sides[c.victim].Keys...)
		}
		labels := []string{fmt.Sprintf("breached_chans=%d", len(chans))}
		if len(chans) == 0 {
			st.Case(vstats.FP(strings.Join(params, ";"),
				strings.Join(traces, ";")), false,
				append(labels, "no_revoked_state"), nil)
			return
		}

		signer := input.NewMockSigner(keys, nil)
		sweepScript := func() fn.Result[lnwallet.AddrWithKey] {
			return fn.Ok(lnwallet.AddrWithKey{
				DeliveryAddress: append([]byte{0x00, 0x14},
					make([]byte, 20)...),
			})
		}
		logger := newC04rLog()
		UseBreachLogger(logger)
		closedDB := &c04rClosedDB{marked: map[wire.OutPoint]int{}}

		dir, err := os.MkdirTemp("", "c04x-brar-")
		if err != nil {
			t.Fatalf("harness: tempdir: %v", err)
		}
		defer os.RemoveAll(dir)
		store := &c04xStore{path: filepath.Join(dir, "retribution.db")}
		if err := store.open(); err != nil {
			t.Fatalf("%v", err)
		}
		defer func() { store.close() }()

		wait := time.Duration(waitMs) * time.Millisecond
		inconclusive := func(what string) {
			st.Count("inconclusive", 1)
			t.Skipf("inconclusive: %s", what)
		}

		// ---- incarnation 1: breach detected, persisted, not confirmed
		breaches := make(chan *ContractBreachEvent)
		var linkClosed sync.Map
		brar1 := NewBreachArbitrator(&BreachConfig{
			CloseLink: func(cp *wire.OutPoint, _ ChannelCloseType) {
				linkClosed.Store(*cp, true)
			},
			DB: closedDB, Estimator: c04Estimator{},
			GenSweepScript: sweepScript, Notifier: chain,
			PublishTransaction: chain.publish,
			ContractBreaches:   breaches, Signer: signer,
			Store: store.rs,
		})
		if err := brar1.Start(); err != nil {
			fail(fmt.Errorf("BreachArbitrator.Start on an empty store: %v",
				err))
		}
		stopped1 := false
		stop1 := func() {
			if !stopped1 {
				stopped1 = true
				_ = brar1.Stop()
			}
		}
		defer stop1()
		for _, ch := range chans {
			_, rt, err := ch.c.memInfo(ch.r, true, ch.bh)
			if err != nil {
				fail(fmt.Errorf("%s: NewBreachRetribution: %v",
					ch.c.name(), err))
			}
			ack := make(chan error, 1)
			ev := &ContractBreachEvent{
				ChanPoint:         ch.c.chanPoint,
				ProcessACK:        func(e error) { ack <- e },
				BreachRetribution: rt,
			}
			select {
			case breaches <- ev:
			case <-time.After(wait):
				inconclusive("breach event not taken")
			}
			select {
			case err := <-ack:
				if err != nil {
					fail(fmt.Errorf("%s: breach hand-off failed: %v",
						ch.c.name(), err))
				}
			case <-time.After(wait):
				if errs := logger.errors(); len(errs) > 0 {
					fail(fmt.Errorf("%s: hand-off: arbitrator logged %v",
						ch.c.name(), errs))
				}
				inconclusive("breach hand-off not acknowledged")
			}
			events = append(events, fmt.Sprintf("handoff(chan%d,h=%d,bh=%d)",
				ch.c.ix, ch.r.height, ch.bh))
			if _, ok := linkClosed.Load(ch.c.chanPoint); !ok {
				fail(fmt.Errorf("%s: link not closed on breach",
					ch.c.name()))
			}
			cp := ch.c.chanPoint
			if ok, err := brar1.IsBreached(&cp); err != nil || !ok {
				fail(fmt.Errorf("%s: IsBreached after acknowledged "+
					"hand-off = %v, %v", ch.c.name(), ok, err))
			}
		}
		stop1()
		select {
		case tx := <-chain.pub:
			fail(fmt.Errorf("justice transaction %v published before the "+
				"breach confirmed", tx.TxHash()))
		default:
		}
		if errs := logger.errors(); len(errs) > 0 {
			fail(fmt.Errorf("incarnation 1 logged errors: %v", errs))
		}
		store.close()

		// ---- restart
		if err := store.open(); err != nil {
			fail(err)
		}
		events = append(events, "restart")
		// Channels the node already fully closed (justice served, the
		// store entry left behind by a crash) and pending ones.
		for _, ch := range chans {
			k := rapid.IntRange(0, 5).Draw(t, "closeSummaryKind")
			switch {
			case k == 0:
				ch.closed = true
				closedDB.summary = append(closedDB.summary,
					&chanstate.ChannelCloseSummary{
						ChanPoint: ch.c.chanPoint, IsPending: false,
					})
				events = append(events, fmt.Sprintf("fullyClosed(chan%d)",
					ch.c.ix))
			case k <= 3:
				closedDB.summary = append(closedDB.summary,
					&chanstate.ChannelCloseSummary{
						ChanPoint: ch.c.chanPoint, IsPending: true,
					})
			}
		}
		// fresh chain registrations for the new incarnation
		chain.mu.Lock()
		chain.confs = map[chainhash.Hash][]*c04rConfReg{}
		chain.spends = map[wire.OutPoint][]*c04rSpendReg{}
		chain.epochs = nil
		chain.mu.Unlock()

		brar := NewBreachArbitrator(&BreachConfig{
			CloseLink: func(*wire.OutPoint, ChannelCloseType) {},
			DB:        closedDB, Estimator: c04Estimator{},
			GenSweepScript: sweepScript, Notifier: chain,
			PublishTransaction: chain.publish,
			ContractBreaches:   make(chan *ContractBreachEvent),
			Signer:             signer,
			Store:              store.rs,
		})
		if err := brar.Start(); err != nil {
			fail(fmt.Errorf("BreachArbitrator.Start after the restart: %v",
				err))
		}
		defer func() { _ = brar.Stop() }()

		sc := &c04rScenario{
			chain: chain, log: logger, brar: brar, chans: chans,
			stats: &stats, wait: wait,
			refArb: NewBreachArbitrator(&BreachConfig{
				Estimator: c04Estimator{}, GenSweepScript: sweepScript,
				Signer: signer,
			}),
		}

		run := func() error {
			var active []*c04rChan
			for _, ch := range chans {
				cp := ch.c.chanPoint
				txid := ch.r.tx.TxHash()
				breached, err := brar.IsBreached(&cp)
				if err != nil {
					return fmt.Errorf("IsBreached: %v", err)
				}
				chain.mu.Lock()
				regs := chain.confs[txid]
				chain.mu.Unlock()
				if ch.closed {
					if breached || len(regs) != 0 {
						return fmt.Errorf("%s is fully closed in the "+
							"channel DB but after Start IsBreached=%v, "+
							"%d confirmation registrations",
							ch.c.name(), breached, len(regs))
					}
					stats.droppedClosed++
					continue
				}
				if !breached {
					return fmt.Errorf("%s: retribution persisted before "+
						"the restart is gone (IsBreached=false)",
						ch.c.name())
				}
				if len(regs) != 1 {
					return fmt.Errorf("%s: %d confirmation "+
						"registrations for the breach tx %v after the "+
						"restart", ch.c.name(), len(regs), txid)
				}
				if regs[0].heightHint != ch.bh {
					return fmt.Errorf("%s: breach confirmation "+
						"registered with height hint %d, persisted "+
						"breach height %d", ch.c.name(),
						regs[0].heightHint, ch.bh)
				}
				ref, rt, err := ch.c.memInfo(ch.r, true, ch.bh)
				if err != nil {
					return fmt.Errorf("harness: %v", err)
				}
				ch.ref = ref
				if ch.c.p.ChanType.HasLeaseExpiration() &&
					ch.c.p.Opener() == ch.c.victim &&
					rt.LocalOutputSignDesc != nil &&
					vstats.IsKnown(c04xLeaseKey) {

					op := rt.LocalOutpoint
					ch.leaseSkip = &op
				}
				active = append(active, ch)
			}

			// The breach confirms, one channel after the other.
			for _, ch := range active {
				chain.confirm(ch.r.tx.TxHash(), ch.bh)
				events = append(events, fmt.Sprintf("confirm(chan%d)",
					ch.c.ix))
				err := sc.round("after the breach confirmed", ch)
				if err != nil {
					return err
				}
			}

			// The cheater confirms second-level transactions.
			for _, ch := range active {
				var idxs []uint32
				for idx := range ch.r.second {
					idxs = append(idxs, idx)
				}
				sort.Slice(idxs, func(i, j int) bool {
					return idxs[i] < idxs[j]
				})
				if len(idxs) > 1 {
					idxs = rapid.Permutation(idxs).Draw(t, "advanceOrder")
				}
				txid := ch.r.tx.TxHash()
				for _, idx := range idxs {
					if rapid.IntRange(0, 3).Draw(t, "advance") == 0 {
						continue
					}
					stx := ch.r.second[idx]
					op := wire.OutPoint{Hash: txid, Index: idx}
					// reference + harness bookkeeping
					spends, err := c04xSpends(ch.ref, ch.r, []uint32{idx})
					if err != nil {
						return fmt.Errorf("%s: harness: %v", ch.c.name(),
							err)
					}
					updateBreachInfo(ch.ref, spends)
					sh := stx.TxHash()
					ch.hashes[sh] = true
					delete(ch.prevs, op)
					chain.mu.Lock()
					for i, o := range stx.TxOut {
						nop := wire.OutPoint{Hash: sh, Index: uint32(i)}
						ch.prevs[nop] = o
						chain.scripts[nop] = o.PkScript
					}
					chain.mu.Unlock()

					chain.spend(op, stx, 0, int32(ch.bh)+1)
					events = append(events, fmt.Sprintf(
						"secondLevel(chan%d,out=%d)", ch.c.ix, idx))
					err = sc.round(fmt.Sprintf("after the cheater "+
						"advanced HTLC output %d", idx), ch)
					if err != nil {
						return err
					}
					stats.secondLevel++
				}
			}

			// The chain moves past every split height.
			if rapid.IntRange(0, 3).Draw(t, "mine") != 0 {
				var maxBh uint32
				for _, ch := range active {
					if ch.bh > maxBh {
						maxBh = ch.bh
					}
				}
				tip := int32(maxBh) + blocksPassedSplitPublish +
					int32(rapid.IntRange(0, 6).Draw(t, "extraBlocks"))
				// expectation before the tip moves: only the splits
				want := map[*c04rChan]int{}
				exps := map[*c04rChan][]*justiceTxCtx{}
				names := map[*c04rChan][]string{}
				for _, ch := range active {
					e, n, err := sc.expected(ch, tip)
					if err != nil {
						return err
					}
					// drop spendAll: not republished on a block
					exps[ch], names[ch] = e[1:], n[1:]
					want[ch] = len(e) - 1
				}
				chain.setTip(tip)
				events = append(events, fmt.Sprintf("tip(%d)", tip))
				got, err := sc.collect(want)
				if err != nil {
					return fmt.Errorf("after the split height: %w", err)
				}
				for _, ch := range active {
					if len(exps[ch]) == 0 {
						continue
					}
					last := ch.lastAll
					// checkRound treats index 0 as spendAll:
					// prepend the last one to keep that meaning.
					err := sc.checkRound(ch, "after the split height",
						append([]*justiceTxCtx{{justiceTx: last}},
							exps[ch]...),
						append([]string{"spendAll"}, names[ch]...),
						append([]*wire.MsgTx{last}, got[ch]...))
					if err != nil {
						return err
					}
					stats.published-- // the re-checked spendAll
				}
			}

			// The node's own spendAll justice transaction confirms;
			// the spends are notified input by input.
			for _, ch := range active {
				cp := ch.c.chanPoint
				done := make(chan struct{})
				resolved, err := brar.SubscribeBreachComplete(&cp, done)
				if err != nil || resolved {
					return fmt.Errorf("%s: SubscribeBreachComplete = %v, "+
						"%v while justice is pending", ch.c.name(),
						resolved, err)
				}
				j := ch.lastAll
				order := make([]int, len(j.TxIn))
				for i := range order {
					order[i] = i
				}
				if len(order) > 1 {
					order = rapid.Permutation(order).Draw(t, "confOrder")
				}
				for k, i := range order {
					op := j.TxIn[i].PreviousOutPoint
					// reference: our own spend removes the output
					ri := -1
					for x := range ch.ref.breachedOutputs {
						if ch.ref.breachedOutputs[x].outpoint == op {
							ri = x
						}
					}
					if ri < 0 {
						return fmt.Errorf("harness: %v not in reference",
							op)
					}
					h := j.TxHash()
					updateBreachInfo(ch.ref, []spend{{
						index: ri,
						detail: &chainntnfs.SpendDetail{
							SpentOutPoint: &op, SpenderTxHash: &h,
							SpendingTx: j, SpenderInputIndex: uint32(i),
						},
					}})
					if len(ch.ref.breachedOutputs) != len(order)-k-1 {
						return fmt.Errorf("harness: reference did not "+
							"drop %v as own spend", op)
					}
					delete(ch.prevs, op)
					chain.spend(op, j, uint32(i), int32(ch.bh)+2)
					events = append(events, fmt.Sprintf(
						"justiceSpend(chan%d,in=%d)", ch.c.ix, i))
					if k == len(order)-1 {
						break
					}
					// lastAll must stay j: keep it across rounds
					err := sc.round(fmt.Sprintf("after input %d of its "+
						"justice tx confirmed", i), ch)
					ch.lastAll = j
					if err != nil {
						return err
					}
					stats.finalRounds++
				}
				select {
				case <-done:
				case <-logger.sig:
					return fmt.Errorf("%s: arbitrator logged an error: %v",
						ch.c.name(), logger.errors())
				case <-time.After(wait):
					if errs := logger.errors(); len(errs) > 0 {
						return fmt.Errorf("%s: arbitrator logged an "+
							"error: %v", ch.c.name(), errs)
					}
					return fmt.Errorf("breach completion: %w",
						errC04rInconclusive)
				}
				breached, err := brar.IsBreached(&cp)
				if err != nil || breached {
					return fmt.Errorf("%s: all outputs swept but "+
						"IsBreached = %v, %v", ch.c.name(), breached, err)
				}
				closedDB.mu.Lock()
				nMarked := closedDB.marked[cp]
				closedDB.mu.Unlock()
				if nMarked != 1 {
					return fmt.Errorf("%s: all outputs swept, "+
						"MarkChanFullyClosed called %d times",
						ch.c.name(), nMarked)
				}
				stats.completed++
			}
			return nil
		}
		err = run()
		sc.events = events
		_ = brar.Stop()
		if err == nil {
			select {
			case tx := <-chain.pub:
				err = fmt.Errorf("unexpected extra transaction published "+
					"(%d inputs, first %v)", len(tx.TxIn),
					tx.TxIn[0].PreviousOutPoint)
			default:
			}
		}
		if err == nil {
			if errs := chain.registrationErrors(); len(errs) > 0 {
				err = fmt.Errorf("chain registrations: %v", errs)
			}
		}
		if err == nil {
			if errs := logger.errors(); len(errs) > 0 {
				err = fmt.Errorf("breach arbitrator logged errors: %v",
					errs)
			}
		}
		if err != nil {
			if errors.Is(err, errC04rInconclusive) &&
				len(logger.errors()) == 0 {

				inconclusive(err.Error())
			}
			fail(err)
		}
		// After the final restart nothing is left.
		store.close()
		if err := store.open(); err != nil {
			fail(err)
		}
		left, err := store.load()
		if err != nil || len(left) != 0 {
			fail(fmt.Errorf("after justice was served for every channel "+
				"the re-opened store holds %d retributions (%v)",
				len(left), err))
		}

		st.Count("justice_txs_published_validated", int64(stats.published))
		st.Count("justice_inputs_validated", int64(stats.inputs))
		st.Count("second_level_spends_notified", int64(stats.secondLevel))
		st.Count("split_txs_validated", int64(stats.splits))
		st.Count("breaches_completed", int64(stats.completed))
		st.Count("closed_channels_dropped_at_start", int64(stats.droppedClosed))
		if stats.leaseExcluded > 0 {
			st.Known(c04xLeaseKey)
			st.Count("excluded_known", int64(stats.leaseExcluded))
		}
		types := map[string]bool{}
		for _, ch := range chans {
			types["type="+ch.c.p.TypeName] = true
		}
		for l := range types {
			labels = append(labels, l)
		}
		sort.Strings(labels)
		flag := func(b bool, l string) {
			if b {
				labels = append(labels, l)
			}
		}
		flag(stats.secondLevel > 0, "second_level_after_restart")
		flag(stats.secondLevel > 1, "several_second_level_after_restart")
		flag(stats.splits > 0, "split_justice_published")
		flag(stats.droppedClosed > 0, "fully_closed_dropped_at_start")
		flag(stats.completed > 0, "breach_completed")
		flag(stats.completed > 1, "two_breaches_completed")
		flag(stats.leaseExcluded > 0, "lease_known_excluded")
		htlcs := false
		for _, ch := range chans {
			if !ch.closed && len(ch.r.exp.NonDust) > 0 {
				htlcs = true
			}
		}
		flag(htlcs, "htlc_outputs_punished")

		nontrivial := stats.completed > 0 && htlcs &&
			(stats.secondLevel > 0 || stats.splits > 0)
		var sample map[string]any
		if st.WantSample() {
			ev := events
			if len(ev) > 60 {
				ev = ev[:60]
			}
			sample = map[string]any{"params": params, "events": ev,
				"published": stats.published}
		}
		st.Case(vstats.FP(strings.Join(params, ";"),
			strings.Join(traces, ";"), strings.Join(events, " ")),
			nontrivial, labels, sample)
	})
}
