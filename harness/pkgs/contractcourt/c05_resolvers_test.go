//go:build verif

package contractcourt

// C05 (contractcourt variant): whichever commitment confirms, the spends that
// contractcourt's OWN resolvers construct are valid.
//
// The lnwallet variant of C05 validates lnwallet's close summaries with
// harness-chosen witness types. Here the channel simulator reaches generated
// channel states (all channel types, mid-dance, pending remote commitments,
// after reloads); at sampled states, for each side and each of {its own
// commitment, the peer's current commitment, the peer's pending commitment}
// the real close summary (ForceClose / NewUnilateralCloseSummary, as the
// chain watcher builds it) is handed to the real ChannelArbitrator
// (handle{Local,Remote}ForceCloseEvent on the real bolt log), whose real
// resolvers are launched and driven to the end against the deterministic stub
// world of ccshared_test.go. Every input.Input a resolver hands to the
// sweeper is put into a sweep transaction the way sweep/txgenerator.go does
// (sequence = BlocksToMaturity, nLockTime = RequiredLockTime, RequiredTxOut
// at the input's index), signed through its own CraftInputScript with the
// side's signer and run through btcd's script interpreter against the ACTUAL
// previous output (commitment output, or output of the second-level
// transaction that the first stage really produced). Transactions the
// resolvers publish / hand to the nursery (legacy second level) are validated
// too. Completeness: the commitment outputs spent are exactly the outputs
// the side owns there.

import (
	"bytes"
	"fmt"
	"os"
	"path/filepath"
	"sort"
	"strings"
	"sync"
	"testing"

	"github.com/btcsuite/btcd/btcec/v2"
	"github.com/btcsuite/btcd/btcutil/v2"
	"github.com/btcsuite/btcd/chainhash/v2"
	"github.com/btcsuite/btcd/txscript/v2"
	"github.com/btcsuite/btcd/wire/v2"
	"github.com/lightningnetwork/lnd/chainntnfs"
	"github.com/lightningnetwork/lnd/channeldb"
	"github.com/lightningnetwork/lnd/chanstate"
	"github.com/lightningnetwork/lnd/fn/v2"
	"github.com/lightningnetwork/lnd/input"
	"github.com/lightningnetwork/lnd/internal/verif/chansim"
	"github.com/lightningnetwork/lnd/internal/verif/vstats"
	"github.com/lightningnetwork/lnd/lntypes"
	"github.com/lightningnetwork/lnd/lnwallet"
	"github.com/lightningnetwork/lnd/lnwire"
	"pgregory.net/rapid"
)

const (
	c05Own     = 0
	c05Remote  = 1
	c05Pending = 2
)

var c05KindNames = []string{"own", "peer_current", "peer_pending"}

// c05Stats accumulates what one case validated.
type c05Stats struct {
	closes, inputs, secondLevelSweeps, published, negControls int
	nurseryInputs, nurseryIncubated, nurseryConfs             int
	htlcResolvers                                              int
	byType                                                     map[string]int
	pendingChecked, leaseOrTaproot                             bool
	richState                                                  bool
}

// c05Fetcher knows every previous output of the case.
type c05Fetcher struct{ m map[wire.OutPoint]*wire.TxOut }

func (f *c05Fetcher) FetchPrevOutput(op wire.OutPoint) *wire.TxOut {
	return f.m[op]
}

// c05SweepTx assembles a one-input sweep transaction around inp the way the
// sweeper's tx generator does and signs it with the input's own
// CraftInputScript. The sighash cache is fed with what the input believes
// its previous output is (SignDesc().Output), exactly as the sweeper does.
func c05SweepTx(signer input.Signer, inp input.Input, seqDelta,
	lockDelta int64) (*wire.MsgTx, error) {

	tx := wire.NewMsgTx(2)
	seq := int64(inp.BlocksToMaturity()) + seqDelta
	if seq < 0 {
		return nil, fmt.Errorf("negative sequence")
	}
	tx.AddTxIn(&wire.TxIn{
		PreviousOutPoint: inp.OutPoint(),
		Sequence:         uint32(seq),
	})
	if ro := inp.RequiredTxOut(); ro != nil {
		tx.AddTxOut(ro)
	} else {
		val := inp.SignDesc().Output.Value - 150
		if val < 0 {
			val = 0
		}
		tx.AddTxOut(&wire.TxOut{
			Value: val, PkScript: append([]byte{0x00, 0x14},
				bytes.Repeat([]byte{0x05}, 20)...),
		})
	}
	// The sweeper uses the current height when no input demands a lock
	// time; 0 is the most permissive choice for the interpreter.
	if lt, ok := inp.RequiredLockTime(); ok {
		l := int64(lt) + lockDelta
		if l < 0 {
			return nil, fmt.Errorf("negative lock time")
		}
		tx.LockTime = uint32(l)
	}
	fetcher, err := input.MultiPrevOutFetcher([]input.Input{inp})
	if err != nil {
		return nil, err
	}
	hashes := txscript.NewTxSigHashes(tx, fetcher)
	script, err := inp.CraftInputScript(signer, tx, hashes, fetcher, 0)
	if err != nil {
		return nil, fmt.Errorf("CraftInputScript: %w", err)
	}
	tx.TxIn[0].Witness = script.Witness
	tx.TxIn[0].SignatureScript = script.SigScript

	return tx, nil
}

// c05Close is one confirmed commitment seen by side x.
type c05Close struct {
	s      *chansim.Sim
	x      int
	kind   int
	state  *chanstate.OpenChannel
	commit *wire.MsgTx
	htlcs  []channeldb.HTLC // of the confirmed commitment
	exp    *chansim.Expected
	res    *ContractResolutions
	// event delivery
	local  *LocalUnilateralCloseInfo
	remote *RemoteUnilateralCloseInfo
}

func c05CovLocal(s *chansim.Sim, x int) [2]int {
	var cov [2]int
	cov[x] = s.M.TailOwn[x]
	cov[1-x] = s.M.TailTheir[x]

	return cov
}

func c05CovOfRec(rec *chansim.CommitRec) [2]int {
	var cov [2]int
	cov[rec.Signer] = rec.Own
	cov[1-rec.Signer] = rec.Their

	return cov
}

// c05CommitSet builds the CommitSet as chain_watcher's newChainSet does.
func c05CommitSet(st *chanstate.OpenChannel, key HtlcSetKey) (CommitSet,
	error) {

	local, remote, err := st.LatestCommitments()
	if err != nil {
		return CommitSet{}, err
	}
	cs := CommitSet{
		ConfCommitKey: fn.Some(key),
		HtlcSets: map[HtlcSetKey][]channeldb.HTLC{
			LocalHtlcSet:  local.Htlcs,
			RemoteHtlcSet: remote.Htlcs,
		},
	}
	tip, err := st.RemoteCommitChainTip()
	if err != nil && err != channeldb.ErrNoPendingCommit {
		return CommitSet{}, err
	}
	if tip != nil {
		cs.HtlcSets[RemotePendingHtlcSet] = tip.Commitment.Htlcs
	}

	return cs, nil
}

// c05Prepare builds the close event for (x, kind) from the side's database.
// nil, nil: nothing to check (height 0 / no pending commitment).
func c05Prepare(s *chansim.Sim, x, kind int, height uint32) (*c05Close,
	error) {

	side := s.Sides[x]
	y := 1 - x
	c := &c05Close{s: s, x: x, kind: kind}
	m := &s.M

	if kind == c05Own {
		ch, err := side.LoadFresh()
		if err != nil {
			return nil, fmt.Errorf("reload: %v", err)
		}
		st := ch.State()
		if st.LocalCommitment.CommitHeight == 0 {
			// fixture signature, cannot be broadcast
			return nil, nil
		}
		sum, err := ch.ForceClose()
		if err != nil {
			return nil, fmt.Errorf("ForceClose: %v", err)
		}
		res, err := sum.ContractResolutions.UnwrapOrErr(
			fmt.Errorf("no resolutions"),
		)
		if err != nil {
			return nil, err
		}
		if res.HtlcResolutions == nil {
			res.HtlcResolutions = &lnwallet.HtlcResolutions{}
			sum.ContractResolutions = fn.Some(res)
		}
		c.state = st
		c.commit = sum.CloseTx
		c.htlcs = st.LocalCommitment.Htlcs
		c.exp = s.Expect(x, m.RevsSent[x], c05CovLocal(s, x))
		cs, err := c05CommitSet(st, LocalHtlcSet)
		if err != nil {
			return nil, err
		}
		txh := c.commit.TxHash()
		c.local = &LocalUnilateralCloseInfo{
			SpendDetail: &chainntnfs.SpendDetail{
				SpentOutPoint:  &st.FundingOutpoint,
				SpenderTxHash:  &txh,
				SpendingTx:     c.commit,
				SpendingHeight: int32(height),
			},
			LocalForceCloseSummary: sum,
			ChannelCloseSummary: &channeldb.ChannelCloseSummary{
				ChanPoint:   st.FundingOutpoint,
				CloseType:   channeldb.LocalForceClose,
				CloseHeight: height,
			},
			CommitSet: cs,
		}
		c.res = &ContractResolutions{
			CommitHash:       txh,
			CommitResolution: res.CommitResolution,
			HtlcResolutions:  *res.HtlcResolutions,
			AnchorResolution: res.AnchorResolution,
		}

		return c, nil
	}

	st, err := side.FetchState()
	if err != nil {
		return nil, fmt.Errorf("fetch: %v", err)
	}
	var (
		commit channeldb.ChannelCommitment
		point  *btcec.PublicKey
		key    HtlcSetKey
	)
	if kind == c05Pending {
		diff, err := st.RemoteCommitChainTip()
		if err != nil {
			return nil, nil
		}
		commit = diff.Commitment
		point = st.RemoteNextRevocation
		key = RemotePendingHtlcSet
		rec := m.Sigs[x][len(m.Sigs[x])-1]
		c.exp = s.Expect(y, rec.Height, c05CovOfRec(rec))
	} else {
		commit = st.RemoteCommitment
		point = st.RemoteCurrentRevocation
		key = RemoteHtlcSet
		acked := m.RevsDelivered[y]
		if acked == 0 {
			c.exp = s.Expect(y, 0, [2]int{})
		} else {
			c.exp = s.Expect(y, acked, c05CovOfRec(m.Sigs[x][acked-1]))
		}
	}
	if point == nil {
		return nil, fmt.Errorf("no commitment point stored")
	}
	txh := commit.CommitTx.TxHash()
	spend := &chainntnfs.SpendDetail{
		SpentOutPoint:  &st.FundingOutpoint,
		SpenderTxHash:  &txh,
		SpendingTx:     commit.CommitTx,
		SpendingHeight: int32(height),
	}
	sum, err := lnwallet.NewUnilateralCloseSummary(
		st, side.Signer, spend, commit, point,
		fn.Some[lnwallet.AuxLeafStore](&lnwallet.MockAuxLeafStore{}),
		fn.None[lnwallet.AuxContractResolver](),
	)
	if err != nil {
		return nil, fmt.Errorf("NewUnilateralCloseSummary: %v", err)
	}
	if sum.HtlcResolutions == nil {
		sum.HtlcResolutions = &lnwallet.HtlcResolutions{}
	}
	sum.ChannelCloseSummary.CloseHeight = height
	cs, err := c05CommitSet(st, key)
	if err != nil {
		return nil, err
	}
	c.state = st
	c.commit = commit.CommitTx
	c.htlcs = commit.Htlcs
	c.remote = &RemoteUnilateralCloseInfo{
		UnilateralCloseSummary: sum,
		CommitSet:              cs,
	}
	c.res = &ContractResolutions{
		CommitHash:       txh,
		CommitResolution: sum.CommitResolution,
		HtlcResolutions:  *sum.HtlcResolutions,
		AnchorResolution: sum.AnchorResolution,
	}

	return c, nil
}

// c05Run hands the close to a fresh real arbitrator and drives its resolvers
// to the end. known[hash] are the preimages in the witness beacon.
func c05Run(t *testing.T, c *c05Close, height uint32,
	known map[lntypes.Hash]lntypes.Preimage, stats *c05Stats) error {

	s, x := c.s, c.x
	side := s.Sides[x]
	st := c.state
	what := fmt.Sprintf("%s sees %s commitment confirm at %d", side.Name,
		c05KindNames[c.kind], height)
	fail := func(format string, a ...any) error {
		return fmt.Errorf("%s: %s", what, fmt.Sprintf(format, a...))
	}

	dir, err := os.MkdirTemp("", "c05r")
	if err != nil {
		return err
	}
	defer os.RemoveAll(dir)
	db, err := ccOpenDB(filepath.Join(dir, "arb.db"))
	if err != nil {
		return err
	}
	defer db.Close()

	w := newCcWorld(int32(height))
	for h, p := range known {
		w.beacon[h] = p
	}
	inc := w.newInc()

	// Previous outputs known on chain: the confirmed commitment's.
	commitHash := c.commit.TxHash()
	prevs := &c05Fetcher{m: map[wire.OutPoint]*wire.TxOut{}}
	addOutputs := func(tx *wire.MsgTx) {
		h := tx.TxHash()
		for i, o := range tx.TxOut {
			prevs.m[wire.OutPoint{Hash: h, Index: uint32(i)}] = o
		}
	}
	addOutputs(c.commit)

	// The arbitrator's view of the three commitments.
	sets := map[HtlcSetKey]htlcSet{
		LocalHtlcSet:  newHtlcSet(st.LocalCommitment.Htlcs),
		RemoteHtlcSet: newHtlcSet(st.RemoteCommitment.Htlcs),
	}
	if tip, err := st.RemoteCommitChainTip(); err == nil && tip != nil {
		sets[RemotePendingHtlcSet] = newHtlcSet(tip.Commitment.Htlcs)
	}
	sc := &ccScenario{DeltaOut: 10, DeltaIn: 10, UptimeSec: 1}
	mkLog := func(cfg ChannelArbitratorConfig) (ArbitratorLog, error) {
		return newBoltArbitratorLog(
			db, cfg, chainhash.Hash{}, st.FundingOutpoint,
		)
	}
	arb, _, err := ccBuildArb(t, sc, inc, sets, mkLog)
	if err != nil {
		return err
	}
	defer ccStop(arb)
	arb.cfg.ChanPoint = st.FundingOutpoint
	arb.cfg.FetchHistoricalChannel = func() (*chanstate.OpenChannel, error) {
		return st, nil
	}
	arb.cfg.IsForwardedHTLC = func(lnwire.ShortChannelID, uint64) bool {
		return true
	}

	// validated[op] = witness type of the validated spend of op.
	validated := map[wire.OutPoint]string{}
	// second-level output -> the commitment output it stems from
	secondLevelOuts := map[wire.OutPoint]wire.OutPoint{}
	var violations []error
	// mu guards the bookkeeping above: resolver goroutines publish /
	// incubate concurrently right after they are started.
	var mu sync.Mutex

	// nur is the real utxo nursery behind IncubateOutputs (pre-anchor
	// second-level outputs; c05_nursery_test.go).
	var nur *c05Nursery

	// verify runs the interpreter on tx input 0 against the actual
	// previous output.
	verify := func(tx *wire.MsgTx) error {
		op := tx.TxIn[0].PreviousOutPoint
		prev, ok := prevs.m[op]
		if !ok {
			return fmt.Errorf("outpoint %v is not an output of the "+
				"confirmed commitment or of a confirmed second-level "+
				"transaction", op)
		}

		return chansim.VerifyInputFetcher(tx, 0, prev, prevs)
	}

	// Transactions published by the resolvers themselves (legacy
	// second-level success) or handed to the nursery (legacy second-level
	// timeout, published by the nursery at expiry).
	publish := func(tx *wire.MsgTx, how string) error {
		if len(tx.TxIn) != 1 {
			return fmt.Errorf("%s: %d inputs", how, len(tx.TxIn))
		}
		mu.Lock()
		if err := verify(tx); err != nil {
			mu.Unlock()

			return fmt.Errorf("%s %v (input %v) is invalid: %v", how,
				tx.TxHash(), tx.TxIn[0].PreviousOutPoint, err)
		}
		validated[tx.TxIn[0].PreviousOutPoint] = how
		stats.published++
		stats.byType[how]++
		addOutputs(tx)
		// The output of a pre-anchor second-level transaction must be
		// swept later (by the nursery).
		secondLevelOuts[wire.OutPoint{Hash: tx.TxHash(), Index: 0}] =
			tx.TxIn[0].PreviousOutPoint
		mu.Unlock()
		w.confirm(tx)
		if nur != nil {
			w.mu.Lock()
			h := w.height
			w.mu.Unlock()
			nur.noteConfirmed(tx, h)
		}

		return nil
	}
	addViolation := func(err error) {
		mu.Lock()
		violations = append(violations, err)
		mu.Unlock()
	}
	arb.cfg.PublishTx = func(tx *wire.MsgTx, _ string) error {
		if tx.TxHash() == commitHash {
			return nil
		}
		if err := publish(tx.Copy(), "published_second_level"); err != nil {
			addViolation(err)
		}

		return nil
	}
	nur, err = newC05Nursery(
		w, inc, db, st.FundingOutpoint, publish, addViolation,
	)
	if err != nil {
		return fail("nursery: %v", err)
	}
	defer nur.stop()
	arb.cfg.IncubateOutputs = func(cp wire.OutPoint,
		o fn.Option[lnwallet.OutgoingHtlcResolution],
		i fn.Option[lnwallet.IncomingHtlcResolution], h uint32,
		d fn.Option[int32], opts ...IncubateOption) error {

		o.WhenSome(func(r lnwallet.OutgoingHtlcResolution) {
			if r.SignedTimeoutTx == nil {
				return
			}
			if r.SignedTimeoutTx.LockTime != r.Expiry {
				addViolation(fmt.Errorf(
					"incubated timeout tx lock time %d, expiry %d",
					r.SignedTimeoutTx.LockTime, r.Expiry))
			}
		})

		// The real nursery publishes the timeout transaction at its
		// expiry and sweeps the second-level output itself.
		return nur.incubate(cp, o, i, h, d, opts...)
	}

	w.sweepHook = func(r *ccSweepReq, spent bool) (*wire.MsgTx, error) {
		mu.Lock()
		defer mu.Unlock()
		inp := r.inp
		wt := inp.WitnessType().String()
		op := inp.OutPoint()
		tx, err := c05SweepTx(side.Signer, inp, 0, 0)
		if err != nil {
			return nil, fmt.Errorf("%s input %v: %v", wt, op, err)
		}
		if err := verify(tx); err != nil {
			return nil, fmt.Errorf("%s input %v (sequence %d, lock "+
				"time %d): invalid spend: %v", wt, op,
				tx.TxIn[0].Sequence, tx.LockTime, err)
		}
		// What the input believes it spends must be what is on chain.
		if prev := prevs.m[op]; prev.Value != inp.SignDesc().Output.Value ||
			!bytes.Equal(prev.PkScript, inp.SignDesc().Output.PkScript) {

			return nil, fmt.Errorf("%s input %v: sign descriptor "+
				"output (%d sat) differs from the real output (%d sat)",
				wt, op, inp.SignDesc().Output.Value, prev.Value)
		}
		stats.inputs++
		stats.byType[wt]++
		if h, ok := nur.offeredAt(op); ok {
			// Chosen, stored and read back by the nursery itself.
			if err := nur.checkMaturity(inp, h); err != nil {
				return nil, err
			}
			stats.nurseryInputs++
			stats.byType["nursery:"+wt]++
		}
		// Negative controls: one block before CSV / CLTV maturity the
		// spend must be invalid.
		if inp.BlocksToMaturity() > 0 {
			early, err := c05SweepTx(side.Signer, inp, -1, 0)
			if err == nil && verify(early) == nil {
				return nil, fmt.Errorf("%s input %v spendable with "+
					"sequence %d, one block before its CSV maturity",
					wt, op, early.TxIn[0].Sequence)
			}
			stats.negControls++
		}
		if lt, ok := inp.RequiredLockTime(); ok && lt > 0 {
			early, err := c05SweepTx(side.Signer, inp, 0, -1)
			if err == nil && verify(early) == nil {
				return nil, fmt.Errorf("%s input %v spendable with "+
					"lock time %d, one block before its CLTV "+
					"maturity", wt, op, early.LockTime)
			}
			stats.negControls++
		}
		if _, ok := secondLevelOuts[op]; ok {
			stats.secondLevelSweeps++
		}
		if spent {
			return nil, nil
		}
		validated[op] = wt
		addOutputs(tx)
		if inp.RequiredTxOut() != nil {
			// A second-level HTLC transaction: its output at the
			// input's index must be swept by a later input.
			secondLevelOuts[wire.OutPoint{Hash: tx.TxHash(), Index: 0}] = op
		}

		return tx, nil
	}

	// Deliver the close event as channelAttendant does.
	if c.local != nil {
		err = arb.handleLocalForceCloseEvent(c.local)
	} else {
		err = arb.handleRemoteForceCloseEvent(c.remote)
	}
	if err != nil {
		return fail("close event: %v", err)
	}
	if arb.state == StateError || arb.state == StateDefault ||
		arb.state == StateContractClosed {

		return fail("arbitrator stuck in %v after the close event",
			arb.state)
	}

	// Heights at which resolvers act on their own.
	var triggers []int32
	for _, h := range c.htlcs {
		triggers = append(triggers, int32(h.RefundTimeout)-1,
			int32(h.RefundTimeout))
	}
	sort.Slice(triggers, func(i, j int) bool {
		return triggers[i] < triggers[j]
	})

	for iter := 0; iter < 3000; iter++ {
		if !ccSettle() {
			return errC05Inconclusive
		}
		w.mu.Lock()
		resolved := w.fullyResolved > 0
		cur := w.height
		w.mu.Unlock()
		if resolved {
			break
		}
		select {
		case <-arb.resolutionSignal:
			_, _, _ = arb.advanceState(uint32(cur), chainTrigger, nil)

			continue
		default:
		}
		if key := w.pumpOne(inc); key != "" {
			continue
		}
		if key := nur.net.pumpConf(inc); key != "" {
			continue
		}
		next := int32(-1)
		for _, tr := range triggers {
			if tr > cur {
				next = tr
				break
			}
		}
		// Heights at which the nursery store holds a class (CLTV
		// expiry of a crib output, CSV maturity of a kindergarten
		// output): the nursery must see those blocks.
		if nc := nur.nextClass(cur); nc > 0 && (next < 0 || nc < next) {
			next = nc
		}
		if next < 0 {
			break
		}
		w.jumpTo(next)
		arb.launchResolvers()
	}
	// Inputs that were offered but whose sweep nobody waited for.
	for _, r := range w.pendingSweeps(inc) {
		w.mu.Lock()
		_, spent := w.spent[r.op]
		w.mu.Unlock()
		w.mu.Lock()
		r.done = true
		w.mu.Unlock()
		tx, err := w.sweepHook(r, spent)
		if err != nil {
			addViolation(err)
		}
		if tx != nil {
			w.confirm(tx)
		}
	}
	w.mu.Lock()
	hookErrs := append([]error(nil), w.hookErrs...)
	w.mu.Unlock()
	mu.Lock()
	violations = append(violations, hookErrs...)
	mu.Unlock()
	if len(violations) > 0 {
		return fail("%v", violations[0])
	}

	// ---- completeness --------------------------------------------------
	y := 1 - x
	e := c.exp
	ownSat := btcutil.Amount(uint64(e.Stored[x]) / 1000)
	dustLimit := s.P.Dust[x]
	if c.kind != c05Own {
		dustLimit = s.P.Dust[y]
	}
	wantCommitOut := ownSat >= dustLimit
	if (c.res.CommitResolution != nil) != wantCommitOut {
		return fail("commit output resolution present=%v, model balance "+
			"%d sat, dust limit %d", c.res.CommitResolution != nil,
			ownSat, dustLimit)
	}
	want := map[wire.OutPoint]string{}
	may := map[wire.OutPoint]bool{}
	if cr := c.res.CommitResolution; cr != nil {
		want[cr.SelfOutPoint] = "commit output"
	}
	if ar := c.res.AnchorResolution; ar != nil {
		want[ar.CommitAnchor] = "anchor"
	} else if s.P.ChanType.HasAnchors() &&
		(wantCommitOut || len(e.NonDust) > 0) && c.kind == c05Own {

		return fail("own commitment has an anchor but no anchor " +
			"resolution")
	}
	nOut, nIn := 0, 0
	for _, h := range c.htlcs {
		if h.OutputIndex < 0 {
			continue
		}
		op := wire.OutPoint{Hash: commitHash, Index: uint32(h.OutputIndex)}
		if !h.Incoming {
			nOut++
			want[op] = fmt.Sprintf("offered HTLC #%d", h.HtlcIndex)

			continue
		}
		nIn++
		if _, ok := known[lntypes.Hash(h.RHash)]; !ok {
			continue
		}
		if height < h.RefundTimeout {
			want[op] = fmt.Sprintf("received HTLC #%d (preimage "+
				"known)", h.HtlcIndex)
		} else {
			// Already expired when the commitment confirmed: the
			// contest resolver gives up, the launched sweep may or
			// may not go through.
			may[op] = true
		}
	}
	mOut, mIn := 0, 0
	for _, h := range e.NonDust {
		if h.From == x {
			mOut++
		} else {
			mIn++
		}
	}
	if nOut != mOut || nIn != mIn {
		return fail("commitment has %d offered / %d received HTLC "+
			"outputs, the model %d / %d", nOut, nIn, mOut, mIn)
	}
	for op, name := range want {
		if _, ok := validated[op]; !ok {
			return fail("%s (%v) owned by %s was never swept by a "+
				"resolver (validated spends: %v)", name, op, side.Name,
				validated)
		}
	}
	for op, wt := range validated {
		if op.Hash != commitHash {
			continue
		}
		if _, ok := want[op]; !ok && !may[op] {
			return fail("resolver swept commitment output %v (%s) that "+
				"%s does not own", op, wt, side.Name)
		}
	}
	// Every second-level output created by a sweeper-driven first stage
	// must have been swept by a validated second stage.
	for op, parent := range secondLevelOuts {
		if _, must := want[parent]; !must {
			continue
		}
		if _, ok := validated[op]; !ok {
			return fail("second-level output %v was never swept", op)
		}
	}

	nur.mu.Lock()
	stats.nurseryIncubated += nur.incubated
	nur.mu.Unlock()
	w.mu.Lock()
	stats.nurseryConfs += nur.net.confs
	w.mu.Unlock()

	stats.closes++
	nRes := nOut
	for _, h := range c.htlcs {
		if h.Incoming && h.OutputIndex >= 0 {
			nRes++
		}
	}
	stats.htlcResolvers += nRes
	if nRes >= 2 && stats.secondLevelSweeps > 0 {
		stats.richState = true
	}
	if c.kind == c05Pending {
		stats.pendingChecked = true
	}

	return nil
}

var errC05Inconclusive = fmt.Errorf("settle deadline")

func TestVerifC05Resolvers(t *testing.T) {
	st := vstats.New("TestVerifC05Resolvers")
	defer st.Flush()
	maxSteps := vstats.EnvInt("VERIF_STEPS", 30)
	every := vstats.EnvInt("VERIF_C05_EVERY", 4)

	rapid.Check(t, func(rt *rapid.T) {
		p := chansim.DrawParams(rt, nil)
		s := chansim.New(rt, p)
		defer s.Close()

		stats := &c05Stats{byType: map[string]int{}}
		ct := p.ChanType
		stats.leaseOrTaproot = ct.IsTaproot() || ct.HasLeaseExpiration()
		phase := rapid.IntRange(0, every-1).Draw(rt, "phase")
		step, states := 0, 0
		afterCut, sawCut := false, false
		inconclusive := false

		check := func(s *chansim.Sim) error {
			states++
			if sawCut {
				afterCut = true
			}
			// Height of the confirmation: before every expiry
			// (HTLC expiries are 500..520), or inside that range.
			height := uint32(rapid.SampledFrom([]int{400, 400, 505, 512,
				530}).Draw(rt, "closeHeight"))
			for x := 0; x < 2; x++ {
				for kind := c05Own; kind <= c05Pending; kind++ {
					if kind == c05Pending && !s.Unacked(x) {
						continue
					}
					c, err := c05Prepare(s, x, kind, height)
					if err != nil {
						return fmt.Errorf("%s/%s: %v", s.Sides[x].Name,
							c05KindNames[kind], err)
					}
					if c == nil {
						continue
					}
					// Preimages the node knows: a generated
					// subset of the received HTLCs.
					known := map[lntypes.Hash]lntypes.Preimage{}
					for _, h := range c.exp.Live {
						if h.From == x {
							continue
						}
						if rapid.IntRange(0, 2).Draw(rt, "knows") > 0 {
							known[lntypes.Hash(h.Hash)] =
								lntypes.Preimage(h.Preimage)
						}
					}
					err = c05Run(t, c, height, known, stats)
					if err == errC05Inconclusive {
						inconclusive = true

						continue
					}
					if err != nil {
						return err
					}
				}
			}

			return nil
		}

		err := s.Run(rt, chansim.RunOpts{
			MinSteps: 6, MaxSteps: maxSteps, Cuts: true, CutWeight: 1,
			AfterCut: func(*chansim.Sim, *chansim.RetransmitReport) error {
				sawCut = true

				return nil
			},
			AfterStep: func(s *chansim.Sim, a string) error {
				step++
				if (step+phase)%every != 0 && a != "cut" {
					return nil
				}

				return check(s)
			},
		})
		if err != nil {
			// Keep the first message of a failure that rapid cannot
			// reproduce (it only prints the re-run then).
			fmt.Fprintf(os.Stderr, "C05R-FAILURE: %v\n", err)
			rt.Fatalf("%v\nparams: %v\ntrace:\n  %s", err, p,
				strings.Join(s.Trace, "\n  "))
		}
		if inconclusive {
			st.Count("inconclusive", 1)
		}
		st.Count("states_checked", int64(states))
		st.Count("closes_resolved", int64(stats.closes))
		st.Count("sweeper_inputs_validated", int64(stats.inputs))
		st.Count("second_level_outputs_swept", int64(stats.secondLevelSweeps))
		st.Count("published_txs_validated", int64(stats.published))
		st.Count("negative_controls", int64(stats.negControls))
		st.Count("nursery_outputs_incubated", int64(stats.nurseryIncubated))
		st.Count("nursery_confirmations_delivered", int64(stats.nurseryConfs))
		st.Count("nursery_inputs_validated", int64(stats.nurseryInputs))
		for wt, n := range stats.byType {
			if strings.HasPrefix(wt, "nursery:") {
				st.Count("nursery_input:"+wt[len("nursery:"):], int64(n))
			}
		}
		labels := []string{"type=" + p.TypeName}
		for wt := range stats.byType {
			labels = append(labels, "wt="+wt)
		}
		for l := range s.Labels {
			labels = append(labels, l)
		}
		if stats.nurseryInputs > 0 {
			labels = append(labels, "nursery_inputs_validated")
		}
		if stats.pendingChecked {
			labels = append(labels, "pending_remote_commit_checked")
		}
		if afterCut {
			labels = append(labels, "checked_after_reload")
		}
		if stats.richState {
			labels = append(labels, "two_htlc_resolvers_and_second_level")
		}
		nontrivial := stats.closes > 0 && (stats.richState ||
			stats.pendingChecked || stats.leaseOrTaproot)
		tr := s.Trace
		if len(tr) > 40 {
			tr = tr[:40]
		}
		var wts []string
		for wt, n := range stats.byType {
			wts = append(wts, fmt.Sprintf("%s=%d", wt, n))
		}
		sort.Strings(wts)
		st.Case(vstats.FP(p.String(), strings.Join(s.Trace, "|"), phase),
			nontrivial, labels, map[string]any{"params": p.String(),
				"closes": stats.closes, "inputs": wts, "trace": tr})
	})
}
