//go:build verif

package contractcourt

// C13 level B - crash enumeration of the ChannelArbitrator.
//
// A generated close scenario (C12 generator: HTLC sets, confirmed
// commitment in {ours, peer's current, peer's pending, breach, coop},
// optionally after our own chain-triggered broadcast, optionally with the
// peer claiming offered HTLCs on chain) is run once without interruption
// against the real bolt-backed log and a deterministic stub environment
// (ccWorld), recording the outcome O. Then, for every k in 1..W (W = number
// of durable writes / outward effects of the uninterrupted run) the scenario
// is re-run with the process dying right after the k-th effect, restarted on
// the same bolt file the way ChainArbitrator would (close event re-delivered
// iff the channel was not yet marked closed, otherwise IsPendingClose /
// CloseType / ClosingHeight), and run to the end; sampled pairs (k1,k2) die
// a second time. Oracle: outcome == O as sets, no contradictory upstream
// resolutions, the channel is reported resolved only when the log holds no
// unresolved contract.
//
// The arbitrator is never Start()ed: the harness goroutine plays
// channelAttendant (getStartState + progressStateMachineAfterRestart, close
// event handlers, advanceState on every resolutionSignal, launchResolvers on
// every block) so that, together with the lazily pumped world, the schedule
// is a deterministic function of the generated case.

import (
	"fmt"
	"os"
	"path/filepath"
	"sort"
	"strings"
	"testing"

	"github.com/btcsuite/btcd/chainhash/v2"
	"github.com/btcsuite/btcd/wire/v2"
	"github.com/lightningnetwork/lnd/internal/verif/vstats"
	"github.com/lightningnetwork/lnd/kvdb"
	"pgregory.net/rapid"
)

type c13Plan struct {
	conf        int
	pre         bool
	preHeight   uint32
	closeHeight uint32
	// claims: index into sc.HTLCs -> height at which the peer spends the
	// HTLC output with the preimage.
	claims  map[int]int32
	horizon int32

	// kind: channel class (c13Kind*); tap: 0 no taproot, 1 simple taproot
	// (staging scripts), 2 taproot final; blobs: the taproot resolutions
	// carry resolution blobs (aux channel).
	kind  int
	tap   int
	blobs bool

	// realNursery: pre-anchor kinds run the real UtxoNursery on a real
	// NurseryStore (else the world-level stub).
	realNursery bool

	// offline: blocks mined while the process is down. The restart after
	// the process died with k effects on record (k counted over the whole
	// run) is preceded by offline[k%len(offline)] blocks; see
	// c13MineOffline for what happens in them and for the cap.
	offline []int
}

// c13CSV is the CSV delay of every second-level / to_local output of the
// generated resolutions (ccScenario.resolutions).
const c13CSV = 4

// c13OfflineChoices: downtime lengths around the CSV maturity of an output
// whose transaction confirms right at / before the stop, and a few longer.
var c13OfflineChoices = []int{
	0, 0, 1, 2, c13CSV - 1, c13CSV, c13CSV + 1, c13CSV + 3, 2*c13CSV + 3,
}

func (p *c13Plan) offlineAt(effects int) int {
	if len(p.offline) == 0 {
		return 0
	}

	return p.offline[effects%len(p.offline)]
}

func (p *c13Plan) maxOffline() int {
	m := 0
	for _, d := range p.offline {
		if d > m {
			m = d
		}
	}

	return m
}

func (p *c13Plan) String() string {
	var cl []string
	for i, h := range p.claims {
		cl = append(cl, fmt.Sprintf("%d@%d", i, h))
	}
	sort.Strings(cl)

	return fmt.Sprintf("conf=%s pre=%v preHeight=%d closeHeight=%d "+
		"claims=%v horizon=%d kind=%s tap=%d blobs=%v realNursery=%v "+
		"offline=%v",
		ccConfNames[p.conf], p.pre, p.preHeight, p.closeHeight, cl,
		p.horizon, c13KindNames[p.kind], p.tap, p.blobs, p.realNursery,
		p.offline)
}

// c13Outcome is what an observer outside the process can see at the end.
type c13Outcome struct {
	state      ArbitratorState // persisted
	unresolved []string        // keys of contracts left in the log
	msgs       []string        // set of upstream resolutions
	finals     []string        // set of final HTLC outcomes
	reports    []string        // set of resolver reports
	sweeps     []string        // set of sweep txids
	incubated  []string        // set of outputs handed to the nursery
	preimages  []string        // beacon content
	resolved   bool            // NotifyChannelResolved seen
	closed     bool

	// bookkeeping
	effects      int
	effLog       []string
	broadcast    bool
	incarnations int
	notifyUnres  []int
	crashStates  []ArbitratorState // persisted state at each death
	crashLast    []string          // last effect before each death
	crashAt      []int             // number of effects at each death
	// offline: blocks mined before each restart; offlineCapped: downtimes
	// cut short (a contested deadline / channel not yet marked closed);
	// offlineConfirmed: published transactions that confirmed while the
	// node was down; offlineMatured: second-level outputs (of transactions
	// in the nursery's / the resolvers' hands) whose CSV delay ran out
	// while the node was down; endHeight: chain height at the end.
	offline          []int
	offlineCapped    int
	offlineConfirmed int
	offlineMatured   int
	endHeight        int32
	// cribLate: a timeout transaction the nursery published confirmed AND
	// its CSV delay ran out while the node was down, before CribToKinder
	// was recorded (candidate finding c13KeyCribLate).
	cribLate      bool
	inconclusive  string
	contradiction []uint64

	// inputs: everything handed to the sweeper, over all process lives;
	// inputErrs: violations of the input model (oracle a) and sweeps
	// that could never confirm.
	inputs    []c13InputRec
	inputErrs []string
	// nursery stub activity.
	nurseryTimeoutTx, nurseryKidSweeps, publishedConfirmed int
	nurseryConfs                                           int
	// nurseryLeft: output states the nursery store still tracks at the
	// end (real nursery; informational).
	nurseryLeft []string
}

func c13Set(in []string) []string {
	m := map[string]bool{}
	for _, s := range in {
		m[s] = true
	}
	out := make([]string, 0, len(m))
	for s := range m {
		out = append(out, s)
	}
	sort.Strings(out)

	return out
}

func c13Diff(a, b []string) (onlyA, onlyB []string) {
	ma, mb := map[string]bool{}, map[string]bool{}
	for _, s := range a {
		ma[s] = true
	}
	for _, s := range b {
		mb[s] = true
	}
	for _, s := range a {
		if !mb[s] {
			onlyA = append(onlyA, s)
		}
	}
	for _, s := range b {
		if !ma[s] {
			onlyB = append(onlyB, s)
		}
	}

	return
}

// c13Run executes the scenario. crashes[i] is the number of effects the
// i-th incarnation survives (0 = immortal).
func c13Run(t *testing.T, sc *ccScenario, plan *c13Plan,
	crashes []int) *c13Outcome {

	out := &c13Outcome{}
	dir, err := os.MkdirTemp("", "c13b")
	if err != nil {
		out.inconclusive = "tempdir: " + err.Error()
		return out
	}
	defer os.RemoveAll(dir)
	path := filepath.Join(dir, "arb.db")

	w := newCcWorld(int32(plan.preHeight))
	w.applyKnowledge(sc)
	env := newC13Env(sc, plan, w)
	w.sweepHook = env.sweepHook
	for i, h := range plan.claims {
		x := &sc.HTLCs[i]
		op := wire.OutPoint{
			Hash:  ccCommitHash(plan.conf),
			Index: uint32(x.Out[plan.conf]),
		}
		claim := ccClaim{
			height: h, pre: x.Pre, local: plan.conf == ccL,
		}
		if plan.tap > 0 {
			// The peer's witness has the taproot shape.
			env.tapClaims[op] = claim
		} else {
			w.remoteClaim[op] = claim
		}
	}

	eventDelivered := false // in this incarnation
	preDone := false

	for n := 0; n < len(crashes)+2; n++ {
		out.incarnations++
		w.mu.Lock()
		w.crashAt = 0
		if n < len(crashes) && crashes[n] > 0 {
			w.crashAt = w.nEffects + crashes[n]
		}
		closedAtStart := w.closed
		w.mu.Unlock()

		inc := w.newInc()
		w.mu.Lock()
		env.life = n + 1
		env.net.confSubs, env.nursery = nil, nil
		w.mu.Unlock()
		db, err := c13OpenDB(path)
		if err != nil {
			out.inconclusive = "open: " + err.Error()
			return out
		}
		var nursery *UtxoNursery
		if plan.realNursery {
			nursery, err = env.newNursery(inc, db)
			if err != nil {
				_ = db.Close()
				out.inconclusive = "nursery: " + err.Error()
				return out
			}
			w.mu.Lock()
			env.nursery = nursery
			w.mu.Unlock()
		}
		mkLog := func(cfg ChannelArbitratorConfig) (ArbitratorLog, error) {
			// The log hands this config to the resolvers it restores.
			env.patch(&cfg, inc)

			return newBoltArbitratorLog(
				db, cfg, chainhash.Hash(testChainHash), ccChanPoint,
			)
		}
		// A channel that is marked closed is loaded without its
		// HTLC sets (loadPendingCloseChannels); an open one with the
		// sets from the channel state.
		sets := sc.htlcSets()
		if closedAtStart {
			sets = nil
		}
		arb, _, err := ccBuildArb(t, sc, inc, sets, mkLog)
		if err != nil {
			_ = db.Close()
			out.inconclusive = "build: " + err.Error()
			return out
		}
		env.patch(&arb.cfg, inc)

		finish := func() {
			ccStop(arb)
			if nursery != nil {
				_ = nursery.Stop()
			}
			_ = db.Close()
		}

		// The server starts the nursery before the chain arbitrator.
		if nursery != nil {
			if err := nursery.Start(); err != nil && !inc.isDead() {
				finish()
				out.inconclusive = "nursery start: " + err.Error()
				return out
			}
		}

		// Start(): read the state, then let the attendant progress
		// the state machine.
		startState, err := arb.getStartState(nil)
		if err != nil {
			finish()
			out.inconclusive = "getStartState: " + err.Error()
			return out
		}
		arb.state = startState.currentState
		w.mu.Lock()
		height := w.height
		w.mu.Unlock()
		eventDelivered = false
		_ = arb.progressStateMachineAfterRestart(
			height, startState.commitSet,
		)

		done := false
		stuck := false
		for iter := 0; iter < 4000 && !done && !stuck; iter++ {
			if !ccSettle() {
				finish()
				out.inconclusive = "settle deadline"
				return out
			}
			if inc.isDead() {
				break
			}
			w.mu.Lock()
			resolved := w.fullyResolved > 0
			closed := w.closed
			height = w.height
			w.mu.Unlock()
			if resolved {
				done = true
				break
			}

			// The attendant's select loop.
			select {
			case <-arb.resolutionSignal:
				_, _, _ = arb.advanceState(
					uint32(height), chainTrigger, nil,
				)

				continue
			default:
			}

			// Our own broadcast on a block, before the close is
			// seen (first life only: afterwards the restart
			// logic itself re-evaluates the chain trigger).
			if plan.pre && !preDone && !closed {
				preDone = true
				_, _, _ = arb.advanceState(
					plan.preHeight, chainTrigger, nil,
				)

				continue
			}
			preDone = true

			// The chain watcher (re)delivers the close event of
			// a channel that is not yet marked closed.
			if !closed && !eventDelivered {
				eventDelivered = true
				w.mu.Lock()
				if w.height < int32(plan.closeHeight) {
					w.height = int32(plan.closeHeight)
				}
				w.applyClaimsLocked()
				env.applyClaimsLocked()
				w.mu.Unlock()
				_ = c13DeliverClose(arb, sc, plan, plan.closeHeight)

				continue
			}

			if key := w.pumpOne(inc); key != "" {
				continue
			}
			// Nothing else is pending: the nursery / the mempool
			// move (that takes a block in reality).
			if key := env.pumpNursery(inc); key != "" {
				continue
			}
			if height < plan.horizon {
				w.mine()
				env.applyClaims()
				// handleBlockbeat in a closed state.
				arb.launchResolvers()

				continue
			}
			stuck = true
		}
		finish()
		if done || stuck {
			break
		}
		if !inc.isDead() {
			out.inconclusive = "iteration bound"
			return out
		}
		w.mu.Lock()
		out.crashStates = append(out.crashStates,
			c13PersistedState(w.effLog))
		if len(w.effLog) > 0 {
			out.crashLast = append(out.crashLast,
				w.effLog[len(w.effLog)-1])
		}
		out.crashAt = append(out.crashAt, len(w.effLog))
		want := plan.offlineAt(len(w.effLog))
		w.mu.Unlock()

		// The chain moves on while the node is down.
		d, conf, mat := env.mineOffline(want)
		out.offline = append(out.offline, d)
		if d < want {
			out.offlineCapped++
		}
		out.offlineConfirmed += conf
		out.offlineMatured += mat
		if d > 0 && env.cribLate() {
			out.cribLate = true
		}
	}

	// Read the durable end state from the file.
	db, err := c13OpenDB(path)
	if err != nil {
		out.inconclusive = "final open: " + err.Error()
		return out
	}
	defer db.Close()
	flog, err := newBoltArbitratorLog(
		db, ChannelArbitratorConfig{ChanPoint: ccChanPoint},
		chainhash.Hash(testChainHash), ccChanPoint,
	)
	if err != nil {
		out.inconclusive = "final log: " + err.Error()
		return out
	}
	out.state, _ = flog.CurrentState(nil)
	cs, err := flog.FetchUnresolvedContracts()
	if err != nil {
		out.inconclusive = "final fetch: " + err.Error()
		return out
	}
	for _, c := range cs {
		out.unresolved = append(out.unresolved,
			fmt.Sprintf("%x:%s", c.ResolverKey(), c12ResolverKind(c)))
	}
	sort.Strings(out.unresolved)

	w.mu.Lock()
	defer w.mu.Unlock()
	settle, failed := map[uint64]bool{}, map[uint64]bool{}
	for _, m := range w.msgs {
		out.msgs = append(out.msgs, fmt.Sprintf("%d:%v", m.Idx, m.Settle))
		if m.Settle {
			settle[m.Idx] = true
		} else {
			failed[m.Idx] = true
		}
	}
	for i := range settle {
		if failed[i] {
			out.contradiction = append(out.contradiction, i)
		}
	}
	for _, f := range w.finals {
		out.finals = append(out.finals,
			fmt.Sprintf("%d:%v", f.Idx, f.Settled))
	}
	for h := range w.beacon {
		out.preimages = append(out.preimages, h.String())
	}
	out.msgs = c13Set(out.msgs)
	out.finals = c13Set(out.finals)
	out.reports = c13Set(w.reports)
	out.sweeps = c13Set(w.published)
	out.incubated = c13Set(w.incubated)
	out.preimages = c13Set(out.preimages)
	out.resolved = w.fullyResolved > 0
	out.closed = w.closed
	out.endHeight = w.height
	out.effects = w.nEffects
	out.effLog = append([]string(nil), w.effLog...)
	out.broadcast = w.forceClose > 0
	out.notifyUnres = append([]int(nil), w.unresolvedAtNotify...)
	out.inputs = env.inputs
	out.inputErrs = env.checkInputs()
	for _, e := range w.hookErrs {
		out.inputErrs = append(out.inputErrs, e.Error())
	}
	if plan.realNursery {
		out.nurseryLeft, _ = c13NurseryLeft(db)
	}
	out.nurseryConfs = env.net.confs
	out.nurseryTimeoutTx = env.nurseryTimeoutTx
	out.nurseryKidSweeps = env.nurseryKidSweeps
	out.publishedConfirmed = env.publishedConfirmed

	return out
}

// mineOffline lets the chain advance by up to want blocks while no process
// life exists (called between the death of one life and the start of the
// next). It follows the timing model of the live loop, in which everything
// the node has published confirms before the next block is mined:
//
//   - the second-level transactions the node (a resolver or the nursery)
//     published and that still sit in the world's mempool confirm at the
//     current height, while the HTLC outpoint is unspent;
//   - then the blocks are mined; the peer's planned on-chain claims happen at
//     their heights; CSV delays run out.
//
// Nothing is delivered to anybody: the subscriptions died with the process.
// The next life finds the result the way lnd's notifier presents it: the tip
// from ChainIO.GetBestBlock / as the first block epoch of a subscriber that
// names no best block, historical confirmations and spends when it registers
// again (pumped lazily, before the next block), epochs after that only for
// new blocks. Requests the dead life had pending with the (non-persistent)
// sweeper are gone, as at every restart.
//
// Restrictions (the downtime is cut short, counted as offline_capped):
//   - no block is mined before the channel is marked closed: until then the
//     restarted arbitrator evaluates its chain trigger at the restart height,
//     and whether it broadcasts depends on that height by design (C12);
//   - no planned claim of the peer on a still unspent HTLC output falls into
//     the downtime: whether the peer or our timeout path wins that output
//     depends on who is first (lnd starts the timeout path at expiry-1 from
//     a contest resolver and at once from a timeout resolver, and the stub
//     sweeper confirms a request when pumped), and an absent node is never
//     first - a legitimate difference, not a restart defect;
//   - if the peer has claimed an offered HTLC before that HTLC's expiry, the
//     downtime ends before expiry-1: an outgoing contest resolver restored at
//     or after expiry-1 starts its timeout path (swap, nursery hand-off)
//     before it looks at the spend - same end, different hand-offs;
//   - while the contest of an incoming HTLC is undecided (its contest
//     resolver neither swapped for a success resolver nor given up), the
//     downtime does not reach the earliest expiry of an incoming HTLC: a node
//     that is down at the expiry can no longer claim with a preimage it knows
//     or would have learnt in time (lnd gives the HTLC up at its expiry);
//   - the chain does not grow beyond the common last height of the scenario.
//
// Every other height the downtime crosses (CSV maturities, confirmation
// depths, expiries of uncontested HTLCs) must not change the outcome.
func (e *c13Env) mineOffline(want int) (d, confirmed, matured int) {
	w := e.w
	w.mu.Lock()
	defer w.mu.Unlock()
	if want <= 0 || !w.closed {
		return 0, 0, 0
	}
	h0 := w.height
	d = want
	if room := int(e.plan.horizon - h0); room < d {
		d = room
	}
	for i, h := range e.plan.claims {
		x := &e.sc.HTLCs[i]
		op := wire.OutPoint{
			Hash:  ccCommitHash(e.plan.conf),
			Index: uint32(x.Out[e.plan.conf]),
		}
		if _, ok := w.spent[op]; ok || h <= h0 {
			// Claimed already. A contest resolver that is restored
			// at or after expiry-1 goes for the timeout path first
			// (SwapContract, IncubateOutputs) and only then sees
			// the claim; one that saw the claim earlier does not.
			if room := int(int32(x.Expiry) - 1 - h0 - 1); h <= h0 &&
				int32(x.Expiry)-1 > h0 && room < d {

				d = room
			}

			continue
		}
		if room := int(h - h0 - 1); room < d {
			d = room
		}
	}
	// Incoming HTLCs whose contest is not decided yet (neither swapped for
	// a success resolver nor given up).
	undecided := 0
	var minExp int32
	if e.plan.conf <= ccP {
		for i := range e.sc.HTLCs {
			x := &e.sc.HTLCs[i]
			if !x.Incoming || !x.hasOutput(e.plan.conf) {
				continue
			}
			undecided++
			if E := int32(x.Expiry); E > h0 && (minExp == 0 || E < minExp) {
				minExp = E
			}
		}
		for _, eff := range w.effLog {
			if (strings.HasPrefix(eff, "SwapContract(*contractcourt."+
				"htlcIncomingContestResolver->") &&
				strings.HasSuffix(eff, "htlcSuccessResolver)")) ||
				eff == "ResolveContract(*contractcourt."+
					"htlcIncomingContestResolver)" {

				undecided--
			}
		}
	}
	if undecided > 0 && minExp > 0 {
		if room := int(minExp - h0 - 1); room < d {
			d = room
		}
	}
	if d <= 0 {
		return 0, 0, 0
	}

	var ops []wire.OutPoint
	for op := range e.mempool {
		if _, ok := w.spent[op]; !ok {
			ops = append(ops, op)
		}
	}
	sort.Slice(ops, func(i, j int) bool {
		return ops[i].String() < ops[j].String()
	})
	for _, op := range ops {
		w.spendLocked(op, e.mempool[op])
		e.publishedConfirmed++
		if e.nurseryPublished[op] {
			e.nurseryTimeoutTx++
		}
		confirmed++
	}
	for i := 0; i < d; i++ {
		w.height++
		w.applyClaimsLocked()
		e.applyClaimsLocked()
	}

	// Second-level outputs of our own transactions whose CSV delay ran out
	// in those blocks.
	own := map[wire.OutPoint]*wire.MsgTx{}
	for op, tx := range e.mempool {
		own[op] = tx
	}
	for op, k := range e.kids {
		own[op] = k.tx
	}
	for op, tx := range own {
		det, ok := w.spent[op]
		if !ok || *det.SpenderTxHash != tx.TxHash() {
			continue
		}
		m := det.SpendingHeight + c13CSV
		if m > h0 && m <= w.height {
			matured++
		}
	}

	return d, confirmed, matured
}

// cribLate reports whether, at the current (restart) tip, the second-level
// output of a timeout transaction published by the real nursery is already
// mature while the nursery store has not yet moved it from crib to
// kindergarten.
func (e *c13Env) cribLate() bool {
	w := e.w
	w.mu.Lock()
	defer w.mu.Unlock()
	for op := range e.nurseryPublished {
		tx, det := e.mempool[op], w.spent[op]
		if tx == nil || det == nil || *det.SpenderTxHash != tx.TxHash() {
			continue
		}
		if det.SpendingHeight+c13CSV <= w.height && !e.cribMoved[op] {
			return true
		}
	}

	return false
}

// c13CribStore notes which crib outputs (by HTLC outpoint) the nursery store
// has durably moved to the kindergarten.
type c13CribStore struct {
	NurseryStorer
	env *c13Env
}

func (s *c13CribStore) CribToKinder(b *babyOutput) error {
	err := s.NurseryStorer.CribToKinder(b)
	if err == nil && b.timeoutTx != nil && len(b.timeoutTx.TxIn) > 0 {
		s.env.w.mu.Lock()
		s.env.cribMoved[b.timeoutTx.TxIn[0].PreviousOutPoint] = true
		s.env.w.mu.Unlock()
	}

	return err
}

// c13K1Class reports whether an upstream resolution string "idx:false" is a
// fail-back of the class of the known finding (offered HTLC without output
// on the confirmed commitment that is dust where it lives).
func c13K1Class(sc *ccScenario, plan *c13Plan, msg string) bool {
	var idx uint64
	var settle bool
	if _, err := fmt.Sscanf(msg, "%d:%t", &idx, &settle); err != nil ||
		settle {

		return false
	}
	if plan.conf > ccP {
		return false
	}
	for i := range sc.HTLCs {
		x := &sc.HTLCs[i]
		if x.Incoming || x.Idx != idx || x.hasOutput(plan.conf) {
			continue
		}
		for s := 0; s < 3; s++ {
			if x.On[s] && x.Dust[s] {
				return true
			}
		}
	}

	return false
}

const (
	c13KeyContractClosedRestart = "C13:restart-in-contract-closed-uses-chain-trigger"
	c13KeyResolvedNotDeleted    = "C13:resolved-checkpoint-never-deleted-after-restart"
	c13KeyTaprootPreimageLost   = "C13:taproot-restart-drops-success-preimage"
	c13KeyCribLate              = "C13:nursery-crib-matured-while-down-not-swept"
)

// c13PersistedState derives the arbitrator state on disk from the effect
// log (the last committed state).
func c13PersistedState(effLog []string) ArbitratorState {
	s := StateDefault
	for _, e := range effLog {
		if !strings.HasPrefix(e, "CommitState(") {
			continue
		}
		name := strings.TrimSuffix(strings.TrimPrefix(e, "CommitState("), ")")
		for _, c := range []ArbitratorState{StateDefault,
			StateBroadcastCommit, StateCommitmentBroadcasted,
			StateContractClosed, StateWaitingFullResolution,
			StateFullyResolved, StateError} {

			if c.String() == name {
				s = c
			}
		}
	}

	return s
}

// c13NothingUrgent reports whether the confirmed commitment holds HTLCs but
// none of them is inside its broadcast window at the closing height (then
// checkCommitChainActions returns an empty action map for a chain trigger).
func c13NothingUrgent(sc *ccScenario, plan *c13Plan) bool {
	if plan.conf > ccP {
		return false
	}
	any := false
	for i := range sc.HTLCs {
		x := &sc.HTLCs[i]
		if !x.On[plan.conf] {
			continue
		}
		any = true
		if !x.Incoming && plan.closeHeight+sc.DeltaOut >= x.Expiry &&
			(x.Fwd || sc.graceOver()) {

			return false
		}
		if x.Incoming && x.known() &&
			plan.closeHeight+sc.DeltaIn >= x.Expiry {

			return false
		}
	}

	return any
}

// c13LocalDustFail reports whether msg ("idx:false") is the fail-back of an
// offered HTLC that is dust on our own commitment.
func c13LocalDustFail(sc *ccScenario, msg string) bool {
	var idx uint64
	var settle bool
	if _, err := fmt.Sscanf(msg, "%d:%t", &idx, &settle); err != nil ||
		settle {

		return false
	}
	for i := range sc.HTLCs {
		x := &sc.HTLCs[i]
		if !x.Incoming && x.Idx == idx && x.On[ccL] && x.Dust[ccL] {
			return true
		}
	}

	return false
}

// c13SuccessResolverLive reports whether the run died at a moment at which a
// success resolver (swapped in for an incoming contest resolver, i.e. with
// its preimage applied) was in the log.
func c13SuccessResolverLive(run *c13Outcome) bool {
	for _, at := range run.crashAt {
		live := 0
		for i := 0; i < at && i < len(run.effLog); i++ {
			e := run.effLog[i]
			switch {
			case strings.HasPrefix(e, "SwapContract(") &&
				strings.HasSuffix(e, "htlcSuccessResolver)"):

				live++

			case e == "ResolveContract(*contractcourt."+
				"htlcSuccessResolver)":

				live--
			}
		}
		if live > 0 {
			return true
		}
	}

	return false
}

func c13GenPlan(rt *rapid.T, sc *ccScenario) *c13Plan {
	p := &c13Plan{claims: map[int]int32{}}

	// An HTLC that has an output is worth at least one satoshi (the
	// nursery ignores zero-value outputs).
	for i := range sc.HTLCs {
		if sc.HTLCs[i].Amt < 1000 {
			sc.HTLCs[i].Amt += 1000
		}
	}

	// Channel class. The scenario generator only knows the first three;
	// a taproot channel is generated as an anchors / zero-fee-HTLC
	// channel whose resolutions are re-dressed (c13Resolutions).
	p.kind = rapid.SampledFrom([]int{
		c13KindLegacy, c13KindLegacy, c13KindTweakless, c13KindTweakless,
		c13KindAnchors, c13KindAnchors,
		c13KindTaproot, c13KindTaproot, c13KindTaproot,
		c13KindTaprootFinal, c13KindTaprootFinal, c13KindTaprootFinal,
	}).Draw(rt, "c13Kind")
	sc.ChanKind = p.kind
	if p.kind >= c13KindTaproot {
		sc.ChanKind = 2
		p.tap = p.kind - c13KindTaproot + 1
		p.blobs = rapid.IntRange(0, 2).Draw(rt, "blobs") == 0
	}

	if p.kind <= c13KindTweakless {
		p.realNursery = rapid.IntRange(0, 3).Draw(rt, "nursery") != 0
	}

	confs := []int{ccR, ccR, ccL, ccL, ccBreach, ccCoop}
	if p.kind <= c13KindTweakless {
		// Only our own commitment takes a pre-anchor channel through
		// the nursery.
		confs = append(confs, ccL, ccL)
	}
	if sc.HasPending {
		confs = append(confs, ccP, ccP)
	}
	p.conf = rapid.SampledFrom(confs).Draw(rt, "conf")
	if p.conf == ccCoop {
		// A cooperative close is only negotiated once no HTLC is left.
		sc.HTLCs = nil
	}
	p.pre = rapid.IntRange(0, 3).Draw(rt, "pre") == 0
	p.closeHeight = uint32(int(sc.Base) +
		rapid.IntRange(-14, 12).Draw(rt, "closeOff"))
	p.preHeight = p.closeHeight -
		uint32(rapid.IntRange(0, 2).Draw(rt, "preGap"))
	maxExp := p.closeHeight
	for i := range sc.HTLCs {
		x := &sc.HTLCs[i]
		if x.Expiry > maxExp {
			maxExp = x.Expiry
		}
		if p.conf <= ccP && !x.Incoming && x.hasOutput(p.conf) &&
			rapid.IntRange(0, 3).Draw(rt, "claim") == 0 {

			p.claims[i] = int32(p.closeHeight) +
				int32(rapid.IntRange(0, 6).Draw(rt, "claimGap"))
		}
	}
	// Room for the second stage of the last HTLC: second-level transaction
	// at the expiry, CSV (4) on top of it.
	p.horizon = int32(maxExp) + 12

	// Blocks mined while the node is down: three downtime lengths, picked
	// by the number of effects on record at the stop, so that one scenario
	// has restarts without and with downtime. Every run of the scenario
	// (the uninterrupted one too) is driven to the same last height:
	// horizon + the longest total downtime of a double crash.
	// (Drawn last: all other draws of the scenario / plan keep their place.)
	p.offline = rapid.SliceOfN(
		rapid.SampledFrom(c13OfflineChoices), 3, 3,
	).Draw(rt, "offlineBlocks")
	p.horizon += int32(2 * p.maxOffline())

	return p
}

func c13Compare(base, run *c13Outcome, sc *ccScenario, plan *c13Plan,
	st *vstats.Collector) error {

	// Known finding: a stop between the final (resolved) checkpoint of a
	// resolver and ResolveContract leaves the contract in the log for
	// ever; the channel never becomes fully resolved.
	// Only the terminal state / resolved notification / left-over
	// contract are excused; everything else is still compared.
	relaxTerminal := false
	for _, last := range run.crashLast {
		if strings.HasPrefix(last, "Checkpoint(") &&
			strings.HasSuffix(last, ",resolved)") &&
			ccKnown(c13KeyResolvedNotDeleted) {

			st.Known(c13KeyResolvedNotDeleted)
			st.Count("excluded_known", 1)
			relaxTerminal = true
		}
	}

	// Known finding: a restart while the persisted state is
	// StateContractClosed re-executes the stage with a chain trigger and
	// creates no HTLC resolvers unless some HTLC is urgent.
	for _, cs := range run.crashStates {
		if cs == StateContractClosed && c13NothingUrgent(sc, plan) &&
			ccKnown(c13KeyContractClosedRestart) {

			st.Known(c13KeyContractClosedRestart)
			st.Count("excluded_known", 1)

			return nil
		}
	}

	// Candidate finding: NurseryStore.CribToKinder files the second-level
	// output of a timeout transaction under confHeight+CSV without the
	// late-registration bump PreschoolToKinder has; if that height is
	// already at or below the tip when the (historical) confirmation is
	// processed after a restart, the class is never graduated in that
	// process life (the incubator graduates only the height of each new
	// block; only the next restart's reloadClasses finds it). The whole
	// run is skipped, only if the key is listed.
	if run.cribLate && ccKnown(c13KeyCribLate) {
		st.Known(c13KeyCribLate)
		st.Count("excluded_known", 1)

		return nil
	}

	// Candidate finding: on a taproot channel a restart replaces the
	// resolution of a restored success resolver with the one logged at
	// close time (maybeAugmentTaprootResolvers), which has no preimage.
	// Runs that die while a swapped-in success resolver is in the log are
	// skipped only if the key is listed.
	// Excused (only if the key is listed): the preimage of the inputs, the
	// sweeps that can never confirm for want of it, and with them the
	// outcome of the run. Witness types, sign descriptors, control blocks,
	// blobs of everything handed to the sweeper are still compared.
	if plan.tap > 0 && c13SuccessResolverLive(run) &&
		ccKnown(c13KeyTaprootPreimageLost) {

		st.Known(c13KeyTaprootPreimageLost)
		st.Count("excluded_known", 1)
		for _, e := range run.inputErrs {
			if !strings.Contains(e, c13WrongPreimage) {
				return fmt.Errorf("sweeper input: %s", e)
			}
		}
		_, _, err := c13CompareInputs(base, run, false)

		return err
	}

	// Inputs handed to the sweeper: model (a) and equality with the
	// uninterrupted run (b).
	if len(run.inputErrs) > 0 {
		return fmt.Errorf("sweeper input: %s", run.inputErrs[0])
	}
	onlyRun, hintDiff, err := c13CompareInputs(base, run, true)
	if err != nil {
		return err
	}
	st.Count("sweeper_inputs_compared", int64(len(run.inputs)))
	st.Count("sweeper_inputs_only_after_restart", int64(onlyRun))
	st.Count("sweeper_input_height_hint_differs", int64(hintDiff))

	if run.state != base.state && !relaxTerminal {
		return fmt.Errorf("terminal state %v, uninterrupted %v",
			run.state, base.state)
	}
	if run.resolved != base.resolved && !relaxTerminal {
		return fmt.Errorf("resolved notification %v, uninterrupted %v",
			run.resolved, base.resolved)
	}
	if run.closed != base.closed {
		return fmt.Errorf("closed %v, uninterrupted %v", run.closed,
			base.closed)
	}
	type pair struct {
		name string
		a, b []string
	}
	for _, p := range []pair{
		{"unresolved contracts", base.unresolved, run.unresolved},
		{"final htlc outcomes", base.finals, run.finals},
		{"resolver reports", base.reports, run.reports},
		{"incubated outputs", base.incubated, run.incubated},
		{"known preimages", base.preimages, run.preimages},
	} {
		if relaxTerminal && p.name == "unresolved contracts" {
			continue
		}
		oa, ob := c13Diff(p.a, p.b)
		if len(oa)+len(ob) != 0 {
			return fmt.Errorf("%s differ: only uninterrupted %v, only "+
				"restarted %v", p.name, oa, ob)
		}
	}
	// A restarted arbitrator evaluates the chain trigger at the current
	// height before it can see the close event, so one run may broadcast
	// our commitment where the other does not. lnd fails HTLCs that are
	// dust on OUR commitment at that moment (documented trade-off, C12
	// label prefail_then_output); such fail-backs are not held against
	// the restart.
	tradeoff := base.broadcast != run.broadcast
	oa, ob := c13Diff(base.msgs, run.msgs)
	if len(oa)+len(ob) != 0 {
		k1 := (base.broadcast || run.broadcast) &&
			ccKnown(c12KeyDustAfterBroadcast)
		usedK1 := false
		for _, m := range append(append([]string(nil), oa...), ob...) {
			switch {
			case tradeoff && c13LocalDustFail(sc, m):
				st.Count("tolerated_broadcast_dust_tradeoff", 1)
			case k1 && c13K1Class(sc, plan, m):
				usedK1 = true
			default:
				return fmt.Errorf("upstream resolutions differ: only "+
					"uninterrupted %v, only restarted %v", oa, ob)
			}
		}
		if usedK1 {
			st.Known(c12KeyDustAfterBroadcast)
			st.Count("excluded_known", 1)
		}
	}
	baseContra := map[uint64]bool{}
	for _, i := range base.contradiction {
		baseContra[i] = true
	}
	for _, i := range run.contradiction {
		if baseContra[i] {
			continue
		}
		if tradeoff && c13LocalDustFail(sc, fmt.Sprintf("%d:false", i)) {
			continue
		}

		return fmt.Errorf("HTLC #%d both settled and failed upstream "+
			"(not so in the uninterrupted run)", i)
	}
	for _, n := range run.notifyUnres {
		if n != 0 {
			return fmt.Errorf("channel reported resolved while %d "+
				"contracts were unresolved", n)
		}
	}

	return nil
}

func TestVerifC13Crash(t *testing.T) {
	st := vstats.New("TestVerifC13Crash")
	defer st.Flush()
	maxPairs := vstats.EnvInt("VERIF_C13_PAIRS", 6)

	rapid.Check(t, func(rt *rapid.T) {
		sc := ccGenScenario(rt, ccGenOpts{
			maxHTLCs: 4, noInvoice: true,
			sameRemoteDust: ccKnown(c12KeyDustBitMapOrder),
		})
		plan := c13GenPlan(rt, sc)

		base := c13Run(t, sc, plan, nil)
		if base.inconclusive != "" {
			st.Count("inconclusive", 1)
			rt.Skipf("uninterrupted run inconclusive: %s",
				base.inconclusive)
		}
		for _, n := range base.notifyUnres {
			if n != 0 {
				rt.Fatalf("uninterrupted run: resolved with %d "+
					"unresolved contracts\n%v %v", n, sc.sample(),
					plan)
			}
		}
		if len(base.inputErrs) > 0 {
			rt.Fatalf("uninterrupted run: sweeper input: %s\n%v %v",
				base.inputErrs[0], sc.sample(), plan)
		}
		if os.Getenv("VERIF_C13_DEBUG_STUCK") != "" && len(base.incubated) > 0 &&
			base.state != StateFullyResolved {

			rt.Fatalf("DEBUG stuck: %v\n%v\neffects=%v\nunresolved=%v left=%v",
				sc.sample(), plan, base.effLog, base.unresolved,
				base.nurseryLeft)
		}
		W := base.effects
		labels := []string{"conf=" + ccConfNames[plan.conf],
			"terminal=" + base.state.String(),
			"chan=" + c13KindNames[plan.kind]}
		if plan.blobs {
			labels = append(labels, "taproot_resolution_blobs")
		}
		if plan.tap > 0 && plan.conf <= ccP {
			nRes := 0
			for i := range sc.HTLCs {
				if sc.HTLCs[i].hasOutput(plan.conf) {
					nRes++
				}
			}
			if nRes > 0 {
				labels = append(labels, "taproot_htlc_resolvers")
			}
		}
		if plan.kind <= c13KindTweakless && plan.conf == ccL {
			if plan.realNursery {
				labels = append(labels, "nursery=real")
			} else {
				labels = append(labels, "nursery=stub")
			}
		}
		if base.nurseryConfs > 0 {
			labels = append(labels, "nursery_got_confirmation")
		}
		if len(base.nurseryLeft) > 0 {
			labels = append(labels, "nursery_store_not_emptied")
		}
		if len(base.incubated) > 0 {
			labels = append(labels, "nursery_handoff")
			if base.state == StateFullyResolved {
				labels = append(labels, "nursery_completed")
			}
		}
		if base.nurseryTimeoutTx > 0 {
			labels = append(labels, "nursery_published_timeout_tx")
		}
		if base.nurseryKidSweeps > 0 {
			labels = append(labels, "nursery_swept_second_level_output")
		}
		wts := map[string]bool{}
		for _, r := range base.inputs {
			wts[r.wt] = true
		}
		for wt := range wts {
			labels = append(labels, "wt="+wt)
		}
		if base.broadcast {
			labels = append(labels, "own_broadcast")
		}
		if len(plan.claims) > 0 {
			labels = append(labels, "peer_claims")
		}
		kinds := map[string]bool{}
		for _, e := range base.effLog {
			if i := strings.IndexByte(e, '('); i > 0 {
				e = e[:i] + e[i:]
			}
			kinds[e] = true
		}
		for k := range kinds {
			labels = append(labels, "eff="+k)
		}
		if len(base.contradiction) > 0 {
			labels = append(labels, "baseline_contradiction")
		}

		report := func(what string, crashes []int, run *c13Outcome,
			err error) {

			rt.Fatalf("%s crashes=%v: %v\nscenario=%v\nplan=%v\n"+
				"uninterrupted effects=%v\nrestarted   effects=%v\n"+
				"uninterrupted msgs=%v finals=%v state=%v end=%d\n"+
				"restarted     msgs=%v finals=%v state=%v end=%d "+
				"died_at=%v offline_blocks=%v", what,
				crashes, err, sc.sample(), plan, base.effLog,
				run.effLog, base.msgs, base.finals, base.state,
				base.endHeight, run.msgs, run.finals, run.state,
				run.endHeight, run.crashAt, run.offline)
		}

		for k := 1; k <= W; k++ {
			run := c13Run(t, sc, plan, []int{k})
			// Is the crash point inside a transition (between two
			// writes of the same state step)?
			mid := k < W && !strings.HasPrefix(base.effLog[k-1],
				"CommitState") && !strings.HasPrefix(
				base.effLog[k-1], "ResolveContract")
			cl := []string{"crash_after=" + c13EffKind(base.effLog[k-1])}
			cl = append(cl, c13OfflineLabels(run, plan)...)
			if run.inconclusive != "" {
				st.Count("inconclusive", 1)
				st.Case(vstats.FP(sc.fp(), plan.String(), k), false,
					append(cl, "inconclusive"), nil)

				continue
			}
			if !c13SameEnd(base, run, plan) {
				// Cannot happen by construction (every run that
				// is not fully resolved is driven to the common
				// last height); never held against lnd.
				st.Count("inconclusive", 1)
				st.Count("end_height_differs", 1)

				continue
			}
			if err := c13Compare(base, run, sc, plan, st); err != nil {
				report("single crash", []int{k}, run, err)
			}
			var smp any
			if st.WantSample() {
				smp = map[string]any{"scenario": sc.sample(),
					"plan": plan.String(), "crash_after": k,
					"effects": base.effLog}
			}
			st.Case(vstats.FP(sc.fp(), plan.String(), k), mid,
				append(cl, labels...), smp)
		}

		// Repeated stops.
		if W >= 2 {
			nPairs := rapid.IntRange(0, maxPairs).Draw(rt, "nPairs")
			for i := 0; i < nPairs; i++ {
				k1 := rapid.IntRange(1, W).Draw(rt, "k1")
				k2 := rapid.IntRange(1, W).Draw(rt, "k2")
				run := c13Run(t, sc, plan, []int{k1, k2})
				if run.inconclusive != "" {
					st.Count("inconclusive", 1)

					continue
				}
				if !c13SameEnd(base, run, plan) {
					st.Count("inconclusive", 1)
					st.Count("end_height_differs", 1)

					continue
				}
				err := c13Compare(base, run, sc, plan, st)
				if err != nil {
					report("double crash", []int{k1, k2}, run, err)
				}
				st.Case(vstats.FP(sc.fp(), plan.String(), k1, k2, "d"),
					true, append([]string{"double_crash"},
						c13OfflineLabels(run, plan)...), nil)
			}
		}
		st.Count("scenarios", 1)
		if W == 0 {
			st.Count("scenarios_without_effects", 1)
		}
	})
}

// c13SameEnd: both runs were driven over the same chain: a run that did not
// become fully resolved ended at the scenario's common last height.
func c13SameEnd(base, run *c13Outcome, plan *c13Plan) bool {
	for _, o := range []*c13Outcome{base, run} {
		if !o.resolved && o.endHeight != plan.horizon {
			return false
		}
	}

	return true
}

// c13OfflineLabels classifies the downtime(s) of a crashed run.
func c13OfflineLabels(run *c13Outcome, plan *c13Plan) []string {
	total := 0
	for _, d := range run.offline {
		total += d
	}
	var l []string
	switch {
	case total == 0:
		l = append(l, "offline=0")
	case total < c13CSV:
		l = append(l, "offline=1.."+fmt.Sprint(c13CSV-1))
	default:
		l = append(l, "offline>=csv")
	}
	if run.offlineCapped > 0 {
		l = append(l, "offline_capped")
	}
	if run.offlineConfirmed > 0 {
		l = append(l, "offline_tx_confirmed")
	}
	if run.offlineMatured > 0 {
		l = append(l, "offline_csv_matured")
		if plan.realNursery {
			l = append(l, "offline_csv_matured_real_nursery")
		}
	}

	return l
}

func c13EffKind(e string) string {
	if i := strings.IndexByte(e, '('); i > 0 {
		if strings.HasPrefix(e, "CommitState") {
			return e
		}

		return e[:i]
	}

	return e
}

var _ = kvdb.DefaultDBTimeout
