//go:build verif

package contractcourt

// Deterministic reproductions of the C13 findings on the real bolt-backed
// log: a hand-written close scenario is run uninterrupted and once with a
// stop after a chosen durable write, then compared like the generated cases.

import (
	"fmt"
	"strings"
	"testing"

	"github.com/btcsuite/btcd/wire/v2"
	"github.com/lightningnetwork/lnd/channeldb"
	"github.com/lightningnetwork/lnd/internal/verif/vstats"
	"github.com/lightningnetwork/lnd/lnwallet"
)

func c13ReproScenario() (*ccScenario, *c13Plan) {
	// The peer's commitment confirms at height 700. It carries one HTLC
	// we offered (expiry 730) and one we received (expiry 720, preimage
	// unknown); neither is inside its broadcast window (delta 10).
	out := c12ReproHTLC(1, false, 730)
	out.On[ccL], out.On[ccR] = true, true
	out.Out[ccL], out.Out[ccR] = 0, 0
	in := c12ReproHTLC(4, true, 720)
	in.On[ccL], in.On[ccR] = true, true
	in.Out[ccL], in.Out[ccR] = 1, 1
	sc := &ccScenario{HTLCs: []ccHTLC{out, in}, Base: 700, DeltaOut: 10,
		DeltaIn: 10, CommitOut: true, ChanKind: 1}
	plan := &c13Plan{conf: ccR, closeHeight: 700, preHeight: 700,
		claims: map[int]int32{}, horizon: 735}

	return sc, plan
}

func c13ReproRun(t *testing.T, key, after string, nth int) {
	sc, plan := c13ReproScenario()
	c13ReproRunPlan(t, sc, plan, key, after, nth)
}

func c13ReproRunPlan(t *testing.T, sc *ccScenario, plan *c13Plan, key,
	after string, nth int) {

	st := vstats.New("repro")

	base := c13Run(t, sc, plan, nil)
	if base.inconclusive != "" {
		t.Skipf("inconclusive: %s", base.inconclusive)
	}
	t.Logf("uninterrupted: state=%v msgs=%v finals=%v effects=%v",
		base.state, base.msgs, base.finals, base.effLog)
	if base.state != StateFullyResolved || len(base.msgs) != 1 ||
		len(base.finals) != 1 || len(base.inputErrs) != 0 {

		t.Fatalf("unexpected uninterrupted outcome %v", base.inputErrs)
	}

	k := 0
	for i, e := range base.effLog {
		if strings.HasPrefix(e, after) {
			nth--
			if nth == 0 {
				k = i + 1
				break
			}
		}
	}
	if k == 0 {
		t.Fatalf("effect %q not found in %v", after, base.effLog)
	}

	// Compare with the finding's exclusion switched off.
	run := c13Run(t, sc, plan, []int{k})
	if run.inconclusive != "" {
		t.Skipf("inconclusive: %s", run.inconclusive)
	}
	t.Logf("stop after effect %d (%s), restarted: state=%v msgs=%v "+
		"finals=%v unresolved=%v effects=%v", k, base.effLog[k-1],
		run.state, run.msgs, run.finals, run.unresolved, run.effLog)
	for _, r := range run.inputs {
		t.Logf("life %d sweeper input: %s", r.life, r.core)
	}

	run.crashStates, run.crashLast, run.cribLate = nil, nil, false
	err := c13Compare(base, run, sc, plan, st)
	what := fmt.Sprintf("stop after %q: %v", base.effLog[k-1], err)
	switch {
	case err == nil:
		t.Logf("correct behaviour: same outcome after restart")
	case ccKnown(key):
		t.Logf("KNOWN-FINDING %s reproduced: %s", key, what)
	default:
		t.Errorf("%s: %s", key, what)
	}
}

// A stop right after CommitState(StateContractClosed): the restarted
// arbitrator re-executes the stage with a chain trigger and creates no HTLC
// resolvers.
func TestVerifC13ReproRestartInContractClosed(t *testing.T) {
	c13ReproRun(t, c13KeyContractClosedRestart,
		"CommitState(StateContractClosed)", 1)
}

// A stop right after a resolver's final checkpoint (before
// ResolveContract): the contract is never deleted, the channel never becomes
// fully resolved.
func TestVerifC13ReproResolvedCheckpoint(t *testing.T) {
	c13ReproRun(t, c13KeyResolvedNotDeleted,
		"Checkpoint(*contractcourt.commitSweepResolver,resolved)", 1)
}

// Observation (not part of the C13 verdict, always passes): an outgoing
// contest resolver on the peer's commitment whose HTLC already expired offers
// the timeout sweep from Launch while it is still a contest resolver; if that
// sweep confirms before Resolve has processed a block epoch, Resolve takes
// our own timeout spend for the peer's preimage spend and claimCleanUp
// indexes the witness out of range.
func TestVerifC13ReproContestOwnSweepPanic(t *testing.T) {
	x := c12ReproHTLC(1, false, 690)
	x.On[ccL], x.On[ccR] = true, true
	x.Out[ccL], x.Out[ccR] = 0, 0
	sc := &ccScenario{HTLCs: []ccHTLC{x}, Base: 700, DeltaOut: 10,
		DeltaIn: 10}

	w := newCcWorld(700)
	w.eager = true
	inc := w.newInc()
	arb, _, err := ccBuildArb(t, sc, inc, sc.htlcSets(), c12MemLog)
	if err != nil {
		t.Fatalf("build: %v", err)
	}
	defer ccStop(arb)

	hr, _, _ := sc.resolutions(ccR)
	var res lnwallet.OutgoingHtlcResolution = hr.OutgoingHTLCs[0]
	resCfg := ResolverConfig{
		ChannelArbitratorConfig: arb.cfg,
		Checkpoint: func(ContractResolver,
			...*channeldb.ResolverReport) error {

			return nil
		},
	}
	r := newOutgoingContestResolver(
		res, 700, sc.htlcs(ccR)[0], channeldb.SingleFunderTweaklessBit,
		resCfg,
	)
	if err := r.Launch(); err != nil {
		t.Fatalf("launch: %v", err)
	}
	// The sweeper's timeout transaction confirms.
	if key := w.pumpOne(inc); !strings.HasPrefix(key, "4sweep") {
		t.Fatalf("expected a sweep request from Launch, pumped %q", key)
	}
	op := wire.OutPoint{Hash: ccCommitHash(ccR), Index: 0}
	if _, ok := w.spent[op]; !ok {
		t.Fatalf("htlc output not spent by the timeout sweep")
	}

	var panicked any
	func() {
		defer func() { panicked = recover() }()
		_, err = r.Resolve()
	}()
	if panicked != nil {
		t.Logf("OBSERVATION: htlcOutgoingContestResolver.Resolve "+
			"panicked on our own timeout spend: %v", panicked)
	} else {
		t.Logf("no panic (err=%v)", err)
	}
}

// A taproot channel, the peer's commitment confirms with a received HTLC
// whose preimage is in the witness beacon: the incoming contest resolver is
// swapped for a success resolver that carries the preimage. A stop right
// after that swap: the restarted success resolver hands the sweeper an input
// without the preimage.
func TestVerifC13ReproTaprootPreimageLost(t *testing.T) {
	// Control: the same history on an anchors channel.
	sc, plan := c13ReproScenario()
	sc.ChanKind = 2
	sc.HTLCs[1].Know = 1
	plan.kind = c13KindAnchors
	c13ReproRunPlan(t, sc, plan, "control",
		"SwapContract(*contractcourt.htlcIncomingContestResolver", 1)

	sc, plan = c13ReproScenario()
	sc.ChanKind = 2
	sc.HTLCs[1].Know = 1
	plan.kind, plan.tap = c13KindTaproot, 1
	c13ReproRunPlan(t, sc, plan, c13KeyTaprootPreimageLost,
		"SwapContract(*contractcourt.htlcIncomingContestResolver", 1)

	// The same on our own commitment (second-level success transaction),
	// final taproot scripts.
	sc, plan = c13ReproScenario()
	sc.ChanKind = 2
	sc.HTLCs[1].Know = 1
	plan.conf = ccL
	plan.kind, plan.tap = c13KindTaprootFinal, 2
	c13ReproRunPlan(t, sc, plan, c13KeyTaprootPreimageLost,
		"SwapContract(*contractcourt.htlcIncomingContestResolver", 1)
}

// A legacy channel closed with our commitment: the nursery publishes the
// timeout transaction of an offered HTLC at its expiry (730). The node stops
// right after that; while it is down the transaction confirms and 4 blocks
// (= the CSV delay) are mined. The restarted nursery gets the historical
// confirmation, NurseryStore.CribToKinder files the second-level output under
// height 734 = the tip, and the incubator, which graduates only the height of
// each NEW block, never offers it to the sweeper in this process life: the
// channel stays StateWaitingFullResolution (an uninterrupted node sweeps at
// 734). Control: 3 blocks of downtime, same outcome as uninterrupted.
func TestVerifC13ReproCribMaturedWhileDown(t *testing.T) {
	for _, d := range []int{c13CSV - 1, c13CSV} {
		sc, plan := c13ReproScenario()
		sc.ChanKind = 0
		plan.conf, plan.kind, plan.realNursery = ccL, c13KindLegacy, true
		plan.horizon = 760
		plan.offline = []int{d}
		key := c13KeyCribLate
		if d < c13CSV {
			key = "control"
		}
		t.Logf("---- %d blocks mined while the node is down", d)
		c13ReproRunPlan(t, sc, plan, key, "NurseryPublishTx", 1)
	}
}
