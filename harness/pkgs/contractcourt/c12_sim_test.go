//go:build verif

package contractcourt

// C12 on REAL channel states (TestVerifC12Sim).
//
// TestVerifC12Decision / TestVerifC12Resolution synthesise the three HTLC
// sets and the ContractResolutions. Here both come out of lnd itself:
//
//   * the two-party channel simulator (internal/verif/chansim: real lnwallet
//     channels driven through generated add / settle / fail / update_fee /
//     sign / revoke / reconnect schedules, all 8 channel types) reaches a
//     generated, usually mid-dance state;
//   * the arbitrator's HTLC sets are what lnd's own start-up code
//     (newActiveChannelArbitrator) reads from the side's channel database -
//     or, in "live" mode, what it read at an EARLIER point of the schedule
//     plus the ContractUpdates the link sends on every sign / revoke /
//     received revocation since (notifyContractUpdate / updateActiveHTLCs);
//   * one of the three valid commitment transactions (ours, the peer's
//     current, the peer's pending) "confirms": the transaction is handed to
//     the REAL chain watcher's handleCommitSpend, which recognises it
//     (newChainSet, txid comparison, choice of the commitment point), builds
//     the REAL close summary (lnwallet.NewLocalForceCloseSummary /
//     NewUnilateralCloseSummary) and CommitSet and dispatches the close event,
//     which is delivered to the REAL ChannelArbitrator (real bolt log) -
//     directly, or after it already broadcast on a chain or user trigger.
//
// The oracles are C12's (c12Band for the go-to-chain decision, the per-HTLC
// resolver / fail-back / final-outcome classification of c12CheckCommit, the
// same two known-finding exclusions), but every EXPECTATION is derived from
// the simulator's independent bookkeeping model (which updates each of the
// three commitments covers, the HTLC amounts, the commitment owner's dust
// limit, the commitment's fee rate and the channel type) - never from
// lnwallet's OutputIndex markings or from the resolutions it built.

import (
	"fmt"
	"os"
	"path/filepath"
	"sort"
	"strings"
	"testing"

	"github.com/btcsuite/btcd/btcutil/v2"
	"github.com/btcsuite/btcd/chainhash/v2"
	"github.com/btcsuite/btcd/wire/v2"
	"github.com/lightningnetwork/lnd/chainntnfs"
	"github.com/lightningnetwork/lnd/channeldb"
	"github.com/lightningnetwork/lnd/chanstate"
	"github.com/lightningnetwork/lnd/fn/v2"
	"github.com/lightningnetwork/lnd/internal/verif/chansim"
	"github.com/lightningnetwork/lnd/internal/verif/vstats"
	"github.com/lightningnetwork/lnd/lntypes"
	"github.com/lightningnetwork/lnd/lnwallet"
	"github.com/lightningnetwork/lnd/lnwallet/chainfee"
	"pgregory.net/rapid"
)

var c12simKindNames = [3]string{"own", "peer_current", "peer_pending"}

// c12simNotifier is the chain notifier of the chain watcher: it never
// delivers anything, the test hands the spend to handleCommitSpend itself.
type c12simNotifier struct{}

var _ chainntnfs.ChainNotifier = (*c12simNotifier)(nil)

func (*c12simNotifier) RegisterConfirmationsNtfn(*chainhash.Hash, []byte,
	uint32, uint32, ...chainntnfs.NotifierOption) (
	*chainntnfs.ConfirmationEvent, error) {

	return chainntnfs.NewConfirmationEvent(1, func() {}), nil
}

func (*c12simNotifier) RegisterSpendNtfn(*wire.OutPoint, []byte, uint32) (
	*chainntnfs.SpendEvent, error) {

	return chainntnfs.NewSpendEvent(func() {}), nil
}

func (*c12simNotifier) RegisterBlockEpochNtfn(*chainntnfs.BlockEpoch) (
	*chainntnfs.BlockEpochEvent, error) {

	return &chainntnfs.BlockEpochEvent{
		Epochs: make(chan *chainntnfs.BlockEpoch),
		Cancel: func() {},
	}, nil
}

func (*c12simNotifier) Start() error  { return nil }
func (*c12simNotifier) Started() bool { return true }
func (*c12simNotifier) Stop() error   { return nil }

// c12simChannel is the ArbChannel: like arbChannel.ForceCloseChan it returns
// our current commitment transaction (unsigned: the signature is C05's
// subject and marking the channel borked would end the schedule).
type c12simChannel struct {
	inc *ccInc
	tx  *wire.MsgTx
}

func (c *c12simChannel) ForceCloseChan() (*wire.MsgTx, error) {
	var tx *wire.MsgTx
	err := c.inc.effect("ForceCloseChan", func() error {
		c.inc.w.mu.Lock()
		c.inc.w.forceClose++
		c.inc.w.mu.Unlock()
		tx = c.tx.Copy()

		return nil
	})

	return tx, err
}

func (c *c12simChannel) NewAnchorResolutions() (*lnwallet.AnchorResolutions,
	error) {

	return &lnwallet.AnchorResolutions{}, nil
}

// c12simStartSets is what lnd hands a ChannelArbitrator at start-up: the
// real newActiveChannelArbitrator on the channel as read from the database.
func c12simStartSets(side *chansim.Side, st *chanstate.OpenChannel) (
	map[HtlcSetKey]htlcSet, error) {

	ca := &ChainArbitrator{chanSource: side.DB}
	arb, err := newActiveChannelArbitrator(st, ca, nil)
	if err != nil {
		return nil, err
	}

	return arb.activeHTLCs, nil
}

// c12simWatcher builds the real chain watcher of the channel.
func c12simWatcher(side *chansim.Side, st *chanstate.OpenChannel) (
	*chainWatcher, *ChainEventSubscription, error) {

	cw, err := newChainWatcher(chainWatcherConfig{
		chanState:           st,
		notifier:            &c12simNotifier{},
		signer:              side.Signer,
		extractStateNumHint: lnwallet.GetStateNumHint,
		auxLeafStore: fn.Some[lnwallet.AuxLeafStore](
			&lnwallet.MockAuxLeafStore{},
		),
		auxResolver: fn.None[lnwallet.AuxContractResolver](),
	})
	if err != nil {
		return nil, nil, err
	}

	return cw, cw.SubscribeChannelEvents(), nil
}

// c12simLive is the history of one side since its arbitrator and chain
// watcher were started: the start-up snapshot and every ContractUpdate the
// link sent since.
type c12simLive struct {
	started bool
	st0     *chanstate.OpenChannel
	sets0   map[HtlcSetKey]htlcSet
	updates []*ContractUpdate
	// model counters at the last look
	sigs, revsSent, revsRecvd uint64
}

// observe records the ContractUpdates the link of side x sends for what
// happened since the last call: SignNextCommitment -> the peer's pending set,
// RevokeCurrentCommitment -> our set, ReceiveRevocation -> the peer's set
// (htlcswitch/link.go). Which of the three happened is read off the model's
// counters; the HTLC lists are those of the side's database.
func (l *c12simLive) observe(s *chansim.Sim, x int) error {
	m := &s.M
	sigs := uint64(len(m.Sigs[x]))
	revsSent := m.RevsSent[x]
	revsRecvd := m.RevsDelivered[1-x]
	defer func() {
		l.sigs, l.revsSent, l.revsRecvd = sigs, revsSent, revsRecvd
	}()
	if !l.started {
		return nil
	}
	if sigs == l.sigs && revsSent == l.revsSent && revsRecvd == l.revsRecvd {
		return nil
	}
	st, err := s.Sides[x].FetchState()
	if err != nil {
		return err
	}
	if sigs != l.sigs {
		tip, err := st.RemoteCommitChainTip()
		if err == nil && tip != nil {
			l.updates = append(l.updates, &ContractUpdate{
				HtlcKey: RemotePendingHtlcSet,
				Htlcs:   tip.Commitment.Htlcs,
			})
		}
	}
	if revsRecvd != l.revsRecvd {
		l.updates = append(l.updates, &ContractUpdate{
			HtlcKey: RemoteHtlcSet,
			Htlcs:   st.RemoteCommitment.Htlcs,
		})
	}
	if revsSent != l.revsSent {
		l.updates = append(l.updates, &ContractUpdate{
			HtlcKey: LocalHtlcSet,
			Htlcs:   st.LocalCommitment.Htlcs,
		})
	}

	return nil
}

// c12simModel is the bookkeeping model's view of side x's three commitments.
type c12simModel struct {
	exp        [3]*chansim.Expected
	hasPending bool
	univ       []*chansim.HTLC
	on, dust   map[*chansim.HTLC]*[3]bool
}

func c12simBuildModel(s *chansim.Sim, x int) *c12simModel {
	y := 1 - x
	m := &s.M
	md := &c12simModel{
		on:   map[*chansim.HTLC]*[3]bool{},
		dust: map[*chansim.HTLC]*[3]bool{},
	}
	var covL [2]int
	covL[x] = m.TailOwn[x]
	covL[y] = m.TailTheir[x]
	md.exp[ccL] = s.Expect(x, m.RevsSent[x], covL)

	covOf := func(rec *chansim.CommitRec) [2]int {
		var cov [2]int
		cov[rec.Signer] = rec.Own
		cov[1-rec.Signer] = rec.Their

		return cov
	}
	acked := m.RevsDelivered[y]
	if acked == 0 {
		md.exp[ccR] = s.Expect(y, 0, [2]int{})
	} else {
		md.exp[ccR] = s.Expect(y, acked, covOf(m.Sigs[x][acked-1]))
	}
	if s.Unacked(x) {
		rec := m.Sigs[x][len(m.Sigs[x])-1]
		md.exp[ccP] = s.Expect(y, rec.Height, covOf(rec))
		md.hasPending = true
	}
	for c := 0; c < 3; c++ {
		e := md.exp[c]
		if e == nil {
			continue
		}
		nd := map[*chansim.HTLC]bool{}
		for _, h := range e.NonDust {
			nd[h] = true
		}
		for _, h := range e.Live {
			if md.on[h] == nil {
				md.on[h] = &[3]bool{}
				md.dust[h] = &[3]bool{}
				md.univ = append(md.univ, h)
			}
			md.on[h][c] = true
			md.dust[h][c] = !nd[h]
		}
	}

	return md
}

// c12simCase is the shared state of one generated schedule.
type c12simCase struct {
	t    *testing.T
	rt   *rapid.T
	st   *vstats.Collector
	s    *chansim.Sim
	live [2]c12simLive

	afterCut bool
	evals    int
}

// evaluate runs one arbitrator of side x on the current state with
// commitment kind (ccL / ccR / ccP) confirming.
func (c *c12simCase) evaluate(x, kind int) error {
	s, rt := c.s, c.rt
	side := s.Sides[x]
	md := c12simBuildModel(s, x)

	// ---- generated configuration -----------------------------------------
	sc := &ccScenario{
		HasPending: md.hasPending,
		Base:       500,
		DeltaOut:   uint32(rapid.IntRange(0, 12).Draw(rt, "deltaOut")),
		DeltaIn:    uint32(rapid.IntRange(0, 12).Draw(rt, "deltaIn")),
		GraceSec:   rapid.SampledFrom([]int{0, 30, 30}).Draw(rt, "grace"),
		UptimeSec:  rapid.IntRange(0, 60).Draw(rt, "uptime"),
		ChanKind:   -1,
	}
	knowByHash := map[[32]byte]int{}
	for _, h := range md.univ {
		know, ok := knowByHash[h.Hash]
		if !ok {
			know = rapid.SampledFrom([]int{0, 0, 1, 2}).Draw(rt, "know")
			knowByHash[h.Hash] = know
		}
		sc.HTLCs = append(sc.HTLCs, ccHTLC{
			Idx:      h.ID,
			Incoming: h.From != x,
			Amt:      h.Amt,
			Expiry:   h.Expiry,
			Pre:      lntypes.Preimage(h.Preimage),
			Hash:     lntypes.Hash(h.Hash),
			On:       *md.on[h],
			Dust:     *md.dust[h],
			Out:      [3]int32{-1, -1, -1},
			Know:     know,
			Fwd:      rapid.Bool().Draw(rt, "fwd"),
		})
	}
	live := c.live[x].started && rapid.IntRange(0, 2).Draw(rt, "live") == 0
	pre := rapid.SampledFrom([]int{0, 0, 1, 1, 2}).Draw(rt, "pre")
	heights := c12Heights(rt, sc)
	gap := uint32(rapid.IntRange(0, 3).Draw(rt, "closeGap"))

	what := fmt.Sprintf("%s, %s commitment confirms (%s start, pre=%d)",
		side.Name, c12simKindNames[kind], map[bool]string{false: "restart",
			true: "live"}[live], pre)
	failf := func(format string, a ...any) error {
		return fmt.Errorf("%s: %s\nmodel=%v", what,
			fmt.Sprintf(format, a...), sc.sample())
	}

	// ---- the node's inputs, the way lnd produces them ----------------------
	stNow, err := side.FetchState()
	if err != nil {
		return failf("fetch: %v", err)
	}
	var (
		sets  map[HtlcSetKey]htlcSet
		watch *chanstate.OpenChannel
	)
	if live {
		sets = map[HtlcSetKey]htlcSet{}
		for k, v := range c.live[x].sets0 {
			sets[k] = v
		}
		watch = c.live[x].st0
	} else {
		sets, err = c12simStartSets(side, stNow)
		if err != nil {
			return failf("newActiveChannelArbitrator: %v", err)
		}
		watch = stNow
	}
	cw, sub, err := c12simWatcher(side, watch)
	if err != nil {
		return failf("newChainWatcher: %v", err)
	}

	// The transaction that confirms, taken from a separate read of the
	// database (the watcher refreshes its own object).
	stTx, err := side.FetchState()
	if err != nil {
		return failf("fetch: %v", err)
	}
	var confTx *wire.MsgTx
	switch kind {
	case ccL:
		confTx = stTx.LocalCommitment.CommitTx
	case ccR:
		confTx = stTx.RemoteCommitment.CommitTx
	case ccP:
		tip, err := stTx.RemoteCommitChainTip()
		if err != nil {
			return failf("model has a pending remote commitment, "+
				"the database none: %v", err)
		}
		confTx = tip.Commitment.CommitTx
	}
	commitHash := confTx.TxHash()

	dir, err := os.MkdirTemp("", "c12sim")
	if err != nil {
		return err
	}
	defer os.RemoveAll(dir)
	db, err := ccOpenDB(filepath.Join(dir, "arb.db"))
	if err != nil {
		return err
	}
	defer db.Close()

	w := newCcWorld(int32(heights[0]))
	w.applyKnowledge(sc)
	inc := w.newInc()
	mkLog := func(cfg ChannelArbitratorConfig) (ArbitratorLog, error) {
		return newBoltArbitratorLog(
			db, cfg, chainhash.Hash{}, stNow.FundingOutpoint,
		)
	}
	arb, wl, err := ccBuildArb(c.t, sc, inc, sets, mkLog)
	if err != nil {
		return failf("build: %v", err)
	}
	defer ccStop(arb)
	arb.cfg.ChanPoint = stNow.FundingOutpoint
	arb.cfg.FetchHistoricalChannel = func() (*chanstate.OpenChannel, error) {
		return stNow, nil
	}
	arb.cfg.Channel = &c12simChannel{
		inc: inc, tx: stTx.LocalCommitment.CommitTx,
	}
	if live {
		for _, u := range c.live[x].updates {
			arb.notifyContractUpdate(u)
		}
	}

	labels := []string{
		"type=" + s.P.TypeName, "conf=" + c12simKindNames[kind],
		fmt.Sprintf("n=%d", len(sc.HTLCs)),
	}
	if live {
		labels = append(labels, "start=live",
			fmt.Sprintf("live_updates=%d", min(len(c.live[x].updates), 8)))
	} else {
		labels = append(labels, "start=restart")
	}
	if md.hasPending {
		labels = append(labels, "has_pending_remote_commit")
	}
	if c.afterCut {
		labels = append(labels, "after_reconnect")
	}
	if len(knowByHash) < len(md.univ) {
		labels = append(labels, "duplicate_payment_hash")
	}
	if md.exp[ccL].FeePerKw != md.exp[ccR].FeePerKw {
		labels = append(labels, "fee_differs_ours_vs_peer_current")
	}
	if md.hasPending && md.exp[ccP].FeePerKw != md.exp[ccR].FeePerKw {
		labels = append(labels, "fee_differs_current_vs_pending")
	}
	for i := range sc.HTLCs {
		h := &sc.HTLCs[i]
		if h.On[ccL] && (h.On[ccR] || h.On[ccP]) {
			peer := (h.On[ccR] && h.Dust[ccR]) || (h.On[ccP] && h.Dust[ccP])
			if h.Dust[ccL] != peer {
				labels = append(labels, "dust_on_one_partys_commitment_only")
			}
		}
		if h.On[ccR] && h.On[ccP] && h.Dust[ccR] != h.Dust[ccP] {
			labels = append(labels, "dust_differs_current_vs_pending")
		}
	}

	obs := &c12Obs{}
	confirmed := false
	wl.onInsert = func(_ []*channeldb.ResolverReport,
		rs []ContractResolver) {

		if obs.inserted || !confirmed {
			return
		}
		obs.inserted = true
		obs.resolvers = append(obs.resolvers, rs...)
		w.mu.Lock()
		obs.msgs = append([]ccMsg(nil), w.msgs[len(obs.preMsgs):]...)
		obs.finals = append([]ccFinal(nil), w.finals...)
		w.mu.Unlock()
	}

	// ---- go-to-chain decision ---------------------------------------------
	var (
		broadcast, userTrig bool
		preHeight           = heights[0]
		last                = heights[0]
	)
	probe := func(h uint32) error {
		w.mu.Lock()
		w.height = int32(h)
		w.mu.Unlock()
		last = h
		must, may, why := c12Band(sc, h)
		next, tx, err := arb.advanceState(h, chainTrigger, nil)
		if err != nil {
			return failf("advanceState(%d): %v", h, err)
		}
		closed := w.forceClose > 0
		switch {
		case must:
			labels = append(labels, "band=must")
		case may:
			labels = append(labels, "band=may_only")
		default:
			labels = append(labels, "band=stay")
		}
		if must && !closed {
			return failf("height %d: must go on chain (%s) but state=%v, "+
				"no force close", h, why, next)
		}
		if closed && !may {
			return failf("height %d: force closed although no HTLC "+
				"requires or permits it", h)
		}
		if closed {
			if w.forceClose != 1 || tx == nil ||
				next != StateCommitmentBroadcasted || !w.broadcasted ||
				len(w.commitPub) != 1 {

				return failf("height %d: inconsistent broadcast: "+
					"force=%d tx=%v state=%v marked=%v published=%d",
					h, w.forceClose, tx != nil, next, w.broadcasted,
					len(w.commitPub))
			}
			broadcast, preHeight = true, h

			return nil
		}
		if next != StateDefault || len(w.msgs) != 0 ||
			len(w.commitPub) != 0 || w.broadcasted {

			return failf("height %d: stayed off chain but state=%v "+
				"msgs=%v published=%v", h, next, w.msgs, w.commitPub)
		}

		return nil
	}
	switch pre {
	case 1:
		for _, h := range heights {
			if err := probe(h); err != nil {
				return err
			}
			if broadcast {
				break
			}
		}
	case 2:
		if len(heights) > 1 {
			if err := probe(heights[0]); err != nil {
				return err
			}
		}
		if !broadcast {
			h := heights[len(heights)-1]
			w.mu.Lock()
			w.height = int32(h)
			w.mu.Unlock()
			last = h
			next, tx, err := arb.advanceState(h, userTrigger, nil)
			if err != nil {
				return failf("user trigger: %v", err)
			}
			if w.forceClose != 1 || tx == nil ||
				next != StateCommitmentBroadcasted {

				return failf("user trigger did not force close: "+
					"force=%d state=%v", w.forceClose, next)
			}
			broadcast, userTrig, preHeight = true, true, h
		}
	}
	switch {
	case userTrig:
		labels = append(labels, "pre=user_broadcast")
	case broadcast:
		labels = append(labels, "pre=chain_broadcast")
	case pre == 0:
		labels = append(labels, "pre=none")
	default:
		labels = append(labels, "pre=blocks_no_broadcast")
	}
	if pre == 0 {
		last = heights[len(heights)-1]
	}
	closeHeight := last + gap
	w.mu.Lock()
	obs.preMsgs = append([]ccMsg(nil), w.msgs...)
	w.height = int32(closeHeight)
	w.mu.Unlock()

	// ---- the commitment confirms: real chain watcher -> real summary -------
	spend := &chainntnfs.SpendDetail{
		SpentOutPoint:  &stTx.FundingOutpoint,
		SpenderTxHash:  &commitHash,
		SpendingTx:     confTx,
		SpendingHeight: int32(closeHeight),
	}
	if err := cw.handleCommitSpend(spend); err != nil {
		return failf("chain watcher: %v", err)
	}
	var (
		res    *ContractResolutions
		gotKey fn.Option[HtlcSetKey]
	)
	confirmed = true
	select {
	case info := <-sub.LocalUnilateralClosure:
		gotKey = info.CommitSet.ConfCommitKey
		r, err := info.ContractResolutions.UnwrapOrErr(
			fmt.Errorf("no resolutions"),
		)
		if err != nil || r.HtlcResolutions == nil {
			return failf("local close summary without resolutions")
		}
		res = &ContractResolutions{
			CommitResolution: r.CommitResolution,
			HtlcResolutions:  *r.HtlcResolutions,
			AnchorResolution: r.AnchorResolution,
		}
		err = arb.handleLocalForceCloseEvent(info)
		if err != nil {
			return failf("local close event: %v", err)
		}

	case info := <-sub.RemoteUnilateralClosure:
		gotKey = info.CommitSet.ConfCommitKey
		if info.HtlcResolutions == nil {
			return failf("remote close summary without HTLC resolutions")
		}
		res = &ContractResolutions{
			CommitResolution: info.CommitResolution,
			HtlcResolutions:  *info.HtlcResolutions,
			AnchorResolution: info.AnchorResolution,
		}
		err = arb.handleRemoteForceCloseEvent(info)
		if err != nil {
			return failf("remote close event: %v", err)
		}

	case <-sub.ContractBreach:
		return failf("chain watcher took a valid commitment for a breach")

	default:
		return failf("chain watcher dispatched no close event for a valid "+
			"commitment (%v)", commitHash)
	}
	key, err := gotKey.UnwrapOrErr(fmt.Errorf("no confirmed key"))
	if err != nil || key != ccSetKeys[kind] {
		return failf("chain watcher reports %v confirmed, it is the %s "+
			"commitment", gotKey, c12simKindNames[kind])
	}
	if !obs.inserted {
		w.mu.Lock()
		obs.msgs = append([]ccMsg(nil), w.msgs[len(obs.preMsgs):]...)
		obs.finals = append([]ccFinal(nil), w.finals...)
		w.mu.Unlock()
	}
	state := arb.state

	fail := func(format string, a ...any) error {
		return failf("closeHeight=%d broadcast=%v@%d: %s\npreMsgs=%v "+
			"msgs=%v finals=%v resolvers=%v state=%v lnwallet: %d "+
			"outgoing / %d incoming resolutions", closeHeight, broadcast,
			preHeight, fmt.Sprintf(format, a...), obs.preMsgs, obs.msgs,
			obs.finals, c12simDescribe(obs.resolvers), state,
			len(res.HtlcResolutions.OutgoingHTLCs),
			len(res.HtlcResolutions.IncomingHTLCs))
	}
	if !w.closed {
		return fail("channel not marked closed")
	}
	err = c12simCheckCommit(c, md, sc, x, kind, confTx, res, broadcast,
		userTrig, preHeight, obs, state, fail, &labels)
	if err != nil {
		return err
	}

	c.evals++
	var smp any
	if c.st.WantSample() {
		tr := s.Trace
		if len(tr) > 30 {
			tr = tr[len(tr)-30:]
		}
		smp = map[string]any{
			"params": s.P.String(), "side": side.Name,
			"conf": c12simKindNames[kind], "model": sc.sample(),
			"pre": pre, "heights": heights, "close_height": closeHeight,
			"resolvers": c12simDescribe(obs.resolvers),
			"fails":     fmt.Sprint(obs.preMsgs, obs.msgs),
			"trace_tail": tr,
		}
	}
	c.st.Case(vstats.FP(s.P.String(), strings.Join(s.Trace, "|"), x, kind,
		live, pre, fmt.Sprint(heights), gap, sc.fp()), sc.nontrivial(),
		labels, smp)

	return nil
}

func c12simDescribe(rs []ContractResolver) string {
	var out []string
	for _, r := range rs {
		d := c12ResolverKind(r)
		if h, _, ok := c12simResolverHTLC(r); ok {
			d += fmt.Sprintf("#%d", h.HtlcIndex)
		}
		if hr, ok := r.(htlcContractResolver); ok {
			d += fmt.Sprintf("@%d", hr.HtlcPoint().Index)
		}
		out = append(out, d)
	}
	sort.Strings(out)

	return strings.Join(out, ",")
}

// c12simResolverHTLC returns the HTLC an HTLC resolver was created for and,
// for an offered one, the expiry its resolution carries.
func c12simResolverHTLC(r ContractResolver) (channeldb.HTLC, uint32, bool) {
	switch v := r.(type) {
	case *htlcTimeoutResolver:
		return v.htlc, v.htlcResolution.Expiry, true
	case *htlcOutgoingContestResolver:
		return v.htlcTimeoutResolver.htlc,
			v.htlcTimeoutResolver.htlcResolution.Expiry, true
	case *htlcSuccessResolver:
		return v.htlc, 0, true
	case *htlcIncomingContestResolver:
		return v.htlcSuccessResolver.htlc, 0, true
	}

	return channeldb.HTLC{}, 0, false
}

// c12simSecondLevel returns the pre-signed second-level transaction of an
// HTLC resolver (our own commitment), if any.
func c12simSecondLevel(r ContractResolver) *wire.MsgTx {
	switch v := r.(type) {
	case *htlcTimeoutResolver:
		return v.htlcResolution.SignedTimeoutTx
	case *htlcOutgoingContestResolver:
		return v.htlcTimeoutResolver.htlcResolution.SignedTimeoutTx
	case *htlcSuccessResolver:
		return v.htlcResolution.SignedSuccessTx
	case *htlcIncomingContestResolver:
		return v.htlcSuccessResolver.htlcResolution.SignedSuccessTx
	}

	return nil
}

type c12simHtlcKey struct {
	incoming bool
	idx      uint64
}

// c12simCheckCommit is c12CheckCommit with every expectation taken from the
// bookkeeping model: which HTLCs exist on which commitment, which of them
// have an output there (amount vs. the commitment owner's dust limit at the
// commitment's fee rate for the channel type), direction, amount, hash,
// expiry, and whether the node has a balance output on the confirmed
// commitment.
func c12simCheckCommit(c *c12simCase, md *c12simModel, sc *ccScenario,
	x, conf int, confTx *wire.MsgTx, res *ContractResolutions,
	broadcast, userTrig bool, preHeight uint32, obs *c12Obs,
	state ArbitratorState,
	fail func(string, ...any) error, labels *[]string) error {

	s := c.s
	commitHash := confTx.TxHash()
	e := md.exp[conf]
	owner := x
	if conf != ccL {
		owner = 1 - x
	}

	// Resolvers by the HTLC they were created for.
	byHTLC := map[c12simHtlcKey][]ContractResolver{}
	other := map[string]int{}
	usedPoints := map[wire.OutPoint]bool{}
	for _, r := range obs.resolvers {
		h, _, ok := c12simResolverHTLC(r)
		if !ok {
			other[c12ResolverKind(r)]++

			continue
		}
		k := c12simHtlcKey{h.Incoming, h.HtlcIndex}
		byHTLC[k] = append(byHTLC[k], r)
		p := r.(htlcContractResolver).HtlcPoint()
		if usedPoints[p] {
			return fail("two resolvers for output %v", p)
		}
		usedPoints[p] = true
	}

	// The resolutions lnwallet built: one per HTLC output of the model,
	// per direction.
	mOut, mIn := 0, 0
	for _, h := range e.NonDust {
		if h.From == x {
			mOut++
		} else {
			mIn++
		}
	}
	if len(res.HtlcResolutions.OutgoingHTLCs) != mOut ||
		len(res.HtlcResolutions.IncomingHTLCs) != mIn {

		return fail("lnwallet built %d outgoing / %d incoming HTLC "+
			"resolutions, the confirmed commitment has %d offered / %d "+
			"received HTLC outputs (model)",
			len(res.HtlcResolutions.OutgoingHTLCs),
			len(res.HtlcResolutions.IncomingHTLCs), mOut, mIn)
	}

	// Non-HTLC contracts: our balance output exists iff the model balance
	// reaches the commitment owner's dust limit; our anchor exists iff the
	// channel has anchors and (our balance output or any HTLC output).
	ownSat := btcutil.Amount(uint64(e.Stored[x]) / 1000)
	wantCommit, wantAnchor := 0, 0
	if ownSat >= s.P.Dust[owner] {
		wantCommit = 1
	}
	if s.P.ChanType.HasAnchors() && (wantCommit == 1 || len(e.NonDust) > 0) {
		wantAnchor = 1
	}
	if other["commitSweep"] != wantCommit || other["anchor"] != wantAnchor ||
		other["breach"] != 0 {

		return fail("non-HTLC resolvers %v, model wants commitSweep=%d "+
			"(balance %d sat, dust limit %d) anchor=%d", other, wantCommit,
			ownSat, s.P.Dust[owner], wantAnchor)
	}
	persistent := wantCommit == 1 || len(e.NonDust) > 0
	if !persistent {
		if state != StateFullyResolved {
			return fail("nothing to resolve but state %v", state)
		}
		*labels = append(*labels, "no_contract")
	} else if state != StateWaitingFullResolution {
		return fail("state after confirmation: %v", state)
	}

	offered := map[uint64]bool{}
	received := map[uint64]bool{}
	for i := range sc.HTLCs {
		if sc.HTLCs[i].Incoming {
			received[sc.HTLCs[i].Idx] = true
		} else {
			offered[sc.HTLCs[i].Idx] = true
		}
	}
	for _, m := range append(append([]ccMsg(nil), obs.preMsgs...),
		obs.msgs...) {

		if m.Settle {
			return fail("settle for #%d without any on-chain claim", m.Idx)
		}
		if !offered[m.Idx] {
			return fail("resolution for unknown offered HTLC #%d", m.Idx)
		}
	}
	for _, f := range obs.finals {
		if !received[f.Idx] {
			return fail("final outcome for unknown received HTLC #%d",
				f.Idx)
		}
	}

	expected := map[c12simHtlcKey]bool{}
	var ferr error
	failNow := func(format string, a ...any) {
		if ferr == nil {
			ferr = fail(format, a...)
		}
	}
	for i := range sc.HTLCs {
		xh := &sc.HTLCs[i]
		dir := "offered"
		if xh.Incoming {
			dir = "received"
		}
		preF, _ := c12CountMsgs(obs.preMsgs, xh.Idx)
		postF, _ := c12CountMsgs(obs.msgs, xh.Idx)
		if xh.Incoming {
			preF, postF = 0, 0
		}
		nFinal := 0
		for _, f := range obs.finals {
			if xh.Incoming && f.Idx == xh.Idx {
				nFinal++
				if f.Settled {
					return fail("received #%d recorded as settled",
						xh.Idx)
				}
			}
		}
		k := c12simHtlcKey{xh.Incoming, xh.Idx}

		switch {
		// An output on the confirmed commitment (model): exactly one
		// resolver of the right direction on an output of that value,
		// never a fail-back from the confirmation on.
		case xh.hasOutput(conf):
			expected[k] = true
			rs := byHTLC[k]
			if len(rs) != 1 {
				return fail("%s #%d (%d msat) has an output on the "+
					"confirmed commitment (dust threshold %d sat at "+
					"%d sat/kw): %d resolvers", dir, xh.Idx, xh.Amt,
					s.DustThreshold(owner, map[bool]int{false: x,
						true: 1 - x}[xh.Incoming], e.FeePerKw),
					e.FeePerKw, len(rs))
			}
			kind := c12ResolverKind(rs[0])
			okKind := kind == "timeout" || kind == "outgoingContest"
			if xh.Incoming {
				okKind = kind == "success" || kind == "incomingContest"
			}
			if !okKind {
				return fail("%s #%d got a %s resolver", dir, xh.Idx, kind)
			}
			*labels = append(*labels, "res="+kind)
			h, resExpiry, _ := c12simResolverHTLC(rs[0])
			if h.Amt != xh.Amt || h.RHash != [32]byte(xh.Hash) ||
				h.RefundTimeout != xh.Expiry {

				return fail("%s #%d: resolver carries amt=%d expiry=%d "+
					"hash=%x, the HTLC is amt=%d expiry=%d hash=%x", dir,
					xh.Idx, h.Amt, h.RefundTimeout, h.RHash[:4], xh.Amt,
					xh.Expiry, xh.Hash[:4])
			}
			if !xh.Incoming && resExpiry != xh.Expiry {
				return fail("offered #%d: resolution expiry %d, HTLC "+
					"expiry %d", xh.Idx, resExpiry, xh.Expiry)
			}
			p := rs[0].(htlcContractResolver).HtlcPoint()
			if p.Hash != commitHash || int(p.Index) >= len(confTx.TxOut) ||
				confTx.TxOut[p.Index].Value != int64(uint64(xh.Amt)/1000) {

				return fail("%s #%d (%d sat): resolver points at %v, "+
					"which is not an output of that value on the "+
					"confirmed commitment %v", dir, xh.Idx,
					uint64(xh.Amt)/1000, p, commitHash)
			}
			if tx := c12simSecondLevel(rs[0]); tx != nil {
				if len(tx.TxIn) != 1 || tx.TxIn[0].PreviousOutPoint != p {
					return fail("%s #%d: second-level transaction does "+
						"not spend the HTLC output %v", dir, xh.Idx, p)
				}
				if !xh.Incoming && tx.LockTime != xh.Expiry {
					return fail("offered #%d: timeout transaction lock "+
						"time %d, HTLC expiry %d", xh.Idx, tx.LockTime,
						xh.Expiry)
				}
				*labels = append(*labels, "second_level_tx_checked")
			}
			if !xh.Incoming && postF != 0 {
				return fail("offered #%d has an output on the confirmed "+
					"commitment but was failed back", xh.Idx)
			}
			if !xh.Incoming && preF != 0 {
				*labels = append(*labels, "prefail_then_output")
			}
			if xh.Incoming && nFinal != 0 {
				return fail("received #%d has an output but a final "+
					"outcome was recorded by the arbitrator", xh.Idx)
			}

		// Offered and dust on the confirmed commitment: exactly once.
		case !xh.Incoming && xh.On[conf] && xh.Dust[conf]:
			*labels = append(*labels, "offered_dust")
			c12ExactlyOnce(sc, xh, "dust on the confirmed commitment",
				preF, postF, broadcast, userTrig, preHeight, c.st, failNow,
				labels)

		// Offered, only on a non-confirmed commitment.
		case !xh.Incoming && !xh.On[conf]:
			if xh.known() {
				*labels = append(*labels, "dangling_known")
				if postF != 0 {
					return fail("offered #%d only on a non-confirmed "+
						"commitment with known preimage was failed back",
						xh.Idx)
				}

				break
			}
			*labels = append(*labels, "dangling")
			if conf == ccL && xh.On[ccR] && xh.On[ccP] &&
				xh.Dust[ccR] != xh.Dust[ccP] &&
				ccKnown(c12KeyDustBitMapOrder) {

				c.st.Known(c12KeyDustBitMapOrder)
				c.st.Count("excluded_known", 1)
				*labels = append(*labels, "known_dust_bit_map_order")

				break
			}
			c12ExactlyOnce(sc, xh, "only on a non-confirmed commitment",
				preF, postF, broadcast, userTrig, preHeight, c.st, failNow,
				labels)

		// Received dust: closed out, no resolver.
		case xh.Incoming && xh.On[conf] && xh.Dust[conf]:
			*labels = append(*labels, "received_dust")
			if nFinal != 1 {
				return fail("received dust #%d: %d final outcomes",
					xh.Idx, nFinal)
			}

		// Received, not on the confirmed commitment: nothing.
		case xh.Incoming:
			if nFinal != 0 {
				return fail("received #%d not on the confirmed "+
					"commitment got a final outcome", xh.Idx)
			}
		}
		if ferr != nil {
			return ferr
		}
	}
	for k, rs := range byHTLC {
		if !expected[k] {
			return fail("%s resolver for HTLC #%d (incoming=%v) which "+
				"has no output on the confirmed commitment",
				c12ResolverKind(rs[0]), k.idx, k.incoming)
		}
	}

	return nil
}

func TestVerifC12Sim(t *testing.T) {
	st := vstats.New("TestVerifC12Sim")
	defer st.Flush()
	maxSteps := vstats.EnvInt("VERIF_STEPS", 30)
	every := vstats.EnvInt("VERIF_C12SIM_EVERY", 3)

	rapid.Check(t, func(rt *rapid.T) {
		p := chansim.DrawParams(rt, nil)
		s := chansim.New(rt, p)
		defer s.Close()
		c := &c12simCase{t: t, rt: rt, st: st, s: s}

		failCase := func(err error) {
			fmt.Fprintf(os.Stderr, "C12SIM-FAILURE: %v\n", err)
			rt.Fatalf("%v\nparams: %v\ntrace:\n  %s", err, p,
				strings.Join(s.Trace, "\n  "))
		}

		// A few HTLCs in flight before the generated schedule starts, so
		// that the sampled states hold several HTLCs in different stages.
		nPre := rapid.SampledFrom([]int{0, 1, 2, 3, 3, 4, 4, 5, 6, 7}).
			Draw(rt, "preAdds")
		for i := 0; i < nPre && s.Aborted == ""; i++ {
			x := rapid.IntRange(0, 1).Draw(rt, "preFrom")
			amt := s.DrawAmount(rt, x)
			exp := uint32(rapid.IntRange(500, 520).Draw(rt, "preExpiry"))
			if _, err := s.DoAddExp(x, amt, exp, nil, 0); err != nil {
				failCase(err)
			}
		}
		if nPre > 0 && rapid.Bool().Draw(rt, "preDrain") {
			if err := s.Drain(nil); err != nil {
				failCase(err)
			}
		}
		if s.Aborted != "" {
			st.Count("aborted_in_preload", 1)

			return
		}

		// The step at which the long-lived arbitrator / chain watcher of
		// each side is started (live mode).
		startAt := [2]int{
			rapid.IntRange(0, 8).Draw(rt, "startA"),
			rapid.IntRange(0, 8).Draw(rt, "startB"),
		}
		phase := rapid.IntRange(0, every-1).Draw(rt, "phase")
		step := 0

		check := func() error {
			for x := 0; x < 2; x++ {
				for kind := ccL; kind <= ccP; kind++ {
					if kind == ccP && !s.Unacked(x) {
						continue
					}
					if err := c.evaluate(x, kind); err != nil {
						return err
					}
				}
			}

			return nil
		}
		afterStep := func(s *chansim.Sim, a string) error {
			for x := 0; x < 2; x++ {
				l := &c.live[x]
				if err := l.observe(s, x); err != nil {
					return err
				}
				if !l.started && step >= startAt[x] {
					st0, err := s.Sides[x].FetchState()
					if err != nil {
						return err
					}
					sets0, err := c12simStartSets(s.Sides[x], st0)
					if err != nil {
						return err
					}
					l.started, l.st0, l.sets0 = true, st0, sets0
				}
			}
			step++
			if (step+phase)%every != 0 && a != "cut" {
				return nil
			}

			return check()
		}

		err := s.Run(rt, chansim.RunOpts{
			MinSteps: 4, MaxSteps: maxSteps, Cuts: true, CutWeight: 1,
			SkipFinalDrain: true,
			AfterCut: func(*chansim.Sim, *chansim.RetransmitReport) error {
				c.afterCut = true

				return nil
			},
			AfterStep: afterStep,
		})
		if err != nil {
			failCase(err)
		}
		// The point at which the schedule stopped.
		observeAndCheck := func() {
			for x := 0; x < 2; x++ {
				if err := c.live[x].observe(s, x); err != nil {
					failCase(err)
				}
			}
			if err := check(); err != nil {
				failCase(err)
			}
		}
		if s.Aborted == "" {
			observeAndCheck()
		}

		// Epilogue: an update_fee close to the current rate (HTLCs that sit
		// at a dust threshold flip on the commitments that already cover
		// it) followed by a generated part of the sign / revoke dance, so
		// that the three commitments are sampled while they disagree about
		// the fee rate. Fee updates are rare in the generic schedule.
		if s.Aborted == "" && rapid.IntRange(0, 2).Draw(rt, "epilogue") > 0 {
			rate := int64(s.CurrentFeeRate()) +
				int64(rapid.IntRange(-300, 300).Draw(rt, "epiFeeDelta"))
			if rapid.IntRange(0, 3).Draw(rt, "epiFeeAny") == 0 {
				rate = rapid.Int64Range(253, 20000).Draw(rt, "epiFeeRate")
			}
			if rate < 253 {
				rate = 253
			}
			if _, err := s.DoFee(chainfee.SatPerKWeight(rate)); err != nil {
				failCase(err)
			}
			nEpi := rapid.IntRange(1, 8).Draw(rt, "epiSteps")
			for i := 0; i < nEpi && s.Aborted == ""; i++ {
				var acts []string
				for x := 0; x < 2; x++ {
					if s.CanSign(x) {
						acts = append(acts, "sign"+s.Sides[x].Name)
					}
					if s.CanDeliver(x) {
						acts = append(acts, "deliver"+s.Sides[x].Name,
							"deliver"+s.Sides[x].Name)
					}
				}
				if len(acts) == 0 {
					break
				}
				a := rapid.SampledFrom(acts).Draw(rt, "epiAction")
				x := int(a[len(a)-1] - 'A')
				var err error
				if strings.HasPrefix(a, "sign") {
					err = s.DoSign(x)
				} else {
					err = s.DoDeliver(x, false)
				}
				if err != nil {
					failCase(fmt.Errorf("epilogue %s: %w", a, err))
				}
				if s.Aborted != "" {
					break
				}
				if err := s.CheckAll(); err != nil {
					failCase(fmt.Errorf("epilogue after %s: %w", a, err))
				}
				observeAndCheck()
			}
			st.Count("epilogues", 1)
		}
		if s.Aborted != "" {
			st.Count("schedule_aborted_by_constraint", 1)
		}
		st.Count("sim_schedules", 1)
		st.Count("evaluations", int64(c.evals))
	})
}
