//go:build verif

package contractcourt

// Shared rig for running the REAL utxo nursery against the stub world of
// ccshared_test.go (used by C13's crash enumeration and by C05's resolver
// validation):
//
//   - ccNurseryNet: the nursery's chain notifier. Confirmation notifications
//     are lazy like every other notification of the world: delivered one at a
//     time when the driver pumps them, once the world holds a confirmed
//     transaction with that txid (historical confirmations are found after a
//     restart). Block epochs go through the world's epoch machinery; a
//     client that passes its best block does not get that block again.
//   - ccNurseryStore: every mutating NurseryStorer call is one effect of the
//     incarnation (a crash point for harnesses that crash).
//   - ccNewNursery: an un-started UtxoNursery on a real NurseryStore in the
//     given bolt backend; PublishTransaction (an effect) and SweepInput are
//     handed in by the harness; FetchClosedChannel(s) read the world's closed
//     bit.

import (
	"fmt"
	"sort"

	"github.com/btcsuite/btcd/chainhash/v2"
	"github.com/btcsuite/btcd/wire/v2"
	"github.com/lightningnetwork/lnd/chainntnfs"
	"github.com/lightningnetwork/lnd/channeldb"
	"github.com/lightningnetwork/lnd/input"
	"github.com/lightningnetwork/lnd/kvdb"
	"github.com/lightningnetwork/lnd/sweep"
)

// ccConfSub is one confirmation subscription of the nursery.
type ccConfSub struct {
	txid      chainhash.Hash
	ev        *chainntnfs.ConfirmationEvent
	inc       *ccInc
	seq       int
	delivered bool
	cancelled bool
}

// ccNurseryNet holds the nursery's subscriptions (guarded by w.mu).
type ccNurseryNet struct {
	w        *ccWorld
	confSubs []*ccConfSub
	// confs counts delivered confirmations.
	confs int
}

// ccNurseryNotifier is the nursery's chain notifier.
type ccNurseryNotifier struct {
	*ccNotifier
	net *ccNurseryNet
}

var _ chainntnfs.ChainNotifier = (*ccNurseryNotifier)(nil)

func (n *ccNurseryNet) notifier(inc *ccInc) *ccNurseryNotifier {
	return &ccNurseryNotifier{ccNotifier: &ccNotifier{inc: inc}, net: n}
}

func (n *ccNurseryNotifier) RegisterConfirmationsNtfn(txid *chainhash.Hash,
	_ []byte, numConfs, _ uint32, _ ...chainntnfs.NotifierOption) (
	*chainntnfs.ConfirmationEvent, error) {

	w := n.net.w
	sub := &ccConfSub{txid: *txid, inc: n.inc}
	sub.ev = chainntnfs.NewConfirmationEvent(numConfs, func() {
		w.mu.Lock()
		sub.cancelled = true
		w.mu.Unlock()
	})
	w.mu.Lock()
	defer w.mu.Unlock()
	if n.inc.dead {
		return nil, errCcDead
	}
	w.seq++
	sub.seq = w.seq
	n.net.confSubs = append(n.net.confSubs, sub)

	return sub.ev, nil
}

func (n *ccNurseryNotifier) RegisterBlockEpochNtfn(
	best *chainntnfs.BlockEpoch) (*chainntnfs.BlockEpochEvent, error) {

	w := n.net.w
	ch := make(chan *chainntnfs.BlockEpoch, 512)
	sub := &ccEpochSub{ch: ch, inc: n.inc, ident: "nursery"}
	w.mu.Lock()
	w.seq++
	sub.seq = w.seq
	sub.next = w.height
	if best != nil {
		// The client has seen its best block already.
		sub.next = best.Height + 1
	}
	w.epochSubs = append(w.epochSubs, sub)
	w.mu.Unlock()

	return &chainntnfs.BlockEpochEvent{
		Epochs: ch,
		Cancel: func() {
			w.mu.Lock()
			sub.cancelled = true
			w.mu.Unlock()
		},
	}, nil
}

// confCandidates lists the deliverable confirmation notifications of inc.
// Called with w.mu held.
func (n *ccNurseryNet) confCandidates(inc *ccInc) (keys []string,
	do map[string]func()) {

	w := n.w
	do = make(map[string]func())
	for _, s := range n.confSubs {
		s := s
		if s.inc != inc || s.delivered || s.cancelled {
			continue
		}
		var ops []string
		byOp := map[string]*chainntnfs.SpendDetail{}
		for op, d := range w.spent {
			if *d.SpenderTxHash == s.txid {
				ops = append(ops, op.String())
				byOp[op.String()] = d
			}
		}
		if len(ops) == 0 {
			continue
		}
		sort.Strings(ops)
		det := byOp[ops[0]]
		key := fmt.Sprintf("5conf:%v:%06d", s.txid, s.seq)
		keys = append(keys, key)
		do[key] = func() {
			s.delivered = true
			s.ev.Confirmed <- &chainntnfs.TxConfirmation{
				BlockHash:   &chainhash.Hash{},
				BlockHeight: uint32(det.SpendingHeight),
				Tx:          det.SpendingTx,
			}
			n.confs++
		}
	}

	return keys, do
}

// pumpConf delivers exactly one pending confirmation notification (the one
// with the smallest key); "" if none is pending.
func (n *ccNurseryNet) pumpConf(inc *ccInc) string {
	n.w.mu.Lock()
	defer n.w.mu.Unlock()
	if inc.dead {
		return ""
	}
	keys, do := n.confCandidates(inc)
	if len(keys) == 0 {
		return ""
	}
	sort.Strings(keys)
	do[keys[0]]()

	return keys[0]
}

// ccNurseryStore routes every durable write of the nursery store through the
// incarnation (effect = crash point).
type ccNurseryStore struct {
	NurseryStorer
	inc *ccInc
}

func (s *ccNurseryStore) Incubate(k []kidOutput, b []babyOutput) error {
	return s.inc.effect("IncubateOutputs", func() error {
		return s.NurseryStorer.Incubate(k, b)
	})
}

func (s *ccNurseryStore) CribToKinder(b *babyOutput) error {
	return s.inc.effect("NurseryCribToKinder", func() error {
		return s.NurseryStorer.CribToKinder(b)
	})
}

func (s *ccNurseryStore) PreschoolToKinder(k *kidOutput, last uint32) error {
	return s.inc.effect("NurseryPreschoolToKinder", func() error {
		return s.NurseryStorer.PreschoolToKinder(k, last)
	})
}

func (s *ccNurseryStore) GraduateKinder(h uint32, k *kidOutput) error {
	return s.inc.effect("NurseryGraduateKinder", func() error {
		return s.NurseryStorer.GraduateKinder(h, k)
	})
}

func (s *ccNurseryStore) RemoveChannel(op *wire.OutPoint) error {
	return s.inc.effect("NurseryRemoveChannel", func() error {
		return s.NurseryStorer.RemoveChannel(op)
	})
}

// ccNewNursery builds the (un-started) nursery of one process life on a real
// store in db. publish is executed inside the PublishTransaction effect.
func ccNewNursery(net *ccNurseryNet, inc *ccInc, db kvdb.Backend,
	chanPoint wire.OutPoint, publish func(*wire.MsgTx) error,
	sweepInput func(input.Input, sweep.Params) (chan sweep.Result, error)) (
	*UtxoNursery, *NurseryStore, error) {

	w := net.w
	store, err := NewNurseryStore(
		&chainhash.Hash{}, &channeldb.DB{Backend: db},
	)
	if err != nil {
		return nil, nil, err
	}
	// summary is called with w.mu held.
	summary := func() *channeldb.ChannelCloseSummary {
		s := ccCloseSummary(w.closeType, w.closeHeight)
		s.ChanPoint = chanPoint
		s.IsPending = w.fullyResolved == 0

		return &s
	}
	cfg := &NurseryConfig{
		ChainIO:   &ccChainIO{inc: inc},
		ConfDepth: 1,
		FetchClosedChannels: func(pendingOnly bool) (
			[]*channeldb.ChannelCloseSummary, error) {

			w.mu.Lock()
			defer w.mu.Unlock()
			if !w.closed || (pendingOnly && w.fullyResolved > 0) {
				return nil, nil
			}

			return []*channeldb.ChannelCloseSummary{summary()}, nil
		},
		FetchClosedChannel: func(op *wire.OutPoint) (
			*channeldb.ChannelCloseSummary, error) {

			w.mu.Lock()
			defer w.mu.Unlock()
			if !w.closed || *op != chanPoint {
				return nil, channeldb.ErrClosedChannelNotFound
			}

			return summary(), nil
		},
		Notifier: net.notifier(inc),
		PublishTransaction: func(tx *wire.MsgTx, _ string) error {
			return inc.effect("NurseryPublishTx", func() error {
				return publish(tx)
			})
		},
		Store:      &ccNurseryStore{NurseryStorer: store, inc: inc},
		SweepInput: sweepInput,
		Budget:     DefaultBudgetConfig(),
	}

	return NewUtxoNursery(cfg), store, nil
}
