//go:build verif

package contractcourt

// C12 - "The node goes on chain before HTLC deadlines and disposes of every
// HTLC once".
//
// TestVerifC12Decision: the go-to-chain decision of the real
// advanceState/stateStep/checkLocalChainActions on an un-started arbitrator
// against a MUST/MAY band written from the property text.
//
// TestVerifC12Resolution: for every way the channel can end up on chain
// (ours / the peer's current / the peer's pending commitment, a breach, a
// cooperative close; directly or after we already broadcast on a chain or
// user trigger) the resolvers created and the upstream resolutions issued,
// against a per-HTLC reference derived from the property text.

import (
	"fmt"
	"sort"
	"strings"
	"testing"

	"github.com/btcsuite/btcd/wire/v2"
	"github.com/lightningnetwork/lnd/channeldb"
	"github.com/lightningnetwork/lnd/internal/verif/vstats"
	"pgregory.net/rapid"
)

// c12Band is the reference decision at height h.
//
//	MUST: an offered HTLC on our commitment is within OutgoingBroadcastDelta
//	      of its expiry and (it was forwarded or the start-up grace period
//	      is over), or a received HTLC on our commitment whose preimage we
//	      know is within IncomingBroadcastDelta of its expiry.
//	MAY:  MUST, or an offered HTLC that exists only on the peer's
//	      commitment(s) meets the offered-HTLC condition and its preimage is
//	      unknown (the statement neither demands nor forbids this).
func c12Band(sc *ccScenario, h uint32) (must, may bool, why string) {
	for i := range sc.HTLCs {
		x := &sc.HTLCs[i]
		winOut := h+sc.DeltaOut >= x.Expiry &&
			(x.Fwd || sc.graceOver())
		winIn := h+sc.DeltaIn >= x.Expiry && x.known()
		switch {
		case x.On[ccL] && !x.Incoming && winOut:
			must = true
			why += fmt.Sprintf(" offered#%d", x.Idx)
		case x.On[ccL] && x.Incoming && winIn:
			must = true
			why += fmt.Sprintf(" received#%d", x.Idx)
		case !x.On[ccL] && !x.Incoming && (x.On[ccR] || x.On[ccP]) &&
			winOut && !x.known():

			may = true
			why += fmt.Sprintf(" dangling#%d", x.Idx)
		}
	}

	return must, must || may, why
}

// c12Heights draws 1..4 ascending probe heights around the cut-offs.
func c12Heights(t *rapid.T, sc *ccScenario) []uint32 {
	cands := []uint32{sc.Base - 20}
	for i := range sc.HTLCs {
		x := &sc.HTLCs[i]
		for _, d := range []uint32{sc.DeltaOut, sc.DeltaIn, 0} {
			c := x.Expiry - d
			cands = append(cands, c-2, c-1, c, c+1)
		}
	}
	n := rapid.IntRange(1, 4).Draw(t, "nHeights")
	set := map[uint32]bool{}
	for i := 0; i < n; i++ {
		set[rapid.SampledFrom(cands).Draw(t, "height")] = true
	}
	var hs []uint32
	for h := range set {
		hs = append(hs, h)
	}
	sort.Slice(hs, func(i, j int) bool { return hs[i] < hs[j] })

	return hs
}

func c12MemLog(ChannelArbitratorConfig) (ArbitratorLog, error) {
	return newCcMemLog(), nil
}

func TestVerifC12Decision(t *testing.T) {
	st := vstats.New("TestVerifC12Decision")
	defer st.Flush()

	rapid.Check(t, func(rt *rapid.T) {
		sc := ccGenScenario(rt, ccGenOpts{})
		heights := c12Heights(rt, sc)
		// The arbitrator may start from an older snapshot of the
		// commitments and learn the current one through a contract
		// update, as the link delivers them.
		stale := rapid.IntRange(0, 3).Draw(rt, "staleStart") == 0
		userAtEnd := rapid.IntRange(0, 4).Draw(rt, "userAtEnd") == 0

		// Domain guard: expiry >= broadcast delta (uint32 subtraction
		// in shouldGoOnChain); always true for generated values.
		for i := range sc.HTLCs {
			if sc.HTLCs[i].Expiry < sc.DeltaOut ||
				sc.HTLCs[i].Expiry < sc.DeltaIn {

				st.Count("outside_domain", 1)
				rt.Skip("expiry below delta")
			}
		}

		w := newCcWorld(int32(heights[0]))
		w.applyKnowledge(sc)
		inc := w.newInc()

		sets := sc.htlcSets()
		if stale {
			sets = map[HtlcSetKey]htlcSet{
				LocalHtlcSet:  newHtlcSet(nil),
				RemoteHtlcSet: newHtlcSet(nil),
			}
		}
		arb, _, err := ccBuildArb(t, sc, inc, sets, c12MemLog)
		if err != nil {
			rt.Fatalf("build: %v", err)
		}
		defer ccStop(arb)
		if stale {
			for s := 0; s < 3; s++ {
				if s == ccP && !sc.HasPending {
					continue
				}
				arb.notifyContractUpdate(&ContractUpdate{
					HtlcKey: ccSetKeys[s],
					Htlcs:   sc.htlcs(s),
				})
			}
		}

		labels := []string{fmt.Sprintf("n=%d", len(sc.HTLCs))}
		if stale {
			labels = append(labels, "stale_start")
		}
		closedAt := -1
		for k, h := range heights {
			w.mu.Lock()
			w.height = int32(h)
			w.mu.Unlock()

			must, may, why := c12Band(sc, h)
			next, tx, err := arb.advanceState(h, chainTrigger, nil)
			if err != nil {
				rt.Fatalf("advanceState(%d): %v", h, err)
			}
			closed := w.forceClose > 0
			switch {
			case must:
				labels = append(labels, "band=must")
			case may:
				labels = append(labels, "band=may_only")
			default:
				labels = append(labels, "band=stay")
			}
			if must && !closed {
				rt.Fatalf("height %d: must go on chain (%s) but "+
					"state=%v, no force close\n%v", h, why, next,
					sc.sample())
			}
			if closed && !may {
				rt.Fatalf("height %d: force closed although no "+
					"HTLC requires or permits it\n%v", h,
					sc.sample())
			}
			if closed {
				if w.forceClose != 1 || tx == nil ||
					next != StateCommitmentBroadcasted ||
					!w.broadcasted || len(w.commitPub) != 1 {

					rt.Fatalf("height %d: inconsistent "+
						"broadcast: force=%d tx=%v state=%v "+
						"marked=%v published=%d", h,
						w.forceClose, tx != nil, next,
						w.broadcasted, len(w.commitPub))
				}
				labels = append(labels, "closed")
				closedAt = k

				break
			}
			if next != StateDefault || len(w.msgs) != 0 ||
				len(w.commitPub) != 0 || w.broadcasted {

				rt.Fatalf("height %d: stayed off chain but "+
					"state=%v msgs=%v published=%v", h, next,
					w.msgs, w.commitPub)
			}
		}

		// A user trigger always goes on chain, exactly once.
		if closedAt < 0 && userAtEnd {
			h := heights[len(heights)-1]
			next, tx, err := arb.advanceState(h, userTrigger, nil)
			if err != nil {
				rt.Fatalf("user trigger: %v", err)
			}
			if w.forceClose != 1 || tx == nil ||
				next != StateCommitmentBroadcasted {

				rt.Fatalf("user trigger did not force close: "+
					"force=%d state=%v", w.forceClose, next)
			}
			labels = append(labels, "user_close")
		}

		// Once broadcast, later blocks must not broadcast again.
		if w.forceClose == 1 {
			h := heights[len(heights)-1] + 1
			_, _, err := arb.advanceState(h, chainTrigger, nil)
			if err != nil {
				rt.Fatalf("post-broadcast block: %v", err)
			}
			if w.forceClose != 1 {
				rt.Fatalf("force closed %d times", w.forceClose)
			}
		}

		var smp any
		if st.WantSample() {
			smp = map[string]any{"scenario": sc.sample(),
				"heights": heights, "labels": labels}
		}
		st.Case(vstats.FP(sc.fp(), fmt.Sprint(heights), stale),
			sc.nontrivial(), labels, smp)
	})
}

// ---------------------------------------------------------------------------
// Resolution
// ---------------------------------------------------------------------------

// c12Obs is what the arbitrator did up to (and including) the moment it
// inserted the resolvers of the confirmed commitment.
type c12Obs struct {
	preMsgs   []ccMsg // issued before the confirmation was delivered
	msgs      []ccMsg // issued from the confirmation on
	finals    []ccFinal
	resolvers []ContractResolver
	inserted  bool
}

func c12ResolverKind(r ContractResolver) string {
	switch r.(type) {
	case *htlcTimeoutResolver:
		return "timeout"
	case *htlcOutgoingContestResolver:
		return "outgoingContest"
	case *htlcSuccessResolver:
		return "success"
	case *htlcIncomingContestResolver:
		return "incomingContest"
	case *commitSweepResolver:
		return "commitSweep"
	case *anchorResolver:
		return "anchor"
	case *breachResolver:
		return "breach"
	}

	return fmt.Sprintf("%T", r)
}

func c12CountMsgs(ms []ccMsg, idx uint64) (fails, settles int) {
	for _, m := range ms {
		if m.Idx != idx {
			continue
		}
		if m.Settle {
			settles++
		} else {
			fails++
		}
	}

	return
}

const (
	c12KeyDustAfterBroadcast = "C12:offered-dust-not-failed-after-own-broadcast"
	c12KeyDustBitMapOrder    = "C12:dangling-dust-bit-differs-map-order"
)

func TestVerifC12Resolution(t *testing.T) {
	st := vstats.New("TestVerifC12Resolution")
	defer st.Flush()

	rapid.Check(t, func(rt *rapid.T) {
		sc := ccGenScenario(rt, ccGenOpts{})

		confs := []int{ccL, ccL, ccL, ccR, ccR, ccR, ccBreach, ccBreach, ccCoop}
		if sc.HasPending {
			confs = append(confs, ccP, ccP)
		}
		conf := rapid.SampledFrom(confs).Draw(rt, "conf")
		if conf == ccCoop {
			// A cooperative close is only negotiated once no HTLC
			// is left on any commitment.
			sc.HTLCs = nil
		}
		// pre: what happened before the confirmation: 0 nothing (the
		// close event arrives in StateDefault), 1 a block made us
		// broadcast, 2 the user made us broadcast.
		pre := rapid.SampledFrom([]int{0, 0, 1, 1, 2}).Draw(rt, "pre")
		hOff := rapid.IntRange(-16, 28).Draw(rt, "closeOff")
		closeHeight := uint32(int(sc.Base) + hOff)
		preHeight := closeHeight -
			uint32(rapid.IntRange(0, 3).Draw(rt, "preGap"))

		// As in the decision test the arbitrator may have learnt the
		// commitments through contract updates from the link.
		stale := rapid.IntRange(0, 3).Draw(rt, "staleStart") == 0

		w := newCcWorld(int32(preHeight))
		w.applyKnowledge(sc)
		inc := w.newInc()
		sets := sc.htlcSets()
		if stale {
			sets = map[HtlcSetKey]htlcSet{
				LocalHtlcSet:  newHtlcSet(nil),
				RemoteHtlcSet: newHtlcSet(nil),
			}
		}
		arb, wl, err := ccBuildArb(t, sc, inc, sets, c12MemLog)
		if err != nil {
			rt.Fatalf("build: %v", err)
		}
		defer ccStop(arb)
		if stale {
			for s := 0; s < 3; s++ {
				if s == ccP && !sc.HasPending {
					continue
				}
				arb.notifyContractUpdate(&ContractUpdate{
					HtlcKey: ccSetKeys[s],
					Htlcs:   sc.htlcs(s),
				})
			}
		}

		obs := &c12Obs{}
		confirmed := false
		wl.onInsert = func(_ []*channeldb.ResolverReport,
			rs []ContractResolver) {

			// Only the arbitrator's own insert (not resolver
			// checkpoints, which insert a single resolver that is
			// already known).
			if obs.inserted || !confirmed {
				return
			}
			obs.inserted = true
			obs.resolvers = append(obs.resolvers, rs...)
			w.mu.Lock()
			obs.msgs = append([]ccMsg(nil),
				w.msgs[len(obs.preMsgs):]...)
			obs.finals = append([]ccFinal(nil), w.finals...)
			w.mu.Unlock()
		}

		labels := []string{"conf=" + ccConfNames[conf],
			fmt.Sprintf("n=%d", len(sc.HTLCs))}
		if stale {
			labels = append(labels, "stale_start")
		}

		// Optional earlier broadcast of our own commitment.
		broadcast := false
		switch pre {
		case 1:
			_, _, err := arb.advanceState(preHeight, chainTrigger, nil)
			if err != nil {
				rt.Fatalf("pre chain trigger: %v", err)
			}
			broadcast = w.forceClose > 0
		case 2:
			_, _, err := arb.advanceState(preHeight, userTrigger, nil)
			if err != nil {
				rt.Fatalf("pre user trigger: %v", err)
			}
			broadcast = w.forceClose > 0
			if !broadcast {
				rt.Fatalf("user trigger did not broadcast")
			}
		}
		if broadcast {
			labels = append(labels, "pre=broadcast")
		} else {
			labels = append(labels, "pre=none")
		}
		w.mu.Lock()
		obs.preMsgs = append([]ccMsg(nil), w.msgs...)
		w.height = int32(closeHeight)
		w.mu.Unlock()

		confirmed = true
		if err := ccDeliverClose(arb, sc, conf, closeHeight); err != nil {
			rt.Fatalf("close event: %v", err)
		}
		if !obs.inserted {
			// No resolvers were inserted (fully resolved at once):
			// everything issued so far counts.
			w.mu.Lock()
			obs.msgs = append([]ccMsg(nil),
				w.msgs[len(obs.preMsgs):]...)
			obs.finals = append([]ccFinal(nil), w.finals...)
			w.mu.Unlock()
		}
		state := arb.state

		fail := func(format string, a ...any) {
			rt.Fatalf("conf=%s pre=%d(broadcast=%v) closeHeight=%d: %s\n"+
				"scenario=%v\npreMsgs=%v msgs=%v finals=%v "+
				"resolvers=%v state=%v", ccConfNames[conf], pre,
				broadcast, closeHeight, fmt.Sprintf(format, a...),
				sc.sample(), obs.preMsgs, obs.msgs, obs.finals,
				c12Describe(obs.resolvers), state)
		}

		if !w.closed {
			fail("channel not marked closed")
		}

		// Index the HTLC resolvers by outpoint, count the others.
		byPoint := map[wire.OutPoint][]ContractResolver{}
		other := map[string]int{}
		for _, r := range obs.resolvers {
			if hr, ok := r.(htlcContractResolver); ok {
				p := hr.HtlcPoint()
				byPoint[p] = append(byPoint[p], r)
			} else {
				other[c12ResolverKind(r)]++
			}
		}

		known := map[uint64]bool{} // offered indexes in the universe
		for i := range sc.HTLCs {
			if !sc.HTLCs[i].Incoming {
				known[sc.HTLCs[i].Idx] = true
			}
		}
		for _, m := range append(append([]ccMsg(nil), obs.preMsgs...),
			obs.msgs...) {

			if m.Settle {
				fail("settle for #%d without any on-chain claim",
					m.Idx)
			}
			if !known[m.Idx] {
				fail("resolution for unknown offered HTLC #%d",
					m.Idx)
			}
		}

		switch conf {
		case ccCoop:
			if state != StateFullyResolved || w.fullyResolved != 1 {
				fail("coop close not fully resolved")
			}
			if len(obs.resolvers) != 0 {
				fail("coop close created resolvers")
			}
			labels = append(labels, "coop")

		case ccBreach:
			// Every offered HTLC on the peer's commitments can no
			// longer be claimed by the peer honestly: fail all of
			// them upstream (duplicates are tolerated here, the
			// statement's exactly-once is about the three valid
			// commitments).
			if state != StateWaitingFullResolution {
				fail("breach: state %v", state)
			}
			for p := range byPoint {
				fail("breach created HTLC resolver for %v", p)
			}
			wantAnchor := 0
			if sc.ChanKind == 2 {
				wantAnchor = 1
			}
			if other["breach"] != 1 || other["anchor"] != wantAnchor ||
				other["commitSweep"] != 0 {

				fail("breach: resolvers %v", other)
			}
			dup := false
			for i := range sc.HTLCs {
				x := &sc.HTLCs[i]
				if x.Incoming {
					continue
				}
				f1, _ := c12CountMsgs(obs.preMsgs, x.Idx)
				f2, _ := c12CountMsgs(obs.msgs, x.Idx)
				if (x.On[ccR] || x.On[ccP]) && f1+f2 == 0 {
					fail("breach: offered #%d not failed back",
						x.Idx)
				}
				if f1+f2 > 1 {
					dup = true
				}
			}
			if dup {
				labels = append(labels, "breach_dup_fail")
			}

		default:
			c12CheckCommit(sc, conf, broadcast, pre == 2, preHeight,
				obs, byPoint, other, state, st, fail, &labels)
		}

		var smp any
		if st.WantSample() {
			smp = map[string]any{"scenario": sc.sample(),
				"conf": ccConfNames[conf], "pre": pre,
				"close_height": closeHeight,
				"resolvers":    c12Describe(obs.resolvers),
				"fails":        fmt.Sprint(obs.preMsgs, obs.msgs)}
		}
		st.Case(vstats.FP(sc.fp(), conf, pre, closeHeight, preHeight,
			stale), sc.nontrivial(), labels, smp)
	})
}

func c12Describe(rs []ContractResolver) string {
	var out []string
	for _, r := range rs {
		d := c12ResolverKind(r)
		if hr, ok := r.(htlcContractResolver); ok {
			d += fmt.Sprintf("@%d", hr.HtlcPoint().Index)
		}
		out = append(out, d)
	}
	sort.Strings(out)

	return strings.Join(out, ",")
}

// c12CheckCommit is the per-HTLC reference for a confirmed valid commitment
// C (ours, the peer's current, the peer's pending).
func c12CheckCommit(sc *ccScenario, conf int, broadcast, userTrig bool,
	preHeight uint32, obs *c12Obs, byPoint map[wire.OutPoint][]ContractResolver, other map[string]int,
	state ArbitratorState, st *vstats.Collector,
	fail func(string, ...any), labels *[]string) {

	commit := ccCommitHash(conf)

	// The channel stays in StateWaitingFullResolution exactly as long as
	// a persistent contract (commit output, HTLC output) is unresolved;
	// the anchor resolver is stateless and not tracked by the log.
	persistent := sc.CommitOut
	for i := range sc.HTLCs {
		if sc.HTLCs[i].hasOutput(conf) {
			persistent = true
		}
	}
	if !persistent {
		if state != StateFullyResolved {
			fail("nothing to resolve but state %v", state)
		}
		*labels = append(*labels, "no_contract")
	} else if state != StateWaitingFullResolution {
		fail("state after confirmation: %v", state)
	}

	wantCommit, wantAnchor := 0, 0
	if sc.CommitOut {
		wantCommit = 1
	}
	if sc.ChanKind == 2 {
		wantAnchor = 1
	}
	if other["commitSweep"] != wantCommit || other["anchor"] != wantAnchor ||
		other["breach"] != 0 {

		fail("non-HTLC resolvers %v, want commitSweep=%d anchor=%d",
			other, wantCommit, wantAnchor)
	}

	expectedPoints := map[wire.OutPoint]bool{}
	for i := range sc.HTLCs {
		x := &sc.HTLCs[i]
		dir := "offered"
		if x.Incoming {
			dir = "received"
		}
		preF, _ := c12CountMsgs(obs.preMsgs, x.Idx)
		postF, _ := c12CountMsgs(obs.msgs, x.Idx)
		if x.Incoming {
			preF, postF = 0, 0
		}
		nFinal := 0
		for _, f := range obs.finals {
			if x.Incoming && f.Idx == x.Idx {
				nFinal++
				if f.Settled {
					fail("received #%d recorded as settled",
						x.Idx)
				}
			}
		}

		switch {
		// An output on the confirmed commitment: exactly one
		// resolver of the right direction, and never a fail-back
		// from the confirmation on.
		case x.hasOutput(conf):
			p := wire.OutPoint{Hash: commit, Index: uint32(x.Out[conf])}
			expectedPoints[p] = true
			rs := byPoint[p]
			if len(rs) != 1 {
				fail("%s #%d has output %v: %d resolvers", dir,
					x.Idx, p, len(rs))
			}
			kind := c12ResolverKind(rs[0])
			okKind := kind == "timeout" || kind == "outgoingContest"
			if x.Incoming {
				okKind = kind == "success" ||
					kind == "incomingContest"
			}
			if !okKind {
				fail("%s #%d got a %s resolver", dir, x.Idx, kind)
			}
			*labels = append(*labels, "res="+kind)
			if !x.Incoming && postF != 0 {
				fail("offered #%d has an output on the confirmed "+
					"commitment but was failed back", x.Idx)
			}
			if !x.Incoming && preF != 0 {
				// Failed at broadcast time because it is dust
				// on our own commitment; a different commitment
				// confirmed. lnd documents this trade-off.
				*labels = append(*labels, "prefail_then_output")
			}
			if x.Incoming && nFinal != 0 {
				fail("received #%d has an output but a final "+
					"outcome was recorded by the arbitrator",
					x.Idx)
			}

		// Offered and dust on the confirmed commitment: failed back
		// exactly once.
		case !x.Incoming && x.On[conf] && x.Dust[conf]:
			*labels = append(*labels, "offered_dust")
			c12ExactlyOnce(sc, x, "dust on the confirmed commitment",
				preF, postF, broadcast, userTrig, preHeight, st, fail,
				labels)

		// Offered, not on the confirmed commitment but on another:
		// failed back exactly once unless the preimage is known.
		case !x.Incoming && !x.On[conf] &&
			(x.On[ccL] || x.On[ccR] || x.On[ccP]):

			if x.known() {
				*labels = append(*labels, "dangling_known")
				// If it is dust where it lives it may have been
				// failed at broadcast time already (the dust
				// rule does not look at the preimage); from the
				// confirmation on nothing may be issued.
				if postF != 0 {
					fail("offered #%d only on a non-confirmed "+
						"commitment with known preimage was "+
						"failed back", x.Idx)
				}

				break
			}
			*labels = append(*labels, "dangling")
			// checkRemoteDanglingActions merges the peer's
			// current and pending sets into one map keyed by HTLC
			// index; when the two copies differ in their dust bit
			// the surviving copy (and with it dust-vs-dangling
			// treatment: sent in StateDefault vs in
			// StateContractClosed) depends on Go map iteration
			// order, so 0, 1 or 2 fail-backs can result.
			if conf == ccL && x.On[ccR] && x.On[ccP] &&
				x.Dust[ccR] != x.Dust[ccP] &&
				ccKnown(c12KeyDustBitMapOrder) {

				st.Known(c12KeyDustBitMapOrder)
				st.Count("excluded_known", 1)
				*labels = append(*labels, "known_dust_bit_map_order")

				break
			}
			c12ExactlyOnce(sc, x, "only on a non-confirmed commitment",
				preF, postF, broadcast, userTrig, preHeight, st, fail,
				labels)

		// Received dust: closed out (final outcome), no resolver.
		case x.Incoming && x.On[conf] && x.Dust[conf]:
			*labels = append(*labels, "received_dust")
			if nFinal != 1 {
				fail("received dust #%d: %d final outcomes",
					x.Idx, nFinal)
			}

		// Received, not on the confirmed commitment: nothing.
		case x.Incoming:
			if nFinal != 0 {
				fail("received #%d not on the confirmed "+
					"commitment got a final outcome", x.Idx)
			}
		}
	}
	for p, rs := range byPoint {
		if !expectedPoints[p] {
			fail("resolver %s for %v which is no HTLC output",
				c12ResolverKind(rs[0]), p)
		}
	}
}

// c12FailedAtBroadcast reports whether lnd's own rule fails x back at the
// moment we broadcast our commitment (StateDefault step on a chain or user
// trigger, our commitment's view): dust on our commitment (and that
// commitment's HTLCs were acted upon at all), or dangling
// (not on ours), unambiguously dust on the peer's side, inside the broadcast
// window and preimage unknown.
func c12FailedAtBroadcast(sc *ccScenario, x *ccHTLC, userTrig bool,
	preHeight uint32) bool {

	if x.On[ccL] {
		// On a chain trigger the HTLCs of our commitment only get
		// actions if one of them forces us on chain (if only a
		// dangling HTLC did, the local set yields no actions).
		must, _, _ := c12Band(sc, preHeight)

		return x.Dust[ccL] && (userTrig || must)
	}
	dustEverywhere := true
	for _, s := range []int{ccR, ccP} {
		if x.On[s] && !x.Dust[s] {
			dustEverywhere = false
		}
	}
	inWindow := preHeight+sc.DeltaOut >= x.Expiry &&
		(x.Fwd || sc.graceOver())

	return dustEverywhere && inWindow && !x.known()
}

// c12ExactlyOnce checks the exactly-once fail-back of an offered HTLC that
// has no output on the confirmed commitment.
func c12ExactlyOnce(sc *ccScenario, x *ccHTLC, what string, preF, postF int,
	broadcast, userTrig bool, preHeight uint32, st *vstats.Collector,
	fail func(string, ...any), labels *[]string) {

	total := preF + postF
	if total == 1 {
		return
	}
	if total == 0 && broadcast &&
		!c12FailedAtBroadcast(sc, x, userTrig, preHeight) {

		// Known finding: after we broadcast our own commitment
		// (chain or user trigger) the dust fail-backs of the
		// commitment that eventually confirms are recomputed but
		// never sent (StateContractClosed ignores
		// HtlcFailDustAction). Only HTLCs that were not in the dust
		// set at broadcast time fall into this class; every other
		// missing or duplicate fail-back is reported.
		if ccKnown(c12KeyDustAfterBroadcast) {
			st.Known(c12KeyDustAfterBroadcast)
			st.Count("excluded_known", 1)
			*labels = append(*labels, "known_dust_after_broadcast")

			return
		}
	}
	fail("offered #%d (%s): failed back %d times (before "+
		"confirmation %d, from confirmation on %d), want exactly 1",
		x.Idx, what, total, preF, postF)
}
