//go:build verif

package contractcourt

// C04 extension: "... using only what the node has PERSISTED ...". The breach
// arbitrator writes the retributionInfo of a detected breach into its
// RetributionStore and, after a restart, signs the justice transactions from
// the info it reloads with ForAll (BreachArbitrator.Start -> exactRetribution).
// This file drives that persistence with real revoked states:
//
//   - 1..3 simulated channels (chansim, all channel types) give the revoked
//     commitments of one node (one drawn side per channel) together with the
//     second-level transactions the cheater could still confirm;
//   - every revoked state is turned into a retributionInfo the way
//     handleBreachHandoff does (NewBreachRetribution -> newRetributionInfo)
//     and Added to a RetributionStore on a real bbolt file, interleaved with
//     generated Remove / overwrite / re-open operations (new store object on
//     the open DB, or DB closed and the file opened again);
//   - after every re-open the store content is loaded with ForAll and
//     (1) every justice transaction variant built from the RELOADED info is
//     validated input by input with btcd's interpreter against the actual
//     outputs of the revoked commitment (and, after updateBreachInfo with the
//     cheater's second-level transactions, against those), is byte-identical
//     to the one built from a fresh in-memory info, and spends exactly the
//     outputs the bookkeeping model assigns value to; the reloaded commit
//     hash / channel point / chain hash / breach height equal the values the
//     harness put in;
//     (2) ForAll and IsBreached report exactly the model set.

import (
	"bytes"
	"fmt"
	"os"
	"path/filepath"
	"sort"
	"strings"
	"testing"

	"github.com/btcsuite/btcd/btcutil/v2"
	"github.com/btcsuite/btcd/chainhash/v2"
	"github.com/btcsuite/btcd/wire/v2"
	"github.com/lightningnetwork/lnd/chainntnfs"
	"github.com/lightningnetwork/lnd/fn/v2"
	"github.com/lightningnetwork/lnd/input"
	"github.com/lightningnetwork/lnd/internal/verif/chansim"
	"github.com/lightningnetwork/lnd/internal/verif/vstats"
	"github.com/lightningnetwork/lnd/kvdb"
	"github.com/lightningnetwork/lnd/lnwallet"
	"github.com/lightningnetwork/lnd/tlv"
	"pgregory.net/rapid"
)

const c04xLeaseKey = "C04:lease-initiator-to-remote-cltv"

// c04xChan is one channel of the node under test: the simulator, the side the
// node plays (victim) and the commitments the counterparty revoked.
type c04xChan struct {
	ix        int
	s         *chansim.Sim
	p         chansim.Params
	victim    int
	revs      []*c04Revoked
	chanPoint wire.OutPoint
	chainHash chainhash.Hash
	reloads   int
}

// c04xRunChannel runs one generated channel history and collects the
// commitments revoked by the counterparty of the drawn victim side (same
// hooks as TestVerifC04Breach).
func c04xRunChannel(t *rapid.T, ix, maxSteps int) (*c04xChan, error) {
	p := chansim.DrawParams(t, nil)
	s := chansim.New(t, p)
	c := &c04xChan{ix: ix, s: s, p: p}
	c.victim = rapid.IntRange(0, 1).Draw(t, "victim")

	pendingSecond := map[[2]uint64]map[uint32]*wire.MsgTx{}
	var hookErr error
	s.OnBeforeRevoke = func(y int, h uint64) {
		if y != 1-c.victim {
			return
		}
		_, second, err := s.SecondLevelTxs(y)
		if err != nil {
			hookErr = fmt.Errorf("harness: cheater force close: %v", err)
			return
		}
		pendingSecond[[2]uint64{uint64(y), h}] = second
	}
	s.OnRevoked = func(x int, h uint64, tx *wire.MsgTx) {
		if x != c.victim {
			return
		}
		y := 1 - x
		var e *chansim.Expected
		if h == 0 {
			e = s.Expect(y, 0, [2]int{})
		} else {
			rec := s.M.Sigs[x][h-1]
			var cov [2]int
			cov[rec.Signer] = rec.Own
			cov[1-rec.Signer] = rec.Their
			e = s.Expect(y, h, cov)
		}
		c.revs = append(c.revs, &c04Revoked{
			victim: x, height: h, tx: tx,
			second: pendingSecond[[2]uint64{uint64(y), h}],
			exp:    e,
		})
	}
	minSteps := 12
	if minSteps > maxSteps {
		minSteps = maxSteps
	}
	err := s.Run(t, chansim.RunOpts{
		MinSteps: minSteps, MaxSteps: maxSteps, Cuts: true, CutWeight: 1,
		AfterStep: func(*chansim.Sim, string) error { return hookErr },
		AfterCut: func(*chansim.Sim, *chansim.RetransmitReport) error {
			c.reloads++
			return nil
		},
	})
	if err != nil {
		return c, err
	}
	state, err := s.Sides[c.victim].FetchState()
	if err != nil {
		return c, fmt.Errorf("harness: fetch: %v", err)
	}
	c.chanPoint = state.FundingOutpoint
	c.chainHash = state.ChainHash

	return c, nil
}

func (c *c04xChan) name() string {
	return fmt.Sprintf("chan%d(%s,%s)", c.ix, c.p.TypeName,
		c.s.Sides[c.victim].Name)
}

// memInfo builds a fresh in-memory retributionInfo for revoked state r the way
// handleBreachHandoff does: NewBreachRetribution from the victim's database
// (fetched afresh) and newRetributionInfo. A fresh one is needed for every use:
// signing and updateBreachInfo mutate the sign descriptors.
func (c *c04xChan) memInfo(r *c04Revoked, withTx bool,
	breachHeight uint32) (*retributionInfo, *lnwallet.BreachRetribution, error) {

	state, err := c.s.Sides[c.victim].FetchState()
	if err != nil {
		return nil, nil, fmt.Errorf("harness: fetch: %v", err)
	}
	var spendTx *wire.MsgTx
	if withTx {
		spendTx = r.tx
	}
	rt, err := lnwallet.NewBreachRetribution(
		state, r.height, breachHeight, spendTx,
		fn.Some[lnwallet.AuxLeafStore](&lnwallet.MockAuxLeafStore{}),
		fn.None[lnwallet.AuxContractResolver](),
	)
	if err != nil {
		return nil, nil, err
	}
	cp := state.FundingOutpoint

	return newRetributionInfo(&cp, rt), rt, nil
}

func (c *c04xChan) brar() *BreachArbitrator {
	return NewBreachArbitrator(&BreachConfig{
		Estimator: c04Estimator{},
		GenSweepScript: func() fn.Result[lnwallet.AddrWithKey] {
			return fn.Ok(lnwallet.AddrWithKey{
				DeliveryAddress: append([]byte{0x00, 0x14},
					make([]byte, 20)...),
			})
		},
		Signer: c.s.Sides[c.victim].Signer,
	})
}

// c04xEntry is what the model knows about one stored retribution.
type c04xEntry struct {
	c            *c04xChan
	rev          int
	withTx       bool
	breachHeight uint32
	// verified is set once this very entry was validated after a re-open.
	verified bool
}

type c04xStats struct {
	reloadedVerified, txsCompared, inputs, secondLevel, multiSecond int
	htlcReloaded, tapHtlcReloaded, leaseExcluded, setChecks         int
	dbReopens, handleReopens, overwrites, removes, removeAbsent     int
	fromLog, maxCoexist, emptyBlobDropped                           int
	htlcAfterDBReopen                                               bool
}

func c04xSerialize(tx *wire.MsgTx) []byte {
	var b bytes.Buffer
	_ = tx.Serialize(&b)
	return b.Bytes()
}

// c04xStore is the store under test plus the bolt file it lives in.
type c04xStore struct {
	path string
	db   kvdb.Backend
	rs   *RetributionStore
}

func (st *c04xStore) open() error {
	db, err := ccOpenDB(st.path)
	if err != nil {
		return fmt.Errorf("harness: open bolt: %v", err)
	}
	st.db = db
	st.rs = NewRetributionStore(db)
	return nil
}

func (st *c04xStore) close() {
	if st.db != nil {
		_ = st.db.Close()
		st.db = nil
	}
}

// load returns everything ForAll yields, in order.
func (st *c04xStore) load() ([]*retributionInfo, error) {
	var out []*retributionInfo
	err := st.rs.ForAll(func(ri *retributionInfo) error {
		out = append(out, ri)
		return nil
	}, func() { out = nil })

	return out, err
}

// c04xAlignEmptyBlobs makes "no resolution blob" and "empty resolution blob"
// the same thing on the in-memory side. Without an aux contract resolver
// NewBreachRetribution yields Some(nil) for the commitment outputs'
// resolution blobs (fn.MapOptionZ's zero Result is Ok(nil)); the store does
// not keep that for non-taproot channels, so the reloaded output has None.
// The blob carries no data either way; its only effect is that createSweepTx
// reserves the weight of a second P2TR output (172 wu) in the fee estimate, so
// the transactions would differ in the fee by at most one P2TR output. A
// non-empty blob (never produced here) must survive the reload as is.
func c04xAlignEmptyBlobs(mem, rel *retributionInfo) (int, error) {
	empty := func(o fn.Option[tlv.Blob]) bool {
		return len(o.UnwrapOr(nil)) == 0
	}
	n := 0
	for i := range mem.breachedOutputs {
		m := &mem.breachedOutputs[i]
		for j := range rel.breachedOutputs {
			r := &rel.breachedOutputs[j]
			if r.outpoint != m.outpoint {
				continue
			}
			switch {
			case empty(m.resolutionBlob) && empty(r.resolutionBlob):
				if m.resolutionBlob.IsSome() != r.resolutionBlob.IsSome() {
					n++
				}
				m.resolutionBlob = r.resolutionBlob

			case !bytes.Equal(m.resolutionBlob.UnwrapOr(nil),
				r.resolutionBlob.UnwrapOr(nil)):

				return n, fmt.Errorf("resolution blob of %v: "+
					"persisted %x, reloaded %x", m.outpoint,
					m.resolutionBlob.UnwrapOr(nil),
					r.resolutionBlob.UnwrapOr(nil))
			}
		}
	}

	return n, nil
}

// c04xDescribe renders the inputs a justice tx was built from.
func c04xDescribe(jc *justiceTxCtx) string {
	var parts []string
	for _, in := range jc.inputs {
		parts = append(parts, fmt.Sprintf("%v:%v=%d", in.OutPoint().Index,
			in.WitnessType(), in.SignDesc().Output.Value))
	}
	return strings.Join(parts, " ")
}

// c04xCompareVariants requires the two sets of justice transactions to be
// byte-identical (witnesses included: the mock signer signs
// deterministically, RFC6979 / BIP340 default nonces).
func c04xCompareVariants(what string, rel, mem *justiceTxVariants) (int, error) {
	n := 0
	cmp := func(v string, a, b *justiceTxCtx) error {
		if (a == nil) != (b == nil) {
			return fmt.Errorf("%s: %s exists from reloaded info: %v, "+
				"from in-memory info: %v", what, v, a != nil, b != nil)
		}
		if a == nil {
			return nil
		}
		n++
		ab, bb := c04xSerialize(a.justiceTx), c04xSerialize(b.justiceTx)
		if !bytes.Equal(ab, bb) {
			return fmt.Errorf("%s: %s built from the reloaded "+
				"retribution differs from the one built from the "+
				"in-memory retribution:\n reloaded  %x\n   %s\n "+
				"in-memory %x\n   %s", what, v, ab, c04xDescribe(a), bb,
				c04xDescribe(b))
		}
		if a.fee != b.fee {
			return fmt.Errorf("%s: %s fee %v vs %v", what, v, a.fee,
				b.fee)
		}
		return nil
	}
	if err := cmp("spendAll", rel.spendAll, mem.spendAll); err != nil {
		return n, err
	}
	err := cmp("spendCommitOuts", rel.spendCommitOuts, mem.spendCommitOuts)
	if err != nil {
		return n, err
	}
	if err := cmp("spendHTLCs", rel.spendHTLCs, mem.spendHTLCs); err != nil {
		return n, err
	}
	if len(rel.spendSecondLevelHTLCs) != len(mem.spendSecondLevelHTLCs) {
		return n, fmt.Errorf("%s: %d second-level justice txs from the "+
			"reloaded info, %d from the in-memory info", what,
			len(rel.spendSecondLevelHTLCs),
			len(mem.spendSecondLevelHTLCs))
	}
	for i := range rel.spendSecondLevelHTLCs {
		err := cmp(fmt.Sprintf("spendSecondLevelHTLCs[%d]", i),
			rel.spendSecondLevelHTLCs[i], mem.spendSecondLevelHTLCs[i])
		if err != nil {
			return n, err
		}
	}

	return n, nil
}

// c04xValidate runs the interpreter over every input of a justice tx against
// prevs (the real previous outputs). leaseSkip is the victim's own to_remote
// outpoint when the known lease finding applies to it.
func c04xValidate(what string, jc *justiceTxCtx,
	prevs map[wire.OutPoint]*wire.TxOut, leaseSkip *wire.OutPoint,
	st *c04xStats) error {

	if jc == nil {
		return nil
	}
	tx := jc.justiceTx
	fetcher := newMultiFetcher(prevs)
	for i, in := range tx.TxIn {
		prev, ok := prevs[in.PreviousOutPoint]
		if !ok {
			return fmt.Errorf("%s: input %v is not an unspent output of "+
				"the revoked commitment / second-level txs", what,
				in.PreviousOutPoint)
		}
		if leaseSkip != nil && in.PreviousOutPoint == *leaseSkip {
			st.leaseExcluded++
			continue
		}
		if err := verifyWithFetcher(tx, i, prev, fetcher); err != nil {
			return fmt.Errorf("%s: input %d (%v, %d sat) witness "+
				"invalid: %v", what, i, in.PreviousOutPoint, prev.Value,
				err)
		}
		st.inputs++
	}

	return nil
}

// c04xSpends builds the spend notifications for the cheater confirming the
// second-level transactions of commitment outputs idxs.
func c04xSpends(info *retributionInfo, r *c04Revoked, idxs []uint32) (
	[]spend, error) {

	txid := r.tx.TxHash()
	var spends []spend
	for _, idx := range idxs {
		stx := r.second[idx]
		found := false
		for i := range info.breachedOutputs {
			bo := &info.breachedOutputs[i]
			if bo.outpoint.Hash != txid || bo.outpoint.Index != idx {
				continue
			}
			h := stx.TxHash()
			op := bo.outpoint
			spends = append(spends, spend{
				index: i,
				detail: &chainntnfs.SpendDetail{
					SpentOutPoint:     &op,
					SpenderTxHash:     &h,
					SpendingTx:        stx,
					SpenderInputIndex: 0,
					SpendingHeight:    int32(info.breachHeight) + 1,
				},
			})
			found = true
		}
		if !found {
			return nil, fmt.Errorf("HTLC output %d advanced by the "+
				"cheater is not among the breached outputs", idx)
		}
	}

	return spends, nil
}

// c04xVerifyEntry checks one reloaded retribution against its model entry.
// reload returns a fresh copy of the same stored retribution (another ForAll
// pass) for the scenarios that mutate it.
func c04xVerifyEntry(t *rapid.T, e *c04xEntry, rel *retributionInfo,
	reload func() (*retributionInfo, error), afterDBReopen bool,
	st *c04xStats) error {

	c := e.c
	r := c.revs[e.rev]
	x := c.victim
	y := 1 - x
	tag := "with-tx"
	if !e.withTx {
		tag = "from-log-only"
	}
	name := fmt.Sprintf("%s revoked height %d [%s] reloaded from the "+
		"retribution store", c.name(), r.height, tag)

	// What Start() uses after the restart.
	txid := r.tx.TxHash()
	switch {
	case rel.commitHash != txid:
		return fmt.Errorf("%s: commit hash %v, revoked tx is %v", name,
			rel.commitHash, txid)
	case rel.chanPoint != c.chanPoint:
		return fmt.Errorf("%s: chan point %v, stored under %v", name,
			rel.chanPoint, c.chanPoint)
	case rel.chainHash != c.chainHash:
		return fmt.Errorf("%s: chain hash %v, channel's is %v", name,
			rel.chainHash, c.chainHash)
	case rel.breachHeight != e.breachHeight:
		return fmt.Errorf("%s: breach height %d, persisted %d", name,
			rel.breachHeight, e.breachHeight)
	}

	prevs := map[wire.OutPoint]*wire.TxOut{}
	for i, o := range r.tx.TxOut {
		prevs[wire.OutPoint{Hash: txid, Index: uint32(i)}] = o
	}

	mem, rt, err := c.memInfo(r, e.withTx, e.breachHeight)
	if err != nil {
		return fmt.Errorf("%s: harness: in-memory retribution: %v", name,
			err)
	}
	var leaseSkip *wire.OutPoint
	if c.p.ChanType.HasLeaseExpiration() && c.p.Opener() == x &&
		rt.LocalOutputSignDesc != nil && vstats.IsKnown(c04xLeaseKey) {

		op := rt.LocalOutpoint
		leaseSkip = &op
	}

	// The reloaded outputs must describe real outputs of the revoked tx.
	nHtlc, nTapHtlc := 0, 0
	for i := range rel.breachedOutputs {
		bo := &rel.breachedOutputs[i]
		prev, ok := prevs[bo.outpoint]
		if !ok {
			return fmt.Errorf("%s: reloaded outpoint %v does not exist "+
				"on the revoked tx", name, bo.outpoint)
		}
		if bo.signDesc.Output == nil ||
			prev.Value != bo.signDesc.Output.Value ||
			!bytes.Equal(prev.PkScript, bo.signDesc.Output.PkScript) ||
			int64(bo.amt) != prev.Value {

			return fmt.Errorf("%s: reloaded output %v (amt %d) does not "+
				"match the actual output (%d sat)", name, bo.outpoint,
				bo.amt, prev.Value)
		}
		switch bo.witnessType {
		case input.HtlcAcceptedRevoke, input.HtlcOfferedRevoke:
			nHtlc++
		case input.TaprootHtlcAcceptedRevoke,
			input.TaprootHtlcOfferedRevoke:

			nHtlc++
			nTapHtlc++
		}
	}

	nb, err := c04xAlignEmptyBlobs(mem, rel)
	st.emptyBlobDropped += nb
	if err != nil {
		return fmt.Errorf("%s: %v", name, err)
	}

	brar := c.brar()
	relTxs, err := brar.createJusticeTx(rel.breachedOutputs)
	if err != nil {
		return fmt.Errorf("%s: createJusticeTx: %v", name, err)
	}
	memTxs, err := brar.createJusticeTx(mem.breachedOutputs)
	if err != nil {
		return fmt.Errorf("%s: harness: createJusticeTx from the "+
			"in-memory info: %v", name, err)
	}
	for _, v := range []struct {
		what string
		jc   *justiceTxCtx
	}{
		{"spendAll", relTxs.spendAll},
		{"spendCommitOuts", relTxs.spendCommitOuts},
		{"spendHTLCs", relTxs.spendHTLCs},
	} {
		err := c04xValidate(name+" "+v.what, v.jc, prevs, leaseSkip, st)
		if err != nil {
			return err
		}
	}
	n, err := c04xCompareVariants(name, relTxs, memTxs)
	st.txsCompared += n
	if err != nil {
		return err
	}

	// Completeness against the bookkeeping model (as in c04Check).
	ex := r.exp
	var want, got []int64
	if v := btcutil.Amount(uint64(ex.Stored[y]) / 1000); v >= c.p.Dust[y] {
		want = append(want, int64(v))
	}
	if v := btcutil.Amount(uint64(ex.Stored[x]) / 1000); v >= c.p.Dust[y] {
		want = append(want, int64(v))
	}
	for _, h := range ex.NonDust {
		want = append(want, int64(uint64(h.Amt)/1000))
	}
	if relTxs.spendAll != nil {
		for _, in := range relTxs.spendAll.justiceTx.TxIn {
			got = append(got, prevs[in.PreviousOutPoint].Value)
		}
	}
	sort.Slice(want, func(i, j int) bool { return want[i] < want[j] })
	sort.Slice(got, func(i, j int) bool { return got[i] < got[j] })
	if fmt.Sprint(want) != fmt.Sprint(got) {
		return fmt.Errorf("%s: justice tx spends outputs %v, the revoked "+
			"commitment holds %v (to_local, to_remote, non-dust HTLCs)",
			name, got, want)
	}

	// Second level: the cheater confirms second-level transactions after
	// the restart; lnd's loop applies updateBreachInfo to the reloaded
	// info. One scenario per available second-level tx, plus one drawn
	// subset of several at once.
	var idxs []uint32
	for idx := range r.second {
		idxs = append(idxs, idx)
	}
	sort.Slice(idxs, func(i, j int) bool { return idxs[i] < idxs[j] })
	scenarios := make([][]uint32, 0, len(idxs)+1)
	for _, idx := range idxs {
		scenarios = append(scenarios, []uint32{idx})
	}
	if len(idxs) >= 2 {
		var sub []uint32
		for _, idx := range idxs {
			if rapid.Bool().Draw(t, "advance") {
				sub = append(sub, idx)
			}
		}
		if len(sub) >= 2 {
			scenarios = append(scenarios, sub)
		}
	}
	for _, sc := range scenarios {
		sname := fmt.Sprintf("%s, cheater advanced HTLC outputs %v", name,
			sc)
		rel2, err := reload()
		if err != nil {
			return fmt.Errorf("%s: %v", sname, err)
		}
		mem2, _, err := c.memInfo(r, e.withTx, e.breachHeight)
		if err != nil {
			return fmt.Errorf("%s: harness: %v", sname, err)
		}
		if _, err := c04xAlignEmptyBlobs(mem2, rel2); err != nil {
			return fmt.Errorf("%s: %v", sname, err)
		}
		relSpends, err := c04xSpends(rel2, r, sc)
		if err != nil {
			return fmt.Errorf("%s: reloaded: %v", sname, err)
		}
		memSpends, err := c04xSpends(mem2, r, sc)
		if err != nil {
			return fmt.Errorf("%s: harness: in-memory: %v", sname, err)
		}
		updateBreachInfo(rel2, relSpends)
		updateBreachInfo(mem2, memSpends)
		relTxs2, err := brar.createJusticeTx(rel2.breachedOutputs)
		if err != nil {
			return fmt.Errorf("%s: createJusticeTx: %v", sname, err)
		}
		memTxs2, err := brar.createJusticeTx(mem2.breachedOutputs)
		if err != nil {
			return fmt.Errorf("%s: harness: createJusticeTx: %v", sname,
				err)
		}
		if len(relTxs2.spendSecondLevelHTLCs) != len(sc) {
			return fmt.Errorf("%s: %d second-level justice txs", sname,
				len(relTxs2.spendSecondLevelHTLCs))
		}
		prevs2 := map[wire.OutPoint]*wire.TxOut{}
		for k, v := range prevs {
			prevs2[k] = v
		}
		for _, idx := range sc {
			stx := r.second[idx]
			sh := stx.TxHash()
			for i, o := range stx.TxOut {
				prevs2[wire.OutPoint{Hash: sh, Index: uint32(i)}] = o
			}
			delete(prevs2, wire.OutPoint{Hash: txid, Index: idx})
		}
		vs := []struct {
			what string
			jc   *justiceTxCtx
		}{
			{"spendAll", relTxs2.spendAll},
			{"spendCommitOuts", relTxs2.spendCommitOuts},
			{"spendHTLCs", relTxs2.spendHTLCs},
		}
		for i, jc := range relTxs2.spendSecondLevelHTLCs {
			vs = append(vs, struct {
				what string
				jc   *justiceTxCtx
			}{fmt.Sprintf("second-level revoke %d", i), jc})
		}
		for _, v := range vs {
			err := c04xValidate(sname+" "+v.what, v.jc, prevs2,
				leaseSkip, st)
			if err != nil {
				return err
			}
		}
		n, err := c04xCompareVariants(sname, relTxs2, memTxs2)
		st.txsCompared += n
		if err != nil {
			return err
		}
		st.secondLevel++
		if len(sc) > 1 {
			st.multiSecond++
		}
	}

	st.reloadedVerified++
	if nHtlc > 0 {
		st.htlcReloaded++
		if afterDBReopen {
			st.htlcAfterDBReopen = true
		}
	}
	if nTapHtlc > 0 {
		st.tapHtlcReloaded++
	}
	if !e.withTx {
		st.fromLog++
	}
	e.verified = true

	return nil
}

// c04xCheckSet requires ForAll and IsBreached to report exactly the model.
func c04xCheckSet(store *c04xStore, model map[wire.OutPoint]*c04xEntry,
	absent []wire.OutPoint, when string, st *c04xStats) (
	map[wire.OutPoint]*retributionInfo, error) {

	infos, err := store.load()
	if err != nil {
		return nil, fmt.Errorf("%s: ForAll: %v", when, err)
	}
	got := map[wire.OutPoint]*retributionInfo{}
	for _, ri := range infos {
		if _, dup := got[ri.chanPoint]; dup {
			return nil, fmt.Errorf("%s: ForAll yields channel %v twice",
				when, ri.chanPoint)
		}
		if _, ok := model[ri.chanPoint]; !ok {
			return nil, fmt.Errorf("%s: ForAll yields a retribution for "+
				"%v which was removed / never added", when, ri.chanPoint)
		}
		got[ri.chanPoint] = ri
	}
	for cp := range model {
		if _, ok := got[cp]; !ok {
			return nil, fmt.Errorf("%s: retribution of channel %v was "+
				"added but ForAll does not yield it", when, cp)
		}
		cp := cp
		ok, err := store.rs.IsBreached(&cp)
		if err != nil || !ok {
			return nil, fmt.Errorf("%s: IsBreached(%v) = %v, %v for a "+
				"stored retribution", when, cp, ok, err)
		}
	}
	for i := range absent {
		if _, ok := model[absent[i]]; ok {
			continue
		}
		ok, err := store.rs.IsBreached(&absent[i])
		if err != nil || ok {
			return nil, fmt.Errorf("%s: IsBreached(%v) = %v, %v for a "+
				"channel without stored retribution", when, absent[i],
				ok, err)
		}
	}
	st.setChecks++

	return got, nil
}

func TestVerifC04RetributionStore(t *testing.T) {
	st := vstats.New("TestVerifC04RetributionStore")
	defer st.Flush()
	maxSteps := vstats.EnvInt("VERIF_STEPS", 30)
	maxChans := vstats.EnvInt("VERIF_CHANS", 3)

	rapid.Check(t, func(t *rapid.T) {
		nChans := rapid.IntRange(1, maxChans).Draw(t, "nChans")
		var (
			chans  []*c04xChan
			traces []string
			params []string
		)
		defer func() {
			for _, c := range chans {
				c.s.Close()
			}
		}()
		fail := func(err error) {
			var sb strings.Builder
			for _, c := range chans {
				fmt.Fprintf(&sb, "\n%s params: %v\ntrace:\n  %s",
					c.name(), c.p, strings.Join(c.s.Trace, "\n  "))
			}
			t.Fatalf("%v%s", err, sb.String())
		}
		for i := 0; i < nChans; i++ {
			c, err := c04xRunChannel(t, i, maxSteps)
			chans = append(chans, c)
			if err != nil {
				fail(err)
			}
			params = append(params, c.p.String())
			traces = append(traces, strings.Join(c.s.Trace, "|"))
		}
		// Channels with the same funding outpoint (equal seeds, only
		// when shrinking) cannot live in one store: keep the first.
		seen := map[wire.OutPoint]bool{}
		var live []*c04xChan
		for _, c := range chans {
			if seen[c.chanPoint] {
				continue
			}
			seen[c.chanPoint] = true
			live = append(live, c)
		}

		dir, err := os.MkdirTemp("", "c04x-retstore-")
		if err != nil {
			t.Fatalf("harness: tempdir: %v", err)
		}
		defer os.RemoveAll(dir)
		store := &c04xStore{path: filepath.Join(dir, "retribution.db")}
		if err := store.open(); err != nil {
			t.Fatalf("%v", err)
		}
		defer store.close()

		var (
			stats  c04xStats
			model  = map[wire.OutPoint]*c04xEntry{}
			absent []wire.OutPoint
			ops    []string
		)
		for _, c := range live {
			absent = append(absent, c.chanPoint, wire.OutPoint{
				Hash: c.chanPoint.Hash, Index: c.chanPoint.Index + 1,
			})
		}

		add := func(c *c04xChan, rev int) error {
			r := c.revs[rev]
			// Without stored amount data only the with-tx form
			// exists (the other is ErrRevLogDataMissing; checked by
			// TestVerifC04Breach).
			withTx := true
			if !c.p.NoAmtData {
				withTx = rapid.IntRange(0, 3).Draw(t, "fromLog") != 0
			}
			var bh uint32
			switch rapid.IntRange(0, 3).Draw(t, "breachHeightKind") {
			case 0:
				bh = uint32(rapid.Uint32().Draw(t, "breachHeight"))
			default:
				bh = uint32(rapid.IntRange(1, 900_000).Draw(t,
					"breachHeight"))
			}
			info, _, err := c.memInfo(r, withTx, bh)
			if err != nil {
				return fmt.Errorf("%s: NewBreachRetribution(height %d, "+
					"withTx=%v): %v", c.name(), r.height, withTx, err)
			}
			if _, ok := model[c.chanPoint]; ok {
				stats.overwrites++
			}
			if err := store.rs.Add(info); err != nil {
				return fmt.Errorf("%s: RetributionStore.Add(height %d): "+
					"%v", c.name(), r.height, err)
			}
			model[c.chanPoint] = &c04xEntry{
				c: c, rev: rev, withTx: withTx, breachHeight: bh,
			}
			ops = append(ops, fmt.Sprintf("add(chan%d,h=%d,withTx=%v,"+
				"bh=%d)", c.ix, r.height, withTx, bh))
			if n := len(model); n > stats.maxCoexist {
				stats.maxCoexist = n
			}
			return nil
		}
		remove := func(cp wire.OutPoint) error {
			_, present := model[cp]
			err := store.rs.Remove(&cp)
			if present {
				if err != nil {
					return fmt.Errorf("Remove(%v) of a stored "+
						"retribution: %v", cp, err)
				}
				delete(model, cp)
				stats.removes++
			} else {
				// Removing what is not there: only the effect
				// (none) is checked, not the error value.
				stats.removeAbsent++
			}
			ops = append(ops, fmt.Sprintf("remove(%v,present=%v)", cp.Index,
				present))
			return nil
		}
		// reopen simulates the restart. kind 0: DB closed, file opened
		// again; kind 1: a new store object on the open DB.
		reopen := func() (bool, error) {
			if rapid.IntRange(0, 3).Draw(t, "reopenKind") == 0 {
				store.rs = NewRetributionStore(store.db)
				stats.handleReopens++
				ops = append(ops, "new-store-object")
				return false, nil
			}
			store.close()
			if err := store.open(); err != nil {
				return false, err
			}
			stats.dbReopens++
			ops = append(ops, "db-reopen")
			return true, nil
		}
		verifyAll := func(dbReopened bool) error {
			got, err := c04xCheckSet(store, model, absent,
				"after re-open", &stats)
			if err != nil {
				return err
			}
			// deterministic order: by channel index
			for _, c := range live {
				e, ok := model[c.chanPoint]
				if !ok {
					continue
				}
				cp := c.chanPoint
				reload := func() (*retributionInfo, error) {
					infos, err := store.load()
					if err != nil {
						return nil, fmt.Errorf("ForAll: %v", err)
					}
					for _, ri := range infos {
						if ri.chanPoint == cp {
							return ri, nil
						}
					}
					return nil, fmt.Errorf("retribution of %v "+
						"vanished", cp)
				}
				err := c04xVerifyEntry(t, e, got[cp], reload,
					dbReopened, &stats)
				if err != nil {
					return err
				}
			}
			return nil
		}

		layers := 0
		for _, c := range live {
			if len(c.revs) > layers {
				layers = len(c.revs)
			}
		}
		run := func() error {
			for k := 0; k < layers; k++ {
				for _, c := range live {
					if k < len(c.revs) {
						if err := add(c, k); err != nil {
							return err
						}
					}
				}
				nExtra := rapid.IntRange(0, 3).Draw(t, "extraOps")
				for i := 0; i < nExtra; i++ {
					c := live[rapid.IntRange(0, len(live)-1).Draw(t,
						"opChan")]
					switch rapid.IntRange(0, 3).Draw(t, "opKind") {
					case 0, 1:
						// remove (present or absent)
						if err := remove(c.chanPoint); err != nil {
							return err
						}
					case 2:
						// (re-)add an earlier state of the channel
						if len(c.revs) == 0 {
							continue
						}
						hi := k
						if hi > len(c.revs)-1 {
							hi = len(c.revs) - 1
						}
						rev := rapid.IntRange(0, hi).Draw(t, "rev")
						if err := add(c, rev); err != nil {
							return err
						}
					case 3:
						err := remove(wire.OutPoint{
							Hash:  c.chanPoint.Hash,
							Index: c.chanPoint.Index + 1,
						})
						if err != nil {
							return err
						}
					}
					_, err := c04xCheckSet(store, model, absent,
						"after "+ops[len(ops)-1], &stats)
					if err != nil {
						return err
					}
				}
				dbReopened, err := reopen()
				if err != nil {
					return err
				}
				if err := verifyAll(dbReopened); err != nil {
					return err
				}
			}
			// Justice served for every channel: remove one by one.
			for _, c := range live {
				if _, ok := model[c.chanPoint]; !ok {
					continue
				}
				if err := remove(c.chanPoint); err != nil {
					return err
				}
				_, err := c04xCheckSet(store, model, absent,
					"after final "+ops[len(ops)-1], &stats)
				if err != nil {
					return err
				}
			}
			if layers > 0 {
				store.close()
				if err := store.open(); err != nil {
					return err
				}
				stats.dbReopens++
				_, err := c04xCheckSet(store, model, absent,
					"after removing everything and re-opening", &stats)
				if err != nil {
					return err
				}
			}
			return nil
		}
		if err := run(); err != nil {
			fail(fmt.Errorf("%v\nstore ops: %s", err,
				strings.Join(ops, " ")))
		}

		st.Count("retributions_reloaded_verified", int64(stats.reloadedVerified))
		st.Count("justice_txs_compared", int64(stats.txsCompared))
		st.Count("justice_inputs_validated", int64(stats.inputs))
		st.Count("second_level_scenarios_on_reloaded", int64(stats.secondLevel))
		st.Count("store_db_reopens", int64(stats.dbReopens))
		st.Count("store_new_object", int64(stats.handleReopens))
		st.Count("store_set_checks", int64(stats.setChecks))
		st.Count("store_removes", int64(stats.removes))
		st.Count("store_overwrites", int64(stats.overwrites))
		if stats.leaseExcluded > 0 {
			st.Known(c04xLeaseKey)
			st.Count("excluded_known", int64(stats.leaseExcluded))
		}

		labels := []string{fmt.Sprintf("chans=%d", len(live))}
		types := map[string]bool{}
		reloads := 0
		for _, c := range live {
			types["type="+c.p.TypeName] = true
			reloads += c.reloads
		}
		for l := range types {
			labels = append(labels, l)
		}
		sort.Strings(labels)
		flag := func(b bool, l string) {
			if b {
				labels = append(labels, l)
			}
		}
		flag(stats.reloadedVerified == 0, "no_revoked_state")
		flag(stats.htlcReloaded > 0, "htlc_outputs_reloaded")
		flag(stats.tapHtlcReloaded > 0, "taproot_htlc_outputs_reloaded")
		flag(stats.secondLevel > 0, "second_level_on_reloaded")
		flag(stats.multiSecond > 0, "several_second_level_at_once")
		flag(stats.fromLog > 0, "from_log_only_retribution")
		flag(stats.maxCoexist >= 2, "several_channels_in_store")
		flag(stats.removes > 0 && stats.maxCoexist >= 2, "remove_among_several")
		flag(stats.overwrites > 0, "overwrite")
		flag(stats.removeAbsent > 0, "remove_absent")
		flag(stats.handleReopens > 0, "new_store_object_same_db")
		flag(stats.dbReopens > 0, "db_closed_and_reopened")
		flag(reloads > 0, "channel_reloaded")
		flag(stats.leaseExcluded > 0, "lease_known_excluded")
		flag(stats.emptyBlobDropped > 0, "empty_resolution_blob_not_persisted")

		nontrivial := stats.htlcAfterDBReopen &&
			(stats.secondLevel > 0 || stats.maxCoexist >= 2)
		var sample map[string]any
		if st.WantSample() {
			o := ops
			if len(o) > 60 {
				o = o[:60]
			}
			sample = map[string]any{
				"params": params, "store_ops": o,
				"reloaded_verified": stats.reloadedVerified,
				"second_level":      stats.secondLevel,
			}
		}
		st.Case(vstats.FP(strings.Join(params, ";"),
			strings.Join(traces, ";"), strings.Join(ops, " ")),
			nontrivial, labels, sample)
	})
}
