//go:build verif

package contractcourt

// C13 level A - the bolt-backed ArbitratorLog as a store.
//
// A generated sequence of CommitState / LogContractResolutions /
// InsertConfirmedCommitSet / InsertUnresolvedContracts(+reports) /
// SwapContract / ResolveContract / Checkpoint (through the closure the log
// hands to restored resolvers) / WipeHistory / reopen is applied to the real
// boltArbitratorLog and to a map model. After every step everything the log
// can return must equal the model: a resolver or its checkpointed progress is
// never lost, duplicated or resurrected, across re-opening the file.
//
// The model renders the persisted fields of every object with its own
// printer (c13Render*), never with the code under test.

import (
	"bytes"
	"encoding/hex"
	"fmt"
	"os"
	"path/filepath"
	"sort"
	"strings"
	"testing"

	"github.com/btcsuite/btcd/btcec/v2"
	"github.com/btcsuite/btcd/chainhash/v2"
	"github.com/btcsuite/btcd/txscript/v2"
	"github.com/btcsuite/btcd/wire/v2"
	"github.com/lightningnetwork/lnd/channeldb"
	"github.com/lightningnetwork/lnd/fn/v2"
	"github.com/lightningnetwork/lnd/input"
	"github.com/lightningnetwork/lnd/internal/verif/vstats"
	"github.com/lightningnetwork/lnd/keychain"
	"github.com/lightningnetwork/lnd/kvdb"
	"github.com/lightningnetwork/lnd/lnwallet"
	"github.com/lightningnetwork/lnd/lnwire"
	"pgregory.net/rapid"
)

// ---- rendering (the model's notion of "what was stored") -----------------

func c13Hex(b []byte) string { return hex.EncodeToString(b) }

func c13RenderTx(tx *wire.MsgTx) string {
	if tx == nil {
		return "nil"
	}
	var b bytes.Buffer
	_ = tx.Serialize(&b)

	return c13Hex(b.Bytes())
}

// c13RenderSignDesc renders the fields a SignDescriptor persists. tap adds
// the taproot-only fields that only the briefcase (not a resolver) keeps.
func c13RenderSignDesc(d *input.SignDescriptor, ctrl bool) string {
	pk := "nil"
	if d.KeyDesc.PubKey != nil {
		pk = c13Hex(d.KeyDesc.PubKey.SerializeCompressed())
	}
	dt := ""
	if d.DoubleTweak != nil {
		dt = c13Hex(d.DoubleTweak.Serialize())
	}
	s := fmt.Sprintf("kd(%d,%d,%s) st=%s dt=%s ws=%s out=(%d,%s) ht=%d",
		d.KeyDesc.Family, d.KeyDesc.Index, pk, c13Hex(d.SingleTweak), dt,
		c13Hex(d.WitnessScript), d.Output.Value,
		c13Hex(d.Output.PkScript), d.HashType)
	if ctrl {
		s += " cb=" + c13Hex(d.ControlBlock)
	}

	return s
}

func c13RenderSignDetails(d *input.SignDetails, ctrl bool) string {
	if d == nil {
		return "nil"
	}

	return fmt.Sprintf("{%s sh=%d sig=%s}",
		c13RenderSignDesc(&d.SignDesc, ctrl), d.SigHashType,
		c13Hex(d.PeerSig.Serialize()))
}

func c13RenderBlob(b fn.Option[[]byte]) string {
	if b.IsNone() {
		return "none"
	}

	return "some:" + c13Hex(b.UnwrapOr(nil))
}

func c13RenderIncoming(r *lnwallet.IncomingHtlcResolution, tap bool) string {
	s := fmt.Sprintf("in{pre=%s tx=%s csv=%d claim=%v sd=[%s] det=%s",
		c13Hex(r.Preimage[:]), c13RenderTx(r.SignedSuccessTx), r.CsvDelay,
		r.ClaimOutpoint, c13RenderSignDesc(&r.SweepSignDesc, tap),
		c13RenderSignDetails(r.SignDetails, tap))
	if tap {
		s += " blob=" + c13RenderBlob(r.ResolutionBlob)
	}

	return s + "}"
}

func c13RenderOutgoing(r *lnwallet.OutgoingHtlcResolution, tap bool) string {
	s := fmt.Sprintf("out{exp=%d tx=%s csv=%d claim=%v sd=[%s] det=%s",
		r.Expiry, c13RenderTx(r.SignedTimeoutTx), r.CsvDelay,
		r.ClaimOutpoint, c13RenderSignDesc(&r.SweepSignDesc, tap),
		c13RenderSignDetails(r.SignDetails, tap))
	if tap {
		s += " blob=" + c13RenderBlob(r.ResolutionBlob)
	}

	return s + "}"
}

func c13RenderCommitRes(r *lnwallet.CommitOutputResolution, tap bool) string {
	if r == nil {
		return "nil"
	}
	s := fmt.Sprintf("commit{op=%v sd=[%s] delay=%d", r.SelfOutPoint,
		c13RenderSignDesc(&r.SelfOutputSignDesc, tap), r.MaturityDelay)
	if tap {
		s += " blob=" + c13RenderBlob(r.ResolutionBlob)
	}

	return s + "}"
}

func c13RenderResolutions(c *ContractResolutions, tap bool) string {
	var b strings.Builder
	fmt.Fprintf(&b, "hash=%v %s", c.CommitHash,
		c13RenderCommitRes(c.CommitResolution, tap))
	for i := range c.HtlcResolutions.IncomingHTLCs {
		b.WriteString(" " + c13RenderIncoming(
			&c.HtlcResolutions.IncomingHTLCs[i], tap))
	}
	for i := range c.HtlcResolutions.OutgoingHTLCs {
		b.WriteString(" " + c13RenderOutgoing(
			&c.HtlcResolutions.OutgoingHTLCs[i], tap))
	}
	if c.AnchorResolution != nil {
		a := c.AnchorResolution
		fmt.Fprintf(&b, " anchor{op=%v sd=[%s]", a.CommitAnchor,
			c13RenderSignDesc(&a.AnchorSignDescriptor, false))
		if tap {
			b.WriteString(" tweak=" +
				c13Hex(a.AnchorSignDescriptor.TapTweak))
		}
		b.WriteString("}")
	} else {
		b.WriteString(" anchor=nil")
	}
	if c.BreachResolution != nil {
		fmt.Fprintf(&b, " breach{%v}", c.BreachResolution.FundingOutPoint)
	} else {
		b.WriteString(" breach=nil")
	}

	return b.String()
}

// c13RenderResolver renders what a resolver must keep across a restart.
func c13RenderResolver(r ContractResolver) string {
	switch v := r.(type) {
	case *htlcTimeoutResolver:
		return "timeout" + c13RenderTimeout(v)
	case *htlcOutgoingContestResolver:
		return "outgoingContest" + c13RenderTimeout(v.htlcTimeoutResolver)
	case *htlcSuccessResolver:
		return "success" + c13RenderSuccess(v)
	case *htlcIncomingContestResolver:
		return fmt.Sprintf("incomingContest[exp=%d]%s", v.htlcExpiry,
			c13RenderSuccess(v.htlcSuccessResolver))
	case *commitSweepResolver:
		return fmt.Sprintf("commitSweep{%s resolved=%v conf=%d cp=%v}",
			c13RenderCommitRes(&v.commitResolution, false),
			v.IsResolved(), v.confirmHeight, v.chanPoint)
	case *breachResolver:
		return fmt.Sprintf("breach{resolved=%v}", v.IsResolved())
	}

	return fmt.Sprintf("unknown %T", r)
}

func c13RenderTimeout(v *htlcTimeoutResolver) string {
	return fmt.Sprintf("{%s incubating=%v resolved=%v bh=%d idx=%d}",
		c13RenderOutgoing(&v.htlcResolution, false), v.outputIncubating,
		v.IsResolved(), v.broadcastHeight, v.htlc.HtlcIndex)
}

func c13RenderSuccess(v *htlcSuccessResolver) string {
	return fmt.Sprintf("{%s incubating=%v resolved=%v bh=%d rhash=%s}",
		c13RenderIncoming(&v.htlcResolution, false), v.outputIncubating,
		v.IsResolved(), v.broadcastHeight, c13Hex(v.htlc.RHash[:]))
}

func c13RenderHTLC(h *channeldb.HTLC) string {
	return fmt.Sprintf("{%s %d %d %d %v %d %d sig=%s onion=%s extra=%s}",
		c13Hex(h.RHash[:]), h.Amt, h.RefundTimeout, h.OutputIndex,
		h.Incoming, h.HtlcIndex, h.LogIndex, c13Hex(h.Signature),
		c13Hex(h.OnionBlob[:8]), c13Hex(h.ExtraData))
}

func c13RenderCommitSet(c *CommitSet) string {
	var keys []string
	for k, hs := range c.HtlcSets {
		var parts []string
		for i := range hs {
			parts = append(parts, c13RenderHTLC(&hs[i]))
		}
		keys = append(keys, fmt.Sprintf("%v=[%s]", k,
			strings.Join(parts, " ")))
	}
	sort.Strings(keys)
	conf := "none"
	c.ConfCommitKey.WhenSome(func(k HtlcSetKey) { conf = k.String() })

	return conf + " " + strings.Join(keys, " ")
}

// ---- generators -----------------------------------------------------------

var c13PubKeys = func() []*btcec.PublicKey {
	var out []*btcec.PublicKey
	for i := byte(1); i <= 3; i++ {
		var k [32]byte
		k[31] = i
		_, pub := btcec.PrivKeyFromBytes(k[:])
		out = append(out, pub)
	}

	return out
}()

func c13Bytes(t *rapid.T, name string, min, max int) []byte {
	return rapid.SliceOfN(rapid.Byte(), min, max).Draw(t, name)
}

func c13GenOutPoint(t *rapid.T, name string) wire.OutPoint {
	// A small universe so that keys collide on purpose.
	var op wire.OutPoint
	op.Hash[0] = byte(rapid.IntRange(1, 3).Draw(t, name+"H"))
	op.Index = uint32(rapid.IntRange(0, 3).Draw(t, name+"I"))

	return op
}

func c13GenSignDesc(t *rapid.T, tap bool) input.SignDescriptor {
	d := input.SignDescriptor{
		KeyDesc: keychain.KeyDescriptor{
			KeyLocator: keychain.KeyLocator{
				Family: keychain.KeyFamily(
					rapid.IntRange(0, 9).Draw(t, "fam"),
				),
				Index: uint32(rapid.IntRange(0, 1<<20).Draw(t, "kidx")),
			},
		},
		WitnessScript: c13Bytes(t, "ws", 0, 40),
		Output: &wire.TxOut{
			Value:    int64(rapid.IntRange(0, 1<<40).Draw(t, "val")),
			PkScript: c13Bytes(t, "pks", 0, 34),
		},
		HashType: txscript.SigHashType(
			rapid.SampledFrom([]int{1, 2, 3, 0x81, 0x83}).Draw(t, "ht"),
		),
	}
	if rapid.Bool().Draw(t, "hasPub") {
		d.KeyDesc.PubKey = rapid.SampledFrom(c13PubKeys).Draw(t, "pub")
	}
	switch rapid.IntRange(0, 2).Draw(t, "tweak") {
	case 1:
		d.SingleTweak = c13Bytes(t, "st", 32, 32)
	case 2:
		var k [32]byte
		k[31] = byte(rapid.IntRange(1, 200).Draw(t, "dt"))
		d.DoubleTweak, _ = btcec.PrivKeyFromBytes(k[:])
	}
	if tap {
		d.ControlBlock = c13Bytes(t, "cb", 33, 65)
	}

	return d
}

func c13GenSignDetails(t *rapid.T, tap bool) *input.SignDetails {
	if !rapid.Bool().Draw(t, "hasDetails") {
		return nil
	}

	return &input.SignDetails{
		SignDesc: c13GenSignDesc(t, tap),
		SigHashType: txscript.SigHashType(
			rapid.SampledFrom([]int{1, 3, 0x83}).Draw(t, "sh"),
		),
		PeerSig: testSig,
	}
}

func c13GenSecondLevelTx(t *rapid.T, prev wire.OutPoint) *wire.MsgTx {
	return &wire.MsgTx{
		Version: 2,
		TxIn: []*wire.TxIn{{
			PreviousOutPoint: prev,
			Witness: wire.TxWitness{
				c13Bytes(t, "w0", 0, 4), c13Bytes(t, "w1", 1, 8),
			},
			Sequence: uint32(rapid.IntRange(0, 5).Draw(t, "seq")),
		}},
		TxOut: []*wire.TxOut{{
			Value:    int64(rapid.IntRange(1, 1<<30).Draw(t, "v2")),
			PkScript: c13Bytes(t, "p2", 1, 34),
		}},
		LockTime: uint32(rapid.IntRange(0, 1<<20).Draw(t, "lt")),
	}
}

func c13GenBlob(t *rapid.T, tap bool) fn.Option[[]byte] {
	if !tap || !rapid.Bool().Draw(t, "hasBlob") {
		return fn.None[[]byte]()
	}

	return fn.Some(c13Bytes(t, "blob", 1, 20))
}

// c13GenOutgoing draws an outgoing HTLC resolution whose HTLC outpoint is
// htlcOp.
func c13GenOutgoing(t *rapid.T, htlcOp wire.OutPoint,
	tap bool) lnwallet.OutgoingHtlcResolution {

	r := lnwallet.OutgoingHtlcResolution{
		Expiry:        uint32(rapid.IntRange(0, 1<<22).Draw(t, "exp")),
		CsvDelay:      uint32(rapid.IntRange(0, 2016).Draw(t, "csv")),
		ClaimOutpoint: htlcOp,
		SweepSignDesc: c13GenSignDesc(t, tap),
	}
	if rapid.Bool().Draw(t, "secondLevel") {
		r.SignedTimeoutTx = c13GenSecondLevelTx(t, htlcOp)
		r.ClaimOutpoint = wire.OutPoint{
			Hash: r.SignedTimeoutTx.TxHash(),
		}
		r.SignDetails = c13GenSignDetails(t, tap)
	}
	r.ResolutionBlob = c13GenBlob(t, tap)

	return r
}

func c13GenIncoming(t *rapid.T, htlcOp wire.OutPoint,
	tap bool) lnwallet.IncomingHtlcResolution {

	r := lnwallet.IncomingHtlcResolution{
		CsvDelay:      uint32(rapid.IntRange(0, 2016).Draw(t, "csv")),
		ClaimOutpoint: htlcOp,
		SweepSignDesc: c13GenSignDesc(t, tap),
	}
	copy(r.Preimage[:], c13Bytes(t, "pre", 0, 32))
	if rapid.Bool().Draw(t, "secondLevel") {
		r.SignedSuccessTx = c13GenSecondLevelTx(t, htlcOp)
		r.ClaimOutpoint = wire.OutPoint{
			Hash: r.SignedSuccessTx.TxHash(),
		}
		r.SignDetails = c13GenSignDetails(t, tap)
	}
	r.ResolutionBlob = c13GenBlob(t, tap)

	return r
}

func c13GenCommitRes(t *rapid.T, tap bool) lnwallet.CommitOutputResolution {
	return lnwallet.CommitOutputResolution{
		SelfOutPoint:       c13GenOutPoint(t, "self"),
		SelfOutputSignDesc: c13GenSignDesc(t, tap),
		MaturityDelay:      uint32(rapid.IntRange(0, 2016).Draw(t, "mat")),
		ResolutionBlob:     c13GenBlob(t, tap),
	}
}

var c13TaprootPkScript = append([]byte{txscript.OP_1, txscript.OP_DATA_32},
	bytes.Repeat([]byte{0x07}, 32)...)

// c13GenResolutions draws a ContractResolutions. The HTLC outpoints are
// distinct (they are distinct outputs of one commitment transaction). With
// tap the anchor is a taproot output and every sign descriptor carries its
// control block (as lnwallet produces them for taproot channels).
func c13GenResolutions(t *rapid.T) (*ContractResolutions, bool) {
	tap := rapid.Bool().Draw(t, "taproot")
	c := &ContractResolutions{}
	copy(c.CommitHash[:], c13Bytes(t, "commitHash", 32, 32))
	if rapid.Bool().Draw(t, "hasCommitRes") {
		cr := c13GenCommitRes(t, tap)
		c.CommitResolution = &cr
	}
	nIn := rapid.IntRange(0, 3).Draw(t, "nIn")
	nOut := rapid.IntRange(0, 3).Draw(t, "nOut")
	for i := 0; i < nIn; i++ {
		op := wire.OutPoint{Hash: c.CommitHash, Index: uint32(i)}
		c.HtlcResolutions.IncomingHTLCs = append(
			c.HtlcResolutions.IncomingHTLCs, c13GenIncoming(t, op, tap),
		)
	}
	for i := 0; i < nOut; i++ {
		op := wire.OutPoint{Hash: c.CommitHash, Index: uint32(10 + i)}
		c.HtlcResolutions.OutgoingHTLCs = append(
			c.HtlcResolutions.OutgoingHTLCs, c13GenOutgoing(t, op, tap),
		)
	}
	if tap || rapid.Bool().Draw(t, "hasAnchor") {
		sd := c13GenSignDesc(t, false)
		if tap {
			sd.Output.PkScript = c13TaprootPkScript
			sd.TapTweak = c13Bytes(t, "tapTweak", 32, 32)
		} else if len(sd.Output.PkScript) == 34 &&
			sd.Output.PkScript[0] == txscript.OP_1 {

			sd.Output.PkScript[0] = txscript.OP_0
		}
		c.AnchorResolution = &lnwallet.AnchorResolution{
			AnchorSignDescriptor: sd,
			CommitAnchor: wire.OutPoint{
				Hash: c.CommitHash, Index: 41,
			},
		}
	}
	if rapid.IntRange(0, 3).Draw(t, "hasBreach") == 0 {
		c.BreachResolution = &BreachResolution{
			FundingOutPoint: c13GenOutPoint(t, "funding"),
		}
	}

	return c, tap
}

func c13GenHTLC(t *rapid.T) channeldb.HTLC {
	h := channeldb.HTLC{
		Amt:           lnwire.MilliSatoshi(rapid.Uint32().Draw(t, "amt")),
		RefundTimeout: rapid.Uint32().Draw(t, "timeout"),
		OutputIndex:   int32(rapid.IntRange(-1, 400).Draw(t, "oi")),
		Incoming:      rapid.Bool().Draw(t, "in"),
		HtlcIndex:     uint64(rapid.IntRange(0, 1<<30).Draw(t, "hidx")),
		LogIndex:      uint64(rapid.IntRange(0, 1<<30).Draw(t, "lidx")),
	}
	copy(h.RHash[:], c13Bytes(t, "rhash", 32, 32))
	copy(h.OnionBlob[:], c13Bytes(t, "onion", 0, 8))
	if rapid.Bool().Draw(t, "hasSig") {
		h.Signature = c13Bytes(t, "sig", 1, 72)
	}

	return h
}

func c13GenCommitSet(t *rapid.T) *CommitSet {
	cs := &CommitSet{
		ConfCommitKey: fn.Some(ccSetKeys[rapid.IntRange(0, 2).
			Draw(t, "confKey")]),
		HtlcSets: make(map[HtlcSetKey][]channeldb.HTLC),
	}
	for s := 0; s < 3; s++ {
		if !rapid.Bool().Draw(t, "hasSet") {
			continue
		}
		n := rapid.IntRange(0, 3).Draw(t, "nSet")
		hs := make([]channeldb.HTLC, 0, n)
		for i := 0; i < n; i++ {
			hs = append(hs, c13GenHTLC(t))
		}
		cs.HtlcSets[ccSetKeys[s]] = hs
	}

	return cs
}

// c13GenResolver draws a resolver of any persistent kind.
func c13GenResolver(t *rapid.T, cfg ResolverConfig) ContractResolver {
	op := c13GenOutPoint(t, "key")
	kind := rapid.IntRange(0, 5).Draw(t, "kind")
	resolved := rapid.IntRange(0, 3).Draw(t, "resolved") == 0
	switch kind {
	case 0, 1:
		r := &htlcTimeoutResolver{
			contractResolverKit: *newContractResolverKit(cfg),
			htlcResolution:      c13GenOutgoing(t, op, false),
			outputIncubating:    rapid.Bool().Draw(t, "incub"),
			broadcastHeight:     rapid.Uint32().Draw(t, "bh"),
		}
		r.htlc.HtlcIndex = rapid.Uint64().Draw(t, "hidx")
		if resolved {
			r.markResolved()
		}
		if kind == 1 {
			return &htlcOutgoingContestResolver{htlcTimeoutResolver: r}
		}

		return r

	case 2, 3:
		r := &htlcSuccessResolver{
			contractResolverKit: *newContractResolverKit(cfg),
			htlcResolution:      c13GenIncoming(t, op, false),
			outputIncubating:    rapid.Bool().Draw(t, "incub"),
			broadcastHeight:     rapid.Uint32().Draw(t, "bh"),
		}
		copy(r.htlc.RHash[:], c13Bytes(t, "rhash", 32, 32))
		if resolved {
			r.markResolved()
		}
		if kind == 3 {
			return &htlcIncomingContestResolver{
				htlcExpiry:          rapid.Uint32().Draw(t, "hexp"),
				htlcSuccessResolver: r,
			}
		}

		return r

	case 4:
		cr := c13GenCommitRes(t, false)
		cr.SelfOutPoint = op
		r := &commitSweepResolver{
			contractResolverKit: *newContractResolverKit(cfg),
			commitResolution:    cr,
			confirmHeight:       rapid.Uint32().Draw(t, "ch"),
			chanPoint:           c13GenOutPoint(t, "cp"),
		}
		if resolved {
			r.markResolved()
		}

		return r
	}

	r := newBreachResolver(cfg)
	if resolved {
		r.markResolved()
	}

	return r
}

// ---- the machine ----------------------------------------------------------

type c13Model struct {
	state     ArbitratorState
	res       string // "" = none
	commitSet string // "" = none
	contracts map[string]string
	reports   int
}

func newC13Model() *c13Model {
	return &c13Model{contracts: make(map[string]string)}
}

func c13OpenDB(path string) (kvdb.Backend, error) { return ccOpenDB(path) }

func TestVerifC13LogModel(t *testing.T) {
	st := vstats.New("TestVerifC13LogModel")
	defer st.Flush()
	maxSteps := vstats.EnvInt("VERIF_C13_STEPS", 40)

	rapid.Check(t, func(rt *rapid.T) {
		dir, err := os.MkdirTemp("", "c13a")
		if err != nil {
			rt.Fatalf("tempdir: %v", err)
		}
		defer os.RemoveAll(dir)
		path := filepath.Join(dir, "arb.db")

		reports := 0
		cfg := ChannelArbitratorConfig{
			ChanPoint: ccChanPoint,
			PutResolverReport: func(tx kvdb.RwTx,
				_ *channeldb.ResolverReport) error {

				if tx == nil {
					return fmt.Errorf("report outside of tx")
				}
				reports++

				return nil
			},
		}
		resCfg := ResolverConfig{ChannelArbitratorConfig: cfg}

		var (
			db  kvdb.Backend
			log *boltArbitratorLog
		)
		open := func() {
			db, err = c13OpenDB(path)
			if err != nil {
				rt.Fatalf("open: %v", err)
			}
			log, err = newBoltArbitratorLog(
				db, cfg, chainhash.Hash(testChainHash), ccChanPoint,
			)
			if err != nil {
				rt.Fatalf("log: %v", err)
			}
		}
		open()
		defer func() { _ = db.Close() }()

		m := newC13Model()
		ops := map[string]int{}

		check := func(after string) {
			s, err := log.CurrentState(nil)
			if err != nil || s != m.state {
				rt.Fatalf("after %s: state %v (err %v), model %v",
					after, s, err, m.state)
			}

			cs, err := log.FetchUnresolvedContracts()
			if err != nil {
				rt.Fatalf("after %s: FetchUnresolvedContracts: %v",
					after, err)
			}
			got := map[string]string{}
			for _, r := range cs {
				k := string(r.ResolverKey())
				if _, dup := got[k]; dup {
					rt.Fatalf("after %s: resolver key %x twice",
						after, k)
				}
				got[k] = c13RenderResolver(r)
			}
			for k, want := range m.contracts {
				g, ok := got[k]
				if !ok {
					rt.Fatalf("after %s: resolver %x lost (%s)",
						after, k, want)
				}
				if g != want {
					rt.Fatalf("after %s: resolver %x differs\n"+
						" got  %s\n want %s", after, k, g, want)
				}
			}
			for k, g := range got {
				if _, ok := m.contracts[k]; !ok {
					rt.Fatalf("after %s: resolver %x resurrected "+
						"(%s)", after, k, g)
				}
			}

			res, err := log.FetchContractResolutions()
			switch {
			case m.res == "":
				if err != errNoResolutions &&
					err != errScopeBucketNoExist {

					rt.Fatalf("after %s: resolutions present "+
						"(err %v), model has none", after, err)
				}
			case err != nil:
				rt.Fatalf("after %s: FetchContractResolutions: %v",
					after, err)
			default:
				g := c13RenderResolutions(res, true)
				if g != m.res {
					rt.Fatalf("after %s: resolutions differ\n got  "+
						"%s\n want %s", after, g, m.res)
				}
			}

			set, err := log.FetchConfirmedCommitSet(nil)
			switch {
			case m.commitSet == "":
				if err != errNoCommitSet &&
					err != errScopeBucketNoExist {

					rt.Fatalf("after %s: commit set present (err "+
						"%v), model has none", after, err)
				}
			case err != nil:
				rt.Fatalf("after %s: FetchConfirmedCommitSet: %v",
					after, err)
			default:
				if g := c13RenderCommitSet(set); g != m.commitSet {
					rt.Fatalf("after %s: commit set differs\n got  "+
						"%s\n want %s", after, g, m.commitSet)
				}
			}
			if reports != m.reports {
				rt.Fatalf("after %s: %d reports written, model %d",
					after, reports, m.reports)
			}
		}

		genReports := func() []*channeldb.ResolverReport {
			n := rapid.IntRange(0, 2).Draw(rt, "nReports")
			var out []*channeldb.ResolverReport
			for i := 0; i < n; i++ {
				out = append(out, &channeldb.ResolverReport{
					OutPoint: c13GenOutPoint(rt, "rep"),
				})
			}

			return out
		}

		steps := rapid.IntRange(4, maxSteps).Draw(rt, "steps")
		reopened, checkpointed, swapped, tapLogged := 0, 0, 0, false
		var lastRes *ContractResolutions
		for i := 0; i < steps; i++ {
			op := rapid.SampledFrom([]string{
				"commit", "logres", "commitset", "insert", "insert",
				"swap", "resolve", "checkpoint", "checkpoint",
				"wipe", "reopen", "reopen",
			}).Draw(rt, "op")
			ops[op]++
			switch op {
			case "commit":
				s := rapid.SampledFrom([]ArbitratorState{
					StateDefault, StateBroadcastCommit,
					StateCommitmentBroadcasted, StateContractClosed,
					StateWaitingFullResolution, StateFullyResolved,
					StateError,
				}).Draw(rt, "state")
				if err := log.CommitState(s); err != nil {
					rt.Fatalf("CommitState: %v", err)
				}
				m.state = s

			case "logres":
				// A channel closes once: the same close event may
				// be logged again after a restart, a different one
				// only after the history was wiped.
				c := lastRes
				if m.res == "" || c == nil {
					var tap bool
					c, tap = c13GenResolutions(rt)
					tapLogged = tapLogged || tap
					lastRes = c
				}
				if err := log.LogContractResolutions(c); err != nil {
					rt.Fatalf("LogContractResolutions: %v", err)
				}
				m.res = c13RenderResolutions(c, true)

			case "commitset":
				c := c13GenCommitSet(rt)
				if err := log.InsertConfirmedCommitSet(c); err != nil {
					rt.Fatalf("InsertConfirmedCommitSet: %v", err)
				}
				m.commitSet = c13RenderCommitSet(c)

			case "insert":
				n := rapid.IntRange(1, 4).Draw(rt, "nRes")
				var rs []ContractResolver
				for j := 0; j < n; j++ {
					rs = append(rs, c13GenResolver(rt, resCfg))
				}
				reps := genReports()
				err := log.InsertUnresolvedContracts(reps, rs...)
				if err != nil {
					rt.Fatalf("InsertUnresolvedContracts: %v", err)
				}
				for _, r := range rs {
					m.contracts[string(r.ResolverKey())] =
						c13RenderResolver(r)
				}
				m.reports += len(reps)

			case "swap":
				cs, err := log.FetchUnresolvedContracts()
				if err != nil {
					rt.Fatalf("fetch: %v", err)
				}
				if len(cs) == 0 {
					continue
				}
				old := cs[rapid.IntRange(0, len(cs)-1).Draw(rt, "old")]
				var nw ContractResolver
				switch v := old.(type) {
				case *htlcOutgoingContestResolver:
					nw = v.htlcTimeoutResolver
				case *htlcIncomingContestResolver:
					nw = v.htlcSuccessResolver
				default:
					nw = c13GenResolver(rt, resCfg)
				}
				if err := log.SwapContract(old, nw); err != nil {
					rt.Fatalf("SwapContract: %v", err)
				}
				delete(m.contracts, string(old.ResolverKey()))
				m.contracts[string(nw.ResolverKey())] =
					c13RenderResolver(nw)
				swapped++

			case "resolve":
				cs, err := log.FetchUnresolvedContracts()
				if err != nil {
					rt.Fatalf("fetch: %v", err)
				}
				var r ContractResolver
				if len(cs) == 0 ||
					rapid.IntRange(0, 5).Draw(rt, "absent") == 0 {

					r = c13GenResolver(rt, resCfg)
				} else {
					r = cs[rapid.IntRange(0, len(cs)-1).
						Draw(rt, "which")]
				}
				if err := log.ResolveContract(r); err != nil {
					rt.Fatalf("ResolveContract: %v", err)
				}
				delete(m.contracts, string(r.ResolverKey()))

			case "checkpoint":
				// Progress of a restored resolver, written through
				// the closure the log handed to it.
				cs, err := log.FetchUnresolvedContracts()
				if err != nil {
					rt.Fatalf("fetch: %v", err)
				}
				if len(cs) == 0 {
					continue
				}
				r := cs[rapid.IntRange(0, len(cs)-1).Draw(rt, "which")]
				var cp func(ContractResolver,
					...*channeldb.ResolverReport) error
				switch v := r.(type) {
				case *htlcTimeoutResolver:
					v.outputIncubating = rapid.Bool().Draw(rt, "inc")
					if rapid.Bool().Draw(rt, "res") {
						v.markResolved()
					}
					cp = v.Checkpoint
				case *htlcOutgoingContestResolver:
					v.outputIncubating = rapid.Bool().Draw(rt, "inc")
					cp = v.Checkpoint
				case *htlcSuccessResolver:
					v.outputIncubating = rapid.Bool().Draw(rt, "inc")
					if rapid.Bool().Draw(rt, "res") {
						v.markResolved()
					}
					copy(v.htlcResolution.Preimage[:],
						c13Bytes(rt, "pre", 0, 32))
					cp = v.Checkpoint
				case *htlcIncomingContestResolver:
					if rapid.Bool().Draw(rt, "res") {
						v.markResolved()
					}
					cp = v.Checkpoint
				case *commitSweepResolver:
					v.markResolved()
					cp = v.Checkpoint
				case *breachResolver:
					v.markResolved()
					cp = v.Checkpoint
				}
				if cp == nil {
					rt.Fatalf("restored %T has no checkpoint closure",
						r)
				}
				reps := genReports()
				if err := cp(r, reps...); err != nil {
					rt.Fatalf("checkpoint: %v", err)
				}
				m.contracts[string(r.ResolverKey())] =
					c13RenderResolver(r)
				m.reports += len(reps)
				checkpointed++

			case "wipe":
				if err := log.WipeHistory(); err != nil {
					rt.Fatalf("WipeHistory: %v", err)
				}
				rep := m.reports
				m = newC13Model()
				m.reports = rep
				lastRes = nil

			case "reopen":
				if err := db.Close(); err != nil {
					rt.Fatalf("close: %v", err)
				}
				open()
				reopened++
			}
			check(fmt.Sprintf("step %d (%s)", i, op))
		}

		labels := []string{}
		for k := range ops {
			labels = append(labels, "op="+k)
		}
		if tapLogged {
			labels = append(labels, "taproot_resolutions")
		}
		var fpParts []string
		for k, v := range ops {
			fpParts = append(fpParts, fmt.Sprintf("%s=%d", k, v))
		}
		sort.Strings(fpParts)
		nontrivial := reopened > 0 && (checkpointed > 0 || swapped > 0) &&
			len(m.contracts) > 0
		st.Case(vstats.FP(strings.Join(fpParts, ","), m.state, m.res,
			m.commitSet, len(m.contracts), steps), nontrivial, labels,
			map[string]any{"steps": steps, "ops": fpParts,
				"contracts_left": len(m.contracts)})
	})
}
