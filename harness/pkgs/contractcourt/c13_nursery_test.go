//go:build verif

package contractcourt

// C13 level B, extension: the REAL utxo nursery.
//
// For pre-anchor channel kinds (legacy, tweakless) the HTLC resolvers of our
// own commitment hand their outputs to IncubateOutputs. In "real" nursery
// mode every process life gets a real UtxoNursery on a real NurseryStore in
// the same bolt file as the arbitrator log, started the way the server does
// (before the arbitrator): reloadPreschool / reloadClasses after a restart,
// incubator on block epochs, crib -> kindergarten -> graduated. Its
// environment is the stub world:
//
//   - store: every mutating NurseryStorer call is one effect (crash point);
//   - PublishTransaction: an effect; the transaction goes to the world's
//     mempool and confirms when the driver pumps it (and only if the outpoint
//     is still unspent);
//   - confirmation notifications: lazy, delivered one at a time when pumped,
//     once the world has a confirmed transaction with that txid (historical
//     confirmations are found after a restart);
//   - block epochs: through the world's epoch machinery (a client that passes
//     its best block does not get that block again);
//   - SweepInput: the recording sweeper stub (the kid outputs take part in
//     the sweeper-input oracle);
//   - FetchClosedChannel(s): from the world's closed bit.
//
// In "stub" mode (1 in 4 pre-anchor cases) the nursery is the world-level
// stub of c13_taproot_test.go; the resolvers cannot tell the difference.

import (
	"fmt"
	"sort"

	"github.com/btcsuite/btcd/chainhash/v2"
	"github.com/btcsuite/btcd/wire/v2"
	"github.com/lightningnetwork/lnd/chainntnfs"
	"github.com/lightningnetwork/lnd/channeldb"
	"github.com/lightningnetwork/lnd/fn/v2"
	"github.com/lightningnetwork/lnd/kvdb"
	"github.com/lightningnetwork/lnd/lnwallet"
)

// c13ConfSub is one confirmation subscription of the nursery.
type c13ConfSub struct {
	txid      chainhash.Hash
	ev        *chainntnfs.ConfirmationEvent
	inc       *ccInc
	seq       int
	delivered bool
	cancelled bool
}

// c13NurseryNotifier is the nursery's chain notifier.
type c13NurseryNotifier struct {
	*ccNotifier
	env *c13Env
}

var _ chainntnfs.ChainNotifier = (*c13NurseryNotifier)(nil)

func (n *c13NurseryNotifier) RegisterConfirmationsNtfn(txid *chainhash.Hash,
	_ []byte, numConfs, _ uint32, _ ...chainntnfs.NotifierOption) (
	*chainntnfs.ConfirmationEvent, error) {

	w := n.env.w
	sub := &c13ConfSub{txid: *txid, inc: n.inc}
	sub.ev = chainntnfs.NewConfirmationEvent(numConfs, func() {
		w.mu.Lock()
		sub.cancelled = true
		w.mu.Unlock()
	})
	w.mu.Lock()
	defer w.mu.Unlock()
	if n.inc.dead {
		return nil, errCcDead
	}
	w.seq++
	sub.seq = w.seq
	n.env.confSubs = append(n.env.confSubs, sub)

	return sub.ev, nil
}

func (n *c13NurseryNotifier) RegisterBlockEpochNtfn(
	best *chainntnfs.BlockEpoch) (*chainntnfs.BlockEpochEvent, error) {

	w := n.env.w
	ch := make(chan *chainntnfs.BlockEpoch, 512)
	sub := &ccEpochSub{ch: ch, inc: n.inc, ident: "nursery"}
	w.mu.Lock()
	w.seq++
	sub.seq = w.seq
	sub.next = w.height
	if best != nil {
		// The client has seen its best block already.
		sub.next = best.Height + 1
	}
	w.epochSubs = append(w.epochSubs, sub)
	w.mu.Unlock()

	return &chainntnfs.BlockEpochEvent{
		Epochs: ch,
		Cancel: func() {
			w.mu.Lock()
			sub.cancelled = true
			w.mu.Unlock()
		},
	}, nil
}

// c13Store routes every durable write of the nursery store through the
// incarnation (effect = crash point).
type c13Store struct {
	NurseryStorer
	inc *ccInc
}

func (s *c13Store) Incubate(k []kidOutput, b []babyOutput) error {
	return s.inc.effect("IncubateOutputs", func() error {
		return s.NurseryStorer.Incubate(k, b)
	})
}

func (s *c13Store) CribToKinder(b *babyOutput) error {
	return s.inc.effect("NurseryCribToKinder", func() error {
		return s.NurseryStorer.CribToKinder(b)
	})
}

func (s *c13Store) PreschoolToKinder(k *kidOutput, last uint32) error {
	return s.inc.effect("NurseryPreschoolToKinder", func() error {
		return s.NurseryStorer.PreschoolToKinder(k, last)
	})
}

func (s *c13Store) GraduateKinder(h uint32, k *kidOutput) error {
	return s.inc.effect("NurseryGraduateKinder", func() error {
		return s.NurseryStorer.GraduateKinder(h, k)
	})
}

func (s *c13Store) RemoveChannel(op *wire.OutPoint) error {
	return s.inc.effect("NurseryRemoveChannel", func() error {
		return s.NurseryStorer.RemoveChannel(op)
	})
}

// newNursery builds the (un-started) nursery of one process life.
func (e *c13Env) newNursery(inc *ccInc, db kvdb.Backend) (*UtxoNursery,
	error) {

	w := e.w
	store, err := NewNurseryStore(
		&chainhash.Hash{}, &channeldb.DB{Backend: db},
	)
	if err != nil {
		return nil, err
	}
	summary := func() *channeldb.ChannelCloseSummary {
		s := ccCloseSummary(w.closeType, w.closeHeight)
		s.IsPending = w.fullyResolved == 0

		return &s
	}
	cfg := &NurseryConfig{
		ChainIO:   &ccChainIO{inc: inc},
		ConfDepth: 1,
		FetchClosedChannels: func(pendingOnly bool) (
			[]*channeldb.ChannelCloseSummary, error) {

			w.mu.Lock()
			defer w.mu.Unlock()
			if !w.closed || (pendingOnly && w.fullyResolved > 0) {
				return nil, nil
			}

			return []*channeldb.ChannelCloseSummary{summary()}, nil
		},
		FetchClosedChannel: func(op *wire.OutPoint) (
			*channeldb.ChannelCloseSummary, error) {

			w.mu.Lock()
			defer w.mu.Unlock()
			if !w.closed || *op != ccChanPoint {
				return nil, channeldb.ErrClosedChannelNotFound
			}

			return summary(), nil
		},
		Notifier: &c13NurseryNotifier{
			ccNotifier: &ccNotifier{inc: inc}, env: e,
		},
		PublishTransaction: func(tx *wire.MsgTx, _ string) error {
			return inc.effect("NurseryPublishTx", func() error {
				w.mu.Lock()
				defer w.mu.Unlock()
				op := tx.TxIn[0].PreviousOutPoint
				e.mempool[op] = tx.Copy()
				e.nurseryPublished[op] = true

				return nil
			})
		},
		Store: &c13Store{NurseryStorer: store, inc: inc},
		SweepInput: (&c13Sweeper{
			ccSweeper: &ccSweeper{inc: inc}, env: e,
		}).SweepInput,
		Budget: DefaultBudgetConfig(),
	}
	e.rawStore = store

	return NewUtxoNursery(cfg), nil
}

// incubateReal is cfg.IncubateOutputs in real-nursery mode.
func (e *c13Env) incubateReal(inc *ccInc, chanPoint wire.OutPoint,
	o fn.Option[lnwallet.OutgoingHtlcResolution],
	i fn.Option[lnwallet.IncomingHtlcResolution], height uint32,
	deadline fn.Option[int32], opts ...IncubateOption) error {

	w := e.w
	w.mu.Lock()
	n := e.nursery
	w.mu.Unlock()
	if n == nil {
		return fmt.Errorf("verif: no nursery")
	}
	err := n.IncubateOutputs(chanPoint, o, i, height, deadline, opts...)
	if err != nil {
		return err
	}
	inc.soft(func() {
		o.WhenSome(func(r lnwallet.OutgoingHtlcResolution) {
			w.incubated = append(w.incubated, r.HtlcPoint().String())
		})
		i.WhenSome(func(r lnwallet.IncomingHtlcResolution) {
			w.incubated = append(w.incubated, r.HtlcPoint().String())
		})
	})

	return nil
}

// confCandidates lists the deliverable confirmation notifications. Called
// with w.mu held.
func (e *c13Env) confCandidates(inc *ccInc) (keys []string,
	do map[string]func()) {

	w := e.w
	do = make(map[string]func())
	for _, s := range e.confSubs {
		s := s
		if s.inc != inc || s.delivered || s.cancelled {
			continue
		}
		var det *chainntnfs.SpendDetail
		var ops []string
		byOp := map[string]*chainntnfs.SpendDetail{}
		for op, d := range w.spent {
			if *d.SpenderTxHash == s.txid {
				ops = append(ops, op.String())
				byOp[op.String()] = d
			}
		}
		if len(ops) == 0 {
			continue
		}
		sort.Strings(ops)
		det = byOp[ops[0]]
		key := fmt.Sprintf("5conf:%v:%06d", s.txid, s.seq)
		keys = append(keys, key)
		do[key] = func() {
			s.delivered = true
			s.ev.Confirmed <- &chainntnfs.TxConfirmation{
				BlockHash:   &chainhash.Hash{},
				BlockHeight: uint32(det.SpendingHeight),
				Tx:          det.SpendingTx,
			}
			e.nurseryConfs++
		}
	}

	return keys, do
}

// nurseryLeft lists what the nursery store still tracks (read from the file
// at the end of a run).
func c13NurseryLeft(db kvdb.Backend) ([]string, error) {
	store, err := NewNurseryStore(
		&chainhash.Hash{}, &channeldb.DB{Backend: db},
	)
	if err != nil {
		return nil, err
	}
	chans, err := store.ListChannels()
	if err != nil {
		return nil, err
	}
	var out []string
	for _, c := range chans {
		c := c
		err := store.ForChanOutputs(&c, func(k, _ []byte) error {
			if len(k) >= 4 {
				out = append(out, string(k[:4]))
			}

			return nil
		}, func() {})
		if err != nil {
			return nil, err
		}
	}
	sort.Strings(out)

	return out, nil
}
