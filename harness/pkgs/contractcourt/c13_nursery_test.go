//go:build verif

package contractcourt

// C13 level B, extension: the REAL utxo nursery.
//
// For pre-anchor channel kinds (legacy, tweakless) the HTLC resolvers of our
// own commitment hand their outputs to IncubateOutputs. In "real" nursery
// mode every process life gets a real UtxoNursery on a real NurseryStore in
// the same bolt file as the arbitrator log, started the way the server does
// (before the arbitrator): reloadPreschool / reloadClasses after a restart,
// incubator on block epochs, crib -> kindergarten -> graduated. Its
// environment is the stub world:
//
//   - store: every mutating NurseryStorer call is one effect (crash point);
//   - PublishTransaction: an effect; the transaction goes to the world's
//     mempool and confirms when the driver pumps it (and only if the outpoint
//     is still unspent);
//   - confirmation notifications: lazy, delivered one at a time when pumped,
//     once the world has a confirmed transaction with that txid (historical
//     confirmations are found after a restart);
//   - block epochs: through the world's epoch machinery (a client that passes
//     its best block does not get that block again);
//   - SweepInput: the recording sweeper stub (the kid outputs take part in
//     the sweeper-input oracle);
//   - FetchClosedChannel(s): from the world's closed bit.
//
// In "stub" mode (1 in 4 pre-anchor cases) the nursery is the world-level
// stub of c13_taproot_test.go; the resolvers cannot tell the difference.

import (
	"fmt"
	"sort"

	"github.com/btcsuite/btcd/chainhash/v2"
	"github.com/btcsuite/btcd/wire/v2"
	"github.com/lightningnetwork/lnd/channeldb"
	"github.com/lightningnetwork/lnd/fn/v2"
	"github.com/lightningnetwork/lnd/kvdb"
	"github.com/lightningnetwork/lnd/lnwallet"
)

// newNursery builds the (un-started) nursery of one process life (shared
// rig: ccnursery_test.go).
func (e *c13Env) newNursery(inc *ccInc, db kvdb.Backend) (*UtxoNursery,
	error) {

	w := e.w
	publish := func(tx *wire.MsgTx) error {
		w.mu.Lock()
		defer w.mu.Unlock()
		op := tx.TxIn[0].PreviousOutPoint
		e.mempool[op] = tx.Copy()
		e.nurseryPublished[op] = true

		return nil
	}
	sweeper := &c13Sweeper{ccSweeper: &ccSweeper{inc: inc}, env: e}
	n, store, err := ccNewNursery(
		e.net, inc, db, ccChanPoint, publish, sweeper.SweepInput,
	)
	if err != nil {
		return nil, err
	}
	e.rawStore = store
	// (for the guard of the crib late-registration finding)
	n.cfg.Store = &c13CribStore{NurseryStorer: n.cfg.Store, env: e}

	return n, nil
}

// incubateReal is cfg.IncubateOutputs in real-nursery mode.
func (e *c13Env) incubateReal(inc *ccInc, chanPoint wire.OutPoint,
	o fn.Option[lnwallet.OutgoingHtlcResolution],
	i fn.Option[lnwallet.IncomingHtlcResolution], height uint32,
	deadline fn.Option[int32], opts ...IncubateOption) error {

	w := e.w
	w.mu.Lock()
	n := e.nursery
	w.mu.Unlock()
	if n == nil {
		return fmt.Errorf("verif: no nursery")
	}
	err := n.IncubateOutputs(chanPoint, o, i, height, deadline, opts...)
	if err != nil {
		return err
	}
	inc.soft(func() {
		o.WhenSome(func(r lnwallet.OutgoingHtlcResolution) {
			w.incubated = append(w.incubated, r.HtlcPoint().String())
		})
		i.WhenSome(func(r lnwallet.IncomingHtlcResolution) {
			w.incubated = append(w.incubated, r.HtlcPoint().String())
		})
	})

	return nil
}

// nurseryLeft lists what the nursery store still tracks (read from the file
// at the end of a run).
func c13NurseryLeft(db kvdb.Backend) ([]string, error) {
	store, err := NewNurseryStore(
		&chainhash.Hash{}, &channeldb.DB{Backend: db},
	)
	if err != nil {
		return nil, err
	}
	chans, err := store.ListChannels()
	if err != nil {
		return nil, err
	}
	var out []string
	for _, c := range chans {
		c := c
		err := store.ForChanOutputs(&c, func(k, _ []byte) error {
			if len(k) >= 4 {
				out = append(out, string(k[:4]))
			}

			return nil
		}, func() {})
		if err != nil {
			return nil, err
		}
	}
	sort.Strings(out)

	return out, nil
}
