//go:build verif

package contractcourt

// C13 level B, extension: taproot channel kinds, the sweeper-input oracle and
// the utxo-nursery stub.
//
//   - Taproot (simple taproot staging + final). The C12 scenario is kept (it
//     is generated as an anchors/zero-fee channel) and its resolutions are
//     re-dressed the way lnwallet dresses them for a taproot commitment: P2TR
//     outputs, tapscript leaves as witness scripts, control blocks on every
//     script-path sign descriptor (first level, second level, to_local /
//     to_remote), a tap tweak on the anchor, taproot-shaped second-level
//     witnesses, optionally resolution blobs. Every byte string is a distinct
//     function of (commitment, HTLC, role), so a mix-up or a loss after a
//     restart is visible. Control blocks are well-formed (the resolvers parse
//     them). The channel state handed out by FetchHistoricalChannel carries
//     the taproot bits and the two base points the commit-sweep resolver
//     compares the sign key with.
//   - Sweeper-input oracle. Everything handed to Sweeper.SweepInput is
//     rendered at that moment (witness type, outpoint, CSV, CLTV, required
//     output, preimage, resolution blob, sign descriptor incl. witness/leaf
//     script, control block, tap tweak, and the sweep parameters). (a) The
//     sign descriptor must be the one the harness generated for that
//     outpoint (explicit model; every run incl. the uninterrupted one).
//     (b) Per outpoint, what a restarted life hands over must be identical to
//     what the uninterrupted run handed over.
//   - The world answers with transactions whose witnesses are built FROM the
//     offered input (leaf script + control block + preimage), as a signer
//     would; a preimage that does not open the HTLC is reported (such a
//     transaction could never confirm).
//   - Nursery stub (c13Env.kids): outputs handed to IncubateOutputs are kept
//     in the world (they survive restarts like the nursery store does).
//     When pumped, the stub "publishes" the second-level timeout transaction
//     at its CLTV expiry, lets a published second-level transaction confirm,
//     and sweeps the second-level output CSV blocks after that confirmation.
//     The resolvers see nothing but the resulting spends, exactly what they
//     wait for with the real nursery.

import (
	"bytes"
	"crypto/sha256"
	"fmt"
	"sort"
	"strings"

	"github.com/btcsuite/btcd/btcec/v2/schnorr"
	"github.com/btcsuite/btcd/txscript/v2"
	"github.com/btcsuite/btcd/wire/v2"
	"github.com/lightningnetwork/lnd/chainntnfs"
	"github.com/lightningnetwork/lnd/channeldb"
	"github.com/lightningnetwork/lnd/chanstate"
	"github.com/lightningnetwork/lnd/fn/v2"
	"github.com/lightningnetwork/lnd/input"
	"github.com/lightningnetwork/lnd/keychain"
	"github.com/lightningnetwork/lnd/lntypes"
	"github.com/lightningnetwork/lnd/lnwallet"
	"github.com/lightningnetwork/lnd/sweep"
)

// Channel classes of level B.
const (
	c13KindLegacy = iota
	c13KindTweakless
	c13KindAnchors
	c13KindTaproot
	c13KindTaprootFinal
)

var c13KindNames = []string{"legacy", "tweakless", "anchors", "taproot",
	"taproot_final"}

// ---------------------------------------------------------------------------
// Taproot material
// ---------------------------------------------------------------------------

func c13Sum(tag string) []byte {
	s := sha256.Sum256([]byte("c13|" + tag))

	return s[:]
}

// c13CtrlBlock is a well-formed control block (leaf version 0xc0, a valid
// x-only internal key, one inclusion-proof node) that is a function of tag.
func c13CtrlBlock(tag string) []byte {
	b := []byte{byte(txscript.BaseLeafVersion)}
	b = append(b, schnorr.SerializePubKey(c13PubKeys[2])...)

	return append(b, c13Sum("ctrl|"+tag)...)
}

// c13P2TR is a pay-to-taproot script that is a function of tag.
func c13P2TR(tag string) []byte {
	return append([]byte{txscript.OP_1, txscript.OP_DATA_32},
		c13Sum("pk|"+tag)...)
}

// c13Leaf is a tapscript leaf (<32 byte key> OP_CHECKSIG) that is a function
// of tag.
func c13Leaf(tag string) []byte {
	b := append([]byte{txscript.OP_DATA_32}, c13Sum("leaf|"+tag)...)

	return append(b, txscript.OP_CHECKSIG)
}

// c13TapSig stands for a schnorr signature (64 bytes, so that it is never
// mistaken for a preimage).
var c13TapSig = bytes.Repeat([]byte{0x31}, 64)

func c13KeyDesc(fam keychain.KeyFamily, i int) keychain.KeyDescriptor {
	return keychain.KeyDescriptor{
		KeyLocator: keychain.KeyLocator{Family: fam, Index: 7},
		PubKey:     c13PubKeys[i],
	}
}

func c13TapSignDesc(kd keychain.KeyDescriptor, value int64,
	tag string) input.SignDescriptor {

	return input.SignDescriptor{
		KeyDesc:       kd,
		SingleTweak:   c13Sum("tweak|" + tag),
		WitnessScript: c13Leaf(tag),
		Output: &wire.TxOut{
			Value:    value,
			PkScript: c13P2TR(tag),
		},
		HashType:     txscript.SigHashDefault,
		SignMethod:   input.TaprootScriptSpendSignMethod,
		ControlBlock: c13CtrlBlock(tag),
	}
}

// c13ChanState is what FetchHistoricalChannel returns.
func c13ChanState(sc *ccScenario, plan *c13Plan) *chanstate.OpenChannel {
	ct := sc.chanType()
	if plan.tap > 0 {
		ct |= channeldb.SimpleTaprootFeatureBit
	}
	if plan.tap == 2 {
		ct |= channeldb.TaprootFinalBit
	}

	return &chanstate.OpenChannel{
		ChanType: ct,
		LocalChanCfg: chanstate.ChannelConfig{
			DelayBasePoint: c13KeyDesc(keychain.KeyFamilyDelayBase, 0),
			PaymentBasePoint: c13KeyDesc(
				keychain.KeyFamilyPaymentBase, 1,
			),
			HtlcBasePoint: c13KeyDesc(keychain.KeyFamilyHtlcBase, 2),
		},
	}
}

// c13Resolutions are the resolutions of commitment s: the scenario's own
// ones, re-dressed for a taproot channel if the plan says so.
func c13Resolutions(sc *ccScenario, plan *c13Plan, s int) (
	*lnwallet.HtlcResolutions, *lnwallet.CommitOutputResolution,
	*lnwallet.AnchorResolution) {

	hr, cr, ar := sc.resolutions(s)
	if plan.tap == 0 {
		return hr, cr, ar
	}
	local := s == ccL
	blob := func(tag string) fn.Option[[]byte] {
		if !plan.blobs {
			return fn.None[[]byte]()
		}

		return fn.Some(append([]byte("blob:"), c13Sum("blob|"+tag)...))
	}
	htlcKey := c13KeyDesc(keychain.KeyFamilyHtlcBase, 2)
	delayKey := c13KeyDesc(keychain.KeyFamilyDelayBase, 0)

	// second re-dresses a second-level transaction: taproot witness with
	// the first-level leaf and control block, P2TR output.
	second := func(tx *wire.MsgTx, incoming bool, tag string) {
		leaf, cb := c13Leaf(tag+"/htlc"), c13CtrlBlock(tag+"/htlc")
		if incoming {
			// <sender sig> <receiver sig> <preimage>
			// <success_script> <control_block>
			tx.TxIn[0].Witness = wire.TxWitness{
				c13TapSig, c13TapSig, {}, leaf, cb,
			}
		} else {
			// <receiver sig> <sender sig> <timeout_script>
			// <control_block>
			tx.TxIn[0].Witness = wire.TxWitness{
				c13TapSig, c13TapSig, leaf, cb,
			}
		}
		tx.TxOut[0].PkScript = c13P2TR(tag + "/second")
	}
	details := func(val int64, tag string) *input.SignDetails {
		return &input.SignDetails{
			SignDesc: c13TapSignDesc(htlcKey, val, tag+"/htlc"),
			SigHashType: txscript.SigHashSingle |
				txscript.SigHashAnyOneCanPay,
			PeerSig: testSig,
		}
	}

	for i := range hr.OutgoingHTLCs {
		r := &hr.OutgoingHTLCs[i]
		op := r.HtlcPoint()
		tag := fmt.Sprintf("%d/out/%d", s, op.Index)
		val := r.SweepSignDesc.Output.Value
		if local {
			second(r.SignedTimeoutTx, false, tag)
			r.ClaimOutpoint = wire.OutPoint{
				Hash: r.SignedTimeoutTx.TxHash(),
			}
			r.SignDetails = details(val, tag)
			r.SweepSignDesc = c13TapSignDesc(
				delayKey, val, tag+"/second",
			)
		} else {
			r.SweepSignDesc = c13TapSignDesc(
				htlcKey, val, tag+"/htlc",
			)
		}
		r.ResolutionBlob = blob(tag)
	}
	for i := range hr.IncomingHTLCs {
		r := &hr.IncomingHTLCs[i]
		op := r.HtlcPoint()
		tag := fmt.Sprintf("%d/in/%d", s, op.Index)
		val := r.SweepSignDesc.Output.Value
		if local {
			second(r.SignedSuccessTx, true, tag)
			r.ClaimOutpoint = wire.OutPoint{
				Hash: r.SignedSuccessTx.TxHash(),
			}
			r.SignDetails = details(val, tag)
			r.SweepSignDesc = c13TapSignDesc(
				delayKey, val, tag+"/second",
			)
		} else {
			r.SweepSignDesc = c13TapSignDesc(
				htlcKey, val, tag+"/htlc",
			)
		}
		r.ResolutionBlob = blob(tag)
	}
	if cr != nil {
		// The commit-sweep resolver tells a taproot to_local from a
		// to_remote output by the sign key.
		kd := c13KeyDesc(keychain.KeyFamilyPaymentBase, 1)
		cr.MaturityDelay = 1
		if local {
			kd = delayKey
			cr.MaturityDelay = 6
		}
		tag := fmt.Sprintf("%d/commit", s)
		cr.SelfOutputSignDesc = c13TapSignDesc(kd, 77_000, tag)
		cr.ResolutionBlob = blob(tag)
	}
	if ar != nil {
		c13TapAnchor(ar, fmt.Sprintf("%d/anchor", s))
	}

	return hr, cr, ar
}

// c13TapAnchor dresses an anchor resolution for a taproot channel (key spend
// with a tap tweak). The log only writes its taproot briefcase if the anchor
// script is P2TR.
func c13TapAnchor(ar *lnwallet.AnchorResolution, tag string) {
	ar.AnchorSignDescriptor = input.SignDescriptor{
		KeyDesc: c13KeyDesc(keychain.KeyFamilyMultiSig, 1),
		Output: &wire.TxOut{
			Value:    330,
			PkScript: c13P2TR(tag),
		},
		HashType:   txscript.SigHashDefault,
		SignMethod: input.TaprootKeySpendSignMethod,
		TapTweak:   c13Sum("taptweak|" + tag),
	}
}

// c13DeliverClose is ccDeliverClose with the plan's resolutions.
func c13DeliverClose(arb *ChannelArbitrator, sc *ccScenario, plan *c13Plan,
	height uint32) error {

	conf := plan.conf
	if plan.tap == 0 {
		return ccDeliverClose(arb, sc, conf, height)
	}

	switch conf {
	case ccL:
		hr, cr, ar := c13Resolutions(sc, plan, ccL)
		tx := ccLocalCloseTx.Copy()
		sum := ccCloseSummary(channeldb.LocalForceClose, height)
		info := &LocalUnilateralCloseInfo{
			SpendDetail: &chainntnfs.SpendDetail{
				SpendingHeight: int32(height),
			},
			LocalForceCloseSummary: &lnwallet.LocalForceCloseSummary{
				ChanPoint: ccChanPoint,
				CloseTx:   tx,
				ContractResolutions: fn.Some(
					lnwallet.ContractResolutions{
						CommitResolution: cr,
						AnchorResolution: ar,
						HtlcResolutions:  hr,
					},
				),
			},
			ChannelCloseSummary: &sum,
			CommitSet:           sc.commitSet(ccL),
		}

		return arb.handleLocalForceCloseEvent(info)

	case ccR, ccP:
		hr, cr, ar := c13Resolutions(sc, plan, conf)
		ch := ccCommitHash(conf)
		info := &RemoteUnilateralCloseInfo{
			UnilateralCloseSummary: &lnwallet.UnilateralCloseSummary{
				SpendDetail: &chainntnfs.SpendDetail{
					SpenderTxHash:  &ch,
					SpendingHeight: int32(height),
				},
				ChannelCloseSummary: ccCloseSummary(
					channeldb.RemoteForceClose, height,
				),
				CommitResolution: cr,
				HtlcResolutions:  hr,
				AnchorResolution: ar,
			},
			CommitSet: sc.commitSet(conf),
		}

		return arb.handleRemoteForceCloseEvent(info)

	case ccBreach:
		ar := &lnwallet.AnchorResolution{
			CommitAnchor: wire.OutPoint{
				Hash: ccBreachHash(), Index: 41,
			},
		}
		c13TapAnchor(ar, "breach/anchor")
		info := &BreachCloseInfo{
			BreachResolution: &BreachResolution{
				FundingOutPoint: ccChanPoint,
			},
			AnchorResolution: ar,
			CommitHash:       ccBreachHash(),
			CommitSet:        sc.commitSet(ccR),
			CloseSummary: ccCloseSummary(
				channeldb.BreachClose, height,
			),
		}

		return arb.handleContractBreach(info)
	}

	return ccDeliverClose(arb, sc, conf, height)
}

// ---------------------------------------------------------------------------
// Environment of one scenario run (survives restarts, guarded by w.mu)
// ---------------------------------------------------------------------------

// c13Kid is one output handed to the nursery.
type c13Kid struct {
	htlcOp   wire.OutPoint // HTLC output on our commitment
	tx       *wire.MsgTx   // second-level transaction
	outgoing bool
	expiry   uint32 // outgoing: CLTV of the timeout transaction
	csv      uint32
	claimOp  wire.OutPoint // output of the second-level transaction
}

// c13InputRec is one SweepInput call.
type c13InputRec struct {
	op   wire.OutPoint
	wt   string
	core string // everything that is compared between runs ...
	pre  string // ... and the preimage the input carries
	sd   string // sign descriptor and resolution blob (the model's part)
	hint uint32
	life int
}

type c13Env struct {
	sc   *ccScenario
	plan *c13Plan
	w    *ccWorld

	life int

	// kids: outputs in the nursery, by HTLC outpoint.
	kids map[wire.OutPoint]*c13Kid
	// mempool: second-level transactions the node published itself, by
	// the outpoint they spend.
	mempool map[wire.OutPoint]*wire.MsgTx
	// nursery bookkeeping for labels.
	nurseryTimeoutTx, nurseryKidSweeps, publishedConfirmed int

	// Real-nursery mode (c13_nursery_test.go): the nursery of the current
	// process life, its raw store, its confirmation subscriptions, the
	// outpoints whose spending transaction the nursery published.
	nursery          *UtxoNursery
	rawStore         *NurseryStore
	net              *ccNurseryNet
	nurseryPublished map[wire.OutPoint]bool
	// cribMoved: HTLC outpoints whose timeout-tx output the nursery store
	// moved from crib to kindergarten (durably).
	cribMoved map[wire.OutPoint]bool

	inputs []c13InputRec

	// model: expected sign descriptor of a first-level input, by outpoint;
	// second: expected sign descriptor of the second-level output that
	// stems from an HTLC outpoint; hashes: payment hash by HTLC outpoint.
	model  map[wire.OutPoint]string
	second map[wire.OutPoint]string
	hashes map[wire.OutPoint]lntypes.Hash

	// tapClaims: the peer's planned preimage claims (taproot runs).
	tapClaims map[wire.OutPoint]ccClaim
}

func c13RenderSD(d *input.SignDescriptor) string {
	return c13RenderSignDesc(d, true) + " tt=" + c13Hex(d.TapTweak)
}

// c13RenderSDBlob is the part of an input the model (oracle a) knows: sign
// descriptor and resolution blob.
func c13RenderSDBlob(d *input.SignDescriptor, b fn.Option[[]byte]) string {
	return c13RenderSD(d) + " blob=" + c13RenderBlob(b)
}

func newC13Env(sc *ccScenario, plan *c13Plan, w *ccWorld) *c13Env {
	e := &c13Env{
		sc: sc, plan: plan, w: w,
		kids:      make(map[wire.OutPoint]*c13Kid),
		mempool:   make(map[wire.OutPoint]*wire.MsgTx),
		model:     make(map[wire.OutPoint]string),
		second:    make(map[wire.OutPoint]string),
		hashes:    make(map[wire.OutPoint]lntypes.Hash),
		tapClaims: make(map[wire.OutPoint]ccClaim),

		nurseryPublished: make(map[wire.OutPoint]bool),
		cribMoved:        make(map[wire.OutPoint]bool),
		net:              &ccNurseryNet{w: w},
	}
	if plan.conf > ccP {
		if plan.conf == ccBreach && sc.ChanKind == 2 {
			ar := &lnwallet.AnchorResolution{
				AnchorSignDescriptor: ccSignDesc(330, []byte{0x51}),
				CommitAnchor: wire.OutPoint{
					Hash: ccBreachHash(), Index: 41,
				},
			}
			if plan.tap > 0 {
				c13TapAnchor(ar, "breach/anchor")
			}
			e.model[ar.CommitAnchor] = c13RenderSDBlob(
				&ar.AnchorSignDescriptor, fn.None[[]byte](),
			)
		}

		return e
	}

	hr, cr, ar := c13Resolutions(sc, plan, plan.conf)
	if cr != nil {
		e.model[cr.SelfOutPoint] = c13RenderSDBlob(
			&cr.SelfOutputSignDesc, cr.ResolutionBlob,
		)
	}
	if ar != nil {
		e.model[ar.CommitAnchor] = c13RenderSDBlob(
			&ar.AnchorSignDescriptor, fn.None[[]byte](),
		)
	}
	for i := range hr.OutgoingHTLCs {
		r := &hr.OutgoingHTLCs[i]
		op := r.HtlcPoint()
		if r.SignedTimeoutTx == nil {
			e.model[op] = c13RenderSDBlob(
				&r.SweepSignDesc, r.ResolutionBlob,
			)

			continue
		}
		if r.SignDetails != nil {
			e.model[op] = c13RenderSDBlob(
				&r.SignDetails.SignDesc, r.ResolutionBlob,
			)
		}
		e.second[op] = c13RenderSDBlob(
			&r.SweepSignDesc, r.ResolutionBlob,
		)
	}
	for i := range hr.IncomingHTLCs {
		r := &hr.IncomingHTLCs[i]
		op := r.HtlcPoint()
		if r.SignedSuccessTx == nil {
			e.model[op] = c13RenderSDBlob(
				&r.SweepSignDesc, r.ResolutionBlob,
			)

			continue
		}
		if r.SignDetails != nil {
			e.model[op] = c13RenderSDBlob(
				&r.SignDetails.SignDesc, r.ResolutionBlob,
			)
		}
		e.second[op] = c13RenderSDBlob(
			&r.SweepSignDesc, r.ResolutionBlob,
		)
	}
	for i := range sc.HTLCs {
		x := &sc.HTLCs[i]
		if !x.hasOutput(plan.conf) {
			continue
		}
		op := wire.OutPoint{
			Hash:  ccCommitHash(plan.conf),
			Index: uint32(x.Out[plan.conf]),
		}
		e.hashes[op] = x.Hash
	}

	return e
}

// ---- the peer's claims on a taproot commitment -----------------------------

// c13TapClaimWitness is the witness with which the peer claims an HTLC we
// offered on a taproot commitment.
func c13TapClaimWitness(pre lntypes.Preimage, local bool,
	tag string) wire.TxWitness {

	leaf, cb := c13Leaf(tag+"/peer"), c13CtrlBlock(tag+"/peer")
	if local {
		// <receiver sig> <preimage> <success_script> <control_block>
		return wire.TxWitness{c13TapSig, pre[:], leaf, cb}
	}
	// <sender sig> <receiver sig> <preimage> <success_script>
	// <control_block>
	return wire.TxWitness{c13TapSig, c13TapSig, pre[:], leaf, cb}
}

// applyClaimsLocked is ccWorld.applyClaimsLocked for taproot witnesses.
func (e *c13Env) applyClaimsLocked() {
	w := e.w
	var ops []wire.OutPoint
	for op, c := range e.tapClaims {
		if c.height <= w.height {
			ops = append(ops, op)
		}
	}
	sort.Slice(ops, func(i, j int) bool {
		return ops[i].String() < ops[j].String()
	})
	for _, op := range ops {
		c := e.tapClaims[op]
		tx := ccSweepTx(op, c13TapClaimWitness(c.pre, c.local,
			op.String()))
		tx.LockTime = 0x7e
		w.spendLocked(op, tx)
	}
}

func (e *c13Env) applyClaims() {
	e.w.mu.Lock()
	defer e.w.mu.Unlock()
	e.applyClaimsLocked()
}

// ---- sweeper ----------------------------------------------------------------

const c13WrongPreimage = "which does not open the HTLC"

// c13Sweeper records every input at the moment it is handed over.
type c13Sweeper struct {
	*ccSweeper
	env *c13Env
}

func c13RenderTxOut(o *wire.TxOut) string {
	if o == nil {
		return "nil"
	}

	return fmt.Sprintf("(%d,%s)", o.Value, c13Hex(o.PkScript))
}

func c13RenderInput(inp input.Input, p sweep.Params, life int) c13InputRec {
	lock, hasLock := inp.RequiredLockTime()
	pre := "none"
	if o := inp.Preimage(); o.IsSome() {
		v := o.UnwrapOr(lntypes.Preimage{})
		pre = c13Hex(v[:])
	}
	excl := "nil"
	if p.ExclusiveGroup != nil {
		excl = fmt.Sprint(*p.ExclusiveGroup)
	}
	sd := c13RenderSDBlob(inp.SignDesc(), inp.ResolutionBlob())
	// The height hint is not part of the equality: it is a lower bound
	// for the sweeper's rescan, and with the real nursery (own goroutines)
	// the height at which an output is handed over can differ by a block
	// between two process lives. Differences are counted separately.
	core := fmt.Sprintf("wt=%v op=%v csv=%d lock=%d/%v reqout=%s "+
		"params(budget=%d deadline=%v excl=%s imm=%v) sd=[%s]",
		inp.WitnessType(), inp.OutPoint(), inp.BlocksToMaturity(), lock,
		hasLock, c13RenderTxOut(inp.RequiredTxOut()),
		p.Budget, p.DeadlineHeight, excl, p.Immediate, sd)

	return c13InputRec{
		op: inp.OutPoint(), wt: fmt.Sprint(inp.WitnessType()), core: core,
		pre: pre, sd: sd, hint: inp.HeightHint(), life: life,
	}
}

func (s *c13Sweeper) SweepInput(inp input.Input, p sweep.Params) (
	chan sweep.Result, error) {

	w := s.env.w
	w.mu.Lock()
	life := s.env.life
	w.mu.Unlock()
	rec := c13RenderInput(inp, p, life)
	ch, err := s.ccSweeper.SweepInput(inp, p)
	if err == nil {
		w.mu.Lock()
		s.env.inputs = append(s.env.inputs, rec)
		w.mu.Unlock()
	}

	return ch, err
}

// sweepHook builds the transaction with which the world answers a sweep
// request from the input itself. Called with w.mu held.
func (e *c13Env) sweepHook(r *ccSweepReq, spent bool) (*wire.MsgTx, error) {
	// A preimage that does not open the HTLC makes an invalid transaction.
	if r.pre != nil {
		var p lntypes.Preimage
		copy(p[:], r.pre)
		if h, ok := e.hashes[r.op]; ok && !p.Matches(h) {
			return nil, fmt.Errorf("%v input %v carries preimage %x "+
				"%s (hash %v): the sweep could never confirm", r.wt,
				r.op, r.pre, c13WrongPreimage, h)
		}
	}
	if spent || e.plan.tap == 0 {
		return nil, nil
	}
	sd := r.inp.SignDesc()
	ws, cb := sd.WitnessScript, sd.ControlBlock
	var wit wire.TxWitness
	switch r.wt {
	case input.TaprootHtlcAcceptedRemoteSuccess,
		input.TaprootHtlcAcceptedRemoteSuccessFinal:

		wit = wire.TxWitness{c13TapSig, r.pre, ws, cb}

	case input.TaprootHtlcLocalOfferedTimeout:
		wit = wire.TxWitness{c13TapSig, c13TapSig, ws, cb}

	case input.TaprootHtlcAcceptedLocalSuccess:
		wit = wire.TxWitness{c13TapSig, c13TapSig, r.pre, ws, cb}

	case input.TaprootAnchorSweepSpend:
		wit = wire.TxWitness{c13TapSig}

	default:
		// to_local / to_remote, direct timeout, second-level outputs:
		// <sig> <script> <control block>
		wit = wire.TxWitness{c13TapSig, ws, cb}
	}
	tx := ccSweepTx(r.op, wit)
	if r.reqOut != nil {
		tx.TxOut[0] = r.reqOut
	}

	return tx, nil
}

// ---- nursery stub ------------------------------------------------------------

// incubate is the body of IncubateOutputs (inside the effect).
func (e *c13Env) incubate(o fn.Option[lnwallet.OutgoingHtlcResolution],
	i fn.Option[lnwallet.IncomingHtlcResolution]) {

	w := e.w
	w.mu.Lock()
	defer w.mu.Unlock()
	o.WhenSome(func(r lnwallet.OutgoingHtlcResolution) {
		op := r.HtlcPoint()
		w.incubated = append(w.incubated, op.String())
		if r.SignedTimeoutTx == nil {
			return
		}
		e.kids[op] = &c13Kid{
			htlcOp: op, tx: r.SignedTimeoutTx.Copy(), outgoing: true,
			expiry: r.Expiry, csv: r.CsvDelay, claimOp: r.ClaimOutpoint,
		}
	})
	i.WhenSome(func(r lnwallet.IncomingHtlcResolution) {
		op := r.HtlcPoint()
		w.incubated = append(w.incubated, op.String())
		if r.SignedSuccessTx == nil {
			return
		}
		e.kids[op] = &c13Kid{
			htlcOp: op, tx: r.SignedSuccessTx.Copy(), csv: r.CsvDelay,
			claimOp: r.ClaimOutpoint,
		}
	})
}

// pumpNursery performs exactly one pending action of the nursery / of the
// mempool, in an order that does not depend on scheduling. It is only called
// when nothing else is pending (these things take a block in reality).
func (e *c13Env) pumpNursery(inc *ccInc) string {
	w := e.w
	w.mu.Lock()
	defer w.mu.Unlock()
	if inc.dead {
		return ""
	}
	type cand struct {
		key string
		do  func()
	}
	var cs []cand
	for op, tx := range e.mempool {
		op, tx := op, tx
		if _, ok := w.spent[op]; ok {
			continue
		}
		cs = append(cs, cand{"5published:" + op.String(), func() {
			w.spendLocked(op, tx)
			e.publishedConfirmed++
			if e.nurseryPublished[op] {
				e.nurseryTimeoutTx++
			}
		}})
	}
	confKeys, confDo := e.net.confCandidates(inc)
	for _, k := range confKeys {
		cs = append(cs, cand{k, confDo[k]})
	}
	for op, k := range e.kids {
		op, k := op, k
		d, spent := w.spent[op]
		if !spent {
			if k.outgoing && w.height >= int32(k.expiry) {
				cs = append(cs, cand{"6crib:" + op.String(), func() {
					w.spendLocked(op, k.tx)
					e.nurseryTimeoutTx++
				}})
			}

			continue
		}
		if *d.SpenderTxHash != k.tx.TxHash() {
			// Claimed by the peer: nothing left for the nursery.
			continue
		}
		if _, ok := w.spent[k.claimOp]; ok {
			continue
		}
		if w.height < d.SpendingHeight+int32(k.csv) {
			continue
		}
		cs = append(cs, cand{"7kid:" + k.claimOp.String(), func() {
			tx := ccSweepTx(k.claimOp, wire.TxWitness{
				{0x30}, {}, {0x51},
			})
			w.spendLocked(k.claimOp, tx)
			e.nurseryKidSweeps++
		}})
	}
	if len(cs) == 0 {
		return ""
	}
	sort.Slice(cs, func(i, j int) bool { return cs[i].key < cs[j].key })
	cs[0].do()

	return cs[0].key
}

// ---- wiring --------------------------------------------------------------------

// patch re-wires the parts of an arbitrator config that C13 drives itself.
// It is applied to the arbitrator's config and to the copy the bolt log hands
// to restored resolvers.
func (e *c13Env) patch(cfg *ChannelArbitratorConfig, inc *ccInc) {
	w := e.w
	state := c13ChanState(e.sc, e.plan)
	cfg.FetchHistoricalChannel = func() (*chanstate.OpenChannel, error) {
		return state, nil
	}
	cfg.Sweeper = &c13Sweeper{ccSweeper: &ccSweeper{inc: inc}, env: e}
	cfg.IncubateOutputs = func(cp wire.OutPoint,
		o fn.Option[lnwallet.OutgoingHtlcResolution],
		i fn.Option[lnwallet.IncomingHtlcResolution], h uint32,
		d fn.Option[int32], opts ...IncubateOption) error {

		if e.plan.realNursery {
			return e.incubateReal(inc, cp, o, i, h, d, opts...)
		}

		return inc.effect("IncubateOutputs", func() error {
			e.incubate(o, i)

			return nil
		})
	}
	cfg.PublishTx = func(tx *wire.MsgTx, _ string) error {
		return inc.effect("PublishTx", func() error {
			w.mu.Lock()
			defer w.mu.Unlock()
			w.commitPub = append(w.commitPub, tx.TxHash().String())
			if tx.TxHash() != ccLocalCloseTx.TxHash() &&
				len(tx.TxIn) == 1 {

				e.mempool[tx.TxIn[0].PreviousOutPoint] = tx.Copy()
			}

			return nil
		})
	}
}

// ---- oracle ----------------------------------------------------------------------

// checkInputs is oracle (a): every input's sign descriptor is the one the
// harness generated for that outpoint, and taproot channels get taproot
// witness types of the right generation.
func (e *c13Env) checkInputs() []string {
	w := e.w
	var errs []string
	for _, r := range e.inputs {
		want, ok := e.model[r.op]
		if !ok {
			// The output of a second-level transaction: find the HTLC
			// outpoint that transaction spent.
			for hop, exp := range e.second {
				d, spent := w.spent[hop]
				if spent && *d.SpenderTxHash == r.op.Hash {
					want, ok = exp, true
				}
			}
		}
		switch {
		case !ok:
			errs = append(errs, fmt.Sprintf("life %d: input %v (%s) is "+
				"not an output the node owns", r.life, r.op, r.wt))

		case want != r.sd:
			errs = append(errs, fmt.Sprintf("life %d: %s input %v: "+
				"sign descriptor / blob\n   handed over: %s\n   "+
				"generated:   %s",
				r.life, r.wt, r.op, r.sd, want))
		}
		isTap := strings.HasPrefix(r.wt, "Taproot")
		isFinal := strings.HasSuffix(r.wt, "Final")
		// Witness types without a Final variant.
		noFinal := r.wt == "TaprootAnchorSweepSpend" ||
			r.wt == "TaprootHtlcLocalOfferedTimeout" ||
			r.wt == "TaprootHtlcAcceptedLocalSuccess"
		switch {
		case isTap != (e.plan.tap > 0):
			errs = append(errs, fmt.Sprintf("life %d: input %v has "+
				"witness type %s on a %s channel", r.life, r.op, r.wt,
				c13KindNames[e.plan.kind]))

		case isTap && !noFinal && isFinal != (e.plan.tap == 2):
			errs = append(errs, fmt.Sprintf("life %d: input %v has "+
				"witness type %s on a %s channel", r.life, r.op, r.wt,
				c13KindNames[e.plan.kind]))
		}
	}

	return errs
}

// c13CompareInputs is oracle (b): per outpoint, whatever a run hands to the
// sweeper must be what the uninterrupted run handed over for that outpoint.
// It returns the number of outpoints only the restarted run offered and the
// number of inputs whose height hint differs.
func c13CompareInputs(base, run *c13Outcome, withPreimage bool) (onlyRun,
	hintDiff int, err error) {

	key := func(r *c13InputRec) string {
		if withPreimage {
			return r.core + " pre=" + r.pre
		}

		return r.core
	}

	type ent struct {
		core map[string]bool
		hint map[uint32]bool
	}
	by := map[wire.OutPoint]*ent{}
	for i, r := range base.inputs {
		x := by[r.op]
		if x == nil {
			x = &ent{core: map[string]bool{}, hint: map[uint32]bool{}}
			by[r.op] = x
		}
		x.core[key(&base.inputs[i])] = true
		x.hint[r.hint] = true
	}
	seen := map[wire.OutPoint]bool{}
	for i, r := range run.inputs {
		x := by[r.op]
		if x == nil {
			if !seen[r.op] {
				onlyRun++
			}
			seen[r.op] = true

			continue
		}
		if !x.core[key(&run.inputs[i])] {
			var was []string
			for c := range x.core {
				was = append(was, c)
			}
			sort.Strings(was)

			return 0, 0, fmt.Errorf("input %v handed to the sweeper in "+
				"process life %d differs from the uninterrupted run\n"+
				"   restarted:     %s\n   uninterrupted: %s", r.op,
				r.life, key(&run.inputs[i]),
				strings.Join(was, "\n                  "))
		}
		if !x.hint[r.hint] {
			hintDiff++
		}
	}

	return onlyRun, hintDiff, nil
}
