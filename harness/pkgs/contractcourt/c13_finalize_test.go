//go:build verif

package contractcourt

// C13, last stage: the chain arbitrator finalises a channel whose contracts
// are all resolved (ChainArbitrator.ResolveContract: the channel is marked
// fully closed in the channel database and the arbitrator's log is wiped - two
// durable writes on two stores). The crash enumeration of TestVerifC13Crash
// ends where the channel arbitrator signals NotifyChannelResolved; this test
// continues from there (added after seeded change C13f).
//
// One case = 1..3 pending-close channels (generated close type, logged
// resolutions, channel type) whose arbitrator logs say StateFullyResolved,
// finalised in a generated order. The run is repeated with the node stopped
// after the k-th durable write, for EVERY k (fault enumeration): afterwards
// every write fails, a new chain arbitrator is created on the same database
// (loadPendingCloseChannels, as ChainArbitrator.Start does) and finalises what
// is left. Everything is synchronous: ResolveContract is called on the test's
// goroutine, as resolveContracts would after the signal.
//
// Oracle:
//   - recorded stage never lost: a channel that is still pending close after
//     the stop still has its arbitrator log - state StateFullyResolved, the
//     logged resolutions and confirmed commit set readable and equal to what
//     was written (otherwise the re-created arbitrator "thinks it was
//     starting from the default state", as the comment in ResolveContract
//     puts it, and the channel can never be resolved);
//   - same terminal outcome as the uninterrupted run: after the restarted
//     arbitrator has finalised the channels that are still pending, no channel
//     is pending close and every channel is listed as closed exactly once,
//     with the summary that was recorded at close time;
//   - the uninterrupted run leaves no arbitrator log behind.

import (
	"fmt"
	"net"
	"os"
	"sort"
	"strings"
	"sync/atomic"
	"testing"

	"github.com/btcsuite/btcd/chainhash/v2"
	"github.com/btcsuite/btcd/wire/v2"
	"github.com/btcsuite/btcwallet/walletdb"
	"github.com/lightningnetwork/lnd/chainntnfs"
	"github.com/lightningnetwork/lnd/channeldb"
	"github.com/lightningnetwork/lnd/chanstate"
	"github.com/lightningnetwork/lnd/clock"
	"github.com/lightningnetwork/lnd/fn/v2"
	"github.com/lightningnetwork/lnd/graph/db/models"
	"github.com/lightningnetwork/lnd/internal/verif/vstats"
	"github.com/lightningnetwork/lnd/kvdb"
	"github.com/lightningnetwork/lnd/lntest/mock"
	"github.com/lightningnetwork/lnd/lnwallet"
	"pgregory.net/rapid"
)

var errC13Dead = fmt.Errorf("harness: the node has stopped, nothing is durable any more")

// c13StopDB lets the first stopAfter write transactions commit and fails every
// later one.
type c13StopDB struct {
	walletdb.DB
	writes    atomic.Int64
	stopAfter int64 // 0 = never
	dead      atomic.Bool
}

var _ kvdb.Backend = (*c13StopDB)(nil)

func (d *c13StopDB) committed() {
	n := d.writes.Add(1)
	if d.stopAfter > 0 && n >= d.stopAfter {
		d.dead.Store(true)
	}
}

func (d *c13StopDB) Update(f func(tx walletdb.ReadWriteTx) error,
	reset func()) error {

	if d.dead.Load() {
		return errC13Dead
	}
	err := d.DB.Update(f, reset)
	if err == nil {
		d.committed()
	}

	return err
}

type c13StopTx struct {
	walletdb.ReadWriteTx
	d *c13StopDB
}

func (t *c13StopTx) Commit() error {
	err := t.ReadWriteTx.Commit()
	if err == nil {
		t.d.committed()
	}

	return err
}

func (d *c13StopDB) BeginReadWriteTx() (walletdb.ReadWriteTx, error) {
	if d.dead.Load() {
		return nil, errC13Dead
	}
	tx, err := d.DB.BeginReadWriteTx()
	if err != nil {
		return nil, err
	}

	return &c13StopTx{ReadWriteTx: tx, d: d}, nil
}

type c13FinChan struct {
	closeType channeldb.ClosureType
	typeIx    int
	nIn, nOut int
	commitRes bool
	anchorRes bool
	height    uint32
	settled   int64
}

func (c c13FinChan) String() string {
	return fmt.Sprintf("{close=%d type=%d in=%d out=%d commit=%v anchor=%v h=%d}",
		c.closeType, c.typeIx, c.nIn, c.nOut, c.commitRes, c.anchorRes,
		c.height)
}

func c13FinCfg() ChainArbitratorConfig {
	return ChainArbitratorConfig{
		ChainIO: &mock.ChainIO{},
		Notifier: &mock.ChainNotifier{
			SpendChan: make(chan *chainntnfs.SpendDetail),
			ConfChan:  make(chan *chainntnfs.TxConfirmation),
		},
		PublishTx: func(*wire.MsgTx, string) error { return nil },
		Clock:     clock.NewDefaultClock(),
		Budget:    *DefaultBudgetConfig(),
		QueryIncomingCircuit: func(models.CircuitKey) *models.CircuitKey {
			return nil
		},
	}
}

type c13FinWorld struct {
	dir    string
	bolt   kvdb.Backend
	stop   *c13StopDB
	db     *channeldb.DB
	points []wire.OutPoint
	sums   map[wire.OutPoint]string
	ress   map[wire.OutPoint]string
}

func (w *c13FinWorld) close() {
	_ = w.bolt.Close()
	_ = os.RemoveAll(w.dir)
}

func c13FinSummary(s *channeldb.ChannelCloseSummary) string {
	return fmt.Sprintf("%v %v %d type=%d settled=%d cap=%d", s.ChanPoint,
		s.ClosingTXID, s.CloseHeight, s.CloseType, s.SettledBalance,
		s.Capacity)
}

func c13FinResString(r *ContractResolutions, cs *CommitSet) string {
	var b strings.Builder
	fmt.Fprintf(&b, "hash=%v commit=%v anchor=%v in=%d out=%d", r.CommitHash,
		r.CommitResolution != nil, r.AnchorResolution != nil,
		len(r.HtlcResolutions.IncomingHTLCs),
		len(r.HtlcResolutions.OutgoingHTLCs))
	for _, h := range r.HtlcResolutions.IncomingHTLCs {
		fmt.Fprintf(&b, " i:%v:%x", h.ClaimOutpoint, h.Preimage[:4])
	}
	for _, h := range r.HtlcResolutions.OutgoingHTLCs {
		fmt.Fprintf(&b, " o:%v:%d", h.ClaimOutpoint, h.Expiry)
	}
	if cs != nil {
		fmt.Fprintf(&b, " confKey=%v", cs.ConfCommitKey)
		var keys []string
		for k, v := range cs.HtlcSets {
			keys = append(keys, fmt.Sprintf("%v:%d", k, len(v)))
		}
		sort.Strings(keys)
		fmt.Fprintf(&b, " sets=%v", keys)
	}

	return b.String()
}

// c13FinBuild creates a database with the given pending-close channels, their
// arbitrator logs filled the way an uninterrupted resolution leaves them.
func c13FinBuild(protos []*chanstate.OpenChannel, chans []c13FinChan,
	cfg ChainArbitratorConfig, stopAfter int64) (*c13FinWorld, error) {

	dir, err := os.MkdirTemp("", "c13fin")
	if err != nil {
		return nil, err
	}
	bolt, err := kvdb.GetBoltBackend(&kvdb.BoltBackendConfig{
		DBPath: dir, DBFileName: "channel.db", NoFreelistSync: true,
		DBTimeout: kvdb.DefaultDBTimeout,
	})
	if err != nil {
		return nil, err
	}
	w := &c13FinWorld{dir: dir, bolt: bolt,
		sums: map[wire.OutPoint]string{}, ress: map[wire.OutPoint]string{}}
	// set-up writes go to the plain backend
	setup, err := channeldb.CreateWithBackend(bolt)
	if err != nil {
		w.close()
		return nil, err
	}
	for i, c := range chans {
		ch := *protos[c.typeIx]
		ch.FundingOutpoint.Index = uint32(i)
		ch.Db = setup.ChannelStateDB()
		addr := &net.TCPAddr{IP: net.ParseIP("127.0.0.1"), Port: 18556}
		if err := ch.SyncPending(addr, 101); err != nil {
			w.close()
			return nil, fmt.Errorf("SyncPending: %v", err)
		}
		cp := ch.FundingOutpoint
		closeTxid := chainhash.Hash{0x01, byte(i)}
		sum := &channeldb.ChannelCloseSummary{
			ChanPoint: cp, ShortChanID: ch.ShortChanID(),
			ChainHash: ch.ChainHash, ClosingTXID: closeTxid,
			RemotePub: ch.IdentityPub, Capacity: ch.Capacity,
			CloseHeight: c.height, CloseType: c.closeType,
			SettledBalance: 0, IsPending: true,
		}
		sum.SettledBalance = ch.Capacity / 3
		if err := ch.CloseChannel(sum); err != nil {
			w.close()
			return nil, fmt.Errorf("CloseChannel: %v", err)
		}
		log, err := newBoltArbitratorLog(
			bolt, ChannelArbitratorConfig{
				ChanPoint: cp, ChainArbitratorConfig: cfg,
			}, cfg.ChainHash, cp,
		)
		if err != nil {
			w.close()
			return nil, err
		}
		res := &ContractResolutions{CommitHash: closeTxid}
		if c.commitRes {
			res.CommitResolution = &lnwallet.CommitOutputResolution{
				SelfOutPoint:       wire.OutPoint{Hash: closeTxid},
				SelfOutputSignDesc: testSignDesc,
				MaturityDelay:      uint32(i),
			}
		}
		if c.anchorRes {
			res.AnchorResolution = &lnwallet.AnchorResolution{
				CommitAnchor:         wire.OutPoint{Hash: closeTxid, Index: 9},
				AnchorSignDescriptor: testSignDesc,
			}
		}
		for j := 0; j < c.nIn; j++ {
			res.HtlcResolutions.IncomingHTLCs = append(
				res.HtlcResolutions.IncomingHTLCs,
				lnwallet.IncomingHtlcResolution{
					Preimage:      [32]byte{0xaa, byte(i), byte(j)},
					ClaimOutpoint: wire.OutPoint{Hash: closeTxid, Index: uint32(10 + j)},
					SweepSignDesc: testSignDesc,
				},
			)
		}
		for j := 0; j < c.nOut; j++ {
			res.HtlcResolutions.OutgoingHTLCs = append(
				res.HtlcResolutions.OutgoingHTLCs,
				lnwallet.OutgoingHtlcResolution{
					Expiry:        uint32(500 + j),
					ClaimOutpoint: wire.OutPoint{Hash: closeTxid, Index: uint32(20 + j)},
					SweepSignDesc: testSignDesc,
				},
			)
		}
		if err := log.LogContractResolutions(res); err != nil {
			w.close()
			return nil, fmt.Errorf("LogContractResolutions: %v", err)
		}
		key := RemoteHtlcSet
		if c.closeType == channeldb.LocalForceClose {
			key = LocalHtlcSet
		}
		cs := &CommitSet{
			ConfCommitKey: fn.Some(key),
			HtlcSets:      map[HtlcSetKey][]channeldb.HTLC{key: {}},
		}
		if err := log.InsertConfirmedCommitSet(cs); err != nil {
			w.close()
			return nil, err
		}
		if err := log.CommitState(StateFullyResolved); err != nil {
			w.close()
			return nil, err
		}
		w.points = append(w.points, cp)
		w.sums[cp] = c13FinSummary(sum)
		// read back what the log really holds (codec normalisation)
		r2, err := log.FetchContractResolutions()
		if err != nil {
			w.close()
			return nil, fmt.Errorf("harness: read back: %v", err)
		}
		cs2, err := log.FetchConfirmedCommitSet(nil)
		if err != nil {
			w.close()
			return nil, fmt.Errorf("harness: read back commit set: %v", err)
		}
		w.ress[cp] = c13FinResString(r2, cs2)
	}

	w.stop = &c13StopDB{DB: bolt, stopAfter: stopAfter}
	w.db, err = channeldb.CreateWithBackend(w.stop)
	if err != nil {
		w.close()
		return nil, err
	}

	return w, nil
}

func c13FinPending(db *channeldb.DB) (map[wire.OutPoint]bool, error) {
	p, err := db.ChannelStateDB().FetchClosedChannels(true)
	if err != nil {
		return nil, err
	}
	out := map[wire.OutPoint]bool{}
	for _, s := range p {
		out[s.ChanPoint] = true
	}

	return out, nil
}

// c13FinLife creates a chain arbitrator on db, loads the pending-close
// channels like ChainArbitrator.Start and finalises the given channels in
// order (those that are still pending and whose log says fully resolved).
func c13FinLife(db *channeldb.DB, cfg ChainArbitratorConfig,
	order []wire.OutPoint, stop *c13StopDB) error {

	ca := NewChainArbitrator(cfg, db)
	if err := ca.loadPendingCloseChannels(); err != nil {
		return fmt.Errorf("loadPendingCloseChannels: %v", err)
	}
	for _, cp := range order {
		arb := ca.activeChannels[cp]
		if arb == nil {
			continue
		}
		st, err := arb.log.CurrentState(nil)
		if err != nil {
			return fmt.Errorf("CurrentState(%v): %v", cp, err)
		}
		if st != StateFullyResolved {
			continue
		}
		// what resolveContracts does on the signal
		_ = ca.ResolveContract(cp)
		if stop != nil && stop.dead.Load() {
			return nil
		}
	}

	return nil
}

func TestVerifC13Finalize(t *testing.T) {
	st := vstats.New("TestVerifC13Finalize")
	defer st.Flush()

	types := []channeldb.ChannelType{
		channeldb.SingleFunderTweaklessBit,
		channeldb.SingleFunderTweaklessBit | channeldb.AnchorOutputsBit |
			channeldb.ZeroHtlcTxFeeBit,
	}
	var protos []*chanstate.OpenChannel
	for _, ct := range types {
		a, _, err := lnwallet.CreateTestChannels(t, ct)
		if err != nil {
			t.Fatalf("harness: CreateTestChannels: %v", err)
		}
		protos = append(protos, a.State())
	}
	closeTypes := []channeldb.ClosureType{
		channeldb.RemoteForceClose, channeldb.LocalForceClose,
		channeldb.BreachClose,
	}

	rapid.Check(t, func(rt *rapid.T) {
		n := rapid.IntRange(1, 3).Draw(rt, "channels")
		var chans []c13FinChan
		for i := 0; i < n; i++ {
			chans = append(chans, c13FinChan{
				closeType: closeTypes[rapid.IntRange(0, 2).Draw(rt, "closeType")],
				typeIx:    rapid.IntRange(0, 1).Draw(rt, "chanType"),
				nIn:       rapid.IntRange(0, 2).Draw(rt, "incoming"),
				nOut:      rapid.IntRange(0, 2).Draw(rt, "outgoing"),
				commitRes: rapid.Bool().Draw(rt, "commitRes"),
				anchorRes: rapid.Bool().Draw(rt, "anchorRes"),
				height:    uint32(rapid.IntRange(150, 400).Draw(rt, "closeHeight")),
			})
		}
		perm := rapid.Permutation([]int{0, 1, 2}[:n]).Draw(rt, "order")
		cfg := c13FinCfg()

		run := func(stopAfter int64) (writes int64, err error) {
			w, err := c13FinBuild(protos, chans, cfg, stopAfter)
			if err != nil {
				return 0, fmt.Errorf("harness: %v", err)
			}
			defer w.close()
			var order []wire.OutPoint
			for _, ix := range perm {
				order = append(order, w.points[ix])
			}
			if err := c13FinLife(w.db, cfg, order, w.stop); err != nil {
				return 0, err
			}
			writes = w.stop.writes.Load()
			if stopAfter > 0 && !w.stop.dead.Load() {
				return writes, fmt.Errorf("harness: stop point %d not "+
					"reached (%d writes)", stopAfter, writes)
			}

			// ---- the node is down; look at what is durable -------
			db2, err := channeldb.CreateWithBackend(w.bolt)
			if err != nil {
				return writes, fmt.Errorf("reopen: %v", err)
			}
			pending, err := c13FinPending(db2)
			if err != nil {
				return writes, err
			}
			if stopAfter == 0 && len(pending) != 0 {
				return writes, fmt.Errorf("uninterrupted run leaves %d "+
					"channels pending close", len(pending))
			}
			for _, cp := range w.points {
				log, err := newBoltArbitratorLog(
					w.bolt, ChannelArbitratorConfig{
						ChanPoint: cp, ChainArbitratorConfig: cfg,
					}, cfg.ChainHash, cp,
				)
				if err != nil {
					return writes, err
				}
				state, err := log.CurrentState(nil)
				if err != nil {
					return writes, fmt.Errorf("CurrentState: %v", err)
				}
				if !pending[cp] {
					if stopAfter == 0 && state != StateDefault {
						return writes, fmt.Errorf("uninterrupted run: "+
							"channel %v is fully closed but its "+
							"arbitrator log still says %v", cp, state)
					}
					continue
				}
				// still pending close: the recorded stage must be
				// intact
				if state != StateFullyResolved {
					return writes, fmt.Errorf("channel %v is still "+
						"pending close but its arbitrator log says %v "+
						"(recorded stage StateFullyResolved lost): a "+
						"re-created arbitrator starts from scratch", cp,
						state)
				}
				r, err := log.FetchContractResolutions()
				if err != nil {
					return writes, fmt.Errorf("channel %v is still "+
						"pending close but its logged resolutions are "+
						"gone: %v", cp, err)
				}
				cs, err := log.FetchConfirmedCommitSet(nil)
				if err != nil {
					return writes, fmt.Errorf("channel %v is still "+
						"pending close but its confirmed commit set is "+
						"gone: %v", cp, err)
				}
				if got := c13FinResString(r, cs); got != w.ress[cp] {
					return writes, fmt.Errorf("channel %v: logged "+
						"resolutions changed:\n got %s\nwant %s", cp, got,
						w.ress[cp])
				}
			}

			// ---- second life ------------------------------------
			if stopAfter > 0 {
				if err := c13FinLife(db2, cfg, order, nil); err != nil {
					return writes, fmt.Errorf("after restart: %v", err)
				}
				pending, err = c13FinPending(db2)
				if err != nil {
					return writes, err
				}
				if len(pending) != 0 {
					return writes, fmt.Errorf("after restart %d channels "+
						"stay pending close; uninterrupted: none",
						len(pending))
				}
			}
			closed, err := db2.ChannelStateDB().FetchClosedChannels(false)
			if err != nil {
				return writes, err
			}
			seen := map[wire.OutPoint]int{}
			for _, s := range closed {
				seen[s.ChanPoint]++
				if s.IsPending {
					return writes, fmt.Errorf("channel %v listed as "+
						"pending at the end", s.ChanPoint)
				}
				if got := c13FinSummary(s); got != w.sums[s.ChanPoint] {
					return writes, fmt.Errorf("close summary changed: "+
						"%s, recorded %s", got, w.sums[s.ChanPoint])
				}
			}
			for _, cp := range w.points {
				if seen[cp] != 1 {
					return writes, fmt.Errorf("channel %v listed %d "+
						"times among the closed channels", cp, seen[cp])
				}
			}

			return writes, nil
		}

		total, err := run(0)
		if err != nil {
			rt.Fatalf("uninterrupted: %v\nchannels: %v order %v", err, chans,
				perm)
		}
		if total < int64(2*n) {
			rt.Fatalf("harness: only %d durable writes for %d channels",
				total, n)
		}
		for k := int64(1); k <= total; k++ {
			if _, err := run(k); err != nil {
				rt.Fatalf("stop after durable write %d of %d: %v\n"+
					"channels: %v order %v", k, total, err, chans, perm)
			}
			st.Count("stop_points", 1)
		}
		labels := []string{fmt.Sprintf("channels=%d", n)}
		for _, c := range chans {
			labels = append(labels, fmt.Sprintf("close=%d", c.closeType))
		}
		st.Case(vstats.FP(fmt.Sprint(chans), fmt.Sprint(perm)), true,
			labels, map[string]any{"channels": fmt.Sprint(chans),
				"order": fmt.Sprint(perm), "durable_writes": total})
	})
}
