//go:build verif

package contractcourt

// C05 (contractcourt variant), the utxo nursery's own spends.
//
// For channel types without zero-fee second-level transactions (legacy,
// tweakless, plain anchors) the HTLC resolvers of our own commitment hand
// their outputs to IncubateOutputs, and it is the nursery that chooses
// witness type, CSV delay, CLTV and sign descriptor of the input that
// finally sweeps the second-level output (makeKidOutput / makeBabyOutput,
// stored in and read back from the nursery store). c05Nursery runs the REAL
// UtxoNursery (rig: ccnursery_test.go) on a real store in the close's bolt
// file:
//
//   - second-level timeout transactions the nursery publishes are validated
//     against the commitment output like every other published transaction,
//     must not be published before their CLTV, and "confirm";
//   - confirmation notifications are pumped one at a time, the chain is
//     advanced to every height at which the nursery store holds a class;
//   - every input the nursery hands to its sweeper lands in the same capturing
//     sweeper stub as the resolvers' inputs and is validated by the same hook
//     (assembled like sweep/txgenerator.go, signed by its own
//     CraftInputScript, interpreter against the ACTUAL output of the real
//     second-level transaction, one-block-early negative controls), plus:
//     it must not be handed over before the block after which it can be
//     mined (confirmation height + CSV, CLTV).

import (
	"fmt"
	"math"
	"sync"

	"github.com/btcsuite/btcd/chainhash/v2"
	"github.com/btcsuite/btcd/wire/v2"
	"github.com/lightningnetwork/lnd/fn/v2"
	"github.com/lightningnetwork/lnd/input"
	"github.com/lightningnetwork/lnd/kvdb"
	"github.com/lightningnetwork/lnd/lnwallet"
	"github.com/lightningnetwork/lnd/sweep"
)

type c05Nursery struct {
	w       *ccWorld
	inc     *ccInc
	net     *ccNurseryNet
	nursery *UtxoNursery
	store   *NurseryStore

	mu sync.Mutex
	// offered: height at which the nursery handed an outpoint to its
	// sweeper (first time).
	offered map[wire.OutPoint]int32
	// confHeight: height at which a published transaction confirmed.
	confHeight map[chainhash.Hash]int32
	// incubated counts IncubateOutputs calls that carried an output.
	incubated int
}

// newC05Nursery builds and starts the nursery. publish validates and
// confirms a transaction (c05Run's closure); violation records a violation.
func newC05Nursery(w *ccWorld, inc *ccInc, db kvdb.Backend,
	chanPoint wire.OutPoint,
	publish func(tx *wire.MsgTx, how string) error,
	violation func(error)) (*c05Nursery, error) {

	n := &c05Nursery{
		w: w, inc: inc, net: &ccNurseryNet{w: w},
		offered:    make(map[wire.OutPoint]int32),
		confHeight: make(map[chainhash.Hash]int32),
	}
	height := func() int32 {
		w.mu.Lock()
		defer w.mu.Unlock()

		return w.height
	}
	pub := func(tx *wire.MsgTx) error {
		h := height()
		// A transaction with lock time L can be mined in a block above
		// L: publishing at tip L is the earliest useful moment.
		if tx.LockTime > uint32(h) {
			violation(fmt.Errorf("nursery published %v with lock time "+
				"%d at height %d", tx.TxHash(), tx.LockTime, h))
		}
		n.mu.Lock()
		_, done := n.confHeight[tx.TxHash()]
		n.mu.Unlock()
		if done {
			// Re-published (already confirmed).
			return nil
		}
		if err := publish(tx.Copy(), "nursery_timeout_tx"); err != nil {
			violation(err)

			return nil
		}
		n.noteConfirmed(tx, h)

		return nil
	}
	sweeper := &ccSweeper{inc: inc}
	sweepInput := func(inp input.Input, p sweep.Params) (chan sweep.Result,
		error) {

		h := height()
		n.mu.Lock()
		if _, ok := n.offered[inp.OutPoint()]; !ok {
			n.offered[inp.OutPoint()] = h
		}
		n.mu.Unlock()

		return sweeper.SweepInput(inp, p)
	}
	var err error
	n.nursery, n.store, err = ccNewNursery(
		n.net, inc, db, chanPoint, pub, sweepInput,
	)
	if err != nil {
		return nil, err
	}
	if err := n.nursery.Start(); err != nil {
		return nil, err
	}

	return n, nil
}

func (n *c05Nursery) stop() { _ = n.nursery.Stop() }

// noteConfirmed records the height at which a (second-level) transaction
// confirmed.
func (n *c05Nursery) noteConfirmed(tx *wire.MsgTx, h int32) {
	n.mu.Lock()
	defer n.mu.Unlock()
	if _, ok := n.confHeight[tx.TxHash()]; !ok {
		n.confHeight[tx.TxHash()] = h
	}
}

// incubate is cfg.IncubateOutputs.
func (n *c05Nursery) incubate(cp wire.OutPoint,
	o fn.Option[lnwallet.OutgoingHtlcResolution],
	i fn.Option[lnwallet.IncomingHtlcResolution], h uint32,
	d fn.Option[int32], opts ...IncubateOption) error {

	n.mu.Lock()
	if o.IsSome() || i.IsSome() {
		n.incubated++
	}
	n.mu.Unlock()

	return n.nursery.IncubateOutputs(cp, o, i, h, d, opts...)
}

// isNurseryInput reports whether the nursery offered op, and at which height.
func (n *c05Nursery) offeredAt(op wire.OutPoint) (int32, bool) {
	n.mu.Lock()
	defer n.mu.Unlock()
	h, ok := n.offered[op]

	return h, ok
}

// checkMaturity: an input the nursery handed over at tip h can be mined in
// block h+1 at the earliest; by then its CSV (counted from the confirmation
// of the transaction that created the output) and CLTV must have matured.
func (n *c05Nursery) checkMaturity(inp input.Input, h int32) error {
	op := inp.OutPoint()
	n.mu.Lock()
	conf, ok := n.confHeight[op.Hash]
	n.mu.Unlock()
	if !ok {
		return fmt.Errorf("nursery offered %v input %v whose parent "+
			"transaction never confirmed", inp.WitnessType(), op)
	}
	if csv := int32(inp.BlocksToMaturity()); h+1 < conf+csv {
		return fmt.Errorf("nursery offered %v input %v at height %d: "+
			"parent confirmed at %d, CSV %d, not minable before block %d",
			inp.WitnessType(), op, h, conf, csv, conf+csv)
	}
	if lt, ok := inp.RequiredLockTime(); ok && int32(lt) > h {
		return fmt.Errorf("nursery offered %v input %v with lock time "+
			"%d at height %d", inp.WitnessType(), op, lt, h)
	}

	return nil
}

// nextClass returns the lowest height above cur at which the nursery store
// holds a class (-1: none).
func (n *c05Nursery) nextClass(cur int32) int32 {
	hs, err := n.store.HeightsBelowOrEqual(math.MaxUint32)
	if err != nil {
		return -1
	}
	next := int32(-1)
	for _, h := range hs {
		if int32(h) > cur && (next < 0 || int32(h) < next) {
			next = int32(h)
		}
	}

	return next
}
