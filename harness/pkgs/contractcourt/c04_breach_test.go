//go:build verif

package contractcourt

// C04: every revoked counterparty commitment can be fully punished from
// persisted data. The channel simulator (internal/verif/chansim) produces
// generated channel histories; every commitment transaction the counterparty
// revokes is remembered. For every one of them, using only the victim's
// database (fetched afresh): the state hint identifies the height, the chain
// watcher classifies the broadcast as a breach of that height, a breach
// retribution is built (with and without the spending tx), and the breach
// arbitrator's justice transactions (all variants, incl. second-level after
// the cheater advanced an HTLC) validate under Bitcoin's script interpreter
// against the actual outputs of the revoked transaction. The inputs of the
// spend-all variant must be exactly the outputs the bookkeeping model
// assigns value to.

import (
	"errors"
	"fmt"
	"sort"
	"strings"
	"testing"

	"github.com/btcsuite/btcd/btcutil/v2"
	"github.com/btcsuite/btcd/wire/v2"
	"github.com/lightningnetwork/lnd/chainntnfs"
	"github.com/lightningnetwork/lnd/channeldb"
	"github.com/lightningnetwork/lnd/fn/v2"
	"github.com/lightningnetwork/lnd/input"
	"github.com/lightningnetwork/lnd/internal/verif/chansim"
	"github.com/lightningnetwork/lnd/internal/verif/vstats"
	"github.com/lightningnetwork/lnd/lnwallet"
	"github.com/lightningnetwork/lnd/lnwallet/chainfee"
	"pgregory.net/rapid"
)

type c04Estimator struct{}

func (c04Estimator) EstimateFeePerKW(uint32) (chainfee.SatPerKWeight, error) {
	return 1, nil
}
func (c04Estimator) Start() error                          { return nil }
func (c04Estimator) Stop() error                           { return nil }
func (c04Estimator) RelayFeePerKW() chainfee.SatPerKWeight { return 1 }

type c04Revoked struct {
	victim int
	height uint64
	tx     *wire.MsgTx
	// second-level txs the cheater could confirm, by commitment output
	second map[uint32]*wire.MsgTx
	exp    *chansim.Expected
	// legacy: the victim's revocation log entry of this height is stored
	// in the pre-v0.15 format (deprecated bucket, full commitment).
	legacy bool
}

type c04Stats struct {
	states, inputs, secondLevel, noAmtMissing, leaseExcluded int
}

func c04Check(s *chansim.Sim, r *c04Revoked, st *c04Stats) error {
	x := r.victim
	y := 1 - x
	side := s.Sides[x]
	name := fmt.Sprintf("%s punishing %s's revoked height %d", side.Name,
		s.Sides[y].Name, r.height)
	state, err := side.FetchState()
	if err != nil {
		return fmt.Errorf("%s: fetch: %v", name, err)
	}

	// 1. state hint
	op := s.P.Opener()
	obf := lnwallet.DeriveStateHintObfuscator(
		s.Sides[op].Keys[2].PubKey(), s.Sides[1-op].Keys[2].PubKey(),
	)
	if got := lnwallet.GetStateNumHint(r.tx, obf); got != r.height {
		return fmt.Errorf("%s: state hint of the broadcast tx says %d",
			name, got)
	}

	leaf := fn.Some[lnwallet.AuxLeafStore](&lnwallet.MockAuxLeafStore{})
	noRes := fn.None[lnwallet.AuxContractResolver]()

	// 3. retribution with and without the breach transaction
	ret, err := lnwallet.NewBreachRetribution(
		state, r.height, 1000, r.tx, leaf, noRes,
	)
	if err != nil {
		return fmt.Errorf("%s: NewBreachRetribution(with tx): %v", name, err)
	}
	retNoTx, err := lnwallet.NewBreachRetribution(
		state, r.height, 1000, nil, leaf, noRes,
	)
	switch {
	case s.P.NoAmtData && !r.legacy:
		if !errors.Is(err, lnwallet.ErrRevLogDataMissing) {
			return fmt.Errorf("%s: no amount data stored and no breach "+
				"tx: want ErrRevLogDataMissing, got %v", name, err)
		}
		st.noAmtMissing++
	case err != nil:
		return fmt.Errorf("%s: NewBreachRetribution(nil tx) with stored "+
			"amounts: %v", name, err)
	}
	if ret.BreachTxHash != r.tx.TxHash() {
		return fmt.Errorf("%s: retribution is for tx %v, broadcast %v",
			name, ret.BreachTxHash, r.tx.TxHash())
	}
	if ret.RevokedStateNum != r.height {
		return fmt.Errorf("%s: retribution state num %d", name,
			ret.RevokedStateNum)
	}

	brar := NewBreachArbitrator(&BreachConfig{
		Estimator: c04Estimator{},
		GenSweepScript: func() fn.Result[lnwallet.AddrWithKey] {
			return fn.Ok(lnwallet.AddrWithKey{
				DeliveryAddress: append([]byte{0x00, 0x14},
					make([]byte, 20)...),
			})
		},
		Signer: side.Signer,
	})

	verifyVariant := func(what string, jc *justiceTxCtx,
		prevs map[wire.OutPoint]*wire.TxOut) (int, error) {

		if jc == nil {
			return 0, nil
		}
		tx := jc.justiceTx
		fetcher := newMultiFetcher(prevs)
		for i, in := range tx.TxIn {
			prev, ok := prevs[in.PreviousOutPoint]
			if !ok {
				return 0, fmt.Errorf("%s: %s input %v is not an "+
					"output of the revoked transaction", name, what,
					in.PreviousOutPoint)
			}
			// Known finding: on a script-enforced lease channel
			// whose initiator is the victim, the victim's own
			// to_remote output is CLTV-locked to the lease expiry
			// but the justice transactions carry no lock time.
			const leaseKey = "C04:lease-initiator-to-remote-cltv"
			if s.P.ChanType.HasLeaseExpiration() && s.P.Opener() == x &&
				ret.LocalOutputSignDesc != nil &&
				in.PreviousOutPoint == ret.LocalOutpoint &&
				vstats.IsKnown(leaseKey) {

				st.leaseExcluded++
				continue
			}
			if err := verifyWithFetcher(tx, i, prev, fetcher); err != nil {
				return 0, fmt.Errorf("%s: %s input %d (%v, %d sat) "+
					"witness invalid: %v", name, what, i,
					in.PreviousOutPoint, prev.Value, err)
			}
		}
		return len(tx.TxIn), nil
	}

	txid := r.tx.TxHash()
	prevs := map[wire.OutPoint]*wire.TxOut{}
	for i, o := range r.tx.TxOut {
		prevs[wire.OutPoint{Hash: txid, Index: uint32(i)}] = o
	}

	for vi, rt := range []*lnwallet.BreachRetribution{ret, retNoTx} {
		if rt == nil {
			continue
		}
		tag := []string{"with-tx", "from-log-only"}[vi]
		chanPoint := state.FundingOutpoint
		info := newRetributionInfo(&chanPoint, rt)

		// recorded sign descriptors must describe the real outputs
		for i := range info.breachedOutputs {
			bo := &info.breachedOutputs[i]
			prev, ok := prevs[bo.outpoint]
			if !ok {
				return fmt.Errorf("%s [%s]: recorded outpoint %v does "+
					"not exist on the revoked tx", name, tag, bo.outpoint)
			}
			if prev.Value != bo.signDesc.Output.Value ||
				string(prev.PkScript) != string(bo.signDesc.Output.PkScript) {

				return fmt.Errorf("%s [%s]: recorded output %v (%d "+
					"sat) does not match the actual output (%d sat)",
					name, tag, bo.outpoint, bo.signDesc.Output.Value,
					prev.Value)
			}
		}

		txs, err := brar.createJusticeTx(info.breachedOutputs)
		if err != nil {
			return fmt.Errorf("%s [%s]: createJusticeTx: %v", name, tag, err)
		}
		n, err := verifyVariant(tag+" spendAll", txs.spendAll, prevs)
		if err != nil {
			return err
		}
		st.inputs += n
		if _, err := verifyVariant(tag+" spendCommitOuts", txs.spendCommitOuts, prevs); err != nil {
			return err
		}
		if _, err := verifyVariant(tag+" spendHTLCs", txs.spendHTLCs, prevs); err != nil {
			return err
		}

		// 5. completeness against the model
		e := r.exp
		var want []int64
		if v := btcutil.Amount(uint64(e.Stored[y]) / 1000); v >= s.P.Dust[y] {
			want = append(want, int64(v)) // cheater's to_local
		}
		if v := btcutil.Amount(uint64(e.Stored[x]) / 1000); v >= s.P.Dust[y] {
			want = append(want, int64(v)) // our to_remote
		}
		for _, h := range e.NonDust {
			want = append(want, int64(uint64(h.Amt)/1000))
		}
		var got []int64
		if txs.spendAll != nil {
			for _, in := range txs.spendAll.justiceTx.TxIn {
				got = append(got, prevs[in.PreviousOutPoint].Value)
			}
		}
		sort.Slice(want, func(i, j int) bool { return want[i] < want[j] })
		sort.Slice(got, func(i, j int) bool { return got[i] < got[j] })
		if fmt.Sprint(want) != fmt.Sprint(got) {
			return fmt.Errorf("%s [%s]: justice tx spends outputs %v, "+
				"the revoked commitment holds %v (to_local, to_remote, "+
				"non-dust HTLCs)", name, tag, got, want)
		}

		// second level: the cheater confirms each available
		// second-level tx, one at a time.
		if vi == 0 {
			for idx, stx := range r.second {
				// A fresh retribution per scenario: updateBreachInfo
				// rewrites sign descriptors whose Output pointers
				// are shared with the retribution they came from.
				rt2, err := lnwallet.NewBreachRetribution(
					state, r.height, 1000, r.tx, leaf, noRes,
				)
				if err != nil {
					return fmt.Errorf("%s: NewBreachRetribution: %v",
						name, err)
				}
				info2 := newRetributionInfo(&chanPoint, rt2)
				var spends []spend
				for i := range info2.breachedOutputs {
					bo := &info2.breachedOutputs[i]
					if bo.outpoint.Hash == txid && bo.outpoint.Index == idx {
						h := stx.TxHash()
						spends = append(spends, spend{
							index: i,
							detail: &chainntnfs.SpendDetail{
								SpentOutPoint:     &bo.outpoint,
								SpenderTxHash:     &h,
								SpendingTx:        stx,
								SpenderInputIndex: 0,
								SpendingHeight:    1001,
							},
						})
					}
				}
				if len(spends) != 1 {
					return fmt.Errorf("%s: HTLC output %d advanced by "+
						"the cheater is not among the breached "+
						"outputs", name, idx)
				}
				updateBreachInfo(info2, spends)
				txs2, err := brar.createJusticeTx(info2.breachedOutputs)
				if err != nil {
					return fmt.Errorf("%s: createJusticeTx after "+
						"second-level spend: %v", name, err)
				}
				if len(txs2.spendSecondLevelHTLCs) != 1 {
					return fmt.Errorf("%s: %d second-level justice "+
						"txs after the cheater advanced output %d",
						name, len(txs2.spendSecondLevelHTLCs), idx)
				}
				sh := stx.TxHash()
				prevs2 := map[wire.OutPoint]*wire.TxOut{}
				for k, v := range prevs {
					prevs2[k] = v
				}
				for i, o := range stx.TxOut {
					prevs2[wire.OutPoint{Hash: sh, Index: uint32(i)}] = o
				}
				delete(prevs2, wire.OutPoint{Hash: txid, Index: idx})
				if _, err := verifyVariant("second-level revoke",
					txs2.spendSecondLevelHTLCs[0], prevs2); err != nil {

					return err
				}
				if _, err := verifyVariant("spendAll after second level",
					txs2.spendAll, prevs2); err != nil {

					return err
				}
				st.secondLevel++
			}
		}
	}
	st.states++
	return nil
}

// c04Classify feeds the revoked transaction through the chain watcher's own
// classifier and requires a breach hand-off for that height. It marks the
// channel borked in the database, so it runs last.
//
// staleHandle: the watcher works on the channel handle that was loaded when the
// channel was created and never refreshed since (lnd's chain watcher keeps the
// handle it got at start-up for its whole life and relies on newChainSet to
// re-read commitments and the revocation store from disk); otherwise on a
// handle fetched right now. Added after seeded change C04d.
func c04Classify(s *chansim.Sim, r *c04Revoked, staleHandle bool) error {
	x := r.victim
	side := s.Sides[x]
	state, err := side.FetchState()
	if err != nil {
		return err
	}
	if staleHandle && side.Stale != nil {
		state = side.Stale
	}
	var handed *lnwallet.BreachRetribution
	cw := &chainWatcher{
		cfg: chainWatcherConfig{
			chanState: state,
			signer:    side.Signer,
			contractBreach: func(b *lnwallet.BreachRetribution) error {
				handed = b
				return nil
			},
			extractStateNumHint: lnwallet.GetStateNumHint,
			auxLeafStore: fn.Some[lnwallet.AuxLeafStore](
				&lnwallet.MockAuxLeafStore{},
			),
		},
		quit:                make(chan struct{}),
		clientSubscriptions: make(map[uint64]*ChainEventSubscription),
	}
	op := s.P.Opener()
	cw.stateHintObfuscator = lnwallet.DeriveStateHintObfuscator(
		s.Sides[op].Keys[2].PubKey(), s.Sides[1-op].Keys[2].PubKey(),
	)
	h := r.tx.TxHash()
	err = cw.handleCommitSpend(&chainntnfs.SpendDetail{
		SpentOutPoint:  &state.FundingOutpoint,
		SpenderTxHash:  &h,
		SpendingTx:     r.tx,
		SpendingHeight: 1000,
	})
	if err != nil {
		return fmt.Errorf("%s: chain watcher failed on the revoked "+
			"commitment of height %d: %v", side.Name, r.height, err)
	}
	if handed == nil || handed.RevokedStateNum != r.height {
		return fmt.Errorf("%s: chain watcher did not recognise the "+
			"broadcast of revoked height %d as a breach (%v)", side.Name,
			r.height, handed)
	}
	return nil
}

func TestVerifC04Breach(t *testing.T) {
	st := vstats.New("TestVerifC04Breach")
	defer st.Flush()
	maxSteps := vstats.EnvInt("VERIF_STEPS", 40)

	rapid.Check(t, func(t *rapid.T) {
		p := chansim.DrawParams(t, nil)
		s := chansim.New(t, p)
		defer s.Close()

		// Legacy revocation log (added after seeded change C04f): on a
		// third of the channels of a type that existed before v0.15
		// the revocation log entries written so far are, at one
		// generated point, rewritten in the pre-v0.15 format
		// (deprecated bucket, complete commitment) - a node upgraded
		// without the optional migration. States revoked later go to
		// the current bucket, so both layouts coexist.
		legacyMode := rapid.IntRange(0, 2).Draw(t, "legacyRevocationLog") == 0 &&
			!p.ChanType.IsTaproot()
		legacyDone := false
		legacyEntries, mixedAfter := 0, 0
		var commits [2]map[uint64]*channeldb.ChannelCommitment
		commits[0] = map[uint64]*channeldb.ChannelCommitment{}
		commits[1] = map[uint64]*channeldb.ChannelCommitment{}

		var revs []*c04Revoked
		downgrade := func(s *chansim.Sim) error {
			legacyDone = true
			for x := 0; x < 2; x++ {
				state, err := s.Sides[x].FetchState()
				if err != nil {
					return fmt.Errorf("harness: fetch: %v", err)
				}
				n, err := channeldb.VerifDowngradeRevocationLog(
					s.Sides[x].DB.ChannelStateDB(), state, commits[x],
				)
				if err != nil {
					return fmt.Errorf("harness: downgrade of %s's "+
						"revocation log: %v", s.Sides[x].Name, err)
				}
				legacyEntries += n
			}
			for _, r := range revs {
				r.legacy = true
			}
			return nil
		}
		pendingSecond := map[[2]uint64]map[uint32]*wire.MsgTx{}
		var hookErr error
		s.OnBeforeRevoke = func(y int, h uint64) {
			_, second, err := s.SecondLevelTxs(y)
			if err != nil {
				hookErr = fmt.Errorf("harness: cheater force close: %v", err)
				return
			}
			pendingSecond[[2]uint64{uint64(y), h}] = second
		}
		s.OnRevoked = func(x int, h uint64, tx *wire.MsgTx) {
			y := 1 - x
			var e *chansim.Expected
			if h == 0 {
				e = s.Expect(y, 0, [2]int{})
			} else {
				rec := s.M.Sigs[x][h-1]
				var cov [2]int
				cov[rec.Signer] = rec.Own
				cov[1-rec.Signer] = rec.Their
				e = s.Expect(y, h, cov)
			}
			if legacyMode {
				// x is about to receive the revocation of the
				// remote commitment it holds: what a pre-v0.15
				// node wrote to its log.
				c := s.Sides[x].Chan.State().RemoteCommitment
				c.CommitTx = c.CommitTx.Copy()
				c.Htlcs = append([]channeldb.HTLC(nil), c.Htlcs...)
				commits[x][h] = &c
			}
			if legacyDone {
				mixedAfter++
			}
			revs = append(revs, &c04Revoked{
				victim: x, height: h, tx: tx,
				second: pendingSecond[[2]uint64{uint64(y), h}],
				exp:    e,
			})
		}
		var stats c04Stats
		reloads := 0
		checked := 0
		err := s.Run(t, chansim.RunOpts{
			MinSteps: 8, MaxSteps: maxSteps, Cuts: true, CutWeight: 1,
			AfterStep: func(*chansim.Sim, string) error { return hookErr },
			AfterCut: func(s *chansim.Sim, _ *chansim.RetransmitReport) error {
				reloads++
				if legacyMode && !legacyDone && len(revs) > 0 &&
					rapid.IntRange(0, 2).Draw(t, "downgradeNow") != 0 {

					if err := downgrade(s); err != nil {
						return err
					}
					// every state checked before must still be
					// punishable from the rewritten log
					checked = 0
				}
				// after a reload every state revoked so far must
				// still be punishable
				for ; checked < len(revs); checked++ {
					if err := c04Check(s, revs[checked], &stats); err != nil {
						return err
					}
				}
				return nil
			},
		})
		if err == nil && legacyMode && !legacyDone && len(revs) > 0 &&
			rapid.Bool().Draw(t, "downgradeAtEnd") {

			err = downgrade(s)
		}
		if err == nil {
			for _, r := range revs {
				if err = c04Check(s, r, &stats); err != nil {
					break
				}
			}
		}
		if err == nil && len(revs) > 0 {
			// chain watcher classification (marks the channel
			// borked: last) for a generated subset.
			for x := 0; x < 2 && err == nil; x++ {
				var mine []*c04Revoked
				for _, r := range revs {
					if r.victim == x {
						mine = append(mine, r)
					}
				}
				if len(mine) == 0 {
					continue
				}
				r := mine[rapid.IntRange(0, len(mine)-1).Draw(t, "classify")]
				stale := rapid.Bool().Draw(t, "watcherHandleFromStartup")
				if stale {
					if s.Labels == nil {
						s.Labels = map[string]bool{}
					}
					s.Labels["classify_with_startup_handle"] = true
				}
				err = c04Classify(s, r, stale)
			}
		}
		if err != nil {
			t.Fatalf("%v\nparams: %v\ntrace:\n  %s", err, p,
				strings.Join(s.Trace, "\n  "))
		}
		st.Count("revoked_states_punished", int64(stats.states))
		st.Count("justice_inputs_validated", int64(stats.inputs))
		st.Count("second_level_revokes_validated", int64(stats.secondLevel))
		st.Count("no_amount_data_missing_as_documented", int64(stats.noAmtMissing))
		if stats.leaseExcluded > 0 {
			st.Known("C04:lease-initiator-to-remote-cltv")
			st.Count("excluded_known", int64(stats.leaseExcluded))
		}
		both := false
		for _, r := range revs {
			in, out := 0, 0
			for _, h := range r.exp.NonDust {
				if h.From == r.victim {
					out++
				} else {
					in++
				}
			}
			if in > 0 && out > 0 {
				both = true
			}
		}
		labels := []string{"type=" + p.TypeName, fmt.Sprintf("noAmt=%v", p.NoAmtData)}
		for l := range s.Labels {
			labels = append(labels, l)
		}
		if both {
			labels = append(labels, "revoked_with_htlcs_both_directions")
		}
		if legacyEntries > 0 {
			labels = append(labels, "legacy_revocation_log")
			if mixedAfter > 0 {
				labels = append(labels, "legacy_and_current_log_mixed")
			}
			st.Count("legacy_log_entries", int64(legacyEntries))
		}
		if stats.secondLevel > 0 {
			labels = append(labels, "second_level_punished")
		}
		nontrivial := len(revs) > 0 && reloads > 0 &&
			(both || s.Labels["duplicate_htlc"] || stats.secondLevel > 0)
		tr := s.Trace
		if len(tr) > 50 {
			tr = tr[:50]
		}
		st.Case(vstats.FP(p.String(), strings.Join(s.Trace, "|")),
			nontrivial, labels, map[string]any{"params": p.String(),
				"revoked_states": len(revs), "trace": tr})
	})
}

// --- small script-engine helpers (multi prevout fetcher) -----------------

func newMultiFetcher(prevs map[wire.OutPoint]*wire.TxOut) *c04Fetcher {
	return &c04Fetcher{prevs}
}

type c04Fetcher struct {
	m map[wire.OutPoint]*wire.TxOut
}

func (f *c04Fetcher) FetchPrevOutput(op wire.OutPoint) *wire.TxOut {
	return f.m[op]
}

var _ = input.CommitmentRevoke

func verifyWithFetcher(tx *wire.MsgTx, idx int, prev *wire.TxOut,
	f *c04Fetcher) error {

	return chansim.VerifyInputFetcher(tx, idx, prev, f)
}
