//go:build verif

package contractcourt

// Shared harness pieces for the contractcourt properties (C12, C13):
//
//   * ccScenario  - a synthesised channel state: a universe of <=6 HTLCs and
//     their presence / dust bit / output index on the three commitments
//     (ours, the peer's current, the peer's pending), generated so that every
//     HTLC is in a protocol-reachable life-cycle stage;
//   * ccWorld     - the environment of one ChannelArbitrator: chain (height,
//     spent outpoints), stub notifier / sweeper / witness beacon / invoice
//     registry / switch / channel DB bits. Everything the arbitrator and its
//     resolvers do to the outside lands here. Notifications are *lazy*: they
//     are only delivered when the driver pumps them, one at a time, so a
//     schedule is a deterministic function of the generated case;
//   * ccInc       - one incarnation (process life) of the arbitrator. After a
//     simulated crash the incarnation is dead: every later durable write
//     fails and every side effect is muted (a dead process emits nothing);
//   * ccLog       - ArbitratorLog wrapper that routes every mutating call
//     through the incarnation (counting / crashing) and lets a test observe
//     the resolvers handed to InsertUnresolvedContracts;
//   * ccMemLog    - a plain in-memory ArbitratorLog (used by C12, where the
//     store is not under test);
//   * builders for the arbitrator (on top of the repo's
//     createTestChannelArbitrator fixture) and for close events that are
//     consistent with a scenario.

import (
	"bytes"
	"context"
	"crypto/sha256"
	"errors"
	"fmt"
	"io"
	"os"
	"runtime"
	"sort"
	"strconv"
	"strings"
	"sync"
	"testing"
	"time"

	"github.com/btcsuite/btcd/chainhash/v2"
	"github.com/btcsuite/btcd/txscript/v2"
	"github.com/btcsuite/btcd/wire/v2"
	"github.com/lightningnetwork/lnd/chainntnfs"
	"github.com/lightningnetwork/lnd/channeldb"
	"github.com/lightningnetwork/lnd/chanstate"
	"github.com/lightningnetwork/lnd/clock"
	"github.com/lightningnetwork/lnd/fn/v2"
	"github.com/lightningnetwork/lnd/graph/db/models"
	"github.com/lightningnetwork/lnd/htlcswitch/hop"
	"github.com/lightningnetwork/lnd/input"
	"github.com/lightningnetwork/lnd/internal/verif/vstats"
	"github.com/lightningnetwork/lnd/invoices"
	"github.com/lightningnetwork/lnd/kvdb"
	"github.com/lightningnetwork/lnd/lntypes"
	"github.com/lightningnetwork/lnd/lnwallet"
	"github.com/lightningnetwork/lnd/lnwallet/chainfee"
	"github.com/lightningnetwork/lnd/lnwire"
	"github.com/lightningnetwork/lnd/sweep"
	"pgregory.net/rapid"
)

// ccKnown reports whether a known-finding key is to be excluded: listed in
// known_findings.json, or named in $VERIF_ASSUME_KNOWN (comma separated; a
// development aid to search past a finding that is not listed yet).
func ccKnown(key string) bool {
	if vstats.IsKnown(key) {
		return true
	}
	for _, k := range strings.Split(os.Getenv("VERIF_ASSUME_KNOWN"), ",") {
		if k == key {
			return true
		}
	}

	return false
}

// ---------------------------------------------------------------------------
// Scenario
// ---------------------------------------------------------------------------

const (
	ccL = 0 // our commitment
	ccR = 1 // the peer's current commitment
	ccP = 2 // the peer's pending (signed, not yet revoked-for) commitment
)

var ccSetKeys = [3]HtlcSetKey{
	LocalHtlcSet, RemoteHtlcSet, RemotePendingHtlcSet,
}

var ccSetNames = [3]string{"local", "remote", "pending"}

// ccHTLC is one HTLC of the universe.
type ccHTLC struct {
	Idx      uint64
	Incoming bool
	Amt      lnwire.MilliSatoshi
	Expiry   uint32
	Pre      lntypes.Preimage
	Hash     lntypes.Hash

	// Per commitment: present, dust there, output index there.
	On   [3]bool
	Dust [3]bool
	Out  [3]int32

	// Know: 0 preimage unknown, 1 in the witness beacon, 2 via a settled
	// invoice in the registry, 3 in the witness beacon while the registry
	// holds an unsettled hold invoice for the hash (no preimage in its
	// terms), 4 only such a hold invoice (preimage unknown). 3 and 4 were
	// added after seeded change C12g.
	Know int

	// Fwd: IsForwardedHTLC answer for an offered HTLC (false = our own
	// payment).
	Fwd bool
}

func (h *ccHTLC) known() bool { return h.Know >= 1 && h.Know <= 3 }

// hasOutput reports whether the HTLC has an output on commitment s.
func (h *ccHTLC) hasOutput(s int) bool { return h.On[s] && !h.Dust[s] }

// ccScenario is a generated channel state plus arbitrator configuration.
type ccScenario struct {
	HTLCs      []ccHTLC
	HasPending bool
	Base       uint32
	DeltaOut   uint32
	DeltaIn    uint32
	GraceSec   int
	UptimeSec  int

	// ChanKind: 0 legacy, 1 tweakless, 2 anchors zero-fee-htlc.
	ChanKind int
	// CommitOut: the confirmed commitment has an output for us.
	CommitOut bool
}

func (sc *ccScenario) chanType() channeldb.ChannelType {
	switch sc.ChanKind {
	case 1:
		return channeldb.SingleFunderTweaklessBit
	case 2:
		return channeldb.SingleFunderTweaklessBit |
			channeldb.AnchorOutputsBit |
			channeldb.ZeroHtlcTxFeeBit
	}

	return channeldb.SingleFunderBit
}

func (sc *ccScenario) graceOver() bool { return sc.UptimeSec > sc.GraceSec }

// ccLocalCloseTx is our commitment transaction (what ForceCloseChan returns
// and what confirms in a local close).
var ccLocalCloseTx = &wire.MsgTx{Version: 2, LockTime: 0xcc}

// commitHash is the txid of commitment s (fixed, distinct per commitment).
func ccCommitHash(s int) chainhash.Hash {
	if s == ccL {
		return ccLocalCloseTx.TxHash()
	}
	var h chainhash.Hash
	for i := range h {
		h[i] = byte(0xc0 + s)
	}
	h[0] = byte(s + 1)

	return h
}

// ccBreachHash is the txid of a revoked commitment.
func ccBreachHash() chainhash.Hash {
	var h chainhash.Hash
	for i := range h {
		h[i] = 0xbb
	}

	return h
}

// htlcs renders the HTLC list of commitment s as the channel DB would hold
// it (newChainSet reads exactly such lists).
func (sc *ccScenario) htlcs(s int) []channeldb.HTLC {
	var out []channeldb.HTLC
	for i := range sc.HTLCs {
		h := &sc.HTLCs[i]
		if !h.On[s] {
			continue
		}
		oi := h.Out[s]
		if h.Dust[s] {
			oi = -1
		}
		out = append(out, channeldb.HTLC{
			RHash:         h.Hash,
			Amt:           h.Amt,
			RefundTimeout: h.Expiry,
			OutputIndex:   oi,
			Incoming:      h.Incoming,
			HtlcIndex:     h.Idx,
			LogIndex:      h.Idx + 100,
		})
	}

	return out
}

// htlcSets is the arbitrator's view of the three commitments.
func (sc *ccScenario) htlcSets() map[HtlcSetKey]htlcSet {
	m := map[HtlcSetKey]htlcSet{
		LocalHtlcSet:  newHtlcSet(sc.htlcs(ccL)),
		RemoteHtlcSet: newHtlcSet(sc.htlcs(ccR)),
	}
	if sc.HasPending {
		m[RemotePendingHtlcSet] = newHtlcSet(sc.htlcs(ccP))
	}

	return m
}

// commitSet is the CommitSet the chain watcher attaches to a close event
// (conf < 0: no confirmed key).
func (sc *ccScenario) commitSet(conf int) CommitSet {
	cs := CommitSet{
		HtlcSets: map[HtlcSetKey][]channeldb.HTLC{
			LocalHtlcSet:  sc.htlcs(ccL),
			RemoteHtlcSet: sc.htlcs(ccR),
		},
	}
	if sc.HasPending {
		cs.HtlcSets[RemotePendingHtlcSet] = sc.htlcs(ccP)
	}
	if conf >= 0 {
		cs.ConfCommitKey = fn.Some(ccSetKeys[conf])
	}

	return cs
}

func (sc *ccScenario) fp() uint64 {
	var b bytes.Buffer
	fmt.Fprintf(&b, "%v|%d|%d|%d|%d|%d|%d|%v", sc.HasPending, sc.Base,
		sc.DeltaOut, sc.DeltaIn, sc.GraceSec, sc.UptimeSec, sc.ChanKind,
		sc.CommitOut)
	for i := range sc.HTLCs {
		h := &sc.HTLCs[i]
		fmt.Fprintf(&b, "|%d,%v,%d,%d,%v,%v,%v,%d,%v", h.Idx, h.Incoming,
			h.Amt, h.Expiry, h.On, h.Dust, h.Out, h.Know, h.Fwd)
	}
	sum := sha256.Sum256(b.Bytes())
	var v uint64
	for i := 0; i < 8; i++ {
		v = v<<8 | uint64(sum[i])
	}

	return v
}

func (sc *ccScenario) sample() map[string]any {
	var hs []string
	for i := range sc.HTLCs {
		h := &sc.HTLCs[i]
		dir := "offered"
		if h.Incoming {
			dir = "received"
		}
		var where []string
		for s := 0; s < 3; s++ {
			if !h.On[s] {
				continue
			}
			d := fmt.Sprintf("out%d", h.Out[s])
			if h.Dust[s] {
				d = "dust"
			}
			where = append(where, ccSetNames[s]+":"+d)
		}
		hs = append(hs, fmt.Sprintf("#%d %s exp=%d know=%d fwd=%v on[%s]",
			h.Idx, dir, h.Expiry, h.Know, h.Fwd,
			strings.Join(where, " ")))
	}

	return map[string]any{
		"htlcs": hs, "pending": sc.HasPending,
		"delta_out": sc.DeltaOut, "delta_in": sc.DeltaIn,
		"grace_s": sc.GraceSec, "uptime_s": sc.UptimeSec,
		"chan_kind": sc.ChanKind,
	}
}

// nontrivial is C12's stated rule: >=3 HTLCs over >=2 distinct sets with
// >=1 dust and >=1 dangling (offered, not on our commitment).
func (sc *ccScenario) nontrivial() bool {
	if len(sc.HTLCs) < 3 {
		return false
	}
	sets := 0
	for s := 0; s < 3; s++ {
		for i := range sc.HTLCs {
			if sc.HTLCs[i].On[s] {
				sets++
				break
			}
		}
	}
	dust, dangling := false, false
	for i := range sc.HTLCs {
		h := &sc.HTLCs[i]
		for s := 0; s < 3; s++ {
			if h.On[s] && h.Dust[s] {
				dust = true
			}
		}
		if !h.Incoming && !h.On[ccL] && (h.On[ccR] || h.On[ccP]) {
			dangling = true
		}
	}

	return sets >= 2 && dust && dangling
}

// ccGenOpts narrows the generator for harnesses that need it.
type ccGenOpts struct {
	// maxHTLCs bounds the universe (default 6).
	maxHTLCs int
	// distinctTriggers makes the heights at which resolvers act on their
	// own (offered: expiry-1, received: expiry) pairwise distinct.
	distinctTriggers bool
	// noInvoice restricts preimage knowledge to the witness beacon.
	noInvoice bool
	// sameRemoteDust gives an offered HTLC that lives only on the peer's
	// two commitments the same dust bit on both (lnd's treatment of the
	// other case depends on map iteration order: known finding).
	sameRemoteDust bool
}

// ccGenScenario draws a scenario. Every HTLC is placed in a life-cycle
// stage that the update protocol can reach:
//
//	offered (by us):  [P] -> [R,P] -> [L,R,P] -> [R(,P)] -> [R] -> gone
//	received:         [L] -> [L,P] -> [L,R,P] -> [L,R] -> [L] -> gone
//
// so an offered HTLC on our commitment is always on the peer's current
// commitment too, a received HTLC is always on ours, and the same index has
// the same attributes everywhere (only dust bit and output index are per
// commitment).
func ccGenScenario(t *rapid.T, o ccGenOpts) *ccScenario {
	if o.maxHTLCs == 0 {
		o.maxHTLCs = 6
	}
	sc := &ccScenario{}
	sc.HasPending = rapid.Bool().Draw(t, "hasPending")
	sc.Base = uint32(rapid.IntRange(600, 900).Draw(t, "base"))
	sc.DeltaOut = uint32(rapid.IntRange(0, 12).Draw(t, "deltaOut"))
	sc.DeltaIn = uint32(rapid.IntRange(0, 12).Draw(t, "deltaIn"))
	sc.GraceSec = rapid.SampledFrom([]int{0, 30, 30}).Draw(t, "grace")
	sc.UptimeSec = rapid.IntRange(0, 60).Draw(t, "uptime")
	sc.ChanKind = rapid.IntRange(0, 2).Draw(t, "chanKind")
	sc.CommitOut = rapid.Bool().Draw(t, "commitOut")

	nChoices := []int{4, 3, 5, 6, 2, 4, 5, 3, 6, 1, 0}
	n := rapid.SampledFrom(nChoices).Draw(t, "nHTLC")
	if n > o.maxHTLCs {
		n = o.maxHTLCs
	}

	usedOut := map[uint64]bool{}
	usedIn := map[uint64]bool{}
	usedTrig := map[uint32]bool{}
	for i := 0; i < n; i++ {
		var h ccHTLC
		h.Incoming = rapid.Bool().Draw(t, "incoming")
		used := usedOut
		if h.Incoming {
			used = usedIn
		}
		idx := uint64(rapid.IntRange(0, 9).Draw(t, "idx"))
		for used[idx] {
			idx = (idx + 1) % 10
		}
		used[idx] = true
		h.Idx = idx

		if h.Incoming {
			h.On[ccL] = true
			h.On[ccR] = rapid.Bool().Draw(t, "onR")
			if sc.HasPending {
				h.On[ccP] = rapid.Bool().Draw(t, "onP")
			}
		} else {
			var stages [][3]bool
			if sc.HasPending {
				stages = [][3]bool{
					{false, false, true},
					{false, true, true},
					{true, true, true},
					{true, true, true},
					{false, true, false},
				}
			} else {
				stages = [][3]bool{
					{false, true, false},
					{true, true, false},
					{true, true, false},
				}
			}
			h.On = stages[rapid.IntRange(0, len(stages)-1).
				Draw(t, "stage")]
		}

		switch rapid.IntRange(0, 4).Draw(t, "dustMode") {
		case 0, 1:
		case 2:
			h.Dust = [3]bool{true, true, true}
		default:
			for s := 0; s < 3; s++ {
				h.Dust[s] = rapid.Bool().Draw(t, "dust")
			}
		}

		if o.sameRemoteDust && !h.Incoming && !h.On[ccL] &&
			h.On[ccR] && h.On[ccP] {

			h.Dust[ccP] = h.Dust[ccR]
		}

		h.Expiry = uint32(int(sc.Base) +
			rapid.IntRange(-3, 25).Draw(t, "expOff"))
		if o.distinctTriggers {
			trig := func() uint32 {
				if h.Incoming {
					return h.Expiry
				}

				return h.Expiry - 1
			}
			for usedTrig[trig()] {
				h.Expiry++
			}
			usedTrig[trig()] = true
		}
		h.Amt = lnwire.MilliSatoshi(
			rapid.IntRange(1, 5_000_000).Draw(t, "amt"),
		)
		kn := []int{0, 0, 1, 2, 3, 4}
		if o.noInvoice {
			kn = []int{0, 0, 1}
		}
		h.Know = rapid.SampledFrom(kn).Draw(t, "know")
		h.Fwd = rapid.Bool().Draw(t, "fwd")

		dir := byte(0)
		if h.Incoming {
			dir = 1
		}
		h.Pre = lntypes.Preimage{0x42, dir, byte(h.Idx), byte(i)}
		h.Hash = h.Pre.Hash()

		sc.HTLCs = append(sc.HTLCs, h)
	}

	// Output indexes: per commitment, distinct for the non-dust HTLCs.
	for s := 0; s < 3; s++ {
		next := int32(rapid.IntRange(0, 3).Draw(t, "outBase"))
		for i := range sc.HTLCs {
			h := &sc.HTLCs[i]
			h.Out[s] = -1
			if h.On[s] && !h.Dust[s] {
				h.Out[s] = next
				next++
			}
		}
	}

	return sc
}

// ---------------------------------------------------------------------------
// World, incarnations
// ---------------------------------------------------------------------------

var errCcDead = errors.New("verif: process is dead")

// ccMsg is one upstream resolution handed to the switch.
type ccMsg struct {
	Idx    uint64
	Settle bool
}

// ccFinal is one PutFinalHtlcOutcome call.
type ccFinal struct {
	Idx     uint64
	Settled bool
}

type ccSpendSub struct {
	op        wire.OutPoint
	ch        chan *chainntnfs.SpendDetail
	delivered bool
	cancelled bool
	inc       *ccInc
	seq       int
}

type ccEpochSub struct {
	ch        chan *chainntnfs.BlockEpoch
	next      int32 // next height to deliver
	cancelled bool
	inc       *ccInc
	seq       int
	ident     string
}

type ccSweepReq struct {
	op   wire.OutPoint
	ch   chan sweep.Result
	done bool
	inc  *ccInc
	seq  int
	pre  []byte // preimage carried by the input, if any
	wt   input.WitnessType
	// reqOut is the output the input commits to (second-level HTLC
	// transactions signed SINGLE|ANYONECANPAY).
	reqOut *wire.TxOut
	// inp is the input exactly as the resolver handed it over.
	inp input.Input
}

type ccBreachSub struct {
	ch   chan struct{}
	done bool
	inc  *ccInc
}

// ccWorld is everything outside the arbitrator process. It survives
// restarts.
type ccWorld struct {
	mu sync.Mutex

	height int32

	// sweepHook, if set, builds (and validates) the real sweep
	// transaction for a request instead of the canned one. spent tells
	// it that the outpoint is already spent (validate only). It is called
	// with w.mu held by the pumping goroutine and must not touch the
	// world.
	sweepHook func(r *ccSweepReq, spent bool) (*wire.MsgTx, error)
	hookErrs  []error

	// eager: dispatch historical spends at registration (single-resolver
	// reproductions only; the generated runs are lazy).
	eager bool

	// Chain.
	spent map[wire.OutPoint]*chainntnfs.SpendDetail
	// remoteClaim: outpoints the peer spends with the preimage as soon as
	// the given height is reached.
	remoteClaim map[wire.OutPoint]ccClaim

	// Preimage knowledge.
	beacon   map[lntypes.Hash]lntypes.Preimage
	invoices map[lntypes.Hash]lntypes.Preimage
	// holdInvs: hashes with an unsettled hold invoice in the registry.
	holdInvs map[lntypes.Hash]bool
	witSubs  []*ccWitSub

	// Subscriptions of the live incarnation.
	spendSubs  []*ccSpendSub
	epochSubs  []*ccEpochSub
	sweeps     []*ccSweepReq
	breachSubs []*ccBreachSub
	seq        int
	idents     map[int64]string

	// Durable bits of the node outside the arbitrator log.
	closed        bool
	closeType     channeldb.ClosureType
	closeHeight   uint32
	broadcasted   bool
	fullyResolved int
	breachDone    bool

	// Observations.
	msgs       []ccMsg
	finals     []ccFinal
	reports    []string
	published  []string // sweep transactions (world-made)
	commitPub  []string // PublishTx calls (our commitment)
	swept      []string
	forceClose int
	incubated  []string
	// unresolvedAtNotify records, for every NotifyChannelResolved, how
	// many contracts the log still held.
	unresolvedAtNotify []int

	// Effect accounting (crash points).
	effMu    sync.Mutex
	nEffects int
	crashAt  int // crash after this many effects; 0 = never
	effLog   []string
	pendRep  []string
}

type ccClaim struct {
	height int32
	pre    lntypes.Preimage
	local  bool // the output is on our commitment
}

type ccWitSub struct {
	ch        chan lntypes.Preimage
	cancelled bool
	inc       *ccInc
}

func newCcWorld(height int32) *ccWorld {
	return &ccWorld{
		height:      height,
		spent:       make(map[wire.OutPoint]*chainntnfs.SpendDetail),
		remoteClaim: make(map[wire.OutPoint]ccClaim),
		beacon:      make(map[lntypes.Hash]lntypes.Preimage),
		invoices:    make(map[lntypes.Hash]lntypes.Preimage),
		holdInvs:    make(map[lntypes.Hash]bool),
		idents:      make(map[int64]string),
	}
}

// applyKnowledge installs the scenario's preimage knowledge.
func (w *ccWorld) applyKnowledge(sc *ccScenario) {
	for i := range sc.HTLCs {
		h := &sc.HTLCs[i]
		switch h.Know {
		case 1:
			w.beacon[h.Hash] = h.Pre
		case 2:
			w.invoices[h.Hash] = h.Pre
		case 3:
			w.beacon[h.Hash] = h.Pre
			w.holdInvs[h.Hash] = true
		case 4:
			w.holdInvs[h.Hash] = true
		}
	}
}

// ccInc is one process life of the arbitrator.
type ccInc struct {
	w    *ccWorld
	dead bool // guarded by w.mu
	// deadCh is closed when the incarnation dies.
	deadCh chan struct{}
	log    ArbitratorLog // raw (unwrapped) log, to count unresolved
}

func (w *ccWorld) newInc() *ccInc {
	w.mu.Lock()
	defer w.mu.Unlock()
	// Subscriptions belong to a process; a new process starts clean.
	w.spendSubs, w.epochSubs, w.sweeps, w.breachSubs = nil, nil, nil, nil
	w.witSubs = nil
	w.idents = make(map[int64]string)

	return &ccInc{w: w, deadCh: make(chan struct{})}
}

func (i *ccInc) isDead() bool {
	i.w.mu.Lock()
	defer i.w.mu.Unlock()

	return i.dead
}

func (i *ccInc) kill() {
	i.w.mu.Lock()
	defer i.w.mu.Unlock()
	if !i.dead {
		i.dead = true
		close(i.deadCh)
	}
}

// effect brackets one externally visible / durable effect. do is executed
// only if the incarnation is alive; after the crashAt-th effect completed
// the incarnation dies. Effects are serialised so that "after the k-th
// effect" is well defined.
func (i *ccInc) effect(name string, do func() error) error {
	w := i.w
	w.effMu.Lock()
	defer w.effMu.Unlock()

	if i.isDead() {
		return errCcDead
	}
	w.mu.Lock()
	w.pendRep = nil
	w.mu.Unlock()

	err := do()

	w.mu.Lock()
	if err == nil {
		w.reports = append(w.reports, w.pendRep...)
	}
	w.pendRep = nil
	w.nEffects++
	w.effLog = append(w.effLog, name)
	die := w.crashAt > 0 && w.nEffects >= w.crashAt
	w.mu.Unlock()
	if die {
		i.kill()
	}

	return err
}

// soft records a non-durable interaction (not a crash point).
func (i *ccInc) soft(do func()) bool {
	i.w.mu.Lock()
	defer i.w.mu.Unlock()
	if i.dead {
		return false
	}
	do()

	return true
}

// goid returns the current goroutine's id (used only to give subscriptions
// a schedule-independent identity).
func ccGoid() int64 {
	var buf [64]byte
	n := runtime.Stack(buf[:], false)
	f := strings.Fields(string(buf[:n]))
	if len(f) < 2 {
		return -1
	}
	v, _ := strconv.ParseInt(f[1], 10, 64)

	return v
}

// ---- chain notifier ------------------------------------------------------

type ccNotifier struct{ inc *ccInc }

var _ chainntnfs.ChainNotifier = (*ccNotifier)(nil)

func (n *ccNotifier) RegisterConfirmationsNtfn(*chainhash.Hash, []byte,
	uint32, uint32, ...chainntnfs.NotifierOption) (
	*chainntnfs.ConfirmationEvent, error) {

	return chainntnfs.NewConfirmationEvent(1, func() {}), nil
}

func (n *ccNotifier) RegisterSpendNtfn(op *wire.OutPoint, _ []byte,
	_ uint32) (*chainntnfs.SpendEvent, error) {

	w := n.inc.w
	sub := &ccSpendSub{op: *op, inc: n.inc}
	ev := chainntnfs.NewSpendEvent(func() {
		w.mu.Lock()
		sub.cancelled = true
		w.mu.Unlock()
	})
	sub.ch = ev.Spend
	g := ccGoid()
	inLaunch := ccCalledFromLaunch()
	w.mu.Lock()
	w.seq++
	sub.seq = w.seq
	w.idents[g] = "op:" + op.String()
	w.spendSubs = append(w.spendSubs, sub)
	// Resolver.Launch is executed synchronously by the arbitrator's main
	// loop (launchResolvers waits for it) and some Launch methods wait
	// for the spend of an output that is already spent (second stage
	// after a restart). A real notifier dispatches such historical spends
	// at once; do the same for registrations made inside Launch, which
	// only offers inputs to the sweeper afterwards (no durable effect),
	// so the schedule stays deterministic.
	if d, ok := w.spent[*op]; ok && (inLaunch || w.eager) && !n.inc.dead {
		sub.delivered = true
		sub.ch <- d
	}
	w.mu.Unlock()

	return ev, nil
}

// ccCalledFromLaunch reports whether a resolver's Launch method is on the
// current call stack.
func ccCalledFromLaunch() bool {
	var pcs [32]uintptr
	n := runtime.Callers(2, pcs[:])
	frames := runtime.CallersFrames(pcs[:n])
	for {
		f, more := frames.Next()
		if strings.HasSuffix(f.Function, ").Launch") {
			return true
		}
		if !more {
			return false
		}
	}
}

func (n *ccNotifier) RegisterBlockEpochNtfn(*chainntnfs.BlockEpoch) (
	*chainntnfs.BlockEpochEvent, error) {

	w := n.inc.w
	ch := make(chan *chainntnfs.BlockEpoch, 512)
	sub := &ccEpochSub{ch: ch, inc: n.inc}
	g := ccGoid()
	w.mu.Lock()
	w.seq++
	sub.seq = w.seq
	sub.ident = w.idents[g]
	// A nil best block means: send the current tip first.
	sub.next = w.height
	w.epochSubs = append(w.epochSubs, sub)
	w.mu.Unlock()

	return &chainntnfs.BlockEpochEvent{
		Epochs: ch,
		Cancel: func() {
			w.mu.Lock()
			sub.cancelled = true
			w.mu.Unlock()
		},
	}, nil
}

func (n *ccNotifier) Start() error  { return nil }
func (n *ccNotifier) Started() bool { return true }
func (n *ccNotifier) Stop() error   { return nil }

// ---- sweeper -------------------------------------------------------------

type ccSweeper struct{ inc *ccInc }

var _ UtxoSweeper = (*ccSweeper)(nil)

func (s *ccSweeper) SweepInput(inp input.Input, _ sweep.Params) (
	chan sweep.Result, error) {

	w := s.inc.w
	ch := make(chan sweep.Result, 1)
	req := &ccSweepReq{
		op: inp.OutPoint(), ch: ch, inc: s.inc, wt: inp.WitnessType(),
		reqOut: inp.RequiredTxOut(), inp: inp,
	}
	if p := inp.Preimage(); p.IsSome() {
		pre := p.UnwrapOr(lntypes.Preimage{})
		req.pre = pre[:]
	}
	ok := s.inc.soft(func() {
		w.seq++
		req.seq = w.seq
		w.sweeps = append(w.sweeps, req)
		w.swept = append(w.swept, req.op.String())
	})
	if !ok {
		return nil, errCcDead
	}

	return ch, nil
}

func (s *ccSweeper) RelayFeePerKW() chainfee.SatPerKWeight { return 253 }

func (s *ccSweeper) UpdateParams(wire.OutPoint, sweep.Params) (
	chan sweep.Result, error) {

	return make(chan sweep.Result, 1), nil
}

// ---- witness beacon, registry, onion ------------------------------------

type ccBeacon struct{ inc *ccInc }

var _ WitnessBeacon = (*ccBeacon)(nil)

func (b *ccBeacon) SubscribeUpdates(_ lnwire.ShortChannelID,
	_ *channeldb.HTLC, _ *hop.Payload, _ []byte) (*WitnessSubscription,
	error) {

	w := b.inc.w
	sub := &ccWitSub{ch: make(chan lntypes.Preimage, 16), inc: b.inc}
	w.mu.Lock()
	w.witSubs = append(w.witSubs, sub)
	w.mu.Unlock()

	return &WitnessSubscription{
		WitnessUpdates: sub.ch,
		CancelSubscription: func() {
			w.mu.Lock()
			sub.cancelled = true
			w.mu.Unlock()
		},
	}, nil
}

func (b *ccBeacon) LookupPreimage(h lntypes.Hash) (lntypes.Preimage, bool) {
	w := b.inc.w
	w.mu.Lock()
	defer w.mu.Unlock()
	p, ok := w.beacon[h]

	return p, ok
}

func (b *ccBeacon) AddPreimages(ps ...lntypes.Preimage) error {
	w := b.inc.w

	return b.inc.effect("AddPreimages", func() error {
		w.mu.Lock()
		defer w.mu.Unlock()
		for _, p := range ps {
			w.beacon[p.Hash()] = p
		}

		return nil
	})
}

type ccRegistry struct{ inc *ccInc }

var _ Registry = (*ccRegistry)(nil)

func (r *ccRegistry) LookupInvoice(_ context.Context, h lntypes.Hash) (
	invoices.Invoice, error) {

	w := r.inc.w
	w.mu.Lock()
	defer w.mu.Unlock()
	p, ok := w.invoices[h]
	if !ok && w.holdInvs[h] {
		return invoices.Invoice{}, nil
	}
	if !ok {
		return invoices.Invoice{}, invoices.ErrInvoiceNotFound
	}
	pre := p

	return invoices.Invoice{
		Terms: invoices.ContractTerm{PaymentPreimage: &pre},
	}, nil
}

func (r *ccRegistry) NotifyExitHopHtlc(lntypes.Hash, lnwire.MilliSatoshi,
	uint32, int32, models.CircuitKey, chan<- interface{},
	lnwire.CustomRecords, invoices.Payload) (invoices.HtlcResolution,
	error) {

	return nil, nil
}

func (r *ccRegistry) HodlUnsubscribeAll(chan<- interface{}) {}

// ccOnion decodes every received HTLC as a forward (non exit hop).
type ccOnion struct{ inc *ccInc }

var _ OnionProcessor = (*ccOnion)(nil)

func (o *ccOnion) ReconstructHopIterator(r io.Reader, rHash []byte,
	_ hop.ReconstructBlindingInfo) (hop.Iterator, error) {

	_, _ = io.ReadAll(r)
	g := ccGoid()
	w := o.inc.w
	w.mu.Lock()
	w.idents[g] = fmt.Sprintf("hash:%x", rHash)
	w.mu.Unlock()

	return &mockHopIterator{isExit: false}, nil
}

type ccChainIO struct{ inc *ccInc }

var _ lnwallet.BlockChainIO = (*ccChainIO)(nil)

func (c *ccChainIO) GetBestBlock() (*chainhash.Hash, int32, error) {
	w := c.inc.w
	w.mu.Lock()
	defer w.mu.Unlock()

	return &chainhash.Hash{}, w.height, nil
}

func (*ccChainIO) GetUtxo(*wire.OutPoint, []byte, uint32,
	<-chan struct{}) (*wire.TxOut, error) {

	return nil, nil
}

func (*ccChainIO) GetBlockHash(int64) (*chainhash.Hash, error) {
	return nil, nil
}

func (*ccChainIO) GetBlock(*chainhash.Hash) (*wire.MsgBlock, error) {
	return nil, nil
}

func (*ccChainIO) GetBlockHeader(*chainhash.Hash) (*wire.BlockHeader,
	error) {

	return nil, nil
}

// ccChannel is the ArbChannel of the arbitrator.
type ccChannel struct{ inc *ccInc }

func (c *ccChannel) ForceCloseChan() (*wire.MsgTx, error) {
	var tx *wire.MsgTx
	err := c.inc.effect("ForceCloseChan", func() error {
		c.inc.w.mu.Lock()
		c.inc.w.forceClose++
		c.inc.w.mu.Unlock()
		tx = ccLocalCloseTx.Copy()

		return nil
	})

	return tx, err
}

func (c *ccChannel) NewAnchorResolutions() (*lnwallet.AnchorResolutions,
	error) {

	return &lnwallet.AnchorResolutions{}, nil
}

// ---------------------------------------------------------------------------
// Chain manipulation and the pump
// ---------------------------------------------------------------------------

// ccSweepTx is the deterministic transaction with which "we" spend op.
func ccSweepTx(op wire.OutPoint, witness wire.TxWitness) *wire.MsgTx {
	return &wire.MsgTx{
		Version: 2,
		TxIn: []*wire.TxIn{{
			PreviousOutPoint: op,
			Witness:          witness,
		}},
		TxOut: []*wire.TxOut{{Value: 1, PkScript: []byte{0x51}}},
	}
}

// spendLocked marks op spent by tx at the current height.
func (w *ccWorld) spendLocked(op wire.OutPoint, tx *wire.MsgTx) {
	if _, ok := w.spent[op]; ok {
		return
	}
	h := tx.TxHash()
	opc := op
	w.spent[op] = &chainntnfs.SpendDetail{
		SpentOutPoint:     &opc,
		SpenderTxHash:     &h,
		SpendingTx:        tx,
		SpenderInputIndex: 0,
		SpendingHeight:    w.height,
	}
}

// remoteClaimWitness is the witness with which the peer claims an HTLC we
// offered, revealing the preimage.
func ccRemoteClaimWitness(pre lntypes.Preimage, localCommit bool) wire.TxWitness {
	if localCommit {
		// <recvr sig> <preimage> <witness script>
		return wire.TxWitness{{0x30}, pre[:], {0x51}}
	}
	// <0> <sender sig> <recvr sig> <preimage> <witness script>
	return wire.TxWitness{{}, {0x30}, {0x30}, pre[:], {0x51}}
}

// applyClaimsLocked lets the peer claim what it planned to claim by now.
func (w *ccWorld) applyClaimsLocked() {
	var ops []wire.OutPoint
	for op, c := range w.remoteClaim {
		if c.height <= w.height {
			ops = append(ops, op)
		}
	}
	sort.Slice(ops, func(i, j int) bool {
		return ops[i].String() < ops[j].String()
	})
	for _, op := range ops {
		c := w.remoteClaim[op]
		tx := ccSweepTx(op, ccRemoteClaimWitness(c.pre, c.local))
		tx.LockTime = 0x7e
		w.spendLocked(op, tx)
	}
}

// mine advances the chain by one block.
func (w *ccWorld) mine() int32 {
	w.mu.Lock()
	defer w.mu.Unlock()
	w.height++
	w.applyClaimsLocked()

	return w.height
}

// jumpTo advances the chain to height h at once; subscribers only see the
// new tip.
func (w *ccWorld) jumpTo(h int32) {
	w.mu.Lock()
	defer w.mu.Unlock()
	if h <= w.height {
		return
	}
	w.height = h
	for _, e := range w.epochSubs {
		if e.next < h {
			e.next = h
		}
	}
	w.applyClaimsLocked()
}

// confirm records that tx (published by the node or one of its subsystems)
// confirmed, spending its first input.
func (w *ccWorld) confirm(tx *wire.MsgTx) {
	w.mu.Lock()
	defer w.mu.Unlock()
	w.spendLocked(tx.TxIn[0].PreviousOutPoint, tx)
}

// pendingSweeps returns the sweep requests of inc that were never pumped.
func (w *ccWorld) pendingSweeps(inc *ccInc) []*ccSweepReq {
	w.mu.Lock()
	defer w.mu.Unlock()
	var out []*ccSweepReq
	for _, r := range w.sweeps {
		if r.inc == inc && !r.done {
			out = append(out, r)
		}
	}
	sort.Slice(out, func(i, j int) bool { return out[i].seq < out[j].seq })

	return out
}

// pumpOne delivers exactly one pending notification of the live incarnation
// in an order that does not depend on goroutine scheduling. It returns a
// description of what was delivered, or "" if nothing is pending.
//
// Order: block epochs a subscriber has not seen yet (a real notifier sends
// the current tip at registration), spends of outpoints that are already
// spent, the breach arbitrator's completion, and only then the confirmation
// of a sweep the node asked for (that takes a block in reality).
func (w *ccWorld) pumpOne(inc *ccInc) string {
	w.mu.Lock()
	defer w.mu.Unlock()
	if inc.dead {
		return ""
	}

	type cand struct {
		key string
		do  func()
	}
	var cs []cand

	for _, s := range w.spendSubs {
		s := s
		if s.inc != inc || s.delivered || s.cancelled {
			continue
		}
		d, ok := w.spent[s.op]
		if !ok {
			continue
		}
		cs = append(cs, cand{
			key: fmt.Sprintf("2spend:%v:%06d", s.op, s.seq),
			do: func() {
				s.delivered = true
				s.ch <- d
			},
		})
	}
	for _, r := range w.sweeps {
		r := r
		if r.inc != inc || r.done {
			continue
		}
		cs = append(cs, cand{
			key: fmt.Sprintf("4sweep:%v:%06d", r.op, r.seq),
			do: func() {
				r.done = true
				if d, ok := w.spent[r.op]; ok {
					if w.sweepHook != nil {
						_, err := w.sweepHook(r, true)
						if err != nil {
							w.hookErrs = append(w.hookErrs, err)
						}
					}
					ours := d.SpendingTx.LockTime != 0x7e
					res := sweep.Result{Tx: d.SpendingTx}
					if !ours {
						res.Err = sweep.ErrRemoteSpend
					}
					r.ch <- res

					return
				}
				var wit wire.TxWitness
				if r.pre != nil {
					// <sig> <preimage> <witness script>; the
					// script is filled in by ccSuccessScript.
					wit = wire.TxWitness{
						{0x30}, r.pre, ccSuccessScript,
					}
				} else {
					// <sig> <0> <witness script>
					wit = wire.TxWitness{{0x30}, {}, {0x51}}
				}
				tx := ccSweepTx(r.op, wit)
				if r.reqOut != nil {
					tx.TxOut[0] = r.reqOut
				}
				if w.sweepHook != nil {
					real, err := w.sweepHook(r, false)
					if err != nil {
						w.hookErrs = append(w.hookErrs, err)
					}
					if real != nil {
						tx = real
					}
				}
				w.spendLocked(r.op, tx)
				w.published = append(w.published,
					tx.TxHash().String())
				r.ch <- sweep.Result{Tx: tx}
			},
		})
	}
	for _, b := range w.breachSubs {
		b := b
		if b.inc != inc || b.done {
			continue
		}
		cs = append(cs, cand{
			key: "3breach",
			do: func() {
				b.done = true
				w.breachDone = true
				close(b.ch)
			},
		})
	}
	for _, e := range w.epochSubs {
		e := e
		if e.inc != inc || e.cancelled || e.next > w.height {
			continue
		}
		cs = append(cs, cand{
			key: fmt.Sprintf("1epoch:%09d:%s:%06d", e.next, e.ident,
				e.seq),
			do: func() {
				e.ch <- &chainntnfs.BlockEpoch{
					Height: e.next, Hash: &chainhash.Hash{},
				}
				e.next++
			},
		})
	}
	if len(cs) == 0 {
		return ""
	}
	sort.Slice(cs, func(i, j int) bool { return cs[i].key < cs[j].key })
	cs[0].do()

	return cs[0].key
}

// ccSuccessScript is the witness script of every received-HTLC output in
// generated resolutions (the success resolver compares it).
var ccSuccessScript = []byte{0x63, 0x51, 0x68}

// ---------------------------------------------------------------------------
// Quiescence
// ---------------------------------------------------------------------------

// ccQuiescent reports whether every goroutine other than the caller is
// blocked. Resolver goroutines only ever wait for the world (which moves
// only when the driver pumps it) or for the arbitrator's main loop (which the
// driver is), so "all blocked" is a stable state.
func ccQuiescent() bool {
	ccStackMu.Lock()
	defer ccStackMu.Unlock()
	for {
		n := runtime.Stack(ccStackBuf, true)
		if n < len(ccStackBuf) {
			return ccAllBlocked(string(ccStackBuf[:n]))
		}
		ccStackBuf = make([]byte, 2*len(ccStackBuf))
	}
}

var (
	ccStackMu  sync.Mutex
	ccStackBuf = make([]byte, 1<<18)
)

func ccAllBlocked(dump string) bool {
	me := true
	for _, blk := range strings.Split(dump, "\n\n") {
		if !strings.HasPrefix(blk, "goroutine ") {
			continue
		}
		if me {
			// The first block is the calling goroutine.
			me = false
			continue
		}
		i := strings.IndexByte(blk, '[')
		j := strings.IndexByte(blk, ']')
		if i < 0 || j < i {
			return false
		}
		st := blk[i+1 : j]
		if k := strings.IndexByte(st, ','); k >= 0 {
			st = st[:k]
		}
		switch st {
		case "running", "runnable", "sleep", "copystack", "preempted",
			"waiting", "dead", "idle":

			return false

		case "syscall":
			// The os/signal watcher sits in a syscall forever.
			if strings.Contains(blk, "os/signal.") {
				continue
			}

			return false
		}
	}

	return true
}

// ccSettle waits until the process is quiescent. false = deadline missed
// (the case is then inconclusive, never a violation).
func ccSettle() bool {
	deadline := time.Now().Add(20 * time.Second)
	for spins := 0; ; spins++ {
		runtime.Gosched()
		if ccQuiescent() {
			return true
		}
		if spins > 50 {
			time.Sleep(50 * time.Microsecond)
		}
		if spins > 2000 {
			time.Sleep(time.Millisecond)
		}
		if time.Now().After(deadline) {
			return false
		}
	}
}

// ---------------------------------------------------------------------------
// ArbitratorLog wrappers
// ---------------------------------------------------------------------------

// ccLog routes every mutating ArbitratorLog call through the incarnation.
type ccLog struct {
	ArbitratorLog
	inc *ccInc

	// onInsert observes InsertUnresolvedContracts (before the write).
	onInsert func(reports []*channeldb.ResolverReport,
		resolvers []ContractResolver)
}

func (l *ccLog) CommitState(s ArbitratorState) error {
	return l.inc.effect("CommitState("+s.String()+")", func() error {
		return l.ArbitratorLog.CommitState(s)
	})
}

func (l *ccLog) InsertUnresolvedContracts(r []*channeldb.ResolverReport,
	res ...ContractResolver) error {

	name := "InsertUnresolvedContracts"
	if len(res) == 1 {
		name = ccCheckpointName(res[0])
	}

	return l.inc.effect(name, func() error {
		if l.onInsert != nil {
			l.onInsert(r, res)
		}

		return l.ArbitratorLog.InsertUnresolvedContracts(r, res...)
	})
}

func (l *ccLog) SwapContract(o, n ContractResolver) error {
	return l.inc.effect(fmt.Sprintf("SwapContract(%T->%T)", o, n),
		func() error {
			return l.ArbitratorLog.SwapContract(o, n)
		})
}

func (l *ccLog) ResolveContract(r ContractResolver) error {
	return l.inc.effect(fmt.Sprintf("ResolveContract(%T)", r),
		func() error {
			return l.ArbitratorLog.ResolveContract(r)
		})
}

func (l *ccLog) LogContractResolutions(c *ContractResolutions) error {
	return l.inc.effect("LogContractResolutions", func() error {
		return l.ArbitratorLog.LogContractResolutions(c)
	})
}

func (l *ccLog) InsertConfirmedCommitSet(c *CommitSet) error {
	return l.inc.effect("InsertConfirmedCommitSet", func() error {
		return l.ArbitratorLog.InsertConfirmedCommitSet(c)
	})
}

func (l *ccLog) WipeHistory() error {
	return l.inc.effect("WipeHistory", func() error {
		return l.ArbitratorLog.WipeHistory()
	})
}

// FetchUnresolvedContracts re-routes the checkpoint closure of resolvers
// restored from the bolt log (which writes to the DB directly, bypassing the
// ArbitratorLog interface) through the incarnation.
func (l *ccLog) FetchUnresolvedContracts() ([]ContractResolver, error) {
	rs, err := l.ArbitratorLog.FetchUnresolvedContracts()
	if err != nil {
		return nil, err
	}
	if _, ok := l.ArbitratorLog.(*boltArbitratorLog); !ok {
		return rs, nil
	}
	for _, r := range rs {
		var kit *contractResolverKit
		switch v := r.(type) {
		case *htlcTimeoutResolver:
			kit = &v.contractResolverKit
		case *htlcOutgoingContestResolver:
			kit = &v.htlcTimeoutResolver.contractResolverKit
		case *htlcSuccessResolver:
			kit = &v.contractResolverKit
		case *htlcIncomingContestResolver:
			kit = &v.htlcSuccessResolver.contractResolverKit
		case *commitSweepResolver:
			kit = &v.contractResolverKit
		case *breachResolver:
			kit = &v.contractResolverKit
		}
		if kit != nil && kit.Checkpoint != nil {
			kit.Checkpoint = l.checkpoint(kit.Checkpoint)
		}
	}

	return rs, nil
}

// checkpoint is handed to resolvers restored from the log (the bolt log's
// own checkpoint closure bypasses the ArbitratorLog interface).
func (l *ccLog) checkpoint(inner func(ContractResolver,
	...*channeldb.ResolverReport) error) func(ContractResolver,
	...*channeldb.ResolverReport) error {

	return func(r ContractResolver, rep ...*channeldb.ResolverReport) error {
		return l.inc.effect(ccCheckpointName(r),
			func() error { return inner(r, rep...) })
	}
}

func ccCheckpointName(r ContractResolver) string {
	if r.IsResolved() {
		return fmt.Sprintf("Checkpoint(%T,resolved)", r)
	}

	return fmt.Sprintf("Checkpoint(%T)", r)
}

// ccNoBatchDB hides the bolt backend's Batch method so that kvdb.Batch falls
// back to a plain Update: same atomicity, without bbolt's 10ms batch timer.
type ccNoBatchDB struct{ kvdb.Backend }

// ccOpenDB creates / opens a bolt file for an arbitrator log.
func ccOpenDB(path string) (kvdb.Backend, error) {
	db, err := kvdb.Create(
		kvdb.BoltBackendName, path, true, kvdb.DefaultDBTimeout, false,
	)
	if err != nil {
		return nil, err
	}

	return ccNoBatchDB{db}, nil
}

// ccMemLog is a straightforward in-memory ArbitratorLog.
type ccMemLog struct {
	mu        sync.Mutex
	state     ArbitratorState
	res       *ContractResolutions
	commitSet *CommitSet
	contracts map[string]ContractResolver
}

func newCcMemLog() *ccMemLog {
	return &ccMemLog{contracts: make(map[string]ContractResolver)}
}

var _ ArbitratorLog = (*ccMemLog)(nil)

func (m *ccMemLog) CurrentState(kvdb.RTx) (ArbitratorState, error) {
	m.mu.Lock()
	defer m.mu.Unlock()

	return m.state, nil
}

func (m *ccMemLog) CommitState(s ArbitratorState) error {
	m.mu.Lock()
	defer m.mu.Unlock()
	m.state = s

	return nil
}

func (m *ccMemLog) InsertUnresolvedContracts(_ []*channeldb.ResolverReport,
	rs ...ContractResolver) error {

	m.mu.Lock()
	defer m.mu.Unlock()
	for _, r := range rs {
		if k := r.ResolverKey(); k != nil {
			m.contracts[string(k)] = r
		}
	}

	return nil
}

func (m *ccMemLog) FetchUnresolvedContracts() ([]ContractResolver, error) {
	m.mu.Lock()
	defer m.mu.Unlock()
	var keys []string
	for k := range m.contracts {
		keys = append(keys, k)
	}
	sort.Strings(keys)
	var out []ContractResolver
	for _, k := range keys {
		out = append(out, m.contracts[k])
	}

	return out, nil
}

func (m *ccMemLog) SwapContract(o, n ContractResolver) error {
	m.mu.Lock()
	defer m.mu.Unlock()
	delete(m.contracts, string(o.ResolverKey()))
	m.contracts[string(n.ResolverKey())] = n

	return nil
}

func (m *ccMemLog) ResolveContract(r ContractResolver) error {
	m.mu.Lock()
	defer m.mu.Unlock()
	delete(m.contracts, string(r.ResolverKey()))

	return nil
}

func (m *ccMemLog) LogContractResolutions(c *ContractResolutions) error {
	m.mu.Lock()
	defer m.mu.Unlock()
	m.res = c

	return nil
}

func (m *ccMemLog) FetchContractResolutions() (*ContractResolutions, error) {
	m.mu.Lock()
	defer m.mu.Unlock()
	if m.res == nil {
		return nil, errNoResolutions
	}

	return m.res, nil
}

func (m *ccMemLog) InsertConfirmedCommitSet(c *CommitSet) error {
	m.mu.Lock()
	defer m.mu.Unlock()
	m.commitSet = c

	return nil
}

func (m *ccMemLog) FetchConfirmedCommitSet(kvdb.RTx) (*CommitSet, error) {
	m.mu.Lock()
	defer m.mu.Unlock()
	if m.commitSet == nil {
		return nil, errNoCommitSet
	}

	return m.commitSet, nil
}

func (m *ccMemLog) FetchChainActions() (ChainActionMap, error) {
	return nil, errNoActions
}

func (m *ccMemLog) WipeHistory() error {
	m.mu.Lock()
	defer m.mu.Unlock()
	m.state, m.res, m.commitSet = StateDefault, nil, nil
	m.contracts = make(map[string]ContractResolver)

	return nil
}

// ---------------------------------------------------------------------------
// Arbitrator builder
// ---------------------------------------------------------------------------

// ccChanPoint is the funding outpoint of the channel under test.
var ccChanPoint = wire.OutPoint{
	Hash:  chainhash.Hash{0xcc, 0x01, 0x02},
	Index: 1,
}

var ccShortChanID = lnwire.NewShortChanIDFromInt(0x0a0b0c0000010001)

var ccT0 = time.Date(2021, time.March, 4, 5, 6, 7, 0, time.UTC)

// ccBuildArb creates an un-started ChannelArbitrator for the scenario on top
// of the repo's test fixture and rewires every outward-facing config item to
// the world. mkLog builds the (raw) log from the final config.
func ccBuildArb(t *testing.T, sc *ccScenario, inc *ccInc,
	sets map[HtlcSetKey]htlcSet,
	mkLog func(cfg ChannelArbitratorConfig) (ArbitratorLog, error)) (
	*ChannelArbitrator, *ccLog, error) {

	w := inc.w

	ctx, err := createTestChannelArbitrator(t, newCcMemLog())
	if err != nil {
		return nil, nil, err
	}
	arb := ctx.chanArb
	cfg := &arb.cfg

	testClock := clock.NewTestClock(ccT0)

	cfg.ChanPoint = ccChanPoint
	cfg.ShortChanID = ccShortChanID
	cfg.Channel = &ccChannel{inc: inc}
	cfg.OutgoingBroadcastDelta = sc.DeltaOut
	cfg.IncomingBroadcastDelta = sc.DeltaIn
	cfg.PaymentsExpirationGracePeriod =
		time.Duration(sc.GraceSec) * time.Second
	cfg.Clock = testClock
	cfg.Notifier = &ccNotifier{inc: inc}
	cfg.Sweeper = &ccSweeper{inc: inc}
	cfg.PreimageDB = &ccBeacon{inc: inc}
	cfg.Registry = &ccRegistry{inc: inc}
	cfg.OnionProcessor = &ccOnion{inc: inc}
	cfg.ChainIO = &ccChainIO{inc: inc}
	cfg.HtlcNotifier = &mockHTLCNotifier{}
	cfg.Mempool = nil

	fwd := map[uint64]bool{}
	for i := range sc.HTLCs {
		if !sc.HTLCs[i].Incoming {
			fwd[sc.HTLCs[i].Idx] = sc.HTLCs[i].Fwd
		}
	}
	cfg.IsForwardedHTLC = func(_ lnwire.ShortChannelID, idx uint64) bool {
		return fwd[idx]
	}
	cfg.PublishTx = func(tx *wire.MsgTx, _ string) error {
		return inc.effect("PublishTx", func() error {
			w.mu.Lock()
			w.commitPub = append(w.commitPub, tx.TxHash().String())
			w.mu.Unlock()

			return nil
		})
	}
	cfg.DeliverResolutionMsg = func(msgs ...ResolutionMsg) error {
		return inc.effect("DeliverResolutionMsg", func() error {
			w.mu.Lock()
			for _, m := range msgs {
				w.msgs = append(w.msgs, ccMsg{
					Idx: m.HtlcIndex, Settle: m.PreImage != nil,
				})
			}
			w.mu.Unlock()

			return nil
		})
	}
	cfg.IncubateOutputs = func(_ wire.OutPoint,
		o fn.Option[lnwallet.OutgoingHtlcResolution],
		i fn.Option[lnwallet.IncomingHtlcResolution], _ uint32,
		_ fn.Option[int32], _ ...IncubateOption) error {

		return inc.effect("IncubateOutputs", func() error {
			w.mu.Lock()
			o.WhenSome(func(r lnwallet.OutgoingHtlcResolution) {
				w.incubated = append(w.incubated,
					r.HtlcPoint().String())
			})
			i.WhenSome(func(r lnwallet.IncomingHtlcResolution) {
				w.incubated = append(w.incubated,
					r.HtlcPoint().String())
			})
			w.mu.Unlock()

			return nil
		})
	}
	cfg.SubscribeBreachComplete = func(_ *wire.OutPoint,
		c chan struct{}) (bool, error) {

		w.mu.Lock()
		defer w.mu.Unlock()
		if inc.dead {
			return false, errCcDead
		}
		if w.breachDone {
			return true, nil
		}
		w.breachSubs = append(w.breachSubs, &ccBreachSub{
			ch: c, inc: inc,
		})

		return false, nil
	}
	cfg.PutFinalHtlcOutcome = func(_ lnwire.ShortChannelID, id uint64,
		settled bool) error {

		return inc.effect("PutFinalHtlcOutcome", func() error {
			w.mu.Lock()
			w.finals = append(w.finals, ccFinal{id, settled})
			w.mu.Unlock()

			return nil
		})
	}
	cfg.QueryIncomingCircuit = func(models.CircuitKey) *models.CircuitKey {
		return nil
	}
	cfg.NotifyChannelResolved = func() {
		_ = inc.effect("NotifyChannelResolved", func() error {
			n := -1
			if inc.log != nil {
				if cs, err := inc.log.FetchUnresolvedContracts(); err == nil {
					n = len(cs)
				}
			}
			w.mu.Lock()
			w.fullyResolved++
			w.unresolvedAtNotify = append(w.unresolvedAtNotify, n)
			w.mu.Unlock()

			return nil
		})
	}
	cfg.MarkCommitmentBroadcasted = func(*wire.MsgTx,
		lntypes.ChannelParty) error {

		return inc.effect("MarkCommitmentBroadcasted", func() error {
			w.mu.Lock()
			w.broadcasted = true
			w.mu.Unlock()

			return nil
		})
	}
	cfg.MarkChannelClosed = func(s *channeldb.ChannelCloseSummary,
		_ ...channeldb.ChannelStatus) error {

		return inc.effect("MarkChannelClosed", func() error {
			w.mu.Lock()
			w.closed = true
			w.closeType = s.CloseType
			w.closeHeight = s.CloseHeight
			w.mu.Unlock()

			return nil
		})
	}
	cfg.PutResolverReport = func(tx kvdb.RwTx,
		r *channeldb.ResolverReport) error {

		s := ccReportString(r)
		if r.ResolverType == channeldb.ResolverTypeAnchor {
			// The anchor resolver is stateless and not tracked by
			// the log; whether its sweep completes before the
			// channel is fully resolved is a matter of timing.
			s = ""
		}
		if tx != nil {
			// Part of the enclosing log write.
			w.mu.Lock()
			if s != "" {
				w.pendRep = append(w.pendRep, s)
			}
			w.mu.Unlock()

			return nil
		}

		return inc.effect("PutResolverReport", func() error {
			w.mu.Lock()
			if s != "" {
				w.pendRep = append(w.pendRep, s)
			}
			w.mu.Unlock()

			return nil
		})
	}
	ct := sc.chanType()
	cfg.FetchHistoricalChannel = func() (*chanstate.OpenChannel, error) {
		return &chanstate.OpenChannel{ChanType: ct}, nil
	}
	cfg.FindOutgoingHTLCDeadline = func(channeldb.HTLC) fn.Option[int32] {
		return fn.None[int32]()
	}

	w.mu.Lock()
	cfg.IsPendingClose = w.closed
	cfg.CloseType = w.closeType
	cfg.ClosingHeight = w.closeHeight
	w.mu.Unlock()

	raw, err := mkLog(*cfg)
	if err != nil {
		return nil, nil, err
	}
	inc.log = raw
	wl := &ccLog{ArbitratorLog: raw, inc: inc}
	arb.log = wl

	if sets == nil {
		sets = make(map[HtlcSetKey]htlcSet)
	}
	arb.activeHTLCs = sets
	arb.unmergedSet = make(map[HtlcSetKey]htlcSet)
	for k, v := range sets {
		arb.unmergedSet[k] = v
	}

	// What Start() does before it spawns the attendant.
	arb.startTimestamp = testClock.Now()
	testClock.SetTime(ccT0.Add(time.Duration(sc.UptimeSec) * time.Second))

	return arb, wl, nil
}

func ccReportString(r *channeldb.ResolverReport) string {
	tx := "nil"
	if r.SpendTxID != nil {
		tx = r.SpendTxID.String()
	}

	return fmt.Sprintf("%v|%d|%d|%d|%s", r.OutPoint, r.Amount,
		r.ResolverType, r.ResolverOutcome, tx)
}

// ---------------------------------------------------------------------------
// Close events consistent with a scenario
// ---------------------------------------------------------------------------

func ccSignDesc(value int64, script []byte) input.SignDescriptor {
	return input.SignDescriptor{
		WitnessScript: script,
		Output: &wire.TxOut{
			Value:    value,
			PkScript: []byte{0x00, 0x14, 0x01, 0x02, 0x03},
		},
		HashType: txscript.SigHashAll,
	}
}

func ccSignDetails(value int64) *input.SignDetails {
	return &input.SignDetails{
		SignDesc:    ccSignDesc(value, []byte{0x51}),
		SigHashType: txscript.SigHashSingle | txscript.SigHashAnyOneCanPay,
		PeerSig:     testSig,
	}
}

// ccResolutions builds the HTLC / commit / anchor resolutions lnwallet would
// hand over for commitment s confirming: one resolution per HTLC output.
func (sc *ccScenario) resolutions(s int) (*lnwallet.HtlcResolutions,
	*lnwallet.CommitOutputResolution, *lnwallet.AnchorResolution) {

	commit := ccCommitHash(s)
	local := s == ccL
	hr := &lnwallet.HtlcResolutions{}
	for i := range sc.HTLCs {
		h := &sc.HTLCs[i]
		if !h.hasOutput(s) {
			continue
		}
		htlcOp := wire.OutPoint{Hash: commit, Index: uint32(h.Out[s])}
		val := int64(h.Amt.ToSatoshis())
		var second *wire.MsgTx
		var details *input.SignDetails
		claim := htlcOp
		if local {
			second = &wire.MsgTx{
				Version: 2,
				TxIn: []*wire.TxIn{{
					PreviousOutPoint: htlcOp,
					Witness: wire.TxWitness{
						{}, {0x30}, {0x30}, {}, {0x51, 0x52},
					},
				}},
				TxOut: []*wire.TxOut{{
					Value:    val,
					PkScript: []byte{0x00, 0x14, 0x01, 0x02, 0x03},
				}},
				LockTime: h.Expiry,
			}
			claim = wire.OutPoint{Hash: second.TxHash(), Index: 0}
			if sc.ChanKind == 2 {
				details = ccSignDetails(val)
			}
		}
		if h.Incoming {
			hr.IncomingHTLCs = append(hr.IncomingHTLCs,
				lnwallet.IncomingHtlcResolution{
					SignedSuccessTx: second,
					SignDetails:     details,
					CsvDelay:        4,
					ClaimOutpoint:   claim,
					SweepSignDesc: ccSignDesc(
						val, ccSuccessScript,
					),
				})
		} else {
			hr.OutgoingHTLCs = append(hr.OutgoingHTLCs,
				lnwallet.OutgoingHtlcResolution{
					Expiry:          h.Expiry,
					SignedTimeoutTx: second,
					SignDetails:     details,
					CsvDelay:        4,
					ClaimOutpoint:   claim,
					SweepSignDesc: ccSignDesc(
						val, []byte{0x51},
					),
				})
		}
	}

	var cr *lnwallet.CommitOutputResolution
	if sc.CommitOut {
		script := []byte{0x51}
		delay := uint32(0)
		if local {
			script = []byte{txscript.OP_IF, 0x51}
			delay = 6
		} else if sc.ChanKind == 2 {
			delay = 1
		}
		cr = &lnwallet.CommitOutputResolution{
			SelfOutPoint:       wire.OutPoint{Hash: commit, Index: 40},
			SelfOutputSignDesc: ccSignDesc(77_000, script),
			MaturityDelay:      delay,
		}
	}
	var ar *lnwallet.AnchorResolution
	if sc.ChanKind == 2 {
		ar = &lnwallet.AnchorResolution{
			AnchorSignDescriptor: ccSignDesc(330, []byte{0x51}),
			CommitAnchor:         wire.OutPoint{Hash: commit, Index: 41},
		}
	}

	return hr, cr, ar
}

func ccCloseSummary(ct channeldb.ClosureType,
	height uint32) channeldb.ChannelCloseSummary {

	return channeldb.ChannelCloseSummary{
		ChanPoint:   ccChanPoint,
		ShortChanID: ccShortChanID,
		CloseType:   ct,
		CloseHeight: height,
	}
}

// ccDeliverClose hands the close event for "conf" to the arbitrator the way
// channelAttendant does. conf: ccL/ccR/ccP, 3 = breach, 4 = cooperative.
const (
	ccBreach = 3
	ccCoop   = 4
)

var ccConfNames = []string{"local", "remote", "pending", "breach", "coop"}

func ccDeliverClose(arb *ChannelArbitrator, sc *ccScenario, conf int,
	height uint32) error {

	switch conf {
	case ccL:
		hr, cr, ar := sc.resolutions(ccL)
		tx := ccLocalCloseTx.Copy()
		sum := ccCloseSummary(channeldb.LocalForceClose, height)
		info := &LocalUnilateralCloseInfo{
			SpendDetail: &chainntnfs.SpendDetail{
				SpendingHeight: int32(height),
			},
			LocalForceCloseSummary: &lnwallet.LocalForceCloseSummary{
				ChanPoint: ccChanPoint,
				CloseTx:   tx,
				ContractResolutions: fn.Some(
					lnwallet.ContractResolutions{
						CommitResolution: cr,
						AnchorResolution: ar,
						HtlcResolutions:  hr,
					},
				),
			},
			ChannelCloseSummary: &sum,
			CommitSet:           sc.commitSet(ccL),
		}
		return arb.handleLocalForceCloseEvent(info)

	case ccR, ccP:
		hr, cr, ar := sc.resolutions(conf)
		ch := ccCommitHash(conf)
		info := &RemoteUnilateralCloseInfo{
			UnilateralCloseSummary: &lnwallet.UnilateralCloseSummary{
				SpendDetail: &chainntnfs.SpendDetail{
					SpenderTxHash:  &ch,
					SpendingHeight: int32(height),
				},
				ChannelCloseSummary: ccCloseSummary(
					channeldb.RemoteForceClose, height,
				),
				CommitResolution: cr,
				HtlcResolutions:  hr,
				AnchorResolution: ar,
			},
			CommitSet: sc.commitSet(conf),
		}

		return arb.handleRemoteForceCloseEvent(info)

	case ccBreach:
		var ar *lnwallet.AnchorResolution
		if sc.ChanKind == 2 {
			ar = &lnwallet.AnchorResolution{
				AnchorSignDescriptor: ccSignDesc(330, []byte{0x51}),
				CommitAnchor: wire.OutPoint{
					Hash: ccBreachHash(), Index: 41,
				},
			}
		}
		info := &BreachCloseInfo{
			BreachResolution: &BreachResolution{
				FundingOutPoint: ccChanPoint,
			},
			AnchorResolution: ar,
			CommitHash:       ccBreachHash(),
			CommitSet:        sc.commitSet(ccR),
			CloseSummary: ccCloseSummary(
				channeldb.BreachClose, height,
			),
		}

		return arb.handleContractBreach(info)

	case ccCoop:
		sum := ccCloseSummary(channeldb.CooperativeClose, height)

		return arb.handleCoopCloseEvent(&CooperativeCloseInfo{
			ChannelCloseSummary: &sum,
		})
	}

	return fmt.Errorf("unknown close kind %d", conf)
}

// ccStop stops the arbitrator (and with it every resolver goroutine).
func ccStop(arb *ChannelArbitrator) {
	_ = arb.Stop()
}
