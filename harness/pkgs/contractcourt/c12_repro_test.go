//go:build verif

package contractcourt

// Deterministic reproductions of the C12 findings. Each test drives only the
// real arbitrator (advanceState, handle*CloseEvent) with a hand-written
// channel state and asserts the behaviour the property demands. While the
// finding is listed as "known" the defect is logged instead of failing; once
// it is repaired (entry removed or marked fixed) the assertion is live.

import (
	"fmt"
	"sort"
	"testing"

	"github.com/lightningnetwork/lnd/lntypes"
)

// c12Once runs one close on a fresh arbitrator: optional own broadcast
// (pre: 0 none, 1 chain trigger, 2 user trigger) at preHeight, then the
// confirmation of conf at closeHeight. It returns the upstream resolutions.
func c12Once(t *testing.T, sc *ccScenario, conf, pre int, preHeight,
	closeHeight uint32) ([]ccMsg, ArbitratorState) {

	w := newCcWorld(int32(preHeight))
	w.applyKnowledge(sc)
	inc := w.newInc()
	arb, _, err := ccBuildArb(t, sc, inc, sc.htlcSets(), c12MemLog)
	if err != nil {
		t.Fatalf("build: %v", err)
	}
	defer ccStop(arb)
	switch pre {
	case 1:
		_, _, err = arb.advanceState(preHeight, chainTrigger, nil)
	case 2:
		_, _, err = arb.advanceState(preHeight, userTrigger, nil)
	}
	if err != nil {
		t.Fatalf("pre trigger: %v", err)
	}
	if pre != 0 && w.forceClose != 1 {
		t.Fatalf("expected an own broadcast, got %d", w.forceClose)
	}
	w.mu.Lock()
	w.height = int32(closeHeight)
	w.mu.Unlock()
	if err := ccDeliverClose(arb, sc, conf, closeHeight); err != nil {
		t.Fatalf("close: %v", err)
	}
	w.mu.Lock()
	defer w.mu.Unlock()

	return append([]ccMsg(nil), w.msgs...), arb.state
}

func c12ReproHTLC(idx uint64, incoming bool, expiry uint32) ccHTLC {
	h := ccHTLC{
		Idx: idx, Incoming: incoming, Amt: 1_000_000, Expiry: expiry,
		Fwd: true,
	}
	h.Pre = lntypes.Preimage{0x77, byte(idx)}
	h.Hash = h.Pre.Hash()
	h.Out = [3]int32{-1, -1, -1}

	return h
}

func c12ReproCheck(t *testing.T, key string, ok bool, what string) {
	t.Helper()
	if ok {
		t.Logf("correct behaviour: %s", what)
		return
	}
	if ccKnown(key) {
		t.Logf("KNOWN-FINDING %s reproduced: %s", key, what)
		return
	}
	t.Fatalf("%s: %s", key, what)
}

// (a) We broadcast our commitment (user request); it confirms. An offered
// HTLC that exists only on the peer's commitment and is dust there must be
// failed back once. It is - if the same close event arrives without the prior
// broadcast.
func TestVerifC12ReproDustAfterBroadcastLocal(t *testing.T) {
	x := c12ReproHTLC(2, false, 750)
	x.On[ccR], x.Dust[ccR] = true, true
	sc := &ccScenario{HTLCs: []ccHTLC{x}, Base: 700, DeltaOut: 10,
		DeltaIn: 10}

	direct, _ := c12Once(t, sc, ccL, 0, 700, 700)
	f, _ := c12CountMsgs(direct, 2)
	if f != 1 {
		t.Fatalf("direct close: %d fail-backs, want 1", f)
	}

	after, st := c12Once(t, sc, ccL, 2, 700, 701)
	f, _ = c12CountMsgs(after, 2)
	c12ReproCheck(t, c12KeyDustAfterBroadcast, f == 1, fmt.Sprintf(
		"user-triggered broadcast, then our commitment confirms: "+
			"offered dust HTLC #2 (only on the peer's commitment) "+
			"failed back %d times, want 1 (final state %v)", f, st))
}

// (b) We broadcast, but the peer's commitment confirms. An offered HTLC that
// is non-dust on ours and dust on theirs must be failed back once.
func TestVerifC12ReproDustAfterBroadcastRemote(t *testing.T) {
	x := c12ReproHTLC(1, false, 750)
	x.On[ccL], x.On[ccR] = true, true
	x.Dust[ccR] = true
	x.Out[ccL] = 0
	sc := &ccScenario{HTLCs: []ccHTLC{x}, Base: 700, DeltaOut: 10,
		DeltaIn: 10}

	direct, _ := c12Once(t, sc, ccR, 0, 700, 700)
	f, _ := c12CountMsgs(direct, 1)
	if f != 1 {
		t.Fatalf("direct close: %d fail-backs, want 1", f)
	}

	after, st := c12Once(t, sc, ccR, 2, 700, 701)
	f, _ = c12CountMsgs(after, 1)
	c12ReproCheck(t, c12KeyDustAfterBroadcast, f == 1, fmt.Sprintf(
		"user-triggered broadcast, then the peer's commitment "+
			"confirms: offered HTLC #1 (dust there, output on ours) "+
			"failed back %d times, want 1 (final state %v)", f, st))
}

// (c) An offered HTLC not on our commitment, non-dust on the peer's current
// and dust on the peer's pending commitment, inside the broadcast window; we
// go on chain on a block and our commitment confirms. The number of
// fail-backs must be 1 every time.
func TestVerifC12ReproDustBitMapOrder(t *testing.T) {
	x := c12ReproHTLC(1, false, 705)
	x.On[ccR], x.On[ccP] = true, true
	x.Dust[ccP] = true
	x.Out[ccR] = 0
	sc := &ccScenario{HTLCs: []ccHTLC{x}, HasPending: true, Base: 700,
		DeltaOut: 10, DeltaIn: 10}

	seen := map[int]int{}
	for i := 0; i < 64; i++ {
		msgs, _ := c12Once(t, sc, ccL, 1, 700, 701)
		f, _ := c12CountMsgs(msgs, 1)
		seen[f]++
	}
	var ks []int
	for k := range seen {
		ks = append(ks, k)
	}
	sort.Ints(ks)
	c12ReproCheck(t, c12KeyDustBitMapOrder, len(ks) == 1 && ks[0] == 1,
		fmt.Sprintf("64 identical runs, number of fail-backs -> runs: %v "+
			"(want 1 every time)", seen))
}
