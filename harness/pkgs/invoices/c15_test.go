//go:build verif

package invoices_test

// C15: a preimage is released only for a fully and correctly paid invoice.
//
// rapid state machine over the real InvoiceRegistry on both invoice stores
// (bbolt via channeldb, SQL via sqlite) in one process. See c15_world_test.go
// for the deterministic clock / stores and c15_oracle_test.go for the
// validity predicate. This file is the generator, the event executor, the
// bbolt-vs-sqlite differential and the evidence bookkeeping.

import (
	"context"
	"fmt"
	"sort"
	"strings"
	"sync"
	"testing"
	"time"

	"github.com/lightningnetwork/lnd/amp"
	"github.com/lightningnetwork/lnd/internal/verif/vstats"
	invpkg "github.com/lightningnetwork/lnd/invoices"
	"github.com/lightningnetwork/lnd/lntypes"
	"github.com/lightningnetwork/lnd/lnwire"
	"pgregory.net/rapid"
)

type c15InvSpec struct {
	idx      int
	kind     string // regular | hold | amp | blinded
	hash     lntypes.Hash
	preimage lntypes.Preimage // known to the harness also for hold invoices
	addr     [32]byte
	value    uint64
	delta    int32
	addrMode int // 0 none, 1 optional, 2 required
	added    bool
}

func (s *c15InvSpec) features() *lnwire.FeatureVector {
	bits := []lnwire.FeatureBit{lnwire.TLVOnionPayloadOptional}
	switch s.addrMode {
	case 1:
		bits = append(bits, lnwire.PaymentAddrOptional,
			lnwire.MPPOptional)
	case 2:
		bits = append(bits, lnwire.PaymentAddrRequired,
			lnwire.MPPOptional)
	}
	if s.kind == "amp" {
		bits = append(bits, lnwire.AMPRequired)
	}

	return c15Features(bits...)
}

func (s *c15InvSpec) invoice() *invpkg.Invoice {
	inv := &invpkg.Invoice{
		CreationDate: c15Epoch,
		Terms: invpkg.ContractTerm{
			Value:          lnwire.MilliSatoshi(s.value),
			Expiry:         time.Hour,
			FinalCltvDelta: s.delta,
			PaymentAddr:    s.addr,
			Features:       s.features(),
		},
		// A non-empty payment request distinguishes the invoice from
		// a keysend one (Invoice.IsKeysend); real ones embed the
		// payment hash and are therefore unique (the SQL schema
		// relies on that).
		PaymentRequest: []byte(fmt.Sprintf("lnbc1c15%x", s.hash[:])),
	}
	switch s.kind {
	case "hold":
		inv.HodlInvoice = true
	case "amp":
	default:
		pre := s.preimage
		inv.Terms.PaymentPreimage = &pre
	}

	return inv
}

func (s *c15InvSpec) String() string {
	return fmt.Sprintf("inv%d{%s hash=%x value=%d delta=%d addrMode=%d "+
		"addr=%x}", s.idx, s.kind, s.hash[:4], s.value, s.delta,
		s.addrMode, s.addr[:4])
}

type c15Plan struct {
	id     int
	shards []*c15Shard
	unsent int
}

type c15Model struct {
	cfg    c15Cfg
	nonce  uint64
	height int32
	now    time.Time

	worlds   []*c15World
	diverged bool

	invs       []*c15InvSpec
	plans      []*c15Plan
	pending    []*c15Shard
	sent       []*c15Shard
	shardByKey map[invpkg.CircuitKey]*c15Shard
	nextHtlc   uint64

	// keysend preimages of spontaneous payments (settleHodl candidates)
	keysendPre []lntypes.Preimage

	trace  []string
	labels map[string]struct{}
	nt     map[string]struct{}
	inconc bool
}

func (m *c15Model) label(l string) { m.labels[l] = struct{}{} }

func (m *c15Model) termsFor(h lntypes.Hash, snap *c15Snap) *c15Terms {
	for _, s := range m.invs {
		if s.hash == h {
			return &c15Terms{
				value:        s.value,
				addr:         s.addr,
				delta:        s.delta,
				addrRequired: s.addrMode == 2,
				isAMP:        s.kind == "amp",
				hodl:         s.kind == "hold",
				fromSpec:     true,
			}
		}
	}

	// An invoice the registry created itself (keysend / spontaneous
	// AMP): its terms are whatever it recorded at creation.
	return &c15Terms{
		value:        snap.Value,
		addr:         snap.Addr,
		delta:        snap.Delta,
		addrRequired: snap.ReqAddr,
		isAMP:        snap.IsAMP,
		hodl:         snap.Hodl,
	}
}

// c15Salt is re-seeded from the case nonce (a rapid draw) at the start of
// every case and stepped on every pick.
var c15Salt uint64

// c15Pick is a weighted choice. rapid's integer generators are strongly
// biased towards small values, which would hand most of the weight to the
// first alternative; the drawn word is therefore whitened with the case
// nonce and mixed before use. The choice is still a pure function of the
// rapid draws of the case.
func c15Pick(t *rapid.T, label string, weights ...int) int {
	total := 0
	for _, w := range weights {
		total += w
	}
	x := rapid.Uint64().Draw(t, label)
	x ^= c15Salt
	c15Salt += 0x9e3779b97f4a7c15
	x = (x ^ (x >> 30)) * 0xbf58476d1ce4e5b9
	x = (x ^ (x >> 27)) * 0x94d049bb133111eb
	x ^= x >> 31
	r := int(x % uint64(total))
	for i, w := range weights {
		if r < w {
			return i
		}
		r -= w
	}

	return len(weights) - 1
}

func (m *c15Model) genInvoice(t *rapid.T) *c15InvSpec {
	idx := len(m.invs)
	s := &c15InvSpec{idx: idx}
	s.kind = []string{"regular", "hold", "amp", "blinded"}[c15Pick(
		t, "invKind", 40, 25, 22, 13,
	)]
	s.preimage = lntypes.Preimage(c15Hash("c15pre", m.nonce, uint64(idx)))
	s.hash = s.preimage.Hash()
	s.addr = c15Hash("c15addr", m.nonce, uint64(idx))
	switch c15Pick(t, "valueKind", 12, 30, 58) {
	case 0:
		s.value = 0
	case 1:
		s.value = uint64(rapid.IntRange(1, 12).Draw(t, "smallValue"))
	default:
		s.value = uint64(rapid.IntRange(13, 200000).Draw(t, "value"))
	}
	s.delta = int32(rapid.IntRange(1, 18).Draw(t, "delta"))
	switch s.kind {
	case "amp":
		s.addrMode = 1 + c15Pick(t, "ampAddrMode", 35, 65)
	case "blinded":
		s.addrMode = 2
	default:
		s.addrMode = c15Pick(t, "addrMode", 10, 22, 68)
		if s.addrMode == 0 && rapid.Bool().Draw(t, "blankAddr") {
			s.addr = invpkg.BlankPayAddr
		}
	}

	return s
}

func (m *c15Model) newKey(t *rapid.T) invpkg.CircuitKey {
	m.nextHtlc++
	ch := uint64(1 + rapid.IntRange(0, 2).Draw(t, "chan"))

	return invpkg.CircuitKey{
		ChanID: lnwire.NewShortChanIDFromInt(ch),
		HtlcID: m.nextHtlc,
	}
}

func c15Split(t *rapid.T, sum uint64, n int) []uint64 {
	if sum == 0 {
		return []uint64{1}
	}
	if uint64(n) > sum {
		n = int(sum)
	}
	out := make([]uint64, 0, n)
	rem := sum
	for i := 0; i < n-1; i++ {
		maxPart := rem - uint64(n-1-i)
		var part uint64
		switch c15Pick(t, "partKind", 20, 20, 60) {
		case 0:
			part = 1
		case 1:
			part = maxPart
		default:
			part = uint64(rapid.Uint64Range(1, maxPart).Draw(t, "part"))
		}
		out = append(out, part)
		rem -= part
	}

	return append(out, rem)
}

func (m *c15Model) drawExpOff(t *rapid.T) int32 {
	return []int32{-1, 0, 1, 25, -1000}[c15Pick(
		t, "expOff", 12, 34, 18, 33, 3,
	)]
}

// genPlan creates one payment attempt: a set of HTLCs aimed at an invoice
// (or at nothing), queued for sending.
//
//nolint:funlen
func (m *c15Model) genPlan(t *rapid.T) {
	plan := &c15Plan{id: len(m.plans)}
	m.plans = append(m.plans, plan)
	pid := uint64(plan.id)

	var added []*c15InvSpec
	for _, s := range m.invs {
		if s.added {
			added = append(added, s)
		}
	}
	tw := 78
	if len(added) == 0 {
		tw = 0
	}
	target := c15Pick(t, "target", tw, 9, 9, 4)

	mk := func(kind string, tgt int, hash lntypes.Hash, amt uint64,
		deltaRef int32) *c15Shard {

		s := &c15Shard{
			id:       len(m.shardByKey),
			plan:     plan.id,
			target:   tgt,
			key:      m.newKey(t),
			hash:     hash,
			amt:      amt,
			kind:     kind,
			deltaRef: deltaRef,
			expOff:   m.drawExpOff(t),
		}
		m.shardByKey[s.key] = s
		plan.shards = append(plan.shards, s)

		return s
	}

	// AMP shares: n shares that xor to the root; children derived with
	// the real sharer from share and index.
	ampShards := func(tgt int, addr [32]byte, amts []uint64, total uint64,
		deltaRef int32, withMpp bool) {

		root := amp.Share(c15Hash("c15amp-root", m.nonce, pid))
		setID := c15Hash("c15amp-set", m.nonce, pid)
		var acc amp.Share
		n := len(amts)
		bad := -1
		if c15Pick(t, "badShare", 93, 7) == 1 {
			bad = rapid.IntRange(0, n-1).Draw(t, "badShareIdx")
		}
		for i, amt := range amts {
			var share amp.Share
			if i < n-1 {
				share = amp.Share(c15Hash(
					"c15amp-share", m.nonce, pid, uint64(i),
				))
				acc.Xor(&acc, &share)
			} else {
				share.Xor(&root, &acc)
			}
			idx := uint32(rapid.IntRange(0, 3).Draw(t, "childIdx"))
			sharer := amp.SeedSharerFromRoot(&root).Zero().Merge(
				&amp.Child{ChildDesc: amp.ChildDesc{Share: share}},
			)
			child := sharer.Child(idx)
			kind := "amp"
			if !withMpp {
				kind = "ampnompp"
			}
			s := mk(kind, tgt, child.Hash, amt, deltaRef)
			s.setID = setID
			s.share = share
			s.childIdx = idx
			if i == bad {
				s.share[7] ^= 0x40
			}
			if withMpp {
				s.hasTotal, s.total = true, total
				s.hasAddr, s.addr = true, addr
			}
		}
	}

	perturb := func(s *c15Shard, inv *c15InvSpec) {
		if !s.hasTotal {
			return
		}
		switch c15Pick(t, "perturb", 86, 5, 5, 4) {
		case 1:
			s.addr = c15Hash("c15wrongaddr", m.nonce, uint64(s.id))
		case 2:
			if s.total > 1 && rapid.Bool().Draw(t, "totalDown") {
				s.total--
			} else {
				s.total++
			}
		case 3:
			// the address of another invoice
			if len(added) > 1 {
				o := added[rapid.IntRange(0, len(added)-1).Draw(
					t, "otherInv",
				)]
				s.addr = o.addr
			}
		}
	}

	switch target {
	case 0: // an invoice we added
		pool := added
		if c15Pick(t, "preferOpen", 85, 15) == 0 {
			var open []*c15InvSpec
			for _, s := range added {
				snap := m.worlds[0].snaps[s.hash]
				if snap != nil && snap.State == invpkg.ContractOpen {
					open = append(open, s)
				}
			}
			if len(open) > 0 {
				pool = open
			}
		}
		inv := pool[rapid.IntRange(0, len(pool)-1).Draw(t, "inv")]
		var kind string
		switch inv.kind {
		case "amp":
			kind = []string{"amp", "mpp", "none", "ampnompp"}[c15Pick(
				t, "payKind", 80, 8, 5, 7,
			)]
		case "blinded":
			kind = []string{"blinded", "mpp", "none", "amp"}[c15Pick(
				t, "payKind", 65, 20, 10, 5,
			)]
		default:
			kind = []string{
				"mpp", "none", "keysend", "amp", "blinded",
				"ampnompp",
			}[c15Pick(t, "payKind", 62, 16, 6, 6, 7, 3)]
		}

		// declared total
		var total uint64
		v := inv.value
		if v == 0 {
			total = uint64(rapid.IntRange(1, 5000).Draw(t, "total0"))
			if c15Pick(t, "zeroTotal", 95, 5) == 1 {
				total = 0
			}
		} else {
			switch c15Pick(t, "totalKind", 62, 10, 8, 12, 5, 3) {
			case 0:
				total = v
			case 1:
				total = v - 1
			case 2:
				total = v + 1
			case 3:
				total = v + uint64(rapid.IntRange(2, 5000).Draw(
					t, "over",
				))
			case 4:
				total = 2 * v
			default:
				total = 0
			}
		}

		switch kind {
		case "none", "keysend":
			n := 1
			if c15Pick(t, "legacyTwice", 80, 20) == 1 {
				n = 2
			}
			for i := 0; i < n; i++ {
				amt := total
				if amt == 0 {
					amt = 1
				}
				s := mk(kind, inv.idx, inv.hash, amt, inv.delta)
				if kind == "keysend" {
					s.keysend = inv.preimage[:]
					s.keysendValid = true
					if c15Pick(t, "badKeysend", 85, 15) == 1 {

						bad := c15Hash("c15badks", m.nonce,
							uint64(s.id))
						s.keysend = bad[:]
						s.keysendValid = false
					}
				}
			}

		default:
			n := rapid.IntRange(1, 4).Draw(t, "nShards")
			sum := total
			switch c15Pick(t, "sumKind", 66, 16, 10, 8) {
			case 1:
				if sum > 1 {
					sum--
				}
			case 2:
				sum++
			case 3:
				sum += uint64(rapid.IntRange(2, 3000).Draw(
					t, "sumOver",
				))
			}
			amts := c15Split(t, sum, n)
			switch kind {
			case "amp", "ampnompp":
				ampShards(inv.idx, inv.addr, amts, total,
					inv.delta, kind == "amp")
			default:
				for _, amt := range amts {
					s := mk(kind, inv.idx, inv.hash, amt,
						inv.delta)
					s.hasTotal, s.total = true, total
					s.hasAddr, s.addr = true, inv.addr
				}
			}
			for _, s := range plan.shards {
				perturb(s, inv)
			}
		}

	case 1: // spontaneous keysend
		amt := uint64(rapid.IntRange(1, 100000).Draw(t, "ksAmt"))
		pre := lntypes.Preimage(c15Hash("c15kspre", m.nonce, pid))
		s := mk("keysend", -1, pre.Hash(), amt, m.cfg.rejectDelta)
		s.keysend = pre[:]
		s.keysendValid = true
		m.keysendPre = append(m.keysendPre, pre)
		switch c15Pick(t, "ksVariant", 80, 8, 6, 6) {
		case 1:
			bad := c15Hash("c15badks", m.nonce, uint64(s.id))
			s.keysend = bad[:]
			s.keysendValid = false
		case 2:
			s.keysend = s.keysend[:31]
			s.keysendValid = false
		case 3:
			s.kind = "keysendmpp"
			s.hasTotal, s.total = true, amt
			s.hasAddr = true
			s.addr = c15Hash("c15ksaddr", m.nonce, pid)
		}

	case 2: // spontaneous AMP
		total := uint64(rapid.IntRange(1, 100000).Draw(t, "ampTotal"))
		n := rapid.IntRange(1, 4).Draw(t, "nShards")
		sum := total
		switch c15Pick(t, "sumKind", 70, 16, 14) {
		case 1:
			if sum > 1 {
				sum--
			}
		case 2:
			sum += uint64(rapid.IntRange(1, 3000).Draw(t, "sumOver"))
		}
		addr := c15Hash("c15ampaddr", m.nonce, pid)
		ampShards(-1, addr, c15Split(t, sum, n), total,
			m.cfg.rejectDelta, true)
		for _, s := range plan.shards {
			perturb(s, nil)
		}

	default: // an invoice that does not exist
		hash := lntypes.Hash(c15Hash("c15nohash", m.nonce, pid))
		amt := uint64(rapid.IntRange(1, 100000).Draw(t, "amt"))
		if rapid.Bool().Draw(t, "withMpp") {
			s := mk("mpp", -1, hash, amt, m.cfg.rejectDelta)
			s.hasTotal, s.total = true, amt
			s.hasAddr = true
			s.addr = c15Hash("c15noaddr", m.nonce, pid)
		} else {
			mk("none", -1, hash, amt, m.cfg.rejectDelta)
		}
	}

	plan.unsent = len(plan.shards)
	m.pending = append(m.pending, plan.shards...)
	for _, s := range plan.shards {
		m.label("pay=" + s.kind)
	}
}

// fix pins the expiry of a shard relative to the height of its first
// notification: height + max(invoice delta, reject delta) + {-1,0,+1,...}.
func (m *c15Model) fix(s *c15Shard) {
	if s.fixed {
		return
	}
	margin := s.deltaRef
	if m.cfg.rejectDelta > margin {
		margin = m.cfg.rejectDelta
	}
	e := int64(m.height) + int64(margin) + int64(s.expOff)
	if e < 0 {
		e = 0
	}
	s.expiry = uint32(e)
	s.fixed = true
}

// ---------------------------------------------------------------------------
// executing one event in one world

func (w *c15World) notify(s *c15Shard, height int32) (string, *c15Deliv,
	error) {

	res, err := w.reg.NotifyExitHopHtlc(
		s.hash, lnwire.MilliSatoshi(s.amt), s.expiry, height, s.key,
		w.hodl, nil, s.payload(),
	)
	if err != nil {
		return "error", nil, err
	}
	d, class := c15Classify(res)

	return class, d, nil
}

func (w *c15World) run(m *c15Model, ev *c15Event, spec *c15InvSpec,
	cancelSet bool) *c15Got {

	ctx := context.Background()
	got := &c15Got{}
	switch ev.kind {
	case "add":
		_, got.actErr = w.reg.AddInvoice(ctx, spec.invoice(), spec.hash)

	case "send":
		if cancelSet {
			w.icpt.mu.Lock()
			w.icpt.cancelNext = true
			w.icpt.mu.Unlock()
		}
		class, d, err := w.notify(ev.shards[0], ev.heights[0])
		w.icpt.mu.Lock()
		w.icpt.cancelNext = false
		w.icpt.mu.Unlock()
		got.class = []string{class}
		got.deliv = []*c15Deliv{d}
		got.errs = []error{err}

	case "batch":
		n := len(ev.shards)
		got.class = make([]string, n)
		got.deliv = make([]*c15Deliv, n)
		got.errs = make([]error, n)
		var wg sync.WaitGroup
		start := make(chan struct{})
		for i := range ev.shards {
			wg.Add(1)
			go func(i int) {
				defer wg.Done()
				<-start
				got.class[i], got.deliv[i], got.errs[i] = w.notify(
					ev.shards[i], ev.heights[i],
				)
			}(i)
		}
		close(start)
		wg.Wait()

	case "cancel":
		got.actErr = w.reg.CancelInvoice(ctx, ev.hash)

	case "settle":
		got.actErr = w.reg.SettleHodlInvoice(ctx, spec.preimage)

	case "advance":
		ok, err := w.advance(m.now, m.height)
		if err != nil {
			got.actErr = err
		}
		got.skipped = !ok
	}

	var err error
	got.hodl, err = w.drainHodl()
	if err != nil && got.actErr == nil {
		got.actErr = err
	}

	return got
}

// ---------------------------------------------------------------------------
// the test

func c15DelivStr(ds []c15Deliv, withOutcome bool) string {
	parts := make([]string, len(ds))
	for i, d := range ds {
		parts[i] = fmt.Sprintf("%s:%s", c15KeyStr(d.key), d.class)
		if d.class == "settle" {
			parts[i] += fmt.Sprintf(":%x", d.preimage[:6])
		}
		if withOutcome {
			parts[i] += "(" + d.outcome + ")"
		}
	}

	return strings.Join(parts, ",")
}

func (g *c15Got) summary(withOutcome bool) string {
	var b strings.Builder
	for i, c := range g.class {
		fmt.Fprintf(&b, "[%s", c)
		if d := g.deliv[i]; d != nil {
			if d.class == "settle" {
				fmt.Fprintf(&b, ":%x", d.preimage[:6])
			}
			if withOutcome {
				b.WriteString("(" + d.outcome + ")")
			}
		}
		if withOutcome && g.errs[i] != nil {
			fmt.Fprintf(&b, " err=%v", g.errs[i])
		}
		b.WriteString("]")
	}
	fmt.Fprintf(&b, " hodl{%s}", c15DelivStr(g.hodl, withOutcome))
	if g.actErr != nil {
		if withOutcome {
			fmt.Fprintf(&b, " actErr=%v", g.actErr)
		} else {
			b.WriteString(" actErr")
		}
	}

	return b.String()
}

func (m *c15Model) fail(t *rapid.T, format string, a ...any) {
	t.Helper()
	t.Fatalf("%s\n--- history ---\n%s", fmt.Sprintf(format, a...),
		strings.Join(m.trace, "\n"))
}

// exec runs one event in every world, evaluates the per-world oracles and
// the differential.
func (m *c15Model) exec(t *rapid.T, ev *c15Event, spec *c15InvSpec,
	cancelSet bool) []*c15Got {

	gots := make([]*c15Got, len(m.worlds))
	for i, w := range m.worlds {
		gots[i] = w.run(m, ev, spec, cancelSet)
	}
	line := fmt.Sprintf("%02d h=%d t=+%ds %s", len(m.trace), m.height,
		int(m.now.Sub(c15Epoch).Seconds()), ev.desc)
	for i, w := range m.worlds {
		line += fmt.Sprintf("\n     %s: %s", w.name, gots[i].summary(true))
	}
	m.trace = append(m.trace, line)

	for i, w := range m.worlds {
		g := gots[i]
		if g.skipped {
			m.inconc = true
			return gots
		}
		if ev.kind == "advance" && g.actErr != nil {
			m.fail(t, "%s: %v", w.name, g.actErr)
		}
		if err := w.observe(m, ev, g); err != nil {
			m.fail(t, "[%s] %v", w.name, err)
		}
	}

	// differential: same resolution classes, same released preimages,
	// same invoice projections.
	if len(m.worlds) == 2 && !m.diverged {
		if ev.kind == "batch" {
			m.diverged = true
			return gots
		}
		a, b := gots[0], gots[1]
		if a.summary(false) != b.summary(false) {
			m.fail(t, "differential: %s answered %s, %s answered %s",
				m.worlds[0].name, a.summary(true),
				m.worlds[1].name, b.summary(true))
		}
		if a.summary(true) != b.summary(true) {
			m.label("diff:outcome_or_error_text")
		}
		wa, wb := m.worlds[0], m.worlds[1]
		hashes := make(map[lntypes.Hash]struct{})
		for h := range wa.snaps {
			hashes[h] = struct{}{}
		}
		for h := range wb.snaps {
			hashes[h] = struct{}{}
		}
		for h := range hashes {
			sa, sb := wa.snaps[h], wb.snaps[h]
			if sa.String() != sb.String() {
				m.fail(t, "differential: invoice %x\n%s:\n%s\n%s:\n%s",
					h[:4], wa.name, sa, wb.name, sb)
			}
		}
	}

	return gots
}

func c15Run(t *rapid.T, tt *testing.T, st *vstats.Collector, tpl []byte,
	maxSteps int, conc bool) {

	m := &c15Model{
		shardByKey: make(map[invpkg.CircuitKey]*c15Shard),
		labels:     make(map[string]struct{}),
		nt:         make(map[string]struct{}),
		now:        c15Epoch,
	}
	m.nonce = rapid.Uint64().Draw(t, "nonce")
	c15Salt = m.nonce*0x9e3779b97f4a7c15 + 0x1234567
	m.cfg = c15Cfg{
		rejectDelta:   int32(rapid.IntRange(1, 14).Draw(t, "rejectDelta")),
		acceptKeysend: c15Pick(t, "acceptKeysend", 25, 75) == 1,
		acceptAMP:     c15Pick(t, "acceptAMP", 25, 75) == 1,
		keysendHold:   c15Pick(t, "keysendHold", 65, 35) == 1,
	}
	m.height = int32(rapid.IntRange(10, 800000).Draw(t, "height"))
	steps := rapid.IntRange(6, maxSteps).Draw(t, "steps")

	m.openWorlds(tt, func(format string, a ...any) {
		t.Fatalf(format, a...)
	}, tpl)
	defer m.closeWorlds()

	addInvoice := func() {
		spec := m.genInvoice(t)
		m.invs = append(m.invs, spec)
		ev := &c15Event{kind: "add", hash: spec.hash,
			desc: "add " + spec.String()}
		gots := m.exec(t, ev, spec, false)
		if m.inconc {
			return
		}
		for i, g := range gots {
			if g.actErr != nil {
				m.fail(t, "[%s] AddInvoice: %v", m.worlds[i].name,
					g.actErr)
			}
		}
		spec.added = true
		kind := spec.kind
		if spec.value == 0 {
			kind += "+zero"
		}
		m.label("inv=" + kind)
		m.label(fmt.Sprintf("inv.addrMode=%d", spec.addrMode))
	}

	nInit := rapid.IntRange(1, 3).Draw(t, "initialInvoices")
	for i := 0; i < nInit; i++ {
		addInvoice()
	}
	m.genPlan(t)

	for step := 0; step < steps && !m.inconc; step++ {
		wSend, wReplay, wSettle, wBatch := 0, 0, 0, 0
		if len(m.pending) > 0 {
			wSend = 56
		}
		if conc && len(m.pending) >= 2 {
			wBatch = 30
		}
		if len(m.sent) > 0 {
			wReplay = 9
		}
		wAdd := 4
		if len(m.invs) >= 6 {
			wAdd = 0
		}
		if len(m.invs) > 0 {
			wSettle = 5
			for _, s := range m.invs {
				snap := m.worlds[0].snaps[s.hash]
				if snap != nil &&
					snap.State == invpkg.ContractAccepted {

					wSettle = 16
				}
			}
		}
		act := c15Pick(t, "action", wSend, wBatch, wReplay, 12, wAdd, 2,
			wSettle, 6, 3)
		switch act {
		case 0: // send one queued HTLC
			i := 0
			if c15Pick(t, "sendOrder", 75, 25) == 1 {
				i = rapid.IntRange(0, len(m.pending)-1).Draw(
					t, "pendingIdx",
				)
			}
			s := m.pending[i]
			m.pending = append(m.pending[:i], m.pending[i+1:]...)
			m.sendOne(t, s, false)

		case 1: // concurrent batch
			n := rapid.IntRange(2, 3).Draw(t, "batchSize")
			if n > len(m.pending) {
				n = len(m.pending)
			}
			ev := &c15Event{kind: "batch"}
			var descs []string
			inBatch := make(map[invpkg.CircuitKey]bool)
			for j := 0; j < n; j++ {
				// A slot is a queued HTLC or, now and then, the
				// replay of one sent earlier (a link that
				// restarted while its peers keep forwarding).
				if len(m.sent) > 0 &&
					c15Pick(t, "batchReplay", 78, 22) == 1 {

					s := m.sent[rapid.IntRange(
						0, len(m.sent)-1,
					).Draw(t, "replayIdx")]
					if inBatch[s.key] {
						continue
					}
					if m.replayHitsPrecheck(s) &&
						vstats.IsKnown(c15KeyReplayPrecheck) {

						st.Known(c15KeyReplayPrecheck)
						st.Count("excluded_known", 1)

						continue
					}
					inBatch[s.key] = true
					s.sends = append(s.sends, m.height)
					ev.shards = append(ev.shards, s)
					ev.heights = append(ev.heights, m.height)
					descs = append(descs, "replay "+s.String())

					continue
				}
				if len(m.pending) == 0 {
					continue
				}
				i := 0
				if c15Pick(t, "sendOrder", 60, 40) == 1 {
					i = rapid.IntRange(0, len(m.pending)-1).Draw(
						t, "pendingIdx",
					)
				}
				s := m.pending[i]
				m.pending = append(m.pending[:i], m.pending[i+1:]...)
				m.fix(s)
				inBatch[s.key] = true
				s.sends = append(s.sends, m.height)
				m.plans[s.plan].unsent--
				m.sent = append(m.sent, s)
				ev.shards = append(ev.shards, s)
				ev.heights = append(ev.heights, m.height)
				descs = append(descs, s.String())
			}
			if len(ev.shards) == 0 {
				continue
			}
			ev.desc = "batch " + strings.Join(descs, " || ")
			m.exec(t, ev, nil, false)
			m.label("ev=batch")

		case 2: // replay
			s := m.sent[rapid.IntRange(0, len(m.sent)-1).Draw(
				t, "replayIdx",
			)]
			if m.replayHitsPrecheck(s) {
				if vstats.IsKnown(c15KeyReplayPrecheck) {
					st.Known(c15KeyReplayPrecheck)
					st.Count("excluded_known", 1)
					continue
				}
				m.label("replay_into_spontaneous_precheck")
			}
			m.sendOne(t, s, true)

		case 3:
			m.genPlan(t)

		case 4:
			addInvoice()

		case 5: // cancel an invoice
			var hash lntypes.Hash
			cands := m.knownHashes()
			if len(cands) == 0 || c15Pick(t, "cancelUnknown", 92, 8) == 1 {
				hash = lntypes.Hash(c15Hash("c15nocancel", m.nonce,
					uint64(step)))
			} else {
				hash = cands[rapid.IntRange(0, len(cands)-1).Draw(
					t, "cancelIdx",
				)]
			}
			ev := &c15Event{kind: "cancel", hash: hash,
				desc: fmt.Sprintf("cancel %x", hash[:4])}
			m.exec(t, ev, nil, false)
			m.label("ev=cancel")

		case 6: // SettleHodlInvoice
			var spec *c15InvSpec
			nk := len(m.keysendPre)
			if nk > 0 && c15Pick(t, "settleKeysend", 70, 30) == 1 {
				pre := m.keysendPre[rapid.IntRange(0, nk-1).Draw(
					t, "ksIdx",
				)]
				spec = &c15InvSpec{idx: -1, kind: "keysend",
					preimage: pre, hash: pre.Hash()}
			} else {
				var holds, others []*c15InvSpec
				for _, s := range m.invs {
					if !s.added {
						continue
					}
					if s.kind == "hold" {
						holds = append(holds, s)
					} else {
						others = append(others, s)
					}
				}
				var accepted []*c15InvSpec
				for _, s := range holds {
					snap := m.worlds[0].snaps[s.hash]
					if snap != nil &&
						snap.State == invpkg.ContractAccepted {

						accepted = append(accepted, s)
					}
				}
				if len(accepted) > 0 &&
					c15Pick(t, "settleAccepted", 80, 20) == 0 {

					holds = accepted
				}
				pool := holds
				if len(holds) == 0 || (len(others) > 0 &&
					c15Pick(t, "settleNonHold", 85, 15) == 1) {

					pool = others
				}
				if len(pool) == 0 {
					continue
				}
				spec = pool[rapid.IntRange(0, len(pool)-1).Draw(
					t, "settleIdx",
				)]
			}
			ev := &c15Event{kind: "settle", hash: spec.hash,
				desc: fmt.Sprintf("settleHodl %x (%s)", spec.hash[:4],
					spec.kind)}
			gots := m.exec(t, ev, spec, false)
			if !m.inconc && gots[0].actErr == nil {
				m.label("ev=settleHodl_ok")
			}

		case 7: // time passes: set timeouts
			d := []int{1, 10, 15, 29, 30, 31, 75}[c15Pick(
				t, "advance", 8, 14, 20, 12, 18, 14, 14,
			)]
			m.now = m.now.Add(time.Duration(d) * time.Second)
			ev := &c15Event{kind: "advance",
				desc: fmt.Sprintf("advance %ds", d)}
			gots := m.exec(t, ev, nil, false)
			if !m.inconc && len(gots[0].hodl) > 0 {
				m.label("ev=set_timeout_fired")
			}

		default: // blocks arrive
			m.height += int32(rapid.IntRange(1, 3).Draw(t, "blocks"))
		}
	}

	if m.inconc {
		st.Count("inconclusive", 1)
		t.Skip("set timeout not observed within the wall-clock deadline")
	}

	// evidence
	m.finalLabels()
	labels := make([]string, 0, len(m.labels))
	for l := range m.labels {
		labels = append(labels, l)
	}
	sort.Strings(labels)
	nts := make([]string, 0, len(m.nt))
	for l := range m.nt {
		nts = append(nts, l)
	}
	sort.Strings(nts)
	for _, l := range nts {
		labels = append(labels, "nt:"+l)
	}
	var sample any
	if len(m.nt) > 0 && st.WantSample() {
		sample = map[string]any{"nontrivial": nts, "history": m.trace}
	}
	// The fingerprint covers what was generated (invoices, HTLCs,
	// actions), not what the registry answered.
	var gen []string
	for _, l := range m.trace {
		gen = append(gen, strings.SplitN(l, "\n", 2)[0])
	}
	st.Case(vstats.FP(fmt.Sprint(m.cfg), strings.Join(gen, "|")),
		len(m.nt) > 0, labels, sample)
}

// c15KeyReplayPrecheck: with AcceptAMP / AcceptKeySend the registry
// pre-checks the expiry of every AMP / keysend HTLC against the *current*
// height (processAMP, processKeySend) before it looks for a replay, so a
// replayed HTLC that is on record as accepted or settled is answered with a
// fail once expiry < height + FinalCltvRejectDelta.
const c15KeyReplayPrecheck = "C15:replay@spontaneous-expiry-precheck"

// replayHitsPrecheck reports whether notifying s again at the current height
// runs into the just-in-time invoice pre-check although s is on record.
func (m *c15Model) replayHitsPrecheck(s *c15Shard) bool {
	// After a concurrent batch the stores may have recorded different
	// HTLCs: on record in any of them counts.
	recorded := false
	for _, w := range m.worlds {
		if _, ok := w.where[s.key]; ok {
			recorded = true
		}
	}
	if !recorded {
		return false
	}
	spont := (m.cfg.acceptAMP && s.kind == "amp") ||
		(m.cfg.acceptKeysend && s.kind == "keysend" && s.keysendValid)

	return spont &&
		int64(s.expiry) < int64(m.height)+int64(m.cfg.rejectDelta)
}

// openWorlds creates one registry per store, each on a fresh database.
func (m *c15Model) openWorlds(tt *testing.T,
	fatalf func(format string, a ...any), tpl []byte) {

	for _, name := range []string{"bbolt", "sqlite"} {
		clk := newC15Clock(c15Epoch)
		var (
			db    invpkg.InvoiceDB
			closd func()
			err   error
		)
		if name == "bbolt" {
			db, closd, err = c15OpenKV(clk)
		} else {
			db, closd, err = c15OpenSQL(tpl, clk)
		}
		if err != nil {
			m.closeWorlds()
			tt.Fatalf("harness: open %s: %v", name, err)
		}
		w, err := newC15World(name, db, closd, clk, m.cfg, m.height)
		if err != nil {
			m.closeWorlds()
			fatalf("[%s] world setup: %v", name, err)
		}
		m.worlds = append(m.worlds, w)
	}
}

func (m *c15Model) closeWorlds() {
	for _, w := range m.worlds {
		w.close()
	}
	m.worlds = nil
}

func (m *c15Model) knownHashes() []lntypes.Hash {
	var out []lntypes.Hash
	for h := range m.worlds[0].snaps {
		out = append(out, h)
	}
	sort.Slice(out, func(i, j int) bool {
		return string(out[i][:]) < string(out[j][:])
	})

	return out
}

// sendOne notifies one HTLC (first time or replay) in every world.
func (m *c15Model) sendOne(t *rapid.T, s *c15Shard, replay bool) {
	m.fix(s)
	w0 := m.worlds[0]

	// What the first world had on record before the event (for the
	// non-trivial rule only).
	var (
		prevState  invpkg.HtlcState
		wasRecorded bool
	)
	if h, ok := w0.where[s.key]; ok {
		if ph, ok := w0.snaps[h].Htlcs[s.key]; ok {
			prevState, wasRecorded = ph.State, true
		}
	}
	siblingHeld := false
	plan := m.plans[s.plan]
	for _, o := range plan.shards {
		if o == s {
			continue
		}
		if h, ok := w0.where[o.key]; ok {
			ph := w0.snaps[h].Htlcs[o.key]
			if ph.State == invpkg.HtlcStateAccepted {
				siblingHeld = true
			}
		}
	}

	// An external validator (HTLC interceptor) rejecting the payment. Only
	// for HTLCs that carry the address of the invoice they reach: for a
	// foreign/unknown address the two stores resolve the invoice reference
	// differently (bbolt falls back to the hash and reaches the
	// interceptor, SQL reports "not found" before it), see notes/C15.md.
	addrOK := !s.hasAddr
	if s.target >= 0 && s.hasAddr && s.addr == m.invs[s.target].addr {
		addrOK = true
	}
	cancelSet := !replay && addrOK &&
		c15Pick(t, "cancelSet", 98, 2) == 1
	ev := &c15Event{
		kind:    "send",
		shards:  []*c15Shard{s},
		heights: []int32{m.height},
		replay:  replay,
	}
	verb := "send"
	if replay {
		verb = "replay"
	}
	if cancelSet {
		verb += "+externalCancelSet"
	}
	ev.desc = verb + " " + s.String()
	s.sends = append(s.sends, m.height)
	last := false
	if !replay {
		plan.unsent--
		last = plan.unsent == 0
		m.sent = append(m.sent, s)
	}
	gots := m.exec(t, ev, nil, cancelSet)
	if m.inconc {
		return
	}
	g := gots[0]
	if d := g.deliv[0]; d != nil && d.class == "fail" {
		m.label("fail=" + d.outcome)
	}
	if g.class[0] == "error" {
		m.label("notify_error")
	}
	if replay && wasRecorded {
		m.label(fmt.Sprintf("replay_of=%v", prevState))
		if prevState != invpkg.HtlcStateAccepted {
			m.nt["replay_after_resolution"] = struct{}{}
		}
	}
	if replay && !wasRecorded {
		m.label("replay_of=unrecorded")
		if _, ok := w0.where[s.key]; ok {
			m.label("replay_flip_unrecorded_fail_to_recorded")
		}
	}
	if !replay && last && len(plan.shards) >= 2 && siblingHeld &&
		g.class[0] == "fail" && s.hasTotal {

		m.nt["set_fails_on_last_shard"] = struct{}{}
	}
	if cancelSet {
		m.label("ev=external_cancel_set")
	}
}

// finalLabels classifies the case from the first world's final state.
func (m *c15Model) finalLabels() {
	w := m.worlds[0]
	for h, snap := range w.snaps {
		terms := w.terms[h]
		kind := "spec"
		if !terms.fromSpec {
			kind = "spontaneous"
			if terms.isAMP {
				kind = "spontaneous_amp"
			}
		}
		m.label(fmt.Sprintf("final=%s/%v", kind, snap.State))

		// completed sets: settled or (hold) accepted HTLCs with a
		// declared total, grouped by set id.
		sets := make(map[[32]byte]int)
		for k, ch := range snap.Htlcs {
			s := m.shardByKey[k]
			if s == nil || !s.hasTotal {
				continue
			}
			done := ch.State == invpkg.HtlcStateSettled ||
				(ch.State == invpkg.HtlcStateAccepted &&
					snap.State == invpkg.ContractAccepted)
			if done {
				sets[ch.SetID]++
			}
		}
		for _, n := range sets {
			m.label(fmt.Sprintf("completed_set_size=%d", n))
			if n >= 2 {
				m.nt["multi_shard_set_completed"] = struct{}{}
			}
		}
		if snap.State == invpkg.ContractSettled {
			m.label("invoice_settled")
		}
		if snap.State == invpkg.ContractCanceled {
			for _, ch := range snap.Htlcs {
				if ch.State == invpkg.HtlcStateAccepted {
					m.label("obs:accepted_htlc_on_canceled_invoice")
				}
			}
		}
	}
	if m.diverged {
		m.label("differential_off_after_batch")
	}
}

// TestVerifC15ReplayPrecheck is the deterministic form of known finding
// C15:replay@spontaneous-expiry-precheck: a settled AMP / keysend HTLC that
// is replayed after the chain advanced past expiry-FinalCltvRejectDelta is
// answered with a fail when AcceptAMP / AcceptKeySend is on. While the key is
// listed as known the divergence is only recorded; otherwise it is asserted.
func TestVerifC15ReplayPrecheck(t *testing.T) {
	st := vstats.New("TestVerifC15ReplayPrecheck")
	defer st.Flush()
	tpl := c15SqliteTemplate(t)

	for _, kind := range []string{"amp", "keysend"} {
		m := &c15Model{
			shardByKey: make(map[invpkg.CircuitKey]*c15Shard),
			labels:     make(map[string]struct{}),
			nt:         make(map[string]struct{}),
			now:        c15Epoch,
			nonce:      7,
			height:     100,
			cfg: c15Cfg{
				rejectDelta: 3, acceptKeysend: true, acceptAMP: true,
			},
		}
		m.openWorlds(t, t.Fatalf, tpl)
		ctx := context.Background()

		s := &c15Shard{
			key: invpkg.CircuitKey{
				ChanID: lnwire.NewShortChanIDFromInt(1), HtlcID: 1,
			},
			amt: 1000, expiry: 103, fixed: true, kind: kind,
		}
		switch kind {
		case "amp":
			root := amp.Share(c15Hash("c15amp-root", m.nonce))
			child := amp.SeedSharerFromRoot(&root).Child(0)
			s.hash, s.share = child.Hash, root
			s.setID = c15Hash("c15amp-set", m.nonce)
			s.hasTotal, s.total = true, 1000
			s.hasAddr, s.addr = true, c15Hash("c15addr", m.nonce)
		default:
			pre := lntypes.Preimage(c15Hash("c15kspre", m.nonce))
			s.hash, s.keysend, s.keysendValid = pre.Hash(), pre[:], true
		}
		for _, w := range m.worlds {
			class, _, err := w.notify(s, 100)
			if err != nil || class != "settle" {
				t.Fatalf("[%s] %s: first notification: %s %v",
					w.name, kind, class, err)
			}
			class, d, err := w.notify(s, 101)
			inv, lerr := w.reg.LookupInvoice(ctx, s.hash)
			if lerr != nil {
				t.Fatalf("[%s] lookup: %v", w.name, lerr)
			}
			state := inv.Htlcs[s.key].State
			hit := class != "settle"
			st.Case(vstats.FP(kind, w.name), true,
				[]string{"kind=" + kind, "replay=" + class}, nil)
			if !hit {
				continue
			}
			msg := fmt.Sprintf("[%s] %s HTLC on record as %v is "+
				"answered %s (%+v, err=%v) when replayed one "+
				"block later", w.name, kind, state, class, d, err)
			if vstats.IsKnown(c15KeyReplayPrecheck) {
				st.Known(c15KeyReplayPrecheck)
				t.Log("KNOWN: " + msg)

				continue
			}
			t.Errorf("%s", msg)
		}
		m.closeWorlds()
	}
}

func TestVerifC15Registry(t *testing.T) {
	st := vstats.New("TestVerifC15Registry")
	defer st.Flush()
	tpl := c15SqliteTemplate(t)
	maxSteps := vstats.EnvInt("VERIF_C15_STEPS", 45)

	rapid.Check(t, func(rt *rapid.T) {
		c15Run(rt, t, st, tpl, maxSteps, false)
	})
}

// TestVerifC15Concurrent is the same machine with batches of 2-3 HTLC
// notifications issued from concurrent goroutines (run under -race in the
// thorough tier). The differential is switched off after the first batch;
// every per-store oracle stays on.
func TestVerifC15Concurrent(t *testing.T) {
	st := vstats.New("TestVerifC15Concurrent")
	defer st.Flush()
	tpl := c15SqliteTemplate(t)
	maxSteps := vstats.EnvInt("VERIF_C15_STEPS", 45)

	rapid.Check(t, func(rt *rapid.T) {
		c15Run(rt, t, st, tpl, maxSteps, true)
	})
}
