//go:build verif

package invoices_test

// C15 harness, part 1: deterministic clock, the two stores, a registry per
// store ("world") and the invoice projection used by the oracles.
//
// Everything here drives the real InvoiceRegistry through its exported API
// only. The single asynchronous element of the registry - the MPP set
// timeout, which fires inside invoiceEventLoop on a clock tick - is made
// deterministic without hooks:
//
//   * c15Clock implements clock.Clock. A Now() call made from
//     InvoiceRegistry.tickAt is paired with the TickAfter that follows it, so
//     Advance() never lands between the two (the registered trigger is then
//     always exactly the head release time).
//   * A "sentinel" MPP invoice holds one partial shard accepted with a
//     far-future release time, so the release heap is never empty and every
//     loop iteration ends with a TickAfter call that tells the clock the
//     current head of the heap.
//   * Before time is advanced another sentinel shard is sent. The hand-off of
//     its release event over the unbuffered htlcAutoReleaseChan proves that
//     the loop has finished all earlier iterations, i.e. the clock knows the
//     true heap head. After Advance() the harness waits until the loop has
//     registered a trigger in the future: at that point every due release
//     has been popped and cancelSingleHtlc for it has returned.

import (
	"context"
	"crypto/sha256"
	"database/sql"
	"encoding/binary"
	"encoding/hex"
	"fmt"
	"os"
	"path/filepath"
	"runtime"
	"sort"
	"strings"
	"sync"
	"testing"
	"time"

	"github.com/btcsuite/btcd/chainhash/v2"
	"github.com/lightningnetwork/lnd/chainntnfs"
	"github.com/lightningnetwork/lnd/channeldb"
	"github.com/lightningnetwork/lnd/clock"
	invpkg "github.com/lightningnetwork/lnd/invoices"
	"github.com/lightningnetwork/lnd/kvdb"
	"github.com/lightningnetwork/lnd/lntypes"
	"github.com/lightningnetwork/lnd/lnwire"
	"github.com/lightningnetwork/lnd/record"
	"github.com/lightningnetwork/lnd/sqldb"
)

var c15Epoch = time.Unix(1_700_000_000, 0).UTC()

const (
	c15HoldDuration     = 30 * time.Second
	c15SentinelHold     = 100000 * time.Hour
	c15QuiesceDeadline  = 30 * time.Second
	c15SentinelChan     = uint64(0xC15C15)
	c15HodlChanCapacity = 1 << 14
)

// ---------------------------------------------------------------------------
// clock

type c15Tick struct {
	at time.Time
	ch chan time.Time
}

type c15Clock struct {
	mu   sync.Mutex
	cond *sync.Cond

	now time.Time

	// inFlight: the event loop has read Now() in tickAt and has not yet
	// registered its tick.
	inFlight  bool
	sawTickAt bool

	ticks       []c15Tick
	haveLast    bool
	lastTrigger time.Time
	regs        int
	timedOut    bool
}

func newC15Clock(start time.Time) *c15Clock {
	c := &c15Clock{now: start}
	c.cond = sync.NewCond(&c.mu)

	return c
}

func c15CalledFromTickAt() bool {
	var pcs [6]uintptr
	n := runtime.Callers(3, pcs[:])
	frames := runtime.CallersFrames(pcs[:n])
	for {
		f, more := frames.Next()
		if strings.HasSuffix(f.Function, ".tickAt") {
			return true
		}
		if !more {
			return false
		}
	}
}

func (c *c15Clock) Now() time.Time {
	loop := c15CalledFromTickAt()
	c.mu.Lock()
	defer c.mu.Unlock()
	if loop {
		c.inFlight = true
		c.sawTickAt = true
	}

	return c.now
}

func (c *c15Clock) TickAfter(d time.Duration) <-chan time.Time {
	c.mu.Lock()
	defer c.mu.Unlock()

	trigger := c.now.Add(d)
	ch := make(chan time.Time, 1)
	c.inFlight = false
	c.haveLast = true
	c.lastTrigger = trigger
	c.regs++
	if !trigger.After(c.now) {
		ch <- c.now
	} else {
		c.ticks = append(c.ticks, c15Tick{at: trigger, ch: ch})
	}
	c.cond.Broadcast()

	return ch
}

// Advance moves time forward and fires every registered tick that is due.
func (c *c15Clock) Advance(to time.Time) {
	c.mu.Lock()
	defer c.mu.Unlock()
	for c.inFlight {
		c.cond.Wait()
	}
	c.now = to
	keep := c.ticks[:0]
	for _, tk := range c.ticks {
		if tk.at.After(to) {
			keep = append(keep, tk)
			continue
		}
		tk.ch <- to
	}
	c.ticks = keep
}

// WaitQuiet blocks until the event loop has registered a trigger that lies
// in the future (all due releases processed). False = wall-clock deadline.
func (c *c15Clock) WaitQuiet() bool {
	c.mu.Lock()
	defer c.mu.Unlock()
	c.timedOut = false
	wd := time.AfterFunc(c15QuiesceDeadline, func() {
		c.mu.Lock()
		c.timedOut = true
		c.cond.Broadcast()
		c.mu.Unlock()
	})
	defer wd.Stop()
	for c.inFlight || !c.haveLast || !c.lastTrigger.After(c.now) {
		if c.timedOut {
			return false
		}
		c.cond.Wait()
	}

	return true
}

func (c *c15Clock) read() time.Time {
	c.mu.Lock()
	defer c.mu.Unlock()

	return c.now
}

// ---------------------------------------------------------------------------
// small fixtures

type c15Notifier struct {
	chainntnfs.ChainNotifier
	blocks chan *chainntnfs.BlockEpoch
}

func (m *c15Notifier) RegisterBlockEpochNtfn(*chainntnfs.BlockEpoch) (
	*chainntnfs.BlockEpochEvent, error) {

	return &chainntnfs.BlockEpochEvent{
		Epochs: m.blocks,
		Cancel: func() {},
	}, nil
}

// c15Interceptor is the HtlcInterceptor of the registry. With cancelNext set
// it answers the next interception with CancelSet (an external validator
// rejecting the payment), otherwise it does not intervene.
type c15Interceptor struct {
	mu         sync.Mutex
	cancelNext bool
}

func (i *c15Interceptor) Intercept(_ invpkg.HtlcModifyRequest,
	cb func(invpkg.HtlcModifyResponse)) error {

	i.mu.Lock()
	c := i.cancelNext
	i.cancelNext = false
	i.mu.Unlock()
	if c {
		cb(invpkg.HtlcModifyResponse{CancelSet: true})
	}

	return nil
}

type c15Payload struct {
	mpp    *record.MPP
	amp    *record.AMP
	custom record.CustomSet
	pathID *chainhash.Hash
	total  lnwire.MilliSatoshi
	meta   []byte
}

// ---------------------------------------------------------------------------
// stores

var (
	c15SqlOnce sync.Once
	c15SqlTpl  []byte
	c15SqlErr  error
)

// c15SqliteTemplate builds one migrated sqlite database per process and
// keeps its bytes; every case works on a private copy (2-3 ms instead of a
// full migration run).
func c15SqliteTemplate(t *testing.T) []byte {
	c15SqlOnce.Do(func() {
		st := sqldb.NewTestSqliteDB(t)
		_, err := st.DB.Exec("PRAGMA wal_checkpoint(TRUNCATE)")
		if err != nil {
			c15SqlErr = err
			return
		}
		rows, err := st.DB.Query("PRAGMA database_list")
		if err != nil {
			c15SqlErr = err
			return
		}
		var path string
		for rows.Next() {
			var (
				seq        int
				name, file string
			)
			if err := rows.Scan(&seq, &name, &file); err != nil {
				c15SqlErr = err
				break
			}
			if name == "main" {
				path = file
			}
		}
		_ = rows.Close()
		if c15SqlErr != nil {
			return
		}
		c15SqlTpl, c15SqlErr = os.ReadFile(path)
	})
	if c15SqlErr != nil {
		t.Fatalf("harness: sqlite template: %v", c15SqlErr)
	}

	return c15SqlTpl
}

func c15OpenKV(clk clock.Clock) (invpkg.InvoiceDB, func(), error) {
	dir, err := os.MkdirTemp("", "c15kv")
	if err != nil {
		return nil, nil, err
	}
	backend, cleanup, err := kvdb.GetTestBackend(dir, "cdb")
	if err != nil {
		_ = os.RemoveAll(dir)
		return nil, nil, err
	}
	cdb, err := channeldb.CreateWithBackend(
		backend, channeldb.OptionClock(clk),
	)
	if err != nil {
		cleanup()
		_ = os.RemoveAll(dir)

		return nil, nil, err
	}

	return cdb, func() {
		_ = cdb.Close()
		cleanup()
		_ = os.RemoveAll(dir)
	}, nil
}

func c15OpenSQL(tpl []byte, clk clock.Clock) (invpkg.InvoiceDB, func(),
	error) {

	dir, err := os.MkdirTemp("", "c15sql")
	if err != nil {
		return nil, nil, err
	}
	path := filepath.Join(dir, "tmp.db")
	if err := os.WriteFile(path, tpl, 0o600); err != nil {
		_ = os.RemoveAll(dir)
		return nil, nil, err
	}
	st, err := sqldb.NewSqliteStore(
		&sqldb.SqliteConfig{SkipMigrations: true}, path,
	)
	if err != nil {
		_ = os.RemoveAll(dir)
		return nil, nil, err
	}
	db := st.BaseDB
	executor := sqldb.NewTransactionExecutor(
		db, func(tx *sql.Tx) invpkg.SQLInvoiceQueries {
			return db.WithTx(tx)
		},
	)

	return invpkg.NewSQLStore(executor, clk), func() {
		_ = st.DB.Close()
		_ = os.RemoveAll(dir)
	}, nil
}

// ---------------------------------------------------------------------------
// world

type c15Cfg struct {
	rejectDelta   int32
	acceptKeysend bool
	acceptAMP     bool
	keysendHold   bool
}

type c15World struct {
	name string
	clk  *c15Clock
	rcfg *invpkg.RegistryConfig
	reg  *invpkg.InvoiceRegistry
	icpt *c15Interceptor
	hodl chan interface{}

	closers []func()

	sentinelHash lntypes.Hash
	sentinelAddr [32]byte
	sentinelN    uint64

	// oracle state, see c15_oracle_test.go
	snaps    map[lntypes.Hash]*c15Snap
	terms    map[lntypes.Hash]*c15Terms
	where    map[invpkg.CircuitKey]lntypes.Hash
	recAt    map[invpkg.CircuitKey]int32
	terminal map[invpkg.CircuitKey]string
	unrecFail map[invpkg.CircuitKey]bool
}

const c15SentinelValue = lnwire.MilliSatoshi(1_000_000_000_000)

func c15Hash(tag string, nonce uint64, parts ...uint64) [32]byte {
	h := sha256.New()
	_, _ = h.Write([]byte(tag))
	var b [8]byte
	binary.BigEndian.PutUint64(b[:], nonce)
	_, _ = h.Write(b[:])
	for _, p := range parts {
		binary.BigEndian.PutUint64(b[:], p)
		_, _ = h.Write(b[:])
	}
	var out [32]byte
	copy(out[:], h.Sum(nil))

	return out
}

func c15Features(bits ...lnwire.FeatureBit) *lnwire.FeatureVector {
	return lnwire.NewFeatureVector(
		lnwire.NewRawFeatureVector(bits...), lnwire.Features,
	)
}

func newC15World(name string, db invpkg.InvoiceDB, closeDB func(),
	clk *c15Clock, cfg c15Cfg, height int32) (*c15World, error) {

	w := &c15World{
		name:      name,
		clk:       clk,
		icpt:      &c15Interceptor{},
		hodl:      make(chan interface{}, c15HodlChanCapacity),
		snaps:     make(map[lntypes.Hash]*c15Snap),
		terms:     make(map[lntypes.Hash]*c15Terms),
		where:     make(map[invpkg.CircuitKey]lntypes.Hash),
		recAt:     make(map[invpkg.CircuitKey]int32),
		terminal:  make(map[invpkg.CircuitKey]string),
		unrecFail: make(map[invpkg.CircuitKey]bool),
	}
	w.closers = append(w.closers, closeDB)

	// The expiry watcher gets a frozen clock of its own and never sees a
	// block: time/height based invoice expiry is CancelInvoice issued by a
	// background goroutine, which the generator issues explicitly instead.
	watcher := invpkg.NewInvoiceExpiryWatcher(
		clock.NewTestClock(c15Epoch), 0, uint32(height), nil,
		&c15Notifier{blocks: make(chan *chainntnfs.BlockEpoch)},
	)
	w.rcfg = &invpkg.RegistryConfig{
		FinalCltvRejectDelta: cfg.rejectDelta,
		HtlcHoldDuration:     c15HoldDuration,
		Clock:                clk,
		AcceptKeySend:        cfg.acceptKeysend,
		AcceptAMP:            cfg.acceptAMP,
		HtlcInterceptor:      w.icpt,
	}
	if cfg.keysendHold {
		w.rcfg.KeysendHoldTime = 1000 * time.Hour
	}
	w.reg = invpkg.NewRegistry(db, watcher, w.rcfg)
	if err := w.reg.Start(); err != nil {
		w.close()
		return nil, err
	}
	w.closers = append(w.closers, func() { _ = w.reg.Stop() })

	// Sentinel invoice + first far-future release event.
	pre := lntypes.Preimage(c15Hash("c15sentinel-pre", 0))
	w.sentinelHash = pre.Hash()
	w.sentinelAddr = c15Hash("c15sentinel-addr", 0)
	_, err := w.reg.AddInvoice(context.Background(), &invpkg.Invoice{
		CreationDate: c15Epoch,
		Terms: invpkg.ContractTerm{
			Value:           c15SentinelValue,
			Expiry:          time.Hour,
			FinalCltvDelta:  1,
			PaymentPreimage: &pre,
			PaymentAddr:     w.sentinelAddr,
			Features: c15Features(
				lnwire.TLVOnionPayloadOptional,
				lnwire.PaymentAddrRequired,
				lnwire.MPPOptional,
			),
		},
	}, w.sentinelHash)
	if err != nil {
		w.close()
		return nil, fmt.Errorf("sentinel invoice: %w", err)
	}
	if err := w.sentinelPush(height); err != nil {
		w.close()
		return nil, err
	}

	return w, nil
}

func (w *c15World) close() {
	for i := len(w.closers) - 1; i >= 0; i-- {
		w.closers[i]()
	}
	w.closers = nil
}

// sentinelPush has one more partial shard of the sentinel invoice accepted;
// NotifyExitHopHtlc returns only after the event loop took the release event
// (unbuffered channel), i.e. after the loop completed all earlier iterations.
func (w *c15World) sentinelPush(height int32) error {
	w.sentinelN++
	key := invpkg.CircuitKey{
		ChanID: lnwire.NewShortChanIDFromInt(c15SentinelChan),
		HtlcID: w.sentinelN,
	}
	w.rcfg.HtlcHoldDuration = c15SentinelHold
	res, err := w.reg.NotifyExitHopHtlc(
		w.sentinelHash, 1, uint32(height)+100000, height, key, nil,
		nil, &c15Payload{
			mpp: record.NewMPP(c15SentinelValue, w.sentinelAddr),
		},
	)
	w.rcfg.HtlcHoldDuration = c15HoldDuration
	if err != nil {
		return fmt.Errorf("sentinel shard: %w", err)
	}
	if res != nil {
		return fmt.Errorf("sentinel shard not held: %T", res)
	}

	return nil
}

// advance moves this world's clock and returns once every due set timeout
// has been processed by the registry's event loop.
func (w *c15World) advance(to time.Time, height int32) (bool, error) {
	if err := w.sentinelPush(height); err != nil {
		return false, err
	}
	w.clk.Advance(to)
	if !w.clk.WaitQuiet() {
		return false, nil
	}
	w.clk.mu.Lock()
	saw := w.clk.sawTickAt
	w.clk.mu.Unlock()
	if !saw {
		return false, fmt.Errorf("harness assumption broken: the " +
			"event loop no longer reads the clock in tickAt")
	}

	return true, nil
}

func (p *c15Payload) MultiPath() *record.MPP { return p.mpp }
func (p *c15Payload) AMPRecord() *record.AMP { return p.amp }
func (p *c15Payload) Metadata() []byte       { return p.meta }
func (p *c15Payload) PathID() *chainhash.Hash { return p.pathID }
func (p *c15Payload) TotalAmtMsat() lnwire.MilliSatoshi {
	return p.total
}
func (p *c15Payload) CustomRecords() record.CustomSet {
	if p.custom == nil {
		return make(record.CustomSet)
	}

	return p.custom
}

// ---------------------------------------------------------------------------
// projection of an invoice

type c15HtlcProj struct {
	Amt, Total   uint64
	Expiry       uint32
	AcceptHeight uint32
	State        invpkg.HtlcState
	AcceptTime   int64
	ResolveTime  int64
	IsAMP        bool
	SetID        [32]byte
	AMPHash      lntypes.Hash
	AMPShare     [32]byte
	AMPIndex     uint32
	AMPPreimage  *lntypes.Preimage
}

type c15AmpProj struct {
	State   invpkg.HtlcState
	AmtPaid uint64
	Keys    []invpkg.CircuitKey
	Settled bool
}

type c15Snap struct {
	State     invpkg.ContractState
	AmtPaid   uint64
	Value     uint64
	Addr      [32]byte
	Delta     int32
	Hodl      bool
	Features  string
	ReqAddr   bool
	IsAMP     bool
	Preimage  *lntypes.Preimage
	HasSettle bool
	Htlcs     map[invpkg.CircuitKey]c15HtlcProj
	AMP       map[[32]byte]c15AmpProj
}

func c15KeyLess(a, b invpkg.CircuitKey) bool {
	if a.ChanID.ToUint64() != b.ChanID.ToUint64() {
		return a.ChanID.ToUint64() < b.ChanID.ToUint64()
	}

	return a.HtlcID < b.HtlcID
}

func c15KeyStr(k invpkg.CircuitKey) string {
	return fmt.Sprintf("%d/%d", k.ChanID.ToUint64(), k.HtlcID)
}

func c15Project(inv *invpkg.Invoice) *c15Snap {
	s := &c15Snap{
		State:     inv.State,
		AmtPaid:   uint64(inv.AmtPaid),
		Value:     uint64(inv.Terms.Value),
		Addr:      inv.Terms.PaymentAddr,
		Delta:     inv.Terms.FinalCltvDelta,
		Hodl:      inv.HodlInvoice,
		HasSettle: inv.SettleIndex != 0,
		Htlcs:     make(map[invpkg.CircuitKey]c15HtlcProj),
		AMP:       make(map[[32]byte]c15AmpProj),
	}
	if inv.Terms.Features != nil {
		var bits []int
		for b := range inv.Terms.Features.Features() {
			bits = append(bits, int(b))
		}
		sort.Ints(bits)
		s.Features = fmt.Sprint(bits)
		s.ReqAddr = inv.Terms.Features.RequiresFeature(
			lnwire.PaymentAddrRequired,
		)
		s.IsAMP = inv.Terms.Features.HasFeature(lnwire.AMPRequired)
	}
	if inv.Terms.PaymentPreimage != nil {
		p := *inv.Terms.PaymentPreimage
		s.Preimage = &p
	}
	for k, h := range inv.Htlcs {
		p := c15HtlcProj{
			Amt:          uint64(h.Amt),
			Total:        uint64(h.MppTotalAmt),
			Expiry:       h.Expiry,
			AcceptHeight: h.AcceptHeight,
			State:        h.State,
			AcceptTime:   h.AcceptTime.UnixNano(),
		}
		if !h.ResolveTime.IsZero() {
			p.ResolveTime = h.ResolveTime.UnixNano()
		}
		if h.AMP != nil {
			p.IsAMP = true
			p.SetID = h.AMP.Record.SetID()
			p.AMPHash = h.AMP.Hash
			p.AMPShare = h.AMP.Record.RootShare()
			p.AMPIndex = h.AMP.Record.ChildIndex()
			if h.AMP.Preimage != nil {
				pre := *h.AMP.Preimage
				p.AMPPreimage = &pre
			}
		}
		s.Htlcs[k] = p
	}
	for id, st := range inv.AMPState {
		a := c15AmpProj{
			State:   st.State,
			AmtPaid: uint64(st.AmtPaid),
			Settled: st.SettleIndex != 0,
		}
		for k := range st.InvoiceKeys {
			a.Keys = append(a.Keys, k)
		}
		sort.Slice(a.Keys, func(i, j int) bool {
			return c15KeyLess(a.Keys[i], a.Keys[j])
		})
		s.AMP[id] = a
	}

	return s
}

func c15PreStr(p *lntypes.Preimage) string {
	if p == nil {
		return "-"
	}

	return hex.EncodeToString(p[:6])
}

// String renders the projection canonically; the differential compares these
// strings.
func (s *c15Snap) String() string {
	if s == nil {
		return "<absent>"
	}
	var b strings.Builder
	fmt.Fprintf(&b, "state=%v paid=%d value=%d addr=%x delta=%d hodl=%v "+
		"feat=%s pre=%s settleIdx=%v", s.State, s.AmtPaid, s.Value,
		s.Addr[:4], s.Delta, s.Hodl, s.Features, c15PreStr(s.Preimage),
		s.HasSettle)
	keys := make([]invpkg.CircuitKey, 0, len(s.Htlcs))
	for k := range s.Htlcs {
		keys = append(keys, k)
	}
	sort.Slice(keys, func(i, j int) bool {
		return c15KeyLess(keys[i], keys[j])
	})
	for _, k := range keys {
		h := s.Htlcs[k]
		fmt.Fprintf(&b, "\n  htlc %s amt=%d total=%d exp=%d acc=%d "+
			"st=%v at=%d rt=%d", c15KeyStr(k), h.Amt, h.Total,
			h.Expiry, h.AcceptHeight, h.State, h.AcceptTime,
			h.ResolveTime)
		if h.IsAMP {
			fmt.Fprintf(&b, " amp{set=%x hash=%x share=%x idx=%d "+
				"pre=%s}", h.SetID[:4], h.AMPHash[:4],
				h.AMPShare[:4], h.AMPIndex,
				c15PreStr(h.AMPPreimage))
		}
	}
	ids := make([][32]byte, 0, len(s.AMP))
	for id := range s.AMP {
		ids = append(ids, id)
	}
	sort.Slice(ids, func(i, j int) bool {
		return string(ids[i][:]) < string(ids[j][:])
	})
	for _, id := range ids {
		a := s.AMP[id]
		ks := make([]string, len(a.Keys))
		for i, k := range a.Keys {
			ks[i] = c15KeyStr(k)
		}
		fmt.Fprintf(&b, "\n  ampset %x st=%v paid=%d settled=%v keys=%v",
			id[:4], a.State, a.AmtPaid, a.Settled, ks)
	}

	return b.String()
}
