//go:build verif

package invoices_test

// C15 harness, part 2: what the harness remembers about the HTLCs it sent
// (the history) and the validity predicate evaluated over that history after
// every event. Nothing in here mirrors the control flow of update.go: the
// predicate only looks at (a) what was sent, (b) which resolutions came back
// and (c) the LookupInvoice projections before and after the event.

import (
	"context"
	"crypto/sha256"
	"errors"
	"fmt"
	"sort"
	"strings"

	"github.com/btcsuite/btcd/chainhash/v2"
	invpkg "github.com/lightningnetwork/lnd/invoices"
	"github.com/lightningnetwork/lnd/lntypes"
	"github.com/lightningnetwork/lnd/lnwire"
	"github.com/lightningnetwork/lnd/record"
)

// c15Terms are the invoice terms the predicate is evaluated against.
type c15Terms struct {
	value        uint64
	addr         [32]byte
	delta        int32
	addrRequired bool
	isAMP        bool
	hodl         bool
	fromSpec     bool
}

// c15Shard is one HTLC the harness sends (and possibly replays).
type c15Shard struct {
	id     int
	plan   int
	target int // index into model.invs or -1
	key    invpkg.CircuitKey
	hash   lntypes.Hash
	amt    uint64

	expOff   int32
	deltaRef int32
	expiry   uint32 // fixed at first send
	fixed    bool

	kind string // none | mpp | amp | ampnompp | keysend | blinded

	hasTotal bool
	total    uint64
	hasAddr  bool
	addr     [32]byte

	setID    [32]byte
	share    [32]byte // share carried in the AMP record (maybe corrupted)
	childIdx uint32

	keysend      []byte
	keysendValid bool

	sends []int32 // heights of all notifications
}

func (s *c15Shard) payload() *c15Payload {
	p := &c15Payload{}
	switch s.kind {
	case "mpp":
		p.mpp = record.NewMPP(lnwire.MilliSatoshi(s.total), s.addr)
	case "amp":
		p.mpp = record.NewMPP(lnwire.MilliSatoshi(s.total), s.addr)
		p.amp = record.NewAMP(s.share, s.setID, s.childIdx)
	case "ampnompp":
		p.amp = record.NewAMP(s.share, s.setID, s.childIdx)
	case "blinded":
		id := chainhash.Hash(s.addr)
		p.pathID = &id
		p.total = lnwire.MilliSatoshi(s.total)
	case "keysend":
		p.custom = record.CustomSet{
			record.KeySendType: append([]byte(nil), s.keysend...),
		}
	case "keysendmpp":
		p.custom = record.CustomSet{
			record.KeySendType: append([]byte(nil), s.keysend...),
		}
		p.mpp = record.NewMPP(lnwire.MilliSatoshi(s.total), s.addr)
	}

	return p
}

func (s *c15Shard) String() string {
	var b strings.Builder
	fmt.Fprintf(&b, "#%d plan=%d key=%s hash=%x amt=%d exp=%d(off%+d) %s",
		s.id, s.plan, c15KeyStr(s.key), s.hash[:4], s.amt, s.expiry,
		s.expOff, s.kind)
	if s.hasTotal {
		fmt.Fprintf(&b, " total=%d", s.total)
	}
	if s.hasAddr {
		fmt.Fprintf(&b, " addr=%x", s.addr[:4])
	}
	if s.kind == "amp" || s.kind == "ampnompp" {
		fmt.Fprintf(&b, " set=%x idx=%d", s.setID[:4], s.childIdx)
	}
	if s.keysend != nil {
		fmt.Fprintf(&b, " keysendValid=%v", s.keysendValid)
	}

	return b.String()
}

// c15Deliv is one resolution as seen by a link: returned by
// NotifyExitHopHtlc or delivered on the hodl channel.
type c15Deliv struct {
	key      invpkg.CircuitKey
	class    string // settle | fail
	preimage lntypes.Preimage
	outcome  string
}

// c15Got is everything one world answered to one event.
type c15Got struct {
	// per sent shard (same order as event.shards)
	class   []string // accept | settle | fail | error
	deliv   []*c15Deliv
	errs    []error
	hodl    []c15Deliv
	actErr  error
	skipped bool
}

type c15Event struct {
	kind    string // add | send | batch | cancel | settle | advance
	shards  []*c15Shard
	heights []int32
	replay  bool
	hash    lntypes.Hash
	desc    string
}

func c15Classify(res invpkg.HtlcResolution) (*c15Deliv, string) {
	switch r := res.(type) {
	case nil:
		return nil, "accept"
	case *invpkg.HtlcSettleResolution:
		return &c15Deliv{
			key: r.CircuitKey(), class: "settle",
			preimage: r.Preimage, outcome: r.Outcome.String(),
		}, "settle"
	case *invpkg.HtlcFailResolution:
		return &c15Deliv{
			key: r.CircuitKey(), class: "fail",
			outcome: r.Outcome.String(),
		}, "fail"
	default:
		return nil, fmt.Sprintf("unknown(%T)", res)
	}
}

func (w *c15World) drainHodl() ([]c15Deliv, error) {
	var out []c15Deliv
	for {
		select {
		case v := <-w.hodl:
			res, ok := v.(invpkg.HtlcResolution)
			if !ok {
				return nil, fmt.Errorf("hodl channel carried %T", v)
			}
			d, class := c15Classify(res)
			if d == nil {
				return nil, fmt.Errorf("hodl channel carried a %s "+
					"resolution", class)
			}
			out = append(out, *d)
		default:
			sort.Slice(out, func(i, j int) bool {
				if out[i].key != out[j].key {
					return c15KeyLess(out[i].key, out[j].key)
				}

				return out[i].class < out[j].class
			})

			return out, nil
		}
	}
}

func c15StateRank(s invpkg.ContractState) int {
	switch s {
	case invpkg.ContractOpen:
		return 0
	case invpkg.ContractAccepted:
		return 1
	default:
		return 2
	}
}

// c15Violation is a property violation (as opposed to a harness error).
type c15Violation struct{ msg string }

func (v *c15Violation) Error() string { return v.msg }

func c15V(format string, a ...any) error {
	return &c15Violation{msg: fmt.Sprintf(format, a...)}
}

// observe evaluates every per-world oracle for one event.
//
//nolint:funlen,gocyclo
func (w *c15World) observe(m *c15Model, ev *c15Event, got *c15Got) error {
	ctx := context.Background()

	// ---- 1. LookupInvoice for every invoice that exists or may have
	// been created by this event.
	hashes := make(map[lntypes.Hash]struct{})
	for h := range w.snaps {
		hashes[h] = struct{}{}
	}
	for _, s := range ev.shards {
		hashes[s.hash] = struct{}{}
	}
	if ev.kind == "add" || ev.kind == "cancel" || ev.kind == "settle" {
		hashes[ev.hash] = struct{}{}
	}
	order := make([]lntypes.Hash, 0, len(hashes))
	for h := range hashes {
		order = append(order, h)
	}
	sort.Slice(order, func(i, j int) bool {
		return string(order[i][:]) < string(order[j][:])
	})

	byKey := make(map[invpkg.CircuitKey]*c15Shard)
	heightOf := make(map[invpkg.CircuitKey]int32)
	for i, s := range ev.shards {
		byKey[s.key] = s
		heightOf[s.key] = ev.heights[i]
	}

	cur := make(map[lntypes.Hash]*c15Snap)
	newlySettled := make(map[lntypes.Hash][]invpkg.CircuitKey)
	changed := false
	for _, h := range order {
		inv, err := w.reg.LookupInvoice(ctx, h)
		switch {
		case errors.Is(err, invpkg.ErrInvoiceNotFound),
			errors.Is(err, invpkg.ErrNoInvoicesCreated):

			if w.snaps[h] != nil {
				return c15V("invoice %x disappeared", h[:4])
			}

			continue

		case err != nil:
			return c15V("LookupInvoice(%x): %v", h[:4], err)
		}
		snap := c15Project(&inv)
		cur[h] = snap
		prev := w.snaps[h]

		// terms
		terms := w.terms[h]
		if terms == nil {
			terms = m.termsFor(h, snap)
			w.terms[h] = terms
		}
		if terms.fromSpec || prev != nil {
			if snap.Value != terms.value || snap.Addr != terms.addr ||
				snap.Delta != terms.delta ||
				snap.Hodl != terms.hodl {

				return c15V("invoice %x terms changed: %s",
					h[:4], snap)
			}
		}
		if prev != nil && prev.Features != snap.Features {
			return c15V("invoice %x features changed", h[:4])
		}
		if snap.Preimage != nil {
			if !terms.isAMP &&
				sha256.Sum256(snap.Preimage[:]) != [32]byte(h) {

				return c15V("invoice %x stores preimage %x that "+
					"does not hash to it", h[:4],
					snap.Preimage[:4])
			}
			if prev != nil && prev.Preimage != nil &&
				*prev.Preimage != *snap.Preimage {

				return c15V("invoice %x preimage changed", h[:4])
			}
		}

		// invoice state only moves forward
		if prev != nil && prev.State != snap.State {
			pr, cr := c15StateRank(prev.State),
				c15StateRank(snap.State)
			if cr <= pr {
				return c15V("invoice %x state went %v -> %v",
					h[:4], prev.State, snap.State)
			}
		}
		if prev == nil || prev.String() != snap.String() {
			changed = true
		}

		// htlc monotonicity
		if prev != nil {
			for k, ph := range prev.Htlcs {
				ch, ok := snap.Htlcs[k]
				if !ok {
					return c15V("htlc %s vanished from "+
						"invoice %x", c15KeyStr(k), h[:4])
				}
				if ph.Amt != ch.Amt || ph.Total != ch.Total ||
					ph.Expiry != ch.Expiry ||
					ph.AcceptHeight != ch.AcceptHeight ||
					ph.IsAMP != ch.IsAMP ||
					ph.SetID != ch.SetID ||
					ph.AMPHash != ch.AMPHash {

					return c15V("recorded fields of htlc %s "+
						"changed", c15KeyStr(k))
				}
				if ph.State != ch.State &&
					ph.State != invpkg.HtlcStateAccepted {

					return c15V("htlc %s state went %v -> %v",
						c15KeyStr(k), ph.State, ch.State)
				}
			}
		}
		for k, ch := range snap.Htlcs {
			var wasSettled, existed bool
			if prev != nil {
				var ph c15HtlcProj
				ph, existed = prev.Htlcs[k]
				wasSettled = existed &&
					ph.State == invpkg.HtlcStateSettled
			}
			if ch.State == invpkg.HtlcStateSettled && !wasSettled {
				newlySettled[h] = append(newlySettled[h], k)
			}
			if existed {
				continue
			}

			// A new record: must be an HTLC of this event, recorded
			// exactly as sent.
			s := byKey[k]
			if s == nil {
				return c15V("invoice %x gained htlc %s that was "+
					"not part of event %q", h[:4],
					c15KeyStr(k), ev.desc)
			}
			if other, dup := w.where[k]; dup && other != h {
				return c15V("htlc %s recorded on two invoices",
					c15KeyStr(k))
			}
			w.where[k] = h
			w.recAt[k] = heightOf[k]
			wantTotal := uint64(0)
			if s.hasTotal {
				wantTotal = s.total
			}
			if ch.Amt != s.amt || ch.Expiry != s.expiry ||
				ch.AcceptHeight != uint32(heightOf[k]) ||
				ch.Total != wantTotal {

				return c15V("htlc %s recorded as amt=%d total=%d "+
					"exp=%d acc=%d, sent %s at height %d",
					c15KeyStr(k), ch.Amt, ch.Total, ch.Expiry,
					ch.AcceptHeight, s, heightOf[k])
			}
			isAmp := s.kind == "amp"
			if ch.IsAMP != isAmp || (isAmp && (ch.SetID != s.setID ||
				ch.AMPHash != s.hash || ch.AMPShare != s.share ||
				ch.AMPIndex != s.childIdx)) {

				return c15V("htlc %s AMP data recorded wrongly: "+
					"%+v vs %s", c15KeyStr(k), ch, s)
			}
		}
	}

	// ---- 2. resolutions: preimage/hash, consistency with the recorded
	// state, settle xor fail.
	var all []c15Deliv
	for _, d := range got.deliv {
		if d != nil {
			all = append(all, *d)
		}
	}
	all = append(all, got.hodl...)
	for i, d := range got.deliv {
		if d != nil && d.key != ev.shards[i].key {
			return c15V("resolution for %s returned to %s",
				c15KeyStr(d.key), c15KeyStr(ev.shards[i].key))
		}
	}
	for _, d := range all {
		s := m.shardByKey[d.key]
		if s == nil {
			return c15V("resolution for unknown circuit %s",
				c15KeyStr(d.key))
		}
		h, recorded := w.where[d.key]
		var st invpkg.HtlcState
		if recorded {
			st = cur[h].Htlcs[d.key].State
		}
		switch d.class {
		case "settle":
			if sha256.Sum256(d.preimage[:]) != [32]byte(s.hash) {
				return c15V("settle of %s releases preimage %x "+
					"which does not hash to payment hash %x",
					c15KeyStr(d.key), d.preimage[:4], s.hash[:4])
			}
			if !recorded {
				return c15V("settle of %s which is recorded on "+
					"no invoice", c15KeyStr(d.key))
			}
			if st != invpkg.HtlcStateSettled {
				return c15V("settle of %s whose recorded state "+
					"is %v", c15KeyStr(d.key), st)
			}
		case "fail":
			if !recorded {
				w.unrecFail[d.key] = true
				continue
			}
			if st != invpkg.HtlcStateCanceled {
				return c15V("fail (%s) of %s whose recorded "+
					"state is %v", d.outcome, c15KeyStr(d.key),
					st)
			}
		}
		if prevClass := w.terminal[d.key]; prevClass != "" &&
			prevClass != d.class {

			return c15V("circuit %s got both %s and %s",
				c15KeyStr(d.key), prevClass, d.class)
		}
		w.terminal[d.key] = d.class
	}

	// ---- 3. validity predicate for every HTLC that became settled.
	for h, keys := range newlySettled {
		if err := w.checkSettled(m, ev, h, cur[h], keys); err != nil {
			return err
		}
	}

	// ---- 4. amount paid of settled non-AMP invoices.
	for h, snap := range cur {
		if w.terms[h].isAMP || snap.State != invpkg.ContractSettled {
			continue
		}
		var sum uint64
		for _, ch := range snap.Htlcs {
			if ch.State == invpkg.HtlcStateSettled {
				sum += ch.Amt
			}
		}
		if snap.AmtPaid != sum {
			return c15V("settled invoice %x: AmtPaid=%d but settled "+
				"htlcs sum to %d\n%s", h[:4], snap.AmtPaid, sum,
				snap)
		}
	}

	// ---- 5. replay: the verdict that belongs to the recorded state and
	// no change to any invoice.
	if ev.kind == "send" && ev.replay {
		s := ev.shards[0]
		if h0, ok := w.where[s.key]; ok && w.snaps[h0] != nil {
			if ph, ok := w.snaps[h0].Htlcs[s.key]; ok {
				want := map[invpkg.HtlcState]string{
					invpkg.HtlcStateAccepted: "accept",
					invpkg.HtlcStateSettled:  "settle",
					invpkg.HtlcStateCanceled: "fail",
				}[ph.State]
				if got.class[0] != want {
					return c15V("replay of %s (recorded %v) "+
						"answered %s (%v)", c15KeyStr(s.key),
						ph.State, got.class[0], got.errs[0])
				}
				if changed {
					return c15V("replay of %s changed an "+
						"invoice", c15KeyStr(s.key))
				}
				if len(got.hodl) != 0 {
					return c15V("replay of %s triggered %d "+
						"other resolutions", c15KeyStr(s.key),
						len(got.hodl))
				}
			}
		}
	}

	for h, snap := range cur {
		w.snaps[h] = snap
	}

	return nil
}

// checkSettled is the core of the property: every set of HTLCs that moved
// to the settled state in this event must have been a complete, correctly
// addressed, sufficiently timed payment of the invoice.
func (w *c15World) checkSettled(m *c15Model, ev *c15Event, h lntypes.Hash,
	snap *c15Snap, keys []invpkg.CircuitKey) error {

	terms := w.terms[h]
	sort.Slice(keys, func(i, j int) bool {
		return c15KeyLess(keys[i], keys[j])
	})

	groups := make(map[string][]*c15Shard)
	var names []string
	add := func(name string, s *c15Shard) {
		if _, ok := groups[name]; !ok {
			names = append(names, name)
		}
		groups[name] = append(groups[name], s)
	}
	for _, k := range keys {
		s := m.shardByKey[k]
		if s == nil {
			return c15V("settled htlc %s was never sent", c15KeyStr(k))
		}
		ch := snap.Htlcs[k]

		// The preimage on record for this HTLC opens its payment hash.
		var pre *lntypes.Preimage
		if ch.IsAMP {
			pre = ch.AMPPreimage
		} else {
			pre = snap.Preimage
		}
		if pre == nil || sha256.Sum256(pre[:]) != [32]byte(s.hash) {
			return c15V("htlc %s settled but the preimage on record "+
				"(%s) does not open its hash %x", c15KeyStr(k),
				c15PreStr(pre), s.hash[:4])
		}

		switch {
		case terms.isAMP:
			name := fmt.Sprintf("amp:%x", ch.SetID)
			if ev.kind == "batch" {
				// Several completions of one set id may fall
				// into one concurrent batch; they can only be
				// told apart by their declared total.
				name += fmt.Sprintf(":%d", s.total)
			}
			add(name, s)
		case s.hasTotal:
			add("mpp", s)
		default:
			add("single:"+c15KeyStr(k), s)
		}
	}

	for _, name := range names {
		set := groups[name]
		total := set[0].amt
		if set[0].hasTotal {
			total = set[0].total
		}
		var sum uint64
		for _, s := range set {
			t := s.amt
			if s.hasTotal {
				t = s.total
			}
			if t != total {
				return c15V("set %s on invoice %x settled with "+
					"different declared totals %d and %d\n%s",
					name, h[:4], total, t, snap)
			}
			sum += s.amt

			margin := terms.delta
			if m.cfg.rejectDelta > margin {
				margin = m.cfg.rejectDelta
			}
			acc := w.recAt[s.key]
			if int64(s.expiry) < int64(acc)+int64(margin) {
				return c15V("htlc %s settled with expiry %d, "+
					"accepted at height %d, required margin "+
					"max(%d,%d)", c15KeyStr(s.key), s.expiry,
					acc, terms.delta, m.cfg.rejectDelta)
			}

			if terms.addrRequired {
				okAddr := s.hasAddr && s.addr == terms.addr
				okKeysend := s.kind == "keysend" && s.keysendValid
				if !okAddr && !okKeysend {
					return c15V("htlc %s settled on invoice "+
						"%x which requires payment address "+
						"%x, sent %s", c15KeyStr(s.key), h[:4],
						terms.addr[:4], s)
				}
			}
		}
		if total < terms.value {
			return c15V("set %s settled invoice %x of value %d "+
				"with declared total %d", name, h[:4], terms.value,
				total)
		}
		if sum < total {
			return c15V("set %s settled on invoice %x with sum %d "+
				"< declared total %d\n%s", name, h[:4], sum, total,
				snap)
		}
	}

	return nil
}
