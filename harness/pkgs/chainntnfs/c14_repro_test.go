//go:build verif

package chainntnfs_test

// Minimal deterministic reproductions of the C14 candidate findings, written
// against the exported TxNotifier API only (plus the trivial in-memory hint
// cache c14NewMemCache). They are NOT part of the C14 job tables; run them with
//
//	./check C14 --run '^TestVerifC14Repro' --shards 1 --checks 1 --verbose
//
// Each test FAILS while the defect is present and passes once it is repaired.

import (
	"testing"

	"github.com/btcsuite/btcd/btcutil/v2"
	"github.com/btcsuite/btcd/chainhash/v2"
	"github.com/btcsuite/btcd/wire/v2"
	"github.com/lightningnetwork/lnd/chainntnfs"
)

var (
	// A P2WSH script and a transaction paying to it / spending c14ReproOp.
	c14ReproScript = append([]byte{0x00, 0x20}, make([]byte, 32)...)
	c14ReproOp     = wire.OutPoint{Hash: chainhash.Hash{0x01}, Index: 0}
)

func c14ReproTx() *wire.MsgTx {
	tx := wire.NewMsgTx(2)
	tx.AddTxIn(&wire.TxIn{
		PreviousOutPoint: c14ReproOp,
		Witness:          wire.TxWitness{{0x01}},
	})
	tx.AddTxOut(wire.NewTxOut(1000, c14ReproScript))

	return tx
}

func c14ReproBlock(nonce uint32, txs ...*wire.MsgTx) *btcutil.Block {
	cb := wire.NewMsgTx(1)
	cb.AddTxIn(&wire.TxIn{
		PreviousOutPoint: wire.OutPoint{Index: 0xffffffff},
		SignatureScript:  []byte{0x51, 0x51},
	})
	cb.AddTxOut(wire.NewTxOut(1, c14ReproScript[:1]))
	blk := &wire.MsgBlock{
		Header:       wire.BlockHeader{Version: 1, Nonce: nonce},
		Transactions: append([]*wire.MsgTx{cb}, txs...),
	}

	return btcutil.NewBlock(blk)
}

// Finding C14:historical-details-without-clients (spend side).
func TestVerifC14ReproNoClientSpend(t *testing.T) {
	hints := c14NewMemCache()
	n := chainntnfs.NewTxNotifier(7, 144, hints, hints)
	defer n.TearDown()

	// The chain is at height 7; the outpoint was spent in block 6.
	spender := c14ReproTx()
	spenderHash := spender.TxHash()

	reg, err := n.RegisterSpend(&c14ReproOp, c14ReproScript, 6)
	if err != nil || reg.HistoricalDispatch == nil {
		t.Fatalf("setup: %v %v", err, reg)
	}
	// The only client goes away while the backend is still scanning.
	reg.Event.Cancel()

	// The backend finishes the rescan [6,7] and reports the spend.
	err = n.UpdateSpendDetails(
		reg.HistoricalDispatch.SpendRequest, &chainntnfs.SpendDetail{
			SpentOutPoint:     &c14ReproOp,
			SpenderTxHash:     &spenderHash,
			SpendingTx:        spender,
			SpenderInputIndex: 0,
			SpendingHeight:    6,
		},
	)
	if err != nil {
		t.Fatal(err)
	}

	// Blocks 7 and 6 are reorganised out: the spend is gone.
	if err := n.DisconnectTip(7); err != nil {
		t.Fatal(err)
	}
	if err := n.DisconnectTip(6); err != nil {
		t.Fatal(err)
	}

	// A new client registers for the same outpoint.
	reg2, err := n.RegisterSpend(&c14ReproOp, c14ReproScript, 1)
	if err != nil {
		t.Fatal(err)
	}
	select {
	case d := <-reg2.Event.Spend:
		t.Errorf("client is told the outpoint was spent at height %d by "+
			"%v, but that block is no longer on the chain (tip 5) "+
			"and no Reorg will follow", d.SpendingHeight,
			d.SpenderTxHash)
	default:
	}
}

// Finding C14:historical-details-without-clients (confirmation side).
func TestVerifC14ReproNoClientConf(t *testing.T) {
	hints := c14NewMemCache()
	n := chainntnfs.NewTxNotifier(7, 144, hints, hints)
	defer n.TearDown()

	tx := c14ReproTx()
	txid := tx.TxHash()
	block6 := c14ReproBlock(1, tx)

	reg, err := n.RegisterConf(&txid, c14ReproScript, 1, 6)
	if err != nil || reg.HistoricalDispatch == nil {
		t.Fatalf("setup: %v %v", err, reg)
	}
	reg.Event.Cancel()

	err = n.UpdateConfDetails(
		reg.HistoricalDispatch.ConfRequest, &chainntnfs.TxConfirmation{
			BlockHash:   block6.Hash(),
			BlockHeight: 6,
			TxIndex:     1,
			Tx:          tx,
		},
	)
	if err != nil {
		t.Fatal(err)
	}
	if err := n.DisconnectTip(7); err != nil {
		t.Fatal(err)
	}
	if err := n.DisconnectTip(6); err != nil {
		t.Fatal(err)
	}

	// A new client registers; then a different block 6 (without the tx)
	// is connected.
	reg2, err := n.RegisterConf(&txid, c14ReproScript, 1, 1)
	if err != nil {
		t.Fatal(err)
	}
	newBlock6 := c14ReproBlock(2)
	if err := n.ConnectTip(newBlock6, 6); err != nil {
		t.Fatal(err)
	}
	if err := n.NotifyHeight(6); err != nil {
		t.Fatal(err)
	}
	select {
	case d := <-reg2.Event.Confirmed:
		t.Errorf("client is told the tx confirmed in block %v at height "+
			"%d, but the block at that height is %v and does not "+
			"contain the tx", d.BlockHash, d.BlockHeight,
			newBlock6.Hash())
	default:
	}
}

// Finding C14:pending-rescan-hint-not-lowered-on-disconnect.
func TestVerifC14ReproPendingHint(t *testing.T) {
	tx := c14ReproTx()
	txid := tx.TxHash()
	req, err := chainntnfs.NewConfRequest(&txid, c14ReproScript)
	if err != nil {
		t.Fatal(err)
	}

	// An earlier session watched the (unconfirmed) tx up to height 6 and
	// persisted that as its hint.
	hints := c14NewMemCache()
	_ = hints.CommitConfirmHint(6, req)

	// Restart at height 6. The client re-registers; the rescan [6,6] is
	// dispatched to the backend and is still running...
	n := chainntnfs.NewTxNotifier(6, 144, hints, hints)
	reg, err := n.RegisterConf(&txid, c14ReproScript, 1, 1)
	if err != nil || reg.HistoricalDispatch == nil {
		t.Fatalf("setup: %v %v", err, reg)
	}

	// ...while blocks 6 and 5 are reorganised out.
	if err := n.DisconnectTip(6); err != nil {
		t.Fatal(err)
	}
	if err := n.DisconnectTip(5); err != nil {
		t.Fatal(err)
	}
	h, err := hints.QueryConfirmHint(req)
	if err != nil {
		t.Fatal(err)
	}
	if h > 5 {
		t.Errorf("tip is 4 and the tx is unconfirmed, but the persisted "+
			"hint is still %d: it claims the tx cannot confirm in "+
			"block 5", h)
	}

	// Consequence: the node restarts again, the tx confirms in the new
	// block 5 before the client has re-registered, and the rescan that
	// starts at the hint never looks at block 5.
	n.TearDown()
	n2 := chainntnfs.NewTxNotifier(4, 144, hints, hints)
	defer n2.TearDown()
	if err := n2.ConnectTip(c14ReproBlock(3, tx), 5); err != nil {
		t.Fatal(err)
	}
	if err := n2.NotifyHeight(5); err != nil {
		t.Fatal(err)
	}
	reg2, err := n2.RegisterConf(&txid, c14ReproScript, 1, 1)
	if err != nil {
		t.Fatal(err)
	}
	if d := reg2.HistoricalDispatch; d == nil || d.StartHeight > 5 {
		t.Errorf("tx confirmed at height 5, client hint 1, but the "+
			"rescan is %+v: block 5 is never scanned and the "+
			"confirmation is missed", d)
	}
}

// Finding C14:register-between-connect-and-notify:block-option.
func TestVerifC14ReproBlockOption(t *testing.T) {
	hints := c14NewMemCache()
	n := chainntnfs.NewTxNotifier(6, 144, hints, hints)
	defer n.TearDown()

	tx := c14ReproTx()
	txid := tx.TxHash()

	// Client A wants the block along with the confirmation.
	regA, err := n.RegisterConf(
		&txid, c14ReproScript, 1, 7, chainntnfs.WithIncludeBlock(),
	)
	if err != nil {
		t.Fatal(err)
	}

	// Block 7 confirms the tx. Between ConnectTip and NotifyHeight (the
	// notifier's lock is released there) client B registers without the
	// block option.
	if err := n.ConnectTip(c14ReproBlock(4, tx), 7); err != nil {
		t.Fatal(err)
	}
	if _, err := n.RegisterConf(&txid, c14ReproScript, 1, 7); err != nil {
		t.Fatal(err)
	}
	if err := n.NotifyHeight(7); err != nil {
		t.Fatal(err)
	}

	select {
	case d := <-regA.Event.Confirmed:
		if d.Block == nil {
			t.Errorf("client A registered WithIncludeBlock but its " +
				"Confirmed carries no block (client B's option " +
				"was applied)")
		}
	default:
		t.Fatalf("client A not confirmed")
	}
}
