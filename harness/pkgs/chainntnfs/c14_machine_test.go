//go:build verif

package chainntnfs_test

// C14 — confirmation and spend notifications follow the active chain through
// any reorg; persisted height hints never exceed the real confirmation/spend
// height.
//
// A rapid state machine drives a real chainntnfs.TxNotifier (with either a
// harness-owned in-memory hint cache or the real channeldb.HeightHintCache on
// bbolt) and, in lock step, the reference chain model of c14_model_test.go.
// The harness plays the chain backend: it connects/disconnects blocks, and it
// answers historical-rescan dispatches *later* from the model's then-active
// chain. After every single notifier call all event channels of all clients
// are drained into per-client logs and the oracle (two implications, not an
// equivalence) is evaluated:
//
//	soundness:    every event a client receives is true on the model's
//	              active chain at that moment (heights, hashes, indexes,
//	              confirmations left, reorg depth), at most one
//	              Confirmed/Spend is outstanding, and while one is
//	              outstanding its block is still on the active chain;
//	completeness: once the harness has answered the request's rescan, a tx
//	              with >= numConfs confirmations on the active chain has an
//	              outstanding Confirmed (same for spends);
//	hints:        a persisted hint never exceeds the height at which the
//	              request is satisfied on the active chain.
//
// The design is synchronous and needs no watchdog: right after registration
// the harness replaces the event channels of the returned (shared) Event
// struct by larger ones, so a send beyond the documented capacity within one
// call cannot block and is reported as a violation instead.

import (
	"errors"
	"fmt"
	"os"
	"strings"
	"testing"

	"github.com/btcsuite/btcd/btcutil/v2"
	"github.com/btcsuite/btcd/chainhash/v2"
	"github.com/lightningnetwork/lnd/chainntnfs"
	"github.com/lightningnetwork/lnd/channeldb"
	"github.com/lightningnetwork/lnd/internal/verif/vstats"
	"github.com/lightningnetwork/lnd/kvdb"
	"pgregory.net/rapid"
)

type c14Cache interface {
	chainntnfs.ConfirmHintCache
	chainntnfs.SpendHintCache
}

const c14BigChan = 256

type c14CallKind int

const (
	c14CkConnectTip c14CallKind = iota
	c14CkNotify
	c14CkDisconnect
	c14CkRewind
	c14CkRegister
	c14CkCancel
	c14CkUpdate
	c14CkTearDown
)

func (k c14CallKind) String() string {
	return [...]string{
		"ConnectTip", "NotifyHeight", "DisconnectTip", "RewindChain",
		"Register", "Cancel", "UpdateDetails", "TearDown",
	}[k]
}

type c14Call struct {
	kind c14CallKind

	// removed are the blocks taken off the view by this call, in order of
	// removal; consec0 is the successive-disconnect count before it.
	removed []*c14Block
	consec0 int32

	// registrant is the conf client created by a Register call.
	registrant *c14ConfClient
}

type c14ConfClient struct {
	id           int
	r            *c14ConfReq
	n            uint32
	includeBlock bool
	ev           *chainntnfs.ConfirmationEvent

	closed bool
	done   bool

	outstanding *chainntnfs.TxConfirmation
	reorgedH    uint32 // inclusion height of the last reorged-out notice
	informed    bool
	infH        uint32
	lastLeft    int64 // last Updates value since the last disconnect
}

type c14SpendClient struct {
	id int
	r  *c14SpendReq
	ev *chainntnfs.SpendEvent

	closed bool
	done   bool

	outstanding *chainntnfs.SpendDetail
	reorgedTx   *chainhash.Hash // spender of the last reorged-out Spend
}

type c14M struct {
	t     *rapid.T
	u     *c14Universe
	ch    *c14Chain
	limit uint32
	n     *chainntnfs.TxNotifier

	// cache is what the oracle reads; ncache is what the notifier uses
	// (the same object except for the bbolt QueryDisable variant).
	cache  c14Cache
	ncache c14Cache
	bolt   *c14Bolt

	session int

	confReqs  []*c14ConfReq
	spendReqs []*c14SpendReq
	confs     []*c14ConfClient
	spends    []*c14SpendClient

	midConnect bool
	maxN       uint32

	log   []string
	flags map[string]bool
	st    *vstats.Collector
}

func (m *c14M) logf(format string, a ...any) {
	m.log = append(m.log, fmt.Sprintf(format, a...))
}

func (m *c14M) failf(format string, a ...any) {
	msg := fmt.Sprintf(format, a...)
	m.t.Fatalf("C14 violation: %s\n--- history (limit=%d) ---\n%s", msg,
		m.limit, strings.Join(m.log, "\n"))
}

// c14Uniform draws an (almost exactly) uniform integer in [0,n), n <= 1024.
// rapid's own integer generators are deliberately biased towards small
// values, which is wrong for probabilities and weights; ten fair booleans are
// still ordinary rapid draws (replayable and shrinkable).
func c14Uniform(t *rapid.T, label string, n int) int {
	bits := rapid.SliceOfN(rapid.Bool(), 10, 10).Draw(t, label)
	v := 0
	for _, b := range bits {
		v <<= 1
		if b {
			v |= 1
		}
	}

	return v * n / 1024
}

func (m *c14M) pct(label string) int { return c14Uniform(m.t, label, 100) }

func c14Drain[T any](ch chan T) ([]T, bool) {
	var vals []T
	for {
		select {
		case v, ok := <-ch:
			if !ok {
				return vals, true
			}
			vals = append(vals, v)
		default:
			return vals, false
		}
	}
}

// ---------------------------------------------------------------------------
// Oracle.

func (m *c14M) afterCall(ck c14Call) {
	isDisc := ck.kind == c14CkDisconnect || ck.kind == c14CkRewind
	if isDisc && len(ck.removed) > 0 {
		m.taintUnwatched()
	}
	for _, c := range m.confs {
		if c.closed {
			continue
		}
		if isDisc && len(ck.removed) > 0 {
			c.lastLeft = -1
		}
		m.processConf(c, ck)
	}
	for _, c := range m.spends {
		if c.closed {
			continue
		}
		m.processSpend(c, ck)
	}
	if ck.kind == c14CkTearDown {
		return
	}
	m.invariants()
	m.hintBounds()
	if !m.midConnect {
		m.completeness()
	}
}

func (m *c14M) processConf(c *c14ConfClient, ck c14Call) {
	ups, cl1 := c14Drain(c.ev.Updates)
	confs, cl2 := c14Drain(c.ev.Confirmed)
	negs, cl3 := c14Drain(c.ev.NegativeConf)
	dones, _ := c14Drain(c.ev.Done)
	who := fmt.Sprintf("conf client #%d %s n=%d", c.id, c.r.name, c.n)

	if cl1 || cl2 || cl3 {
		if !(cl1 && cl2 && cl3) {
			m.failf("%s: channels partially closed", who)
		}
		if ck.kind != c14CkCancel && ck.kind != c14CkTearDown {
			m.failf("%s: channels closed by %v", who, ck.kind)
		}
		c.closed = true
	}
	nev := len(ups) + len(confs) + len(negs) + len(dones)
	if nev == 0 {
		return
	}
	if ck.kind == c14CkCancel || ck.kind == c14CkTearDown {
		m.failf("%s: %d events emitted by %v", who, nev, ck.kind)
	}
	if c.done {
		m.failf("%s: %d events after Done", who, nev)
	}
	// A real client has channel capacities 1/numConfs/1/1; more sends
	// within one call would block the notifier forever.
	if len(confs) > 1 || len(negs) > 1 || len(dones) > 1 ||
		uint32(len(ups)) > c.n {

		m.failf("%s: %v sent %d Confirmed, %d NegativeConf, %d Done, "+
			"%d Updates in one call (would block)", who, ck.kind,
			len(confs), len(negs), len(dones), len(ups))
	}

	tip := m.ch.tip

	for _, depth := range negs {
		m.logf("    -> #%d NegativeConf(%d)", c.id, depth)
		if !(ck.kind == c14CkDisconnect || ck.kind == c14CkRewind) {
			m.failf("%s: NegativeConf emitted by %v", who, ck.kind)
		}
		if !c.informed {
			m.failf("%s: NegativeConf but the client was never "+
				"told of an inclusion", who)
		}
		ok := false
		for j, b := range ck.removed {
			if b.height != c.infH {
				continue
			}
			has := false
			for _, id := range c.r.matches {
				if _, in := b.contains(id); in {
					has = true
				}
			}
			if !has {
				m.failf("%s: NegativeConf for block %d that "+
					"did not contain the tx", who, b.height)
			}
			if want := ck.consec0 + int32(j) + 1; depth != want {
				m.failf("%s: NegativeConf depth %d, want %d",
					who, depth, want)
			}
			ok = true
		}
		if !ok {
			m.failf("%s: NegativeConf(%d) but inclusion block %d "+
				"was not disconnected", who, depth, c.infH)
		}
		c.reorgedH = c.infH
		c.informed = false
		c.outstanding = nil
		c.lastLeft = -1
		c.r.reorgSeen = true
		m.flags["reorg_watched"] = true
		m.flags["reorg_conf"] = true
	}

	f := m.ch.confOf(c.r, 0, tip)
	for _, u := range ups {
		m.logf("    -> #%d Update(left=%d,h=%d)", c.id, u.NumConfsLeft,
			u.BlockHeight)
		if f == nil {
			m.failf("%s: Update(%d left, height %d) but the tx is "+
				"not on the active chain", who, u.NumConfsLeft,
				u.BlockHeight)
		}
		if u.BlockHeight != f.height {
			m.failf("%s: Update height %d, active chain has it at "+
				"%d", who, u.BlockHeight, f.height)
		}
		var want uint32
		if f.height+c.n-1 > tip {
			want = f.height + c.n - 1 - tip
		}
		if u.NumConfsLeft != want {
			m.failf("%s: Update says %d confs left, active chain "+
				"says %d (incl=%d tip=%d)", who, u.NumConfsLeft,
				want, f.height, tip)
		}
		if c.lastLeft >= 0 && int64(u.NumConfsLeft) >= c.lastLeft {
			m.failf("%s: Updates not strictly decreasing: %d "+
				"after %d", who, u.NumConfsLeft, c.lastLeft)
		}
		if c.informed && c.infH != u.BlockHeight {
			m.failf("%s: Update height changed %d -> %d without "+
				"reorg notice", who, c.infH, u.BlockHeight)
		}
		c.lastLeft = int64(u.NumConfsLeft)
		c.informed = true
		c.infH = u.BlockHeight
		if c.r.reorgSeen {
			m.flags["reincluded"] = true
		}
	}

	for _, d := range confs {
		if d == nil {
			m.failf("%s: nil Confirmed", who)
		}
		m.logf("    -> #%d Confirmed(h=%d,idx=%d)", c.id, d.BlockHeight,
			d.TxIndex)
		if c.outstanding != nil {
			m.failf("%s: second Confirmed without a reorg notice "+
				"in between", who)
		}
		if f == nil {
			m.failf("%s: Confirmed(height %d) but the tx is not on "+
				"the active chain", who, d.BlockHeight)
		}
		if d.BlockHeight != f.height || d.BlockHash == nil ||
			*d.BlockHash != f.block.hash || d.TxIndex != f.index {

			m.failf("%s: Confirmed details (h=%d hash=%v idx=%d) "+
				"differ from the active chain (h=%d hash=%v "+
				"idx=%d)", who, d.BlockHeight, d.BlockHash,
				d.TxIndex, f.height, f.block.hash, f.index)
		}
		if d.Tx == nil || d.Tx.TxHash() != f.tx.hash {
			m.failf("%s: Confirmed carries the wrong tx", who)
		}
		if tip+1-f.height < c.n {
			m.failf("%s: Confirmed with only %d of %d "+
				"confirmations (incl=%d tip=%d)", who,
				tip+1-f.height, c.n, f.height, tip)
		}
		if c.informed && c.infH != d.BlockHeight {
			m.failf("%s: Confirmed height %d differs from updates "+
				"height %d", who, d.BlockHeight, c.infH)
		}
		// The block is delivered iff the client asked for it, and it is
		// the inclusion block. Known candidate finding (narrow
		// exclusion): a RegisterConf of *another* client that lands
		// between ConnectTip and NotifyHeight dispatches to this client
		// with the registrant's block option.
		if d.Block != nil && d.Block.BlockHash() != f.block.hash {
			m.failf("%s: Confirmed carries a block that is not the "+
				"inclusion block", who)
		}
		if (d.Block != nil) != c.includeBlock {
			foreign := ck.kind == c14CkRegister &&
				ck.registrant != nil && ck.registrant != c &&
				ck.registrant.r == c.r &&
				ck.registrant.includeBlock != c.includeBlock &&
				m.midConnect
			if !(foreign && m.known(c14KeyBlockOpt)) {
				m.failf("%s: block requested=%v but delivered=%v "+
					"[%s]", who, c.includeBlock, d.Block != nil,
					c14KeyBlockOpt)
			}
			m.flags["known_block_option"] = true
		} else if c.includeBlock {
			m.flags["include_block"] = true
		}
		c.outstanding = d
		c.informed = true
		c.infH = d.BlockHeight
		m.flags["confirmed"] = true
		if c.r.reorgSeen {
			m.flags["reincluded"] = true
			m.flags["reconfirmed"] = true
		}
		if c.reorgedH != 0 && c.reorgedH != d.BlockHeight {
			m.flags["reconfirmed_other_height"] = true
		}
		if c.r.txid == nil {
			m.flags["script_conf"] = true
		}
	}

	for range dones {
		m.logf("    -> #%d Done", c.id)
		if ck.kind != c14CkConnectTip {
			m.failf("%s: Done emitted by %v", who, ck.kind)
		}
		if c.outstanding == nil {
			m.failf("%s: Done without an outstanding Confirmed", who)
		}
		if uint64(tip) < uint64(c.outstanding.BlockHeight)+
			uint64(m.limit) {

			m.failf("%s: Done before maturity (incl=%d tip=%d "+
				"limit=%d)", who, c.outstanding.BlockHeight, tip,
				m.limit)
		}
		c.done = true
		m.flags["done"] = true
	}
}

func (m *c14M) processSpend(c *c14SpendClient, ck c14Call) {
	sps, cl1 := c14Drain(c.ev.Spend)
	reorgs, cl2 := c14Drain(c.ev.Reorg)
	dones, cl3 := c14Drain(c.ev.Done)
	who := fmt.Sprintf("spend client #%d %s", c.id, c.r.name)

	if cl1 || cl2 || cl3 {
		if !(cl1 && cl2 && cl3) {
			m.failf("%s: channels partially closed", who)
		}
		if ck.kind != c14CkCancel && ck.kind != c14CkTearDown {
			m.failf("%s: channels closed by %v", who, ck.kind)
		}
		c.closed = true
	}
	nev := len(sps) + len(reorgs) + len(dones)
	if nev == 0 {
		return
	}
	if ck.kind == c14CkCancel || ck.kind == c14CkTearDown {
		m.failf("%s: %d events emitted by %v", who, nev, ck.kind)
	}
	if c.done {
		m.failf("%s: %d events after Done", who, nev)
	}
	if len(sps) > 1 || len(reorgs) > 1 || len(dones) > 1 {
		m.failf("%s: %v sent %d Spend, %d Reorg, %d Done in one call "+
			"(would block)", who, ck.kind, len(sps), len(reorgs),
			len(dones))
	}

	tip := m.ch.tip

	for range reorgs {
		m.logf("    -> #%d Reorg", c.id)
		if !(ck.kind == c14CkDisconnect || ck.kind == c14CkRewind) {
			m.failf("%s: Reorg emitted by %v", who, ck.kind)
		}
		if c.outstanding == nil {
			m.failf("%s: Reorg without an outstanding Spend", who)
		}
		ok := false
		for _, b := range ck.removed {
			if int32(b.height) == c.outstanding.SpendingHeight {
				ok = true
			}
		}
		if !ok {
			m.failf("%s: Reorg but spending block %d was not "+
				"disconnected", who, c.outstanding.SpendingHeight)
		}
		c.reorgedTx = c.outstanding.SpenderTxHash
		c.outstanding = nil
		c.r.reorgSeen = true
		m.flags["reorg_watched"] = true
		m.flags["reorg_spend"] = true
	}

	f := m.ch.spendOf(c.r, 0, tip)
	for _, d := range sps {
		if d == nil {
			m.failf("%s: nil Spend", who)
		}
		m.logf("    -> #%d Spend(h=%d,in=%d)", c.id, d.SpendingHeight,
			d.SpenderInputIndex)
		if c.outstanding != nil {
			m.failf("%s: second Spend without a Reorg in between",
				who)
		}
		if f == nil {
			m.failf("%s: Spend(height %d) but the outpoint is "+
				"unspent on the active chain", who,
				d.SpendingHeight)
		}
		if d.SpendingHeight != int32(f.height) ||
			d.SpenderTxHash == nil ||
			*d.SpenderTxHash != f.tx.hash ||
			d.SpendingTx == nil ||
			d.SpendingTx.TxHash() != f.tx.hash ||
			d.SpenderInputIndex != f.tx.inIdx ||
			d.SpentOutPoint == nil ||
			*d.SpentOutPoint != m.u.slots[c.r.slot].op {

			m.failf("%s: Spend details (h=%d tx=%v in=%d op=%v) "+
				"differ from the active chain (h=%d tx=%v in=%d)",
				who, d.SpendingHeight, d.SpenderTxHash,
				d.SpenderInputIndex, d.SpentOutPoint, f.height,
				f.tx.hash, f.tx.inIdx)
		}
		c.outstanding = d
		m.flags["spend"] = true
		if c.r.reorgSeen {
			m.flags["reincluded"] = true
			m.flags["respent"] = true
		}
		if c.reorgedTx != nil && *c.reorgedTx != *d.SpenderTxHash {
			m.flags["respent_by_conflicting_tx"] = true
		}
		if c.r.op == nil {
			m.flags["script_spend"] = true
		}
	}

	for range dones {
		m.logf("    -> #%d Done", c.id)
		if ck.kind != c14CkConnectTip {
			m.failf("%s: Done emitted by %v", who, ck.kind)
		}
		if c.outstanding == nil {
			m.failf("%s: Done without an outstanding Spend", who)
		}
		if uint64(tip) < uint64(c.outstanding.SpendingHeight)+
			uint64(m.limit) {

			m.failf("%s: Done before maturity (spent=%d tip=%d "+
				"limit=%d)", who, c.outstanding.SpendingHeight,
				tip, m.limit)
		}
		c.done = true
		m.flags["done"] = true
	}
}

// taintUnwatched: a hint persisted by an earlier notifier session says "not
// confirmed below h". If the chain is reorganised to below h-1 while nobody
// watches the request in the current session, the notifier cannot know and
// the hint may become wrong (the documented limitation behind
// CacheConfig.QueryDisable). Such requests leave the domain of the hint and
// completeness checks.
func (m *c14M) taintUnwatched() {
	tip := m.ch.tip
	for _, r := range m.confReqs {
		if !r.everReg || r.invalid || r.session == m.session {
			continue
		}
		h, err := m.cache.QueryConfirmHint(r.req)
		if err == nil && tip+1 < h {
			r.invalid = true
			m.flags["stale_hint_unwatched"] = true
		}
	}
	for _, r := range m.spendReqs {
		if !r.everReg || r.invalid || r.session == m.session {
			continue
		}
		h, err := m.cache.QuerySpendHint(r.req)
		if err == nil && tip+1 < h {
			r.invalid = true
			m.flags["stale_hint_unwatched"] = true
		}
	}
}

// invariants: whatever a client currently believes is true on the active
// chain. A disconnect of the inclusion/spending block without a reorg notice
// in the same call trips here.
func (m *c14M) invariants() {
	tip := m.ch.tip
	for _, c := range m.confs {
		if c.closed {
			continue
		}
		who := fmt.Sprintf("conf client #%d %s n=%d", c.id, c.r.name,
			c.n)
		if c.informed {
			f := m.ch.confOf(c.r, 0, tip)
			if f == nil || f.height != c.infH {
				m.failf("%s: was told the tx is in block %d, that "+
					"is no longer true and no reorg notice was "+
					"sent", who, c.infH)
			}
		}
		if d := c.outstanding; d != nil {
			b := m.ch.byHeight[d.BlockHeight]
			if b == nil || b.hash != *d.BlockHash {
				m.failf("%s: outstanding Confirmed for block %v at "+
					"%d which is not on the active chain", who,
					d.BlockHash, d.BlockHeight)
			}
		}
	}
	for _, c := range m.spends {
		if c.closed {
			continue
		}
		if d := c.outstanding; d != nil {
			f := m.ch.spendOf(c.r, 0, tip)
			if f == nil || int32(f.height) != d.SpendingHeight ||
				f.tx.hash != *d.SpenderTxHash {

				m.failf("spend client #%d %s: outstanding Spend "+
					"(tx %v at %d) is not on the active chain "+
					"and no Reorg was sent", c.id, c.r.name,
					d.SpenderTxHash, d.SpendingHeight)
			}
		}
	}
}

// completeness: once nothing is pending for a request, a sufficiently
// confirmed tx / an existing spend has been notified.
func (m *c14M) completeness() {
	tip := m.ch.tip
	for _, c := range m.confs {
		if c.closed || c.done || c.r.invalid || c.r.pending != nil {
			continue
		}
		f := m.ch.confOf(c.r, 0, tip)
		if f == nil {
			continue
		}
		who := fmt.Sprintf("conf client #%d %s n=%d", c.id, c.r.name,
			c.n)
		if !c.informed {
			m.failf("%s: tx is in block %d of the active chain "+
				"(tip %d), rescans answered, but the client was "+
				"never told", who, f.height, tip)
		}
		if tip+1-f.height >= c.n && c.outstanding == nil {
			m.failf("%s: tx has %d confirmations (incl=%d tip=%d) "+
				"but no Confirmed is outstanding", who,
				tip+1-f.height, f.height, tip)
		}
	}
	for _, c := range m.spends {
		if c.closed || c.done || c.r.invalid || c.r.pending != nil {
			continue
		}
		f := m.ch.spendOf(c.r, 0, tip)
		if f == nil {
			continue
		}
		if c.outstanding == nil {
			m.failf("spend client #%d %s: outpoint spent at %d on "+
				"the active chain (tip %d), rescans answered, but "+
				"no Spend is outstanding", c.id, c.r.name,
				f.height, tip)
		}
	}
}

func (m *c14M) hintBounds() {
	tip := m.ch.tip
	for _, r := range m.confReqs {
		if !r.everReg || r.invalid {
			continue
		}
		h, err := m.cache.QueryConfirmHint(r.req)
		if errors.Is(err, chainntnfs.ErrConfirmHintNotFound) {
			continue
		}
		if err != nil {
			m.failf("QueryConfirmHint(%s): %v", r.name, err)
		}
		if f := m.ch.confOf(r, 0, tip); f != nil {
			if h > f.height {
				m.failf("confirm hint %d for %s exceeds its "+
					"confirmation height %d on the active chain",
					h, r.name, f.height)
			}
			m.flags["hint_checked_confirmed"] = true
		} else if h > tip+1 && r.session == m.session {
			m.hintAboveTip("confirm", r.name, h, r.pending != nil)
		}
	}
	for _, r := range m.spendReqs {
		if !r.everReg || r.invalid {
			continue
		}
		h, err := m.cache.QuerySpendHint(r.req)
		if errors.Is(err, chainntnfs.ErrSpendHintNotFound) {
			continue
		}
		if err != nil {
			m.failf("QuerySpendHint(%s): %v", r.name, err)
		}
		if f := m.ch.spendOf(r, 0, tip); f != nil {
			if h > f.height {
				m.failf("spend hint %d for %s exceeds its spend "+
					"height %d on the active chain", h, r.name,
					f.height)
			}
			m.flags["hint_checked_spent"] = true
		} else if h > tip+1 && r.session == m.session {
			m.hintAboveTip("spend", r.name, h, r.pending != nil)
		}
	}
}

// hintAboveTip handles a hint for a watched, not yet confirmed/spent request
// that points beyond the next block. Such a hint claims "not confirmed below
// h" for blocks that do not exist yet; it turns into a hint above the real
// confirmation height as soon as the tx confirms below h while the request is
// not watched (restart). On the unchanged tree this happens exactly for
// requests whose rescan is pending while blocks are disconnected (known
// candidate finding c14KeyPendingHint, narrow exclusion: only while the
// harness still owes the answer of that rescan).
func (m *c14M) hintAboveTip(kind, name string, h uint32, pending bool) {
	if pending && m.known(c14KeyPendingHint) {
		m.flags["known_pending_hint"] = true
		return
	}
	m.failf("%s hint %d for the watched, unconfirmed %s is above tip+1=%d "+
		"[%s]", kind, h, name, m.ch.tip+1, c14KeyPendingHint)
}

const (
	// c14KeyBlockOpt: RegisterConf between ConnectTip and NotifyHeight
	// hands the registrant's includeBlock option to the other clients.
	c14KeyBlockOpt = "C14:register-between-connect-and-notify:block-option"

	// c14KeyNoClient: Update{Conf,Spend}Details with found details while
	// all clients of the request have cancelled.
	c14KeyNoClient = "C14:historical-details-without-clients"

	// c14KeyPendingHint: DisconnectTip does not lower the persisted hint
	// of a request whose historical rescan is still pending.
	c14KeyPendingHint = "C14:pending-rescan-hint-not-lowered-on-disconnect"
)

// known reports whether a candidate finding is listed with status "known" in
// known_findings.json and records the hit. With status "fixed" (or no entry)
// the class is generated and asserted like everything else.
func (m *c14M) known(key string) bool {
	if !vstats.IsKnown(key) {
		return false
	}
	m.st.Known(key)
	m.st.Count("excluded_known", 1)

	return true
}

// ---------------------------------------------------------------------------
// Actions.

func (m *c14M) drawHint(f *c14Found) (uint32, bool) {
	tip := m.ch.tip
	lo := uint32(1)
	if m.ch.floor > 2 {
		lo = m.ch.floor - 1
	}
	k := m.pct("hintKind")
	if f != nil {
		switch {
		case k < 50:
			return rapid.Uint32Range(lo, f.height).Draw(
				m.t, "hint"), false
		case k < 98:
			return f.height, false
		default:
			return rapid.Uint32Range(f.height+1, tip+2).Draw(
				m.t, "hint"), true
		}
	}
	switch {
	case k < 40:
		return rapid.Uint32Range(lo, tip).Draw(m.t, "hint"), false
	case k < 70:
		return tip + rapid.Uint32Range(0, 1).Draw(m.t, "hint"), false
	default:
		return tip + rapid.Uint32Range(1, 3).Draw(m.t, "hint"), false
	}
}

func (m *c14M) pickConfReq() *c14ConfReq {
	var reg []*c14ConfReq
	for _, r := range m.confReqs {
		if r.everReg {
			reg = append(reg, r)
		}
	}
	if len(reg) > 0 && m.pct("again") < 55 {
		return reg[c14Uniform(m.t, "req", len(reg))]
	}

	return m.confReqs[c14Uniform(m.t, "req", len(m.confReqs))]
}

func (m *c14M) pickSpendReq() *c14SpendReq {
	var reg []*c14SpendReq
	for _, r := range m.spendReqs {
		if r.everReg {
			reg = append(reg, r)
		}
	}
	if len(reg) > 0 && m.pct("again") < 55 {
		return reg[c14Uniform(m.t, "req", len(reg))]
	}

	return m.spendReqs[c14Uniform(m.t, "req", len(m.spendReqs))]
}

func (m *c14M) actRegisterConf() {
	r := m.pickConfReq()
	tip := m.ch.tip
	f := m.ch.confOf(r, 0, tip)
	hint, invalid := m.drawHint(f)
	numConfs := rapid.Uint32Range(1, m.maxN).Draw(m.t, "numConfs")
	incl := rapid.Bool().Draw(m.t, "includeBlock")

	var opts []chainntnfs.NotifierOption
	if incl {
		opts = append(opts, chainntnfs.WithIncludeBlock())
	}
	m.logf("registerConf #%d %s n=%d hint=%d incl=%v (tip=%d, invalid=%v)",
		len(m.confs), r.name, numConfs, hint, incl, tip, invalid)

	reg, err := m.n.RegisterConf(r.txid, r.script, numConfs, hint, opts...)
	if err != nil {
		m.failf("RegisterConf: %v", err)
	}
	if reg.Height != tip {
		m.failf("RegisterConf reports notifier height %d, chain tip "+
			"is %d", reg.Height, tip)
	}
	r.everReg = true
	r.session = m.session
	if invalid {
		r.invalid = true
		m.flags["invalid_hint"] = true
	}
	c := &c14ConfClient{
		id: len(m.confs), r: r, n: numConfs, includeBlock: incl,
		ev: reg.Event, lastLeft: -1,
	}
	m.confs = append(m.confs, c)

	if d := reg.HistoricalDispatch; d != nil {
		if d.ConfRequest != r.req || d.EndHeight != tip ||
			d.StartHeight > d.EndHeight || d.StartHeight < hint {

			m.failf("RegisterConf: bad dispatch %+v (hint %d tip "+
				"%d)", d, hint, tip)
		}
		m.logf("    dispatch [%d,%d]", d.StartHeight, d.EndHeight)
		r.pending = &c14ConfDispatch{
			r: r, start: d.StartHeight, end: d.EndHeight,
			session: m.session,
		}
	}

	m.afterCall(c14Call{kind: c14CkRegister, registrant: c})

	// Replace the channels by roomy ones (see file comment). The event
	// struct is shared with the notifier, which reads the fields on every
	// send.
	c.ev.Confirmed = make(chan *chainntnfs.TxConfirmation, c14BigChan)
	c.ev.Updates = make(chan chainntnfs.TxUpdateInfo, c14BigChan)
	c.ev.NegativeConf = make(chan int32, c14BigChan)
	c.ev.Done = make(chan struct{}, c14BigChan)
}

func (m *c14M) actRegisterSpend() {
	r := m.pickSpendReq()
	tip := m.ch.tip
	f := m.ch.spendOf(r, 0, tip)
	hint, invalid := m.drawHint(f)
	m.logf("registerSpend #%d %s hint=%d (tip=%d, invalid=%v)",
		len(m.spends), r.name, hint, tip, invalid)

	reg, err := m.n.RegisterSpend(r.op, r.script, hint)
	if err != nil {
		m.failf("RegisterSpend: %v", err)
	}
	if reg.Height != tip {
		m.failf("RegisterSpend reports notifier height %d, chain tip "+
			"is %d", reg.Height, tip)
	}
	r.everReg = true
	r.session = m.session
	if invalid {
		r.invalid = true
		m.flags["invalid_hint"] = true
	}
	c := &c14SpendClient{id: len(m.spends), r: r, ev: reg.Event}
	m.spends = append(m.spends, c)

	if d := reg.HistoricalDispatch; d != nil {
		if d.SpendRequest != r.req || d.EndHeight != tip ||
			d.StartHeight > d.EndHeight || d.StartHeight < hint {

			m.failf("RegisterSpend: bad dispatch %+v (hint %d tip "+
				"%d)", d, hint, tip)
		}
		m.logf("    dispatch [%d,%d]", d.StartHeight, d.EndHeight)
		r.pending = &c14SpendDispatch{
			r: r, start: d.StartHeight, end: d.EndHeight,
			session: m.session,
		}
	}

	m.afterCall(c14Call{kind: c14CkRegister})

	c.ev.Spend = make(chan *chainntnfs.SpendDetail, c14BigChan)
	c.ev.Reorg = make(chan struct{}, c14BigChan)
	c.ev.Done = make(chan struct{}, c14BigChan)
}

func (m *c14M) liveClients() (confs []*c14ConfClient,
	spends []*c14SpendClient) {

	for _, c := range m.confs {
		if !c.closed {
			confs = append(confs, c)
		}
	}
	for _, c := range m.spends {
		if !c.closed {
			spends = append(spends, c)
		}
	}

	return confs, spends
}

func (m *c14M) actCancel() {
	confs, spends := m.liveClients()
	i := c14Uniform(m.t, "victim", len(confs)+len(spends))
	open := len(confs) + len(spends)
	var wasDone bool
	if i < len(confs) {
		c := confs[i]
		wasDone = c.done
		m.logf("cancel conf #%d", c.id)
		c.ev.Cancel()
		m.afterCall(c14Call{kind: c14CkCancel})
		if !c.closed && !c.done {
			m.failf("conf client #%d: Cancel did not close the "+
				"channels", c.id)
		}
		// After Done the request is gone from the notifier and
		// Cancel is a no-op; stop tracking the client either way.
		c.closed = true
	} else {
		c := spends[i-len(confs)]
		wasDone = c.done
		m.logf("cancel spend #%d", c.id)
		c.ev.Cancel()
		m.afterCall(c14Call{kind: c14CkCancel})
		if !c.closed && !c.done {
			m.failf("spend client #%d: Cancel did not close the "+
				"channels", c.id)
		}
		c.closed = true
	}
	confs, spends = m.liveClients()
	if len(confs)+len(spends) != open-1 {
		m.failf("Cancel of one client (done=%v) closed %d clients",
			wasDone, open-len(confs)-len(spends))
	}
	m.flags["cancel"] = true
}

func (m *c14M) pendingDispatches() (confs []*c14ConfReq,
	spends []*c14SpendReq) {

	for _, r := range m.confReqs {
		if r.pending != nil {
			confs = append(confs, r)
		}
	}
	for _, r := range m.spendReqs {
		if r.pending != nil {
			spends = append(spends, r)
		}
	}

	return confs, spends
}

// withhold implements the narrow exclusion of the known candidate finding
// c14KeyNoClient: *found* historical details delivered while the request has
// no live client are cached but never indexed by height, so a later disconnect
// of that block goes unnoticed. While the finding is listed as known such an
// answer is postponed (the dispatch stays pending) until a client exists or
// the scan comes back empty.
func (m *c14M) withhold(found, live bool) bool {
	if !found || live || !m.known(c14KeyNoClient) {
		return false
	}
	m.flags["known_no_client"] = true
	m.logf("    (answer postponed: details found but no live client)")

	return true
}

func (m *c14M) hasLiveConf(r *c14ConfReq) bool {
	for _, c := range m.confs {
		if c.r == r && !c.closed && !c.done {
			return true
		}
	}

	return false
}

func (m *c14M) hasLiveSpend(r *c14SpendReq) bool {
	for _, c := range m.spends {
		if c.r == r && !c.closed && !c.done {
			return true
		}
	}

	return false
}

// actRescan answers one pending historical dispatch from the model's
// then-active chain.
func (m *c14M) actRescan() { m.rescan(false) }

func (m *c14M) rescan(final bool) {
	confs, spends := m.pendingDispatches()
	i := c14Uniform(m.t, "dispatch", len(confs)+len(spends))
	tip := m.ch.tip
	if i < len(confs) {
		r := confs[i]
		d := r.pending
		lo, hi := d.start, d.end
		if hi > tip {
			hi = tip
		}
		txindex := r.txid != nil &&
			m.pct("txindex") < 25
		if txindex {
			lo, hi = 0, tip
		}
		f := m.ch.confOf(r, lo, hi)
		var details *chainntnfs.TxConfirmation
		if f != nil {
			hash := f.block.hash
			details = &chainntnfs.TxConfirmation{
				BlockHash:   &hash,
				BlockHeight: f.height,
				TxIndex:     f.index,
				Tx:          f.tx.msg.Copy(),
				Block:       f.block.blk.MsgBlock(),
			}
		}
		m.logf("rescanConf %s [%d,%d] txindex=%v -> %v (after %d "+
			"connects)", r.name, d.start, d.end, txindex,
			c14FoundStr(f), d.connects)
		if m.withhold(f != nil, m.hasLiveConf(r)) {
			if final {
				r.pending = nil
			}
			return
		}
		r.pending = nil
		if d.connects > 0 {
			m.flags["rescan_late"] = true
		}
		if f != nil {
			m.flags["rescan_found"] = true
			if d.connects > 0 {
				m.flags["rescan_late_found"] = true
			}
		}
		err := m.n.UpdateConfDetails(r.req, details)
		m.updateErr(err)
	} else {
		r := spends[i-len(confs)]
		d := r.pending
		lo, hi := d.start, d.end
		if hi > tip {
			hi = tip
		}
		f := m.ch.spendOf(r, lo, hi)
		var details *chainntnfs.SpendDetail
		if f != nil {
			op := m.u.slots[r.slot].op
			hash := f.tx.hash
			details = &chainntnfs.SpendDetail{
				SpentOutPoint:     &op,
				SpenderTxHash:     &hash,
				SpendingTx:        f.tx.msg.Copy(),
				SpenderInputIndex: f.tx.inIdx,
				SpendingHeight:    int32(f.height),
			}
		}
		m.logf("rescanSpend %s [%d,%d] -> %v (after %d connects)",
			r.name, d.start, d.end, c14FoundStr(f), d.connects)
		if m.withhold(f != nil, m.hasLiveSpend(r)) {
			if final {
				r.pending = nil
			}
			return
		}
		r.pending = nil
		if d.connects > 0 {
			m.flags["rescan_late"] = true
		}
		if f != nil {
			m.flags["rescan_found"] = true
			if d.connects > 0 {
				m.flags["rescan_late_found"] = true
			}
		}
		if f != nil && m.relevantTxOK(r) && m.pct("relevantTx") < 30 {
			// The btcd/neutrino way: hand the spending tx itself to
			// the notifier; it resolves every request it satisfies.
			m.logf("    via ProcessRelevantSpendTx")
			err := m.n.ProcessRelevantSpendTx(
				btcutil.NewTx(f.tx.msg.Copy()), f.height,
			)
			if err != nil {
				m.failf("ProcessRelevantSpendTx: %v", err)
			}
			m.flags["relevant_tx"] = true
		} else {
			err := m.n.UpdateSpendDetails(r.req, details)
			m.updateErr(err)
		}
	}
	m.afterCall(c14Call{kind: c14CkUpdate})
}

// relevantTxOK reports whether ProcessRelevantSpendTx may be used for r's
// slot: it resolves *all* registered spend requests of the slot at once, so
// while c14KeyNoClient is a known finding each of them needs a live client.
func (m *c14M) relevantTxOK(r *c14SpendReq) bool {
	if !vstats.IsKnown(c14KeyNoClient) {
		return true
	}
	for _, o := range m.spendReqs {
		if o.slot != r.slot || !o.everReg || o.session != m.session {
			continue
		}
		if !m.hasLiveSpend(o) {
			return false
		}
	}

	return true
}

func c14FoundStr(f *c14Found) string {
	if f == nil {
		return "none"
	}

	return fmt.Sprintf("s%d.%d@%d", f.tx.slot, f.tx.variant, f.height)
}

// updateErr tolerates the one documented error of Update*Details: the
// request is no longer known (it matured and was removed meanwhile).
func (m *c14M) updateErr(err error) {
	if err == nil {
		return
	}
	if strings.Contains(err.Error(), "not found") {
		m.flags["update_unknown_request"] = true
		m.logf("    (request no longer known: %v)", err)
		return
	}
	m.failf("Update*Details: %v", err)
}

func (m *c14M) drawTxs(pos map[int]c14Pos, pct int) []int {
	el := m.ch.eligible(pos)
	var ids []int
	for _, id := range el {
		// A sibling chosen earlier in this block conflicts.
		t := m.u.txs[id]
		conflict := false
		for _, o := range ids {
			if m.u.txs[o].slot == t.slot {
				conflict = true
			}
		}
		if conflict {
			continue
		}
		if m.pct("mine") < pct {
			ids = append(ids, id)
		}
	}
	if len(ids) > 1 && rapid.Bool().Draw(m.t, "reverse") {
		for i, j := 0, len(ids)-1; i < j; i, j = i+1, j-1 {
			ids[i], ids[j] = ids[j], ids[i]
		}
	}

	return ids
}

func c14IDs(u *c14Universe, ids []int) string {
	var s []string
	for _, id := range ids {
		t := u.txs[id]
		s = append(s, fmt.Sprintf("s%d.%d", t.slot, t.variant))
	}

	return "[" + strings.Join(s, " ") + "]"
}

// connectBlock = ConnectTip + NotifyHeight, optionally with other calls
// squeezed between the two (the notifier's lock is released in between).
func (m *c14M) connectBlock(b *c14Block, allowMid bool) {
	m.logf("connect %d %s", b.height, c14IDs(m.u, b.txIDs))
	err := m.n.ConnectTip(b.blk, b.height)
	if err != nil {
		m.failf("ConnectTip(%d): %v", b.height, err)
	}
	m.ch.connect(b)
	for _, r := range m.confReqs {
		if r.pending != nil {
			r.pending.connects++
		}
	}
	for _, r := range m.spendReqs {
		if r.pending != nil {
			r.pending.connects++
		}
	}
	m.midConnect = true
	m.afterCall(c14Call{kind: c14CkConnectTip})

	if allowMid && m.pct("mid") < 3 {
		k := rapid.IntRange(1, 2).Draw(m.t, "midN")
		for i := 0; i < k; i++ {
			m.logf("  (between ConnectTip and NotifyHeight)")
			m.midAction()
		}
		m.flags["mid_connect"] = true
	}

	err = m.n.NotifyHeight(b.height)
	if err != nil {
		m.failf("NotifyHeight(%d): %v", b.height, err)
	}
	m.midConnect = false
	m.afterCall(c14Call{kind: c14CkNotify})
}

func (m *c14M) midAction() {
	confs, spends := m.liveClients()
	pc, ps := m.pendingDispatches()
	k := m.pct("midKind")
	switch {
	case k < 35:
		m.actRegisterConf()
	case k < 60:
		m.actRegisterSpend()
	case k < 75 && len(confs)+len(spends) > 0:
		m.actCancel()
	case len(pc)+len(ps) > 0:
		m.actRescan()
	default:
		m.actRegisterConf()
	}
}

func (m *c14M) actConnect() {
	ids := m.drawTxs(m.ch.pos, 30)
	b := m.ch.makeBlock(m.ch.tipBlock().hash, m.ch.tip+1, ids)
	if m.pct("outOfOrder") < 4 {
		// Blocks must be connected/disconnected in order; a call with
		// the wrong height is rejected and changes nothing.
		var err error
		switch c14Uniform(m.t, "oooKind", 3) {
		case 0:
			err = m.n.ConnectTip(b.blk, b.height+1)
		case 1:
			err = m.n.ConnectTip(b.blk, m.ch.tip)
		default:
			err = m.n.DisconnectTip(m.ch.tip - 1)
		}
		m.logf("out-of-order call at tip %d", m.ch.tip)
		if err == nil {
			m.failf("out-of-order connect/disconnect at tip %d "+
				"accepted", m.ch.tip)
		}
		m.afterCall(c14Call{kind: c14CkUpdate})
		m.flags["out_of_order"] = true
	}
	m.connectBlock(b, true)
}

func (m *c14M) actDisconnect() {
	consec0 := m.ch.consec
	h := m.ch.tip
	m.logf("disconnect %d %s", h, c14IDs(m.u, m.ch.tipBlock().txIDs))
	err := m.n.DisconnectTip(h)
	if err != nil {
		m.failf("DisconnectTip(%d): %v", h, err)
	}
	b := m.ch.disconnect()
	m.afterCall(c14Call{
		kind: c14CkDisconnect, removed: []*c14Block{b},
		consec0: consec0,
	})
	m.flags["disconnect"] = true
}

// actMissed switches the backend to a new branch behind the notifier's back
// and lets chainntnfs.HandleMissedBlocks (GetCommonBlockAncestorHeight +
// RewindChain) bring the notifier back in sync, as the btcd/bitcoind
// notifiers do.
func (m *c14M) actMissed() {
	tip := m.ch.tip
	maxK := 0
	for maxK < 3 {
		newTip := tip - uint32(maxK) - 1
		if newTip < m.ch.floor ||
			uint64(newTip)+uint64(m.limit) < uint64(m.ch.maxTip)+1 {

			break
		}
		maxK++
	}
	k := c14Uniform(m.t, "reorgDepth", maxK+1)
	lo := k
	if lo < 1 {
		lo = 1
	}
	nNew := rapid.IntRange(lo, k+2).Draw(m.t, "newBlocks")

	pos := make(map[int]c14Pos, len(m.ch.pos))
	for id, p := range m.ch.pos {
		pos[id] = p
	}
	for i := 0; i < k; i++ {
		for _, id := range m.ch.byHeight[tip-uint32(i)].txIDs {
			delete(pos, id)
		}
	}
	ancestor := tip - uint32(k)
	prev := m.ch.byHeight[ancestor].hash
	var branch []*c14Block
	for j := 0; j < nNew; j++ {
		ids := m.drawTxs(pos, 30)
		b := m.ch.makeBlock(prev, ancestor+1+uint32(j), ids)
		for i, id := range ids {
			pos[id] = c14Pos{height: b.height, index: uint32(i + 1)}
		}
		prev = b.hash
		branch = append(branch, b)
	}
	conn := &c14Conn{c: m.ch, ancestor: ancestor, branch: branch}
	inclusive := rapid.Bool().Draw(m.t, "inclusive")
	newHeight := int32(ancestor) + int32(nNew)
	if inclusive {
		newHeight++
	}
	old := m.ch.tipBlock()
	oldHash := old.hash
	cur := chainntnfs.BlockEpoch{
		Height: int32(tip), Hash: &oldHash, BlockHeader: old.header,
	}
	consec0 := m.ch.consec
	m.logf("missedBlocks: rewind %d to ancestor %d, new branch of %d",
		k, ancestor, nNew)

	best, missed, err := chainntnfs.HandleMissedBlocks(
		conn, m.n, cur, newHeight, true,
	)
	if err != nil {
		m.failf("HandleMissedBlocks: %v", err)
	}
	var removed []*c14Block
	for i := 0; i < k; i++ {
		removed = append(removed, m.ch.disconnect())
	}
	anc := m.ch.tipBlock()
	if best.Height != int32(ancestor) || best.Hash == nil ||
		*best.Hash != anc.hash {

		m.failf("HandleMissedBlocks: best block %d/%v, want common "+
			"ancestor %d/%v", best.Height, best.Hash, ancestor,
			anc.hash)
	}
	want := nNew
	if !inclusive {
		want--
	}
	if len(missed) != want {
		m.failf("HandleMissedBlocks: %d missed blocks, want %d",
			len(missed), want)
	}
	for i, e := range missed {
		if e.Height != int32(branch[i].height) || e.Hash == nil ||
			*e.Hash != branch[i].hash {

			m.failf("HandleMissedBlocks: missed[%d] = %d/%v, want "+
				"%d/%v", i, e.Height, e.Hash, branch[i].height,
				branch[i].hash)
		}
	}
	m.afterCall(c14Call{
		kind: c14CkRewind, removed: removed, consec0: consec0,
	})
	for _, b := range branch {
		m.connectBlock(b, false)
	}
	m.flags["missed_blocks"] = true
	if k > 0 {
		m.flags["missed_reorg"] = true
	}
}

func (m *c14M) actRestart() {
	m.logf("restart at %d", m.ch.tip)
	m.n.TearDown()
	m.afterCall(c14Call{kind: c14CkTearDown})
	for _, c := range m.confs {
		c.closed = true
	}
	for _, c := range m.spends {
		c.closed = true
	}
	// A pending request whose hint was left above tip+1 by the known
	// candidate finding c14KeyPendingHint carries that hint into the next
	// session, where it is simply a wrong hint: out of the domain.
	tip := m.ch.tip
	for _, r := range m.confReqs {
		h, err := m.cache.QueryConfirmHint(r.req)
		if r.pending != nil && err == nil && h > tip+1 &&
			m.ch.confOf(r, 0, tip) == nil &&
			m.known(c14KeyPendingHint) {

			r.invalid = true
		}
		r.pending = nil
	}
	for _, r := range m.spendReqs {
		h, err := m.cache.QuerySpendHint(r.req)
		if r.pending != nil && err == nil && h > tip+1 &&
			m.ch.spendOf(r, 0, tip) == nil &&
			m.known(c14KeyPendingHint) {

			r.invalid = true
		}
		r.pending = nil
	}
	m.session++
	m.ch.consec = 0
	if m.bolt != nil {
		if err := m.bolt.reopen(); err != nil {
			m.t.Fatalf("harness: reopen bbolt: %v", err)
		}
		m.cache, m.ncache = m.bolt.oracle, m.bolt.notifier
	}
	m.n = chainntnfs.NewTxNotifier(m.ch.tip, m.limit, m.ncache, m.ncache)
	m.flags["restart"] = true
}

// ---------------------------------------------------------------------------
// Case driver.

// c14Bolt is the real channeldb.HeightHintCache on a bbolt file. The oracle
// reads through a cache without QueryDisable; the notifier may get one with
// QueryDisable set (it then ignores cached hints but still writes them).
type c14Bolt struct {
	dir      string
	db       kvdb.Backend
	disable  bool
	oracle   *channeldb.HeightHintCache
	notifier *channeldb.HeightHintCache
}

func (b *c14Bolt) open() error {
	db, err := kvdb.GetBoltBackend(&kvdb.BoltBackendConfig{
		DBPath:         b.dir,
		DBFileName:     "hints.db",
		NoFreelistSync: true,
		DBTimeout:      kvdb.DefaultDBTimeout,
	})
	if err != nil {
		return err
	}
	b.db = db
	b.oracle, err = channeldb.NewHeightHintCache(
		channeldb.CacheConfig{}, db,
	)
	if err != nil {
		return err
	}
	b.notifier, err = channeldb.NewHeightHintCache(
		channeldb.CacheConfig{QueryDisable: b.disable}, db,
	)

	return err
}

// reopen closes and reopens the database file: what survives is what was
// really persisted.
func (b *c14Bolt) reopen() error {
	if err := b.db.Close(); err != nil {
		return err
	}

	return b.open()
}

func (b *c14Bolt) close() {
	if b.db != nil {
		_ = b.db.Close()
	}
	_ = os.RemoveAll(b.dir)
}

func c14RunCase(t *rapid.T, st *vstats.Collector, bolt bool, maxLen int) {
	seed := uint32(rapid.Uint16().Draw(t, "seed"))
	nSlots := 1 + c14Uniform(t, "slots", 3)
	var specs []c14SlotSpec
	for i := 0; i < nSlots; i++ {
		specs = append(specs, c14SlotSpec{
			Kind:       c14Uniform(t, "kind", 4),
			OutKind:    c14Uniform(t, "outKind", 5),
			SameScript: rapid.Bool().Draw(t, "sameScript"),
			Lead0:      rapid.Bool().Draw(t, "lead0"),
			Lead1:      rapid.Bool().Draw(t, "lead1"),
			LeadOut:    rapid.Bool().Draw(t, "leadOut"),
		})
	}
	limit := []uint32{2, 3, 3, 4, 4, 5, 6, 144}[c14Uniform(t, "limit", 8)]
	u := c14NewUniverse(seed, specs)
	ch := c14NewChain(u)

	// Pre-history: blocks that exist before the notifier is created.
	pre := int(limit) + 2
	if pre > 8 {
		pre = 8
	}
	start := rapid.Uint32Range(uint32(pre)+1, 300).Draw(t, "startHeight")
	ch.floor = start - uint32(pre) + 1
	ch.tip = ch.floor - 1
	ch.maxTip = ch.tip

	m := &c14M{
		t: t, u: u, ch: ch, limit: limit, st: st,
		flags: make(map[string]bool),
	}
	m.maxN = limit
	if m.maxN > 6 {
		m.maxN = 6
	}
	m.confReqs, m.spendReqs = c14BuildRequests(u)

	var prev chainhash.Hash
	copy(prev[:], c14Bytes(seed, "genesis", 32))
	for h := ch.floor; h <= start; h++ {
		var ids []int
		if h > ch.floor {
			ids = m.drawTxs(ch.pos, 6)
		}
		b := ch.makeBlock(prev, h, ids)
		ch.connect(b)
		prev = b.hash
		m.logf("pre-history %d %s", h, c14IDs(u, ids))
	}

	if bolt {
		dir, err := os.MkdirTemp("", "verif-c14-")
		if err != nil {
			t.Fatalf("harness: %v", err)
		}
		m.bolt = &c14Bolt{
			dir:     dir,
			disable: c14Uniform(t, "queryDisable", 100) < 20,
		}
		defer m.bolt.close()
		if err := m.bolt.open(); err != nil {
			t.Fatalf("harness: cannot open bbolt hint cache: %v", err)
		}
		m.cache, m.ncache = m.bolt.oracle, m.bolt.notifier
		if m.bolt.disable {
			m.flags["query_disable"] = true
		}
	} else {
		mc := c14NewMemCache()
		m.cache, m.ncache = mc, mc
	}
	m.n = chainntnfs.NewTxNotifier(start, limit, m.ncache, m.ncache)
	defer func() { m.n.TearDown() }()

	steps := 5 + c14Uniform(t, "steps", maxLen-4)
	var trace []string
	for i := 0; i < steps; i++ {
		confs, spends := m.liveClients()
		pc, ps := m.pendingDispatches()
		type act struct {
			name string
			w    int
			f    func()
		}
		acts := []act{
			{"connect", 30, m.actConnect},
			{"regConf", 13, m.actRegisterConf},
			{"regSpend", 10, m.actRegisterSpend},
			{"missed", 3, m.actMissed},
			{"restart", 1, m.actRestart},
		}
		if i < 3 {
			// Start with a few registrations.
			acts[1].w, acts[2].w = 40, 30
		}
		if ch.canDisconnect(limit) {
			w := 18
			if len(ch.tipBlock().txIDs) > 0 {
				w = 40
			}
			acts = append(acts, act{"disconnect", w, m.actDisconnect})
		}
		if len(confs)+len(spends) > 0 {
			acts = append(acts, act{"cancel", 4, m.actCancel})
		}
		if len(pc)+len(ps) > 0 {
			acts = append(acts, act{"rescan", 14, m.actRescan})
		}
		total := 0
		for _, a := range acts {
			total += a.w
		}
		x := c14Uniform(t, "action", total)
		for _, a := range acts {
			if x < a.w {
				trace = append(trace, a.name)
				a.f()
				break
			}
			x -= a.w
		}
	}

	// Answer everything still pending so that the final completeness
	// check covers all requests.
	for {
		pc, ps := m.pendingDispatches()
		if len(pc)+len(ps) == 0 {
			break
		}
		m.rescan(true)
	}

	nontrivial := m.flags["reincluded"] || m.flags["rescan_late_found"]
	var labels []string
	for k, v := range m.flags {
		if v {
			labels = append(labels, k)
		}
	}
	if limit == 144 {
		labels = append(labels, "limit_144")
	}
	var sample any
	if nontrivial && st.WantSample() {
		lg := m.log
		if len(lg) > 60 {
			lg = lg[:60]
		}
		sample = map[string]any{"limit": limit, "history": lg}
	}
	st.Case(vstats.FP(strings.Join(m.log, "|"), limit), nontrivial, labels,
		sample)
}

// TestVerifC14Machine runs the machine with the in-memory hint cache.
func TestVerifC14Machine(t *testing.T) {
	st := vstats.New("TestVerifC14Machine")
	defer st.Flush()
	maxLen := vstats.EnvInt("VERIF_C14_LEN", 45)
	rapid.Check(t, func(t *rapid.T) {
		c14RunCase(t, st, false, maxLen)
	})
}

// TestVerifC14MachineBolt runs the same machine on the real
// channeldb.HeightHintCache backed by a fresh bbolt file per case.
func TestVerifC14MachineBolt(t *testing.T) {
	st := vstats.New("TestVerifC14MachineBolt")
	defer st.Flush()
	maxLen := vstats.EnvInt("VERIF_C14_LEN_BOLT", 30)
	rapid.Check(t, func(t *rapid.T) {
		c14RunCase(t, st, true, maxLen)
	})
}
