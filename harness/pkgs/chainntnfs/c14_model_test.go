//go:build verif

package chainntnfs_test

// C14 — reference chain model and transaction universe.
//
// The model is the ground truth of the check: a list of blocks (the chain the
// notifier has been told about) over a small universe of transactions. It is
// written without looking at any TxNotifier state; everything the oracle
// asserts is derived from it and from the per-client event logs.

import (
	"crypto/sha256"
	"encoding/binary"
	"fmt"
	"sync"
	"time"

	"github.com/btcsuite/btcd/address/v2"
	"github.com/btcsuite/btcd/btcjson"
	"github.com/btcsuite/btcd/btcutil/v2"
	"github.com/btcsuite/btcd/chainhash/v2"
	"github.com/btcsuite/btcd/wire/v2"
	"github.com/lightningnetwork/lnd/chainntnfs"
)

// c14Bytes derives n deterministic bytes from the case seed and a label.
func c14Bytes(seed uint32, label string, n int) []byte {
	var out []byte
	var ctr uint32
	for len(out) < n {
		var b [8]byte
		binary.LittleEndian.PutUint32(b[:4], seed)
		binary.LittleEndian.PutUint32(b[4:], ctr)
		h := sha256.Sum256(append(b[:], label...))
		out = append(out, h[:]...)
		ctr++
	}

	return out[:n]
}

// Output/prev script kinds.
const (
	c14P2WKH = iota
	c14P2WSH
	c14P2TR
	c14NestedP2WKH // P2SH(P2WKH), spend side only
	c14P2PKH       // output side only
)

func c14Script(kind int, data []byte) []byte {
	switch kind {
	case c14P2WKH:
		return append([]byte{0x00, 0x14}, data[:20]...)
	case c14P2WSH:
		return append([]byte{0x00, 0x20}, data[:32]...)
	case c14P2TR:
		return append([]byte{0x51, 0x20}, data[:32]...)
	case c14NestedP2WKH:
		s := append([]byte{0xa9, 0x14}, data[:20]...)
		return append(s, 0x87)
	case c14P2PKH:
		s := append([]byte{0x76, 0xa9, 0x14}, data[:20]...)
		return append(s, 0x88, 0xac)
	}
	panic("c14: bad script kind")
}

// c14Tx is one transaction of the universe.
type c14Tx struct {
	id      int
	slot    int
	variant int
	msg     *wire.MsgTx
	hash    chainhash.Hash

	// inIdx is the index of the input that spends the slot's outpoint.
	inIdx uint32

	// outScript is the script of the watched output of this tx.
	outScript []byte
}

// c14Slot is one watched outpoint with two conflicting spenders.
type c14Slot struct {
	kind       int
	op         wire.OutPoint
	prevScript []byte
	txs        [2]*c14Tx
}

// c14Universe is the set of transactions of a case.
type c14Universe struct {
	seed  uint32
	slots []*c14Slot
	txs   []*c14Tx
}

// c14SlotSpec is the generated description of a slot.
type c14SlotSpec struct {
	Kind       int  // spend-side script kind
	OutKind    int  // output script kind of variant 0
	SameScript bool // variant 1 pays the same script (RBF-like)
	Lead0      bool // variant 0 has an unrelated leading input
	Lead1      bool // variant 1 has an unrelated leading input
	LeadOut    bool // an unrelated leading output
}

func c14NewUniverse(seed uint32, specs []c14SlotSpec) *c14Universe {
	u := &c14Universe{seed: seed}
	for si, sp := range specs {
		lbl := func(s string) string {
			return fmt.Sprintf("slot%d/%s", si, s)
		}
		sl := &c14Slot{kind: sp.Kind}
		var h chainhash.Hash
		copy(h[:], c14Bytes(seed, lbl("op"), 32))
		sl.op = wire.OutPoint{Hash: h, Index: uint32(si)}

		// Spend-side data.
		pub := append([]byte{0x02}, c14Bytes(seed, lbl("pub"), 32)...)
		wscript := c14Bytes(seed, lbl("wscript"), 40)
		sig := c14Bytes(seed, lbl("sig"), 71)
		var (
			sigScript []byte
			witness   wire.TxWitness
		)
		switch sp.Kind {
		case c14P2WKH:
			sl.prevScript = c14Script(
				c14P2WKH, address.Hash160(pub),
			)
			witness = wire.TxWitness{sig, pub}

		case c14P2WSH:
			hh := sha256.Sum256(wscript)
			sl.prevScript = c14Script(c14P2WSH, hh[:])
			witness = wire.TxWitness{sig, sig[:10], wscript}

		case c14P2TR:
			sl.prevScript = c14Script(
				c14P2TR, c14Bytes(seed, lbl("trkey"), 32),
			)
			witness = wire.TxWitness{c14Bytes(seed, lbl("s64"), 64)}

		case c14NestedP2WKH:
			redeem := c14Script(c14P2WKH, address.Hash160(pub))
			sl.prevScript = c14Script(
				c14NestedP2WKH, address.Hash160(redeem),
			)
			sigScript = append([]byte{byte(len(redeem))}, redeem...)
			witness = wire.TxWitness{sig, pub}
		}

		for v := 0; v < 2; v++ {
			outKind := sp.OutKind
			outData := c14Bytes(seed, lbl("out"), 32)
			if v == 1 && !sp.SameScript {
				// (kind 3 as an output is a plain P2SH script.)
				outKind = (sp.OutKind + 1) % 5
				outData = c14Bytes(seed, lbl("out1"), 32)
			}
			outScript := c14Script(outKind, outData)

			tx := wire.NewMsgTx(2)
			lead := (v == 0 && sp.Lead0) || (v == 1 && sp.Lead1)
			var inIdx uint32
			if lead {
				var lh chainhash.Hash
				copy(lh[:], c14Bytes(
					seed, lbl(fmt.Sprintf("lead%d", v)), 32,
				))
				opub := append(
					[]byte{0x03},
					c14Bytes(seed, lbl("opub"), 32)...,
				)
				tx.AddTxIn(wire.NewTxIn(
					&wire.OutPoint{Hash: lh, Index: 7}, nil,
					wire.TxWitness{sig, opub},
				))
				inIdx = 1
			}
			op := sl.op
			tx.AddTxIn(wire.NewTxIn(&op, sigScript, witness))
			if sp.LeadOut {
				tx.AddTxOut(wire.NewTxOut(
					1000, c14Script(c14P2WKH, c14Bytes(
						seed, lbl("leadout"), 20,
					)),
				))
			}
			tx.AddTxOut(wire.NewTxOut(
				int64(50_000+1000*si+v), outScript,
			))

			t := &c14Tx{
				id:        len(u.txs),
				slot:      si,
				variant:   v,
				msg:       tx,
				hash:      tx.TxHash(),
				inIdx:     inIdx,
				outScript: outScript,
			}
			sl.txs[v] = t
			u.txs = append(u.txs, t)
		}
		u.slots = append(u.slots, sl)
	}

	return u
}

// c14Block is one block of the model.
type c14Block struct {
	height uint32
	hash   chainhash.Hash
	blk    *btcutil.Block
	header *wire.BlockHeader

	// txIDs are the universe transactions in block order; the index of
	// txIDs[i] within the block is i+1 (index 0 is the coinbase).
	txIDs []int
}

func (b *c14Block) contains(id int) (uint32, bool) {
	for i, t := range b.txIDs {
		if t == id {
			return uint32(i + 1), true
		}
	}

	return 0, false
}

type c14Pos struct {
	height uint32
	index  uint32
}

// c14Chain is the chain the notifier has been told about ("view"), plus every
// block ever created (for the ChainConn the reorg helpers use).
type c14Chain struct {
	u *c14Universe

	floor  uint32 // lowest materialised height
	tip    uint32
	maxTip uint32

	byHeight map[uint32]*c14Block
	byHash   map[chainhash.Hash]*c14Block
	pos      map[int]c14Pos

	serial uint32

	// consec is the number of successive disconnects since the last
	// connect (or since the notifier was created).
	consec int32
}

func c14NewChain(u *c14Universe) *c14Chain {
	return &c14Chain{
		u:        u,
		byHeight: make(map[uint32]*c14Block),
		byHash:   make(map[chainhash.Hash]*c14Block),
		pos:      make(map[int]c14Pos),
	}
}

// makeBlock creates (but does not connect) a block on top of prev.
func (c *c14Chain) makeBlock(prev chainhash.Hash, height uint32,
	txIDs []int) *c14Block {

	c.serial++
	cb := wire.NewMsgTx(1)
	var ser [8]byte
	binary.LittleEndian.PutUint32(ser[:4], c.serial)
	binary.LittleEndian.PutUint32(ser[4:], c.u.seed)
	cb.AddTxIn(wire.NewTxIn(
		&wire.OutPoint{Index: 0xffffffff},
		append([]byte{0x51}, ser[:]...), nil,
	))
	cb.AddTxOut(wire.NewTxOut(
		5_000_000_000, c14Script(
			c14P2WKH, c14Bytes(c.u.seed, "coinbase", 20),
		),
	))

	msg := &wire.MsgBlock{
		Header: wire.BlockHeader{
			Version:   1,
			PrevBlock: prev,
			Timestamp: time.Unix(1_600_000_000+int64(c.serial), 0),
			Bits:      0x207fffff,
			Nonce:     c.serial,
		},
	}
	msg.Transactions = append(msg.Transactions, cb)
	mh := sha256.New()
	cbh := cb.TxHash()
	mh.Write(cbh[:])
	for _, id := range txIDs {
		t := c.u.txs[id]
		msg.Transactions = append(msg.Transactions, t.msg.Copy())
		mh.Write(t.hash[:])
	}
	copy(msg.Header.MerkleRoot[:], mh.Sum(nil))

	blk := btcutil.NewBlock(msg)
	b := &c14Block{
		height: height,
		hash:   *blk.Hash(),
		blk:    blk,
		header: &msg.Header,
		txIDs:  append([]int(nil), txIDs...),
	}
	c.byHash[b.hash] = b

	return b
}

func (c *c14Chain) tipBlock() *c14Block { return c.byHeight[c.tip] }

// connect appends b to the view.
func (c *c14Chain) connect(b *c14Block) {
	if b.height != c.tip+1 {
		panic("c14: model connect out of order")
	}
	c.byHeight[b.height] = b
	c.tip = b.height
	if c.tip > c.maxTip {
		c.maxTip = c.tip
	}
	for i, id := range b.txIDs {
		c.pos[id] = c14Pos{height: b.height, index: uint32(i + 1)}
	}
	c.consec = 0
}

// disconnect removes the tip from the view and returns it.
func (c *c14Chain) disconnect() *c14Block {
	b := c.byHeight[c.tip]
	delete(c.byHeight, c.tip)
	for _, id := range b.txIDs {
		delete(c.pos, id)
	}
	c.tip--
	c.consec++

	return b
}

// canDisconnect reports whether removing the tip stays within the reorg
// safety limit: the tip never drops below maxTipEver-limit+1.
func (c *c14Chain) canDisconnect(limit uint32) bool {
	if c.tip <= c.floor {
		return false
	}
	newTip := c.tip - 1

	return uint64(newTip)+uint64(limit) >= uint64(c.maxTip)+1
}

// eligible lists the universe transactions that may be mined next given the
// positions in pos: not already in the chain and no conflicting sibling in
// the chain.
func (c *c14Chain) eligible(pos map[int]c14Pos) []int {
	var out []int
	for _, t := range c.u.txs {
		if _, ok := pos[t.id]; ok {
			continue
		}
		sib := c.u.slots[t.slot].txs[1-t.variant]
		if _, ok := pos[sib.id]; ok {
			continue
		}
		out = append(out, t.id)
	}

	return out
}

// ---------------------------------------------------------------------------
// Requests.

type c14ConfReq struct {
	idx    int
	name   string
	txid   *chainhash.Hash
	script []byte
	req    chainntnfs.ConfRequest

	// matches are the universe txs that satisfy the request.
	matches []int

	// Model/harness bookkeeping (not notifier state).
	invalid   bool // a client supplied a hint above the real height
	everReg   bool
	session   int // notifier session of the last registration
	pending   *c14ConfDispatch
	reorgSeen bool
}

type c14SpendReq struct {
	idx    int
	name   string
	op     *wire.OutPoint
	script []byte
	req    chainntnfs.SpendRequest
	slot   int

	invalid   bool
	everReg   bool
	session   int
	pending   *c14SpendDispatch
	reorgSeen bool
}

type c14ConfDispatch struct {
	r          *c14ConfReq
	start, end uint32
	connects   int // connects seen since dispatch
	session    int
}

type c14SpendDispatch struct {
	r          *c14SpendReq
	start, end uint32
	connects   int
	session    int
}

func c14BuildRequests(u *c14Universe) ([]*c14ConfReq, []*c14SpendReq) {
	var (
		confs  []*c14ConfReq
		spends []*c14SpendReq
	)
	addConf := func(r *c14ConfReq) {
		req, err := chainntnfs.NewConfRequest(r.txid, r.script)
		if err != nil {
			panic(fmt.Sprintf("c14: NewConfRequest: %v", err))
		}
		r.req = req
		r.idx = len(confs)
		confs = append(confs, r)
	}
	for si, sl := range u.slots {
		for v, t := range sl.txs {
			h := t.hash
			addConf(&c14ConfReq{
				name:    fmt.Sprintf("tx(s%d.%d)", si, v),
				txid:    &h,
				script:  t.outScript,
				matches: []int{t.id},
			})
		}
		// Script requests: one per distinct output script.
		m0 := []int{sl.txs[0].id}
		same := string(sl.txs[0].outScript) ==
			string(sl.txs[1].outScript)
		if same {
			m0 = append(m0, sl.txs[1].id)
		}
		addConf(&c14ConfReq{
			name:    fmt.Sprintf("script(s%d.0)", si),
			script:  sl.txs[0].outScript,
			matches: m0,
		})
		if !same {
			addConf(&c14ConfReq{
				name:    fmt.Sprintf("script(s%d.1)", si),
				script:  sl.txs[1].outScript,
				matches: []int{sl.txs[1].id},
			})
		}

		op := sl.op
		sr, err := chainntnfs.NewSpendRequest(&op, sl.prevScript)
		if err != nil {
			panic(fmt.Sprintf("c14: NewSpendRequest: %v", err))
		}
		spends = append(spends, &c14SpendReq{
			idx:    len(spends),
			name:   fmt.Sprintf("op(s%d)", si),
			op:     &op,
			script: sl.prevScript,
			req:    sr,
			slot:   si,
		})
		if sl.kind != c14P2TR {
			sr, err := chainntnfs.NewSpendRequest(
				nil, sl.prevScript,
			)
			if err != nil {
				panic(fmt.Sprintf("c14: NewSpendRequest: %v",
					err))
			}
			spends = append(spends, &c14SpendReq{
				idx:    len(spends),
				name:   fmt.Sprintf("opscript(s%d)", si),
				script: sl.prevScript,
				req:    sr,
				slot:   si,
			})
		}
	}

	return confs, spends
}

// c14Found is the model's answer to "where is this request satisfied".
type c14Found struct {
	tx     *c14Tx
	height uint32
	index  uint32
	block  *c14Block
}

// confOf returns the confirmation of r on the view chain restricted to
// heights [lo, hi] (lowest height first), or nil.
func (c *c14Chain) confOf(r *c14ConfReq, lo, hi uint32) *c14Found {
	var best *c14Found
	for _, id := range r.matches {
		p, ok := c.pos[id]
		if !ok || p.height < lo || p.height > hi {
			continue
		}
		if best == nil || p.height < best.height ||
			(p.height == best.height && p.index < best.index) {

			best = &c14Found{
				tx: c.u.txs[id], height: p.height,
				index: p.index, block: c.byHeight[p.height],
			}
		}
	}

	return best
}

// spendOf returns the spend of r's outpoint/script on the view chain
// restricted to heights [lo, hi], or nil.
func (c *c14Chain) spendOf(r *c14SpendReq, lo, hi uint32) *c14Found {
	var best *c14Found
	for _, t := range c.u.slots[r.slot].txs {
		p, ok := c.pos[t.id]
		if !ok || p.height < lo || p.height > hi {
			continue
		}
		if best == nil || p.height < best.height {
			best = &c14Found{
				tx: t, height: p.height, index: p.index,
				block: c.byHeight[p.height],
			}
		}
	}

	return best
}

// ---------------------------------------------------------------------------
// ChainConn over the model, used by HandleMissedBlocks/RewindChain. The
// "backend" chain is the view up to ancestor plus a new branch.

type c14Conn struct {
	c        *c14Chain
	ancestor uint32
	branch   []*c14Block // heights ancestor+1...
}

var _ chainntnfs.ChainConn = (*c14Conn)(nil)

func (k *c14Conn) GetBlockHeader(h *chainhash.Hash) (*wire.BlockHeader,
	error) {

	b, ok := k.c.byHash[*h]
	if !ok {
		return nil, fmt.Errorf("unknown block %v", h)
	}

	return b.header, nil
}

func (k *c14Conn) GetBlockHeaderVerbose(h *chainhash.Hash) (
	*btcjson.GetBlockHeaderVerboseResult, error) {

	b, ok := k.c.byHash[*h]
	if !ok {
		return nil, fmt.Errorf("unknown block %v", h)
	}

	return &btcjson.GetBlockHeaderVerboseResult{
		Hash:   b.hash.String(),
		Height: int32(b.height),
	}, nil
}

func (k *c14Conn) GetBlockHash(height int64) (*chainhash.Hash, error) {
	h := uint32(height)
	if h <= k.ancestor {
		b, ok := k.c.byHeight[h]
		if !ok {
			return nil, fmt.Errorf("no block at %d", h)
		}
		hh := b.hash

		return &hh, nil
	}
	i := int(h - k.ancestor - 1)
	if i >= len(k.branch) {
		return nil, fmt.Errorf("no block at %d", h)
	}
	hh := k.branch[i].hash

	return &hh, nil
}

// ---------------------------------------------------------------------------
// In-memory hint cache (harness-owned; used for the bulk of the cases, the
// real channeldb.HeightHintCache on bbolt is used by the Bolt test).

type c14MemCache struct {
	mu     sync.Mutex
	confs  map[chainntnfs.ConfRequest]uint32
	spends map[chainntnfs.SpendRequest]uint32
}

func c14NewMemCache() *c14MemCache {
	return &c14MemCache{
		confs:  make(map[chainntnfs.ConfRequest]uint32),
		spends: make(map[chainntnfs.SpendRequest]uint32),
	}
}

func (c *c14MemCache) CommitSpendHint(h uint32,
	rs ...chainntnfs.SpendRequest) error {

	c.mu.Lock()
	defer c.mu.Unlock()
	for _, r := range rs {
		c.spends[r] = h
	}

	return nil
}

func (c *c14MemCache) QuerySpendHint(r chainntnfs.SpendRequest) (uint32,
	error) {

	c.mu.Lock()
	defer c.mu.Unlock()
	h, ok := c.spends[r]
	if !ok {
		return 0, chainntnfs.ErrSpendHintNotFound
	}

	return h, nil
}

func (c *c14MemCache) PurgeSpendHint(rs ...chainntnfs.SpendRequest) error {
	c.mu.Lock()
	defer c.mu.Unlock()
	for _, r := range rs {
		delete(c.spends, r)
	}

	return nil
}

func (c *c14MemCache) CommitConfirmHint(h uint32,
	rs ...chainntnfs.ConfRequest) error {

	c.mu.Lock()
	defer c.mu.Unlock()
	for _, r := range rs {
		c.confs[r] = h
	}

	return nil
}

func (c *c14MemCache) QueryConfirmHint(r chainntnfs.ConfRequest) (uint32,
	error) {

	c.mu.Lock()
	defer c.mu.Unlock()
	h, ok := c.confs[r]
	if !ok {
		return 0, chainntnfs.ErrConfirmHintNotFound
	}

	return h, nil
}

func (c *c14MemCache) PurgeConfirmHint(rs ...chainntnfs.ConfRequest) error {
	c.mu.Lock()
	defer c.mu.Unlock()
	for _, r := range rs {
		delete(c.confs, r)
	}

	return nil
}
