//go:build verif

package lnwallet_test

// C03: reconnection always resynchronises. The C01 machine plus the `cut`
// action (drop everything in flight, reload both sides from disk, run the
// channel_reestablish exchange). Oracle: ProcessChanSyncMsg never errors
// between honest peers; the retransmitted messages are exactly what the
// model says the peer is missing, in the original order (plus the one
// documented extra commit_sig); every retransmission is accepted; afterwards
// all C01 oracles hold incl. mirror images and the model's HTLC sets.

import (
	"strings"
	"testing"

	"github.com/lightningnetwork/lnd/internal/verif/chansim"
	"github.com/lightningnetwork/lnd/internal/verif/vstats"
	"pgregory.net/rapid"
)

func TestVerifC03Resync(t *testing.T) {
	st := vstats.New("TestVerifC03Resync")
	defer st.Flush()
	maxSteps := vstats.EnvInt("VERIF_STEPS", 50)

	rapid.Check(t, func(t *rapid.T) {
		p := chansim.DrawParams(t, nil)
		s := chansim.New(t, p)
		defer s.Close()

		cuts, lossy, retrans := 0, 0, 0
		labels := map[string]bool{}
		err := s.Run(t, chansim.RunOpts{
			MinSteps: 8, MaxSteps: maxSteps, Cuts: true, CutWeight: 3, Faults: true,
			AfterCut: func(s *chansim.Sim, rep *chansim.RetransmitReport) error {
				cuts++
				if rep.Lost > 0 {
					lossy++
				}
				any := false
				for x := 0; x < 2; x++ {
					switch {
					case rep.OweRev[x] && rep.OweSig[x] && s.M.LastWasRevoke[x]:
						labels["owe_both_sig_first"] = true
					case rep.OweRev[x] && rep.OweSig[x]:
						labels["owe_both_rev_first"] = true
					case rep.OweRev[x]:
						labels["owe_revoke"] = true
					case rep.OweSig[x]:
						labels["owe_commit"] = true
					}
					if rep.OweRev[x] || rep.OweSig[x] {
						any = true
					}
				}
				if any && rep.Lost > 0 {
					retrans++
				}
				if cuts >= 2 {
					labels["double_cut"] = true
				}
				return nil
			},
		})
		if err != nil {
			t.Fatalf("%v\nparams: %v\ntrace:\n  %s", err, p,
				strings.Join(s.Trace, "\n  "))
		}
		ls := simLabels(s)
		for l := range labels {
			ls = append(ls, l)
		}
		st.Case(vstats.FP(p.String(), strings.Join(s.Trace, "|")),
			retrans > 0, ls, simSample(s))
	})
}
