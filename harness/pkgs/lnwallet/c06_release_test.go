//go:build verif

package lnwallet_test

// C06 (b): the node never hands out the secret of one of its commitments
// unless a newer commitment signed by the peer is already durable, and the
// secrets / next commitment points it sends follow its own derivation chain
// without gaps or repeats. Checked at every hand-out (RevokeCurrentCommitment
// and ProcessChanSyncMsg retransmissions) of the C01-C03 machine.

import (
	"bytes"
	"fmt"
	"strings"
	"testing"

	"github.com/lightningnetwork/lnd/input"
	"github.com/lightningnetwork/lnd/internal/verif/chansim"
	"github.com/lightningnetwork/lnd/internal/verif/vstats"
	"github.com/lightningnetwork/lnd/lnwire"
	"pgregory.net/rapid"
)

func TestVerifC06Release(t *testing.T) {
	st := vstats.New("TestVerifC06Release")
	defer st.Flush()
	maxSteps := vstats.EnvInt("VERIF_STEPS", 40)

	rapid.Check(t, func(t *rapid.T) {
		p := chansim.DrawParams(t, nil)
		s := chansim.New(t, p)
		defer s.Close()

		var hookErr error
		next := [2]uint64{}
		first := [2]map[uint64]*lnwire.RevokeAndAck{{}, {}}
		releases, retrans := 0, 0
		s.OnRevoke = func(x int, h uint64, msg *lnwire.RevokeAndAck, re bool) {
			if hookErr != nil {
				return
			}
			side := s.Sides[x]
			fail := func(f string, a ...any) {
				hookErr = fmt.Errorf("%s release of secret %d (retransmit=%v): %s",
					side.Name, h, re, fmt.Sprintf(f, a...))
			}
			disk, err := side.FetchState()
			if err != nil {
				fail("fetch: %v", err)
				return
			}
			if disk.LocalCommitment.CommitHeight < h+1 {
				fail("durable local commitment is at height %d: no "+
					"newer peer-signed commitment is on disk",
					disk.LocalCommitment.CommitHeight)
				return
			}
			want, _ := side.Producer.AtIndex(h)
			if !bytes.Equal(want[:], msg.Revocation[:]) {
				fail("secret is not element %d of the own chain", h)
				return
			}
			nxt, _ := side.Producer.AtIndex(h + 2)
			if !input.ComputeCommitmentPoint(nxt[:]).IsEqual(msg.NextRevocationKey) {
				fail("next commitment point is not that of height %d", h+2)
				return
			}
			if re {
				retrans++
				f, ok := first[x][h]
				if !ok {
					fail("retransmission of a secret never released")
					return
				}
				if f.Revocation != msg.Revocation ||
					!f.NextRevocationKey.IsEqual(msg.NextRevocationKey) {

					fail("retransmission differs from the original")
				}
				if h+1 != next[x] {
					fail("retransmitted height %d, last released %d", h, next[x]-1)
				}
				return
			}
			if h != next[x] {
				fail("gap or repeat: expected height %d", next[x])
				return
			}
			next[x]++
			first[x][h] = msg
			releases++
		}
		err := s.Run(t, chansim.RunOpts{
			MinSteps: 8, MaxSteps: maxSteps, Cuts: true, CutWeight: 3,
			Faults:    true,
			AfterStep: func(*chansim.Sim, string) error { return hookErr },
		})
		if err == nil {
			err = hookErr
		}
		if err != nil {
			t.Fatalf("%v\nparams: %v\ntrace:\n  %s", err, p,
				strings.Join(s.Trace, "\n  "))
		}
		st.Count("releases_checked", int64(releases+retrans))
		ls := simLabels(s)
		if retrans > 0 {
			ls = append(ls, "retransmitted_release")
		}
		st.Case(vstats.FP(p.String(), strings.Join(s.Trace, "|")),
			releases >= 2 && (retrans > 0 || s.Labels["cut_dropped_unsigned"]),
			ls, simSample(s))
	})
}
