//go:build verif

package lnwallet

import "sort"

// Verification hooks (overlay only, never part of lnd): a read-only
// projection of the in-memory state of a LightningChannel.

// VerifLogEntry is one update-log entry.
type VerifLogEntry struct {
	Type        string
	LogIndex    uint64
	HtlcIndex   uint64
	ParentIndex uint64
	AmountMsat  uint64
	RHash       [32]byte
	Timeout     uint32
	AddLocal    uint64
	AddRemote   uint64
	RmLocal     uint64
	RmRemote    uint64
}

// VerifChainEntry is one in-memory commitment.
type VerifChainEntry struct {
	Height             uint64
	LocalMsgIdx        uint64
	RemoteMsgIdx       uint64
	OurHtlcIdx         uint64
	TheirHtlcIdx       uint64
	OurBalance         uint64
	TheirBalance       uint64
	Fee                int64
	FeePerKw           int64
	NumOutgoing, NumIn int
}

// VerifSnap is the projection returned by VerifSnapshot.
type VerifSnap struct {
	CurrentHeight                     uint64
	LocalLogIndex, LocalHtlcCounter   uint64
	RemoteLogIndex, RemoteHtlcCounter uint64
	LocalLog, RemoteLog               []VerifLogEntry
	LocalChain, RemoteChain           []VerifChainEntry
	// ModifiedLocal / ModifiedRemote are the HTLC ids of the local /
	// remote log that are marked as already settled or failed.
	ModifiedLocal, ModifiedRemote []uint64
}

func verifModified(l *updateLog) []uint64 {
	var out []uint64
	for id := range l.modifiedHtlcs {
		out = append(out, id)
	}
	sort.Slice(out, func(i, j int) bool { return out[i] < out[j] })
	return out
}

func verifLog(l *updateLog) []VerifLogEntry {
	var out []VerifLogEntry
	for e := l.Front(); e != nil; e = e.Next() {
		pd := e.Value
		var typ string
		switch pd.EntryType {
		case Add:
			typ = "add"
		case NoOpAdd:
			typ = "noopadd"
		case Settle:
			typ = "settle"
		case Fail:
			typ = "fail"
		case MalformedFail:
			typ = "malformed"
		case FeeUpdate:
			typ = "fee"
		}
		out = append(out, VerifLogEntry{
			Type: typ, LogIndex: pd.LogIndex, HtlcIndex: pd.HtlcIndex,
			ParentIndex: pd.ParentIndex,
			AmountMsat:  uint64(pd.Amount), RHash: pd.RHash,
			Timeout:   pd.Timeout,
			AddLocal:  pd.addCommitHeights.Local,
			AddRemote: pd.addCommitHeights.Remote,
			RmLocal:   pd.removeCommitHeights.Local,
			RmRemote:  pd.removeCommitHeights.Remote,
		})
	}
	return out
}

func verifChain(c *commitmentChain) []VerifChainEntry {
	var out []VerifChainEntry
	for e := c.commitments.Front(); e != nil; e = e.Next() {
		cm := e.Value
		out = append(out, VerifChainEntry{
			Height: cm.height, LocalMsgIdx: cm.messageIndices.Local,
			RemoteMsgIdx: cm.messageIndices.Remote,
			OurHtlcIdx:   cm.ourHtlcIndex, TheirHtlcIdx: cm.theirHtlcIndex,
			OurBalance:   uint64(cm.ourBalance),
			TheirBalance: uint64(cm.theirBalance),
			Fee:          int64(cm.fee), FeePerKw: int64(cm.feePerKw),
			NumOutgoing: len(cm.outgoingHTLCs), NumIn: len(cm.incomingHTLCs),
		})
	}
	return out
}

// VerifSnapshot returns a projection of the channel's in-memory state.
func (lc *LightningChannel) VerifSnapshot() VerifSnap {
	lc.RLock()
	defer lc.RUnlock()

	return VerifSnap{
		CurrentHeight:     lc.currentHeight,
		LocalLogIndex:     lc.updateLogs.Local.logIndex,
		LocalHtlcCounter:  lc.updateLogs.Local.htlcCounter,
		RemoteLogIndex:    lc.updateLogs.Remote.logIndex,
		RemoteHtlcCounter: lc.updateLogs.Remote.htlcCounter,
		LocalLog:          verifLog(lc.updateLogs.Local),
		RemoteLog:         verifLog(lc.updateLogs.Remote),
		LocalChain:        verifChain(lc.commitChains.Local),
		RemoteChain:       verifChain(lc.commitChains.Remote),
		ModifiedLocal:     verifModified(lc.updateLogs.Local),
		ModifiedRemote:    verifModified(lc.updateLogs.Remote),
	}
}

// VerifClearClosed undoes the in-memory "closed" mark ForceClose leaves on
// the object, so that a harness can look at the force-close summary of a live
// channel and carry on with the schedule.
func (lc *LightningChannel) VerifClearClosed() {
	lc.Lock()
	lc.isClosed = false
	lc.Unlock()
}
