//go:build verif

package lnwallet_test

// C17 (transaction level): for every channel state without pending HTLCs
// reached by a generated schedule, every fee proposal and pair of delivery
// scripts, both sides build the byte-identical closing transaction, each
// signature verifies, the completed transaction is valid against the funding
// output, and each party's output is its balance (commit fee + anchors
// credited back to the opener) minus the closing fee for the payer; outputs
// below the owner's dust limit are omitted; outputs + fee never exceed
// capacity; a fee above the payer's balance is refused by both.

import (
	"bytes"
	"crypto/sha256"
	"fmt"
	"io"
	"strings"
	"testing"

	"github.com/btcsuite/btcd/btcec/v2/schnorr/musig2"
	"github.com/btcsuite/btcd/btcutil/v2"
	"github.com/btcsuite/btcd/wire/v2"
	"github.com/lightningnetwork/lnd/fn/v2"
	"github.com/lightningnetwork/lnd/input"
	"github.com/lightningnetwork/lnd/internal/verif/chansim"
	"github.com/lightningnetwork/lnd/internal/verif/vstats"
	"github.com/lightningnetwork/lnd/lntypes"
	"github.com/lightningnetwork/lnd/lnwallet"
	"pgregory.net/rapid"
)

// detRand is a deterministic byte stream for musig2 signing nonces.
type detRand struct {
	seed [32]byte
	n    uint64
}

func (d *detRand) Read(p []byte) (int, error) {
	for i := range p {
		h := sha256.Sum256(append(d.seed[:], byte(d.n), byte(d.n>>8), byte(d.n>>16)))
		p[i] = h[0]
		d.n++
	}
	return len(p), nil
}

func drawScript(t *rapid.T, label string) []byte {
	kind := rapid.IntRange(0, 2).Draw(t, label+"Kind")
	body := rapid.SliceOfN(rapid.Byte(), 32, 32).Draw(t, label)
	switch kind {
	case 0: // P2WPKH
		return append([]byte{0x00, 0x14}, body[:20]...)
	case 1: // P2WSH
		return append([]byte{0x00, 0x20}, body...)
	default: // P2TR
		return append([]byte{0x51, 0x20}, body...)
	}
}

func TestVerifC17CoopCloseTx(t *testing.T) {
	st := vstats.New("TestVerifC17CoopCloseTx")
	defer st.Flush()
	maxSteps := vstats.EnvInt("VERIF_STEPS", 25)

	rapid.Check(t, func(t *rapid.T) {
		p := chansim.DrawParams(t, nil)
		s := chansim.New(t, p)
		defer s.Close()
		fail := func(f string, a ...any) {
			t.Fatalf("%s\nparams: %v\ntrace:\n  %s", fmt.Sprintf(f, a...),
				p, strings.Join(s.Trace, "\n  "))
		}

		if err := s.Run(t, chansim.RunOpts{
			MinSteps: 0, MaxSteps: maxSteps, Cuts: true, CutWeight: 1,
		}); err != nil {
			fail("%v", err)
		}
		// Resolve everything that is still pending.
		for i := 0; i < 50 && s.Aborted == ""; i++ {
			progressed := false
			for y := 0; y < 2; y++ {
				for _, h := range s.Resolvable(y) {
					kind := []chansim.UpdKind{chansim.USettle, chansim.UFail}[rapid.IntRange(0, 1).Draw(t, "finalRes")]
					if err := s.DoResolve(y, h, kind); err != nil {
						fail("%v", err)
					}
					progressed = true
				}
			}
			if err := s.Drain(s.CheckAll); err != nil {
				fail("%v", err)
			}
			if !progressed {
				break
			}
		}
		if s.Aborted != "" {
			st.Case(vstats.FP(p.String(), "aborted"), false,
				append(simLabels(s), "aborted"), nil)
			return
		}
		if len(s.LiveOffered(0))+len(s.LiveOffered(1)) != 0 {
			fail("harness: HTLCs still live after final resolution")
		}

		full := [2]int{len(s.M.U[0]), len(s.M.U[1])}
		exp := s.Expect(0, s.M.RevsSent[0], full)
		op := p.Opener()
		var anchors btcutil.Amount
		if p.ChanType.HasAnchors() {
			anchors = 2 * chansim.AnchorSize
		}
		// Balances (sat) with the dangling commit fee and anchors back
		// with the opener.
		var bal [2]btcutil.Amount
		for z := 0; z < 2; z++ {
			bal[z] = btcutil.Amount(uint64(exp.Stored[z]) / 1000)
		}
		bal[op] += exp.CommitFee + anchors

		// Payer and fee.
		payer := op
		customPayer := rapid.IntRange(0, 2).Draw(t, "customPayer")
		if customPayer == 1 {
			payer = 0
		} else if customPayer == 2 {
			payer = 1
		}
		var fee btcutil.Amount
		switch rapid.IntRange(0, 5).Draw(t, "feeKind") {
		case 0:
			fee = 0
		case 1:
			fee = btcutil.Amount(rapid.Int64Range(1, 5000).Draw(t, "feeSmall"))
		case 2, 3:
			fee = bal[payer] + btcutil.Amount(rapid.Int64Range(-2, 2).Draw(t, "feeNearBal"))
		case 4:
			// leave the payer right around its dust limit
			fee = bal[payer] - p.Dust[payer] + btcutil.Amount(rapid.Int64Range(-2, 2).Draw(t, "feeNearDust"))
		default:
			fee = btcutil.Amount(rapid.Int64Range(0, int64(p.Capacity)+10).Draw(t, "feeAny"))
		}
		if fee < 0 {
			fee = 0
		}
		scripts := [2][]byte{drawScript(t, "scriptA"), drawScript(t, "scriptB")}

		var chans [2]*lnwallet.LightningChannel
		for x := 0; x < 2; x++ {
			ch, err := s.Sides[x].LoadFresh()
			if err != nil {
				fail("reload: %v", err)
			}
			chans[x] = ch
		}

		optsFor := func(x int) []lnwallet.ChanCloseOpt {
			var o []lnwallet.ChanCloseOpt
			if customPayer != 0 {
				party := lntypes.Local
				if payer != x {
					party = lntypes.Remote
				}
				o = append(o, lnwallet.WithCustomPayer(party))
			}
			return o
		}
		// musig2 sessions for taproot channels.
		var nonces [2]*musig2.Nonces
		var sessions [2]*lnwallet.MusigSession
		if p.ChanType.IsTaproot() {
			for x := 0; x < 2; x++ {
				lk, _ := chans[x].MultiSigKeys()
				n, err := musig2.GenNonces(
					musig2.WithPublicKey(lk.PubKey),
					musig2.WithCustomRand(&detRand{seed: p.Seed, n: uint64(x) << 20}),
				)
				if err != nil {
					fail("nonces: %v", err)
				}
				nonces[x] = n
			}
			for x := 0; x < 2; x++ {
				lk, rk := chans[x].MultiSigKeys()
				tweak := fn.MapOption(lnwallet.TapscriptRootToTweak)(
					chans[x].State().TapscriptRoot,
				)
				sess := lnwallet.NewPartialMusigSession(
					*nonces[1-x], lk, rk, chans[x].Signer,
					chans[x].FundingTxOut(), lnwallet.RemoteMusigCommit,
					tweak, fn.None[io.Reader](),
				)
				if err := sess.FinalizeSession(*nonces[x]); err != nil {
					fail("finalize: %v", err)
				}
				sessions[x] = sess
			}
		}
		allOpts := func(x int) []lnwallet.ChanCloseOpt {
			o := optsFor(x)
			if sessions[x] != nil {
				o = append(o, lnwallet.WithCoopCloseMusigSession(sessions[x]))
			}
			return o
		}

		var (
			sigs [2]input.Signature
			txs  [2]*wire.MsgTx
			errs [2]error
		)
		for x := 0; x < 2; x++ {
			sigs[x], txs[x], _, errs[x] = chans[x].CreateCloseProposal(
				fee, scripts[x], scripts[1-x], allOpts(x)...,
			)
		}
		labels := simLabels(s)
		affordable := fee <= bal[payer]
		if (errs[0] == nil) != (errs[1] == nil) {
			fail("fee %d payer %s: A err=%v, B err=%v", fee,
				[]string{"A", "B"}[payer], errs[0], errs[1])
		}
		if !affordable {
			if errs[0] == nil {
				fail("fee %d above the payer's balance %d accepted",
					fee, bal[payer])
			}
			st.Case(vstats.FP(p.String(), strings.Join(s.Trace, "|"), fee, payer),
				true, append(labels, "fee_above_balance_refused"),
				map[string]any{"params": p.String(), "fee": fee, "payerBal": bal[payer]})
			return
		}
		{
			w := bal
			w[payer] -= fee
			if w[0] < p.Dust[0] && w[1] < p.Dust[1] {
				// Both outputs would be trimmed: there is no
				// transaction to build; a refusal is the only
				// correct outcome.
				if errs[0] == nil {
					fail("closing tx without outputs proposed")
				}
				st.Case(vstats.FP(p.String(), strings.Join(s.Trace, "|"), fee, payer),
					true, append(labels, "no_outputs_refused"), nil)
				return
			}
		}
		if errs[0] != nil {
			fail("affordable fee %d (payer balance %d) refused: %v", fee,
				bal[payer], errs[0])
		}
		var b0, b1 bytes.Buffer
		_ = txs[0].SerializeNoWitness(&b0)
		_ = txs[1].SerializeNoWitness(&b1)
		if !bytes.Equal(b0.Bytes(), b1.Bytes()) {
			fail("closing transactions differ:\nA: %x\nB: %x", b0.Bytes(), b1.Bytes())
		}

		// Complete on both sides.
		var finals [2]*wire.MsgTx
		for x := 0; x < 2; x++ {
			local, remote := sigs[x], sigs[1-x]
			if p.ChanType.IsTaproot() {
				// what arrives over the wire is the bare partial sig;
				// the receiver pairs it with the sender's nonce.
				wl := local.(*lnwallet.MusigPartialSig).ToWireSig()
				wr := remote.(*lnwallet.MusigPartialSig).ToWireSig()
				wl.Nonce = nonces[x].PubNonce
				wr.Nonce = nonces[1-x].PubNonce
				local = new(lnwallet.MusigPartialSig).FromWireSig(wl)
				remote = new(lnwallet.MusigPartialSig).FromWireSig(wr)
			}
			tx, _, err := chans[x].CompleteCooperativeClose(
				local, remote, scripts[x], scripts[1-x], fee, allOpts(x)...,
			)
			if err != nil {
				fail("%s: CompleteCooperativeClose: %v",
					[]string{"A", "B"}[x], err)
			}
			finals[x] = tx
			if err := chansim.VerifyInput(tx, 0, chans[x].FundingTxOut()); err != nil {
				fail("completed closing tx invalid against the funding "+
					"output: %v", err)
			}
		}
		if finals[0].TxHash() != finals[1].TxHash() {
			fail("completed closing transactions differ")
		}

		// Output values.
		want := bal
		want[payer] -= fee
		var outs int64
		got := map[string]int64{}
		for _, o := range finals[0].TxOut {
			outs += o.Value
			got[string(o.PkScript)] += o.Value
		}
		trimmed := btcutil.Amount(0)
		for x := 0; x < 2; x++ {
			has := want[x] >= p.Dust[x]
			v, ok := got[string(scripts[x])]
			if bytes.Equal(scripts[0], scripts[1]) {
				continue
			}
			if has != ok {
				fail("%s output present=%v, balance after fee %d, own "+
					"dust limit %d", []string{"A", "B"}[x], ok, want[x],
					p.Dust[x])
			}
			if ok && btcutil.Amount(v) != want[x] {
				fail("%s output %d sat, expected balance %d (fee %d "+
					"payer %s)", []string{"A", "B"}[x], v, want[x], fee,
					[]string{"A", "B"}[payer])
			}
			if !has {
				trimmed += want[x]
				labels = append(labels, "output_trimmed")
			}
		}
		if btcutil.Amount(outs)+fee > p.Capacity {
			fail("outputs %d + fee %d exceed capacity %d", outs, fee, p.Capacity)
		}
		if !bytes.Equal(scripts[0], scripts[1]) {
			// sub-satoshi remainders of both balances go to fees
			slack := p.Capacity - btcutil.Amount(outs) - fee - trimmed
			if slack < 0 || slack > 2 {
				fail("outputs %d + fee %d + trimmed %d vs capacity %d "+
					"(slack %d)", outs, fee, trimmed, p.Capacity, slack)
			}
		}
		nearBal := fee >= bal[payer]-1
		if nearBal {
			labels = append(labels, "fee_within_1_of_balance")
		}
		nontrivial := nearBal || trimmed > 0 || customPayer != 0
		st.Case(vstats.FP(p.String(), strings.Join(s.Trace, "|"), fee, payer,
			scripts[0], scripts[1]), nontrivial, labels,
			map[string]any{"params": p.String(), "fee": fee, "payer": payer,
				"balances": bal, "tx_outs": len(finals[0].TxOut),
				"steps": len(s.Trace)})
	})
}
