//go:build verif

package lnwallet_test

// C05: whichever commitment confirms, the node holds valid spends for all it
// owns. At generated instants of the C01-C03 schedules (also mid-dance and
// right after reloads), each side - loaded afresh from its database - (a)
// force closes: the signed commitment, every second-level HTLC tx and every
// sweep descriptor is run through Bitcoin's script interpreter; (b) sees the
// peer's current and pending commitment confirm: every resolution is run
// through the interpreter. The set of resolutions must be exactly the
// outputs the model says the side owns there.

import (
	"strings"
	"testing"

	"github.com/lightningnetwork/lnd/internal/verif/chansim"
	"github.com/lightningnetwork/lnd/internal/verif/vstats"
	"pgregory.net/rapid"
)

func TestVerifC05Closes(t *testing.T) {
	st := vstats.New("TestVerifC05Closes")
	defer st.Flush()
	maxSteps := vstats.EnvInt("VERIF_STEPS", 30)
	every := vstats.EnvInt("VERIF_C05_EVERY", 3)

	rapid.Check(t, func(t *rapid.T) {
		p := chansim.DrawParams(t, nil)
		s := chansim.New(t, p)
		defer s.Close()

		var total chansim.CloseStats
		states := 0
		phase := rapid.IntRange(0, every-1).Draw(t, "phase")
		step := 0
		pendingChecked, afterCut := false, false
		sawCut := false
		// Between accepting a signature and revoking, the live object's
		// local chain is ahead of the durable commitment: a force close
		// from the live object must still produce the durable one.
		var hookErr error
		liveChecked := false
		s.OnBeforeRevoke = func(y int, h uint64) {
			if hookErr != nil || (int(h)+phase)%2 != 0 {
				return
			}
			cs, err := s.CheckLocalCloseLive(y)
			if err != nil {
				hookErr = err
				return
			}
			total.Add(cs)
			liveChecked = true
		}
		err := s.Run(t, chansim.RunOpts{
			MinSteps: 6, MaxSteps: maxSteps, Cuts: true, CutWeight: 1,
			AfterCut: func(*chansim.Sim, *chansim.RetransmitReport) error {
				sawCut = true
				return nil
			},
			AfterStep: func(s *chansim.Sim, a string) error {
				if hookErr != nil {
					return hookErr
				}
				step++
				if (step+phase)%every != 0 && a != "cut" {
					return nil
				}
				states++
				if sawCut {
					afterCut = true
				}
				for x := 0; x < 2; x++ {
					cs, err := s.CheckLocalClose(x)
					if err != nil {
						return err
					}
					total.Add(cs)
					cs, err = s.CheckRemoteClose(x, false)
					if err != nil {
						return err
					}
					total.Add(cs)
					if s.Unacked(x) {
						cs, err = s.CheckRemoteClose(x, true)
						if err != nil {
							return err
						}
						total.Add(cs)
						pendingChecked = true
					}
				}
				return nil
			},
		})
		if err != nil {
			t.Fatalf("%v\nparams: %v\ntrace:\n  %s", err, p,
				strings.Join(s.Trace, "\n  "))
		}
		// terminal negative control: a commitment_signed with one wrong
		// htlc signature must be refused (nothing follows it)
		if _, err := s.TamperedSigEpilogue(); err != nil {
			t.Fatalf("%v\nparams: %v\ntrace:\n  %s", err, p,
				strings.Join(s.Trace, "\n  "))
		}
		st.Count("states_checked", int64(states))
		st.Count("commit_txs_validated", int64(total.CommitTxs))
		st.Count("timeout_txs_validated", int64(total.TimeoutTxs))
		st.Count("success_txs_validated", int64(total.SuccessTxs))
		st.Count("second_level_sweeps_validated", int64(total.SecondLevelSweeps))
		st.Count("to_local_validated", int64(total.ToLocal))
		st.Count("to_remote_validated", int64(total.ToRemote))
		st.Count("direct_htlc_claims_validated", int64(total.DirectHtlcClaims))
		st.Count("anchors_validated", int64(total.Anchors))
		st.Count("negative_controls", int64(total.NegativeControls))
		ls := simLabels(s)
		if pendingChecked {
			ls = append(ls, "pending_remote_commit_checked")
		}
		if afterCut {
			ls = append(ls, "checked_after_reload")
		}
		if liveChecked {
			ls = append(ls, "live_object_checked_before_revoke")
		}
		htlcSpends := total.TimeoutTxs + total.SuccessTxs + total.DirectHtlcClaims
		nontrivial := htlcSpends >= 2 &&
			(pendingChecked || afterCut || s.Labels["duplicate_htlc"])
		st.Case(vstats.FP(p.String(), strings.Join(s.Trace, "|"), phase),
			nontrivial, ls, simSample(s))
	})
}
