//go:build verif

package lnwallet_test

import (
	"fmt"
	"strings"
	"testing"

	"github.com/lightningnetwork/lnd/internal/verif/chansim"
	"github.com/lightningnetwork/lnd/lnwallet"
	"github.com/lightningnetwork/lnd/lnwire"
)

// stepper runs a scripted scenario on the simulator (deterministic
// reproductions of findings; not in the job tables).
type stepper struct {
	t *testing.T
	s *chansim.Sim
}

func (st *stepper) must(err error) {
	st.t.Helper()
	if err == nil {
		err = st.s.CheckAll()
	}
	if err != nil {
		st.t.Fatalf("%v\ntrace:\n  %s", err, strings.Join(st.s.Trace, "\n  "))
	}
}

func fixedParams(typ string, openerA bool) chansim.Params {
	p := chansim.Params{
		TypeName: typ, ChanType: chansim.ChanTypeOf(typ),
		InitiatorA: openerA, Capacity: 10_000_000, FeePerKw: 369,
	}
	p.Funded[0], p.Funded[1] = 5_000_000, 5_000_000
	for i := 0; i < 2; i++ {
		p.Dust[i] = 300
		p.Reserve[i] = 100_000
		p.Csv[i] = 6
		p.MaxHtlcs[i] = 241
	}
	p.Seed[0] = 7
	return p
}

func (st *stepper) dump(tag string) {
	for x := 0; x < 2; x++ {
		sn := st.s.Sides[x].Chan.VerifSnapshot()
		var l, r []string
		for _, e := range sn.LocalLog {
			if e.Type == "fee" {
				l = append(l, fmt.Sprintf("fee%d@%d(L%d,R%d)", e.AmountMsat/1000, e.LogIndex, e.AddLocal, e.AddRemote))
			}
		}
		for _, e := range sn.RemoteLog {
			if e.Type == "fee" {
				r = append(r, fmt.Sprintf("fee%d@%d(L%d,R%d)", e.AmountMsat/1000, e.LogIndex, e.AddLocal, e.AddRemote))
			}
		}
		st.t.Logf("%-22s %s: localLogIdx=%d remoteLogIdx=%d local=%v remote=%v localChain=%+v remoteChain=%+v",
			tag, []string{"A", "B"}[x], sn.LocalLogIndex, sn.RemoteLogIndex, l, r,
			feeOf(sn.LocalChain), feeOf(sn.RemoteChain))
	}
}

func feeOf(cs []lnwallet.VerifChainEntry) []string {
	var out []string
	for _, c := range cs {
		out = append(out, fmt.Sprintf("h%d:fee%d(msgL%d,msgR%d)", c.Height, c.FeePerKw, c.LocalMsgIdx, c.RemoteMsgIdx))
	}
	return out
}

// TestVerifC03ReproShrunk replays the shrunk counterexample found by the
// sweep (seed 5) step by step with log dumps.
func TestVerifC03ReproShrunk(t *testing.T) {
	p := fixedParams("legacy", false)
	p.Capacity = 100000
	p.Funded[0], p.Funded[1] = 95834, 4166
	p.FeePerKw = 253
	for i := 0; i < 2; i++ {
		p.Dust[i] = 200
		p.Reserve[i] = 1000
		p.Csv[i] = 1
	}
	p.NoAmtData = true
	s := chansim.New(t, p)
	defer s.Close()
	st := &stepper{t, s}
	const A, B = 0, 1
	add := func(x int, amt int64) {
		_, err := s.DoAdd(x, lnwire.MilliSatoshi(amt), 500, nil)
		st.must(err)
	}
	add(A, 1)
	add(A, 367000)
	st.must(s.DoSign(A))
	_, err := s.DoFee(253)
	st.must(err)
	st.must(s.DoSign(B))
	st.must(s.DoDeliver(B, false)) // A recv fee
	st.must(s.DoDeliver(B, false)) // A recv sig + revoke
	st.must(s.DoDeliver(A, false)) // B recv add
	st.dump("before cut1")
	_, err = s.DoCut(chansim.CutOpts{})
	st.must(err)
	st.dump("after cut1")
	_, err = s.DoFee(254)
	st.must(err)
	st.dump("B fee254")
	st.must(s.DoDeliver(B, false)) // A recv fee 254
	st.dump("A recv fee254")
	st.must(s.DoDeliver(A, false)) // B recv add
	st.must(s.DoDeliver(A, false)) // B recv add
	st.must(s.DoDeliver(A, false)) // B recv sig + revoke
	st.must(s.DoDeliver(A, false)) // B recv revoke
	st.dump("B recvd all")
	st.must(s.DoSign(B))
	st.dump("B sign h2")
	st.must(s.DoDeliver(B, false)) // A recv revoke
	st.must(s.DoDeliver(B, false)) // A recv sig, revoke h=1
	st.dump("A revoke h1")
	_, err = s.DoCut(chansim.CutOpts{})
	st.must(err)
	st.dump("after cut2")
	st.must(s.Drain(s.CheckAll))
	st.dump("end")
}

// TestVerifC03ReproFeeAfterLostRevocation: B (opener) sends update_fee and
// signs; A revokes but the revocation is lost in a disconnect; after the
// reconnect B sends a second update_fee before the retransmitted revocation
// arrives.
func TestVerifC03ReproFeeAfterLostRevocation(t *testing.T) {
	for _, typ := range []string{"legacy", "anchors-zero-fee", "taproot"} {
		t.Run(typ, func(t *testing.T) {
			p := fixedParams(typ, false)
			s := chansim.New(t, p)
			defer s.Close()
			st := &stepper{t, s}
			const A, B = 0, 1

			_, err := s.DoAdd(A, 1_000_215, 501, nil)
			st.must(err)
			_, err = s.DoAdd(A, 2_308_991, 513, nil)
			st.must(err)
			st.must(s.DoSign(A))
			_, err = s.DoFee(372)
			st.must(err)
			st.must(s.DoDeliver(B, false)) // A recv fee
			st.must(s.DoSign(B))
			st.must(s.DoDeliver(B, false)) // A recv sig, revokes
			st.must(s.DoDeliver(A, false)) // B recv add 0
			_, err = s.DoCut(chansim.CutOpts{})
			st.must(err)
			_, err = s.DoFee(299)
			st.must(err)
			st.must(s.DoDeliver(A, false)) // B recv add
			st.must(s.DoDeliver(B, false)) // A recv fee 299
			st.must(s.DoDeliver(A, false)) // B recv add
			st.must(s.DoDeliver(A, false)) // B recv sig, revokes
			st.must(s.DoDeliver(A, false)) // B recv revocation
			st.must(s.DoSign(B))
			st.must(s.Drain(s.CheckAll))
			st.must(s.CheckQuiescent())
		})
	}
}
