//go:build verif

package lnwallet_test

// C02: channel state reloaded after a crash is complete, consistent and
// safe. After EVERY state-machine call of a generated schedule (crash point
// enumeration) both sides are additionally loaded afresh from their
// databases and compared with the in-memory state and the model
// (chansim.CheckReload); cuts make the reloaded channels actually continue
// operating (C03 machinery), after which all C01 oracles must hold.

import (
	"strings"
	"testing"

	"github.com/lightningnetwork/lnd/internal/verif/chansim"
	"github.com/lightningnetwork/lnd/internal/verif/vstats"
	"pgregory.net/rapid"
)

func TestVerifC02Reload(t *testing.T) {
	st := vstats.New("TestVerifC02Reload")
	defer st.Flush()
	maxSteps := vstats.EnvInt("VERIF_STEPS", 40)

	rapid.Check(t, func(t *rapid.T) {
		p := chansim.DrawParams(t, nil)
		s := chansim.New(t, p)
		defer s.Close()

		crashPoints := 0
		shapes := map[string]bool{}
		err := s.Run(t, chansim.RunOpts{
			MinSteps: 8, MaxSteps: maxSteps, Cuts: true, CutWeight: 1,
			Faults: true,
			AfterStep: func(s *chansim.Sim, a string) error {
				for x := 0; x < 2; x++ {
					if err := s.CheckReload(x); err != nil {
						return err
					}
					crashPoints++
					m := &s.M
					if s.Unacked(x) {
						shapes["pending_remote_commit"] = true
					}
					if m.TailTheir[x] > m.SignedTheir[x] {
						shapes["unsigned_acked_updates"] = true
					}
					if m.SignedOwn[x] > m.TailOwn[x] {
						shapes["remote_unsigned_local_updates"] = true
					}
					if len(m.U[x]) > m.SignedOwn[x] {
						shapes["unsigned_own_updates"] = true
					}
				}
				return nil
			},
		})
		if err != nil {
			t.Fatalf("%v\nparams: %v\ntrace:\n  %s", err, p,
				strings.Join(s.Trace, "\n  "))
		}
		ls := simLabels(s)
		for l := range shapes {
			ls = append(ls, l)
		}
		nontrivial := shapes["pending_remote_commit"] &&
			(shapes["unsigned_acked_updates"] ||
				shapes["remote_unsigned_local_updates"])
		st.Count("crash_points_checked", int64(crashPoints))
		st.Case(vstats.FP(p.String(), strings.Join(s.Trace, "|")),
			nontrivial, ls, simSample(s))
	})
}
