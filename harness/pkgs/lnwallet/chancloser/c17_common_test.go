//go:build verif

package chancloser

// C17 parts 2 and 3 (package chancloser): helpers shared by the legacy
// negotiation harness (c17_legacy_test.go) and the RBF cooperative close
// harness (c17_rbf_test.go).
//
// Real channel pairs come from the two-party simulator (internal/verif/
// chansim): a generated update/commit/revoke schedule (cuts included) is run,
// every HTLC is resolved and the channel drained; both parties are then
// loaded afresh from their databases and handed to the closers as the
// Channel / CloseSigner. The balances the closing transaction must pay are
// predicted by the simulator's reference model, never read from lnd.

import (
	"bytes"
	"crypto/sha256"
	"fmt"
	"io"
	"sort"
	"strings"

	"github.com/btcsuite/btcd/btcec/v2/schnorr/musig2"
	"github.com/btcsuite/btcd/btcutil/v2"
	"github.com/btcsuite/btcd/wire/v2"
	"github.com/lightningnetwork/lnd/fn/v2"
	"github.com/lightningnetwork/lnd/input"
	"github.com/lightningnetwork/lnd/internal/verif/chansim"
	"github.com/lightningnetwork/lnd/lnwallet"
	"github.com/lightningnetwork/lnd/lnwire"
	"pgregory.net/rapid"
)

// vc17Height is the block height handed to the closers; it is above every
// generated lease thaw height (frozen-channel refusals are not part of C17).
const vc17Height = 1_000_000

var vc17Names = [2]string{"A", "B"}

// vc17DetRand is a deterministic byte stream for musig2 signing nonces (the
// nonce values never influence a decision of the protocol).
type vc17DetRand struct {
	seed [32]byte
	n    uint64
}

func (d *vc17DetRand) Read(p []byte) (int, error) {
	for i := range p {
		h := sha256.Sum256(append(d.seed[:], byte(d.n), byte(d.n>>8),
			byte(d.n>>16), byte(d.n>>24)))
		p[i] = h[0]
		d.n++
	}
	return len(p), nil
}

// vc17DrawScript draws a delivery script of one of the forms lnd accepts in a
// shutdown message (BOLT-2: P2WPKH, P2WSH, P2TR / future witness versions).
func vc17DrawScript(t *rapid.T, label string) []byte {
	kind := rapid.IntRange(0, 6).Draw(t, label+"Kind")
	body := rapid.SliceOfN(rapid.Byte(), 32, 32).Draw(t, label)
	switch {
	case kind <= 1: // P2WPKH
		return append([]byte{0x00, 0x14}, body[:20]...)
	case kind <= 3: // P2WSH
		return append([]byte{0x00, 0x20}, body...)
	case kind <= 5: // P2TR
		return append([]byte{0x51, 0x20}, body...)
	default: // witness v2..v16, 2..32 byte program
		ver := rapid.IntRange(2, 16).Draw(t, label+"WitVer")
		n := rapid.IntRange(2, 32).Draw(t, label+"WitLen")
		return append([]byte{byte(0x50 + ver), byte(n)}, body[:n]...)
	}
}

// vc17Wire sends a message through lnd's wire encoding, like the real
// transport between two peers does.
func vc17Wire(m lnwire.Message) (lnwire.Message, error) {
	var b bytes.Buffer
	if _, err := lnwire.WriteMessage(&b, m, 0); err != nil {
		return nil, fmt.Errorf("encode %T: %w", m, err)
	}
	out, err := lnwire.ReadMessage(&b, 0)
	if err != nil {
		return nil, fmt.Errorf("decode %T: %w", m, err)
	}
	return out, nil
}

// vc17Musig mirrors peer.MusigChanCloser (peer/musig_chan_closer.go, which
// cannot be imported from here): the adapter between the closers and
// lnwallet's musig2 session for taproot channels. Only the nonce source
// differs (deterministic).
type vc17Musig struct {
	channel *lnwallet.LightningChannel

	musigSession *lnwallet.MusigSession

	localNonce  *musig2.Nonces
	remoteNonce *musig2.Nonces

	rnd *vc17DetRand
}

func vc17NewMusig(ch *lnwallet.LightningChannel, seed [32]byte,
	tag uint64) *vc17Musig {

	return &vc17Musig{
		channel: ch,
		rnd:     &vc17DetRand{seed: seed, n: tag << 24},
	}
}

func (m *vc17Musig) ProposalClosingOpts() ([]lnwallet.ChanCloseOpt, error) {
	switch {
	case m.localNonce == nil:
		return nil, fmt.Errorf("local nonce not generated")
	case m.remoteNonce == nil:
		return nil, fmt.Errorf("remote nonce not generated")
	}

	localKey, remoteKey := m.channel.MultiSigKeys()
	tapscriptTweak := fn.MapOption(lnwallet.TapscriptRootToTweak)(
		m.channel.State().TapscriptRoot,
	)
	m.musigSession = lnwallet.NewPartialMusigSession(
		*m.remoteNonce, localKey, remoteKey, m.channel.Signer,
		m.channel.FundingTxOut(), lnwallet.RemoteMusigCommit,
		tapscriptTweak, fn.None[io.Reader](),
	)
	if err := m.musigSession.FinalizeSession(*m.localNonce); err != nil {
		return nil, err
	}

	return []lnwallet.ChanCloseOpt{
		lnwallet.WithCoopCloseMusigSession(m.musigSession),
	}, nil
}

func (m *vc17Musig) CombineClosingOpts(localSig,
	remoteSig lnwire.PartialSig) (input.Signature, input.Signature,
	[]lnwallet.ChanCloseOpt, error) {

	if m.musigSession == nil {
		return nil, nil, nil, fmt.Errorf("musig session not created")
	}
	localMuSig := new(lnwallet.MusigPartialSig).FromWireSig(
		&lnwire.PartialSigWithNonce{
			PartialSig: localSig, Nonce: m.localNonce.PubNonce,
		},
	)
	remoteMuSig := new(lnwallet.MusigPartialSig).FromWireSig(
		&lnwire.PartialSigWithNonce{
			PartialSig: remoteSig, Nonce: m.remoteNonce.PubNonce,
		},
	)

	return localMuSig, remoteMuSig, []lnwallet.ChanCloseOpt{
		lnwallet.WithCoopCloseMusigSession(m.musigSession),
	}, nil
}

func (m *vc17Musig) ClosingNonce() (*musig2.Nonces, error) {
	localKey, _ := m.channel.MultiSigKeys()
	nonce, err := musig2.GenNonces(
		musig2.WithPublicKey(localKey.PubKey),
		musig2.WithCustomRand(m.rnd),
	)
	if err != nil {
		return nil, err
	}
	m.localNonce = nonce

	return nonce, nil
}

func (m *vc17Musig) InitRemoteNonce(nonce *musig2.Nonces) {
	m.remoteNonce = nonce
}

func (m *vc17Musig) InvalidateNonce() {
	m.localNonce = nil
	m.musigSession = nil
}

var _ MusigSession = (*vc17Musig)(nil)

// vc17Chan is a simulated channel pair in an HTLC-free state together with
// the model's prediction of what each party owns.
type vc17Chan struct {
	s  *chansim.Sim
	p  chansim.Params
	op int

	// raw are the stored commitment balances in whole satoshis (what lnd
	// calls LocalBalance/RemoteBalance of the flushed channel).
	raw [2]btcutil.Amount

	// bal are the balances a cooperative close must pay out before the
	// closing fee: raw, plus the dangling commitment fee and the anchor
	// amounts for the opener.
	bal [2]btcutil.Amount

	labels []string
	nonce  uint64
}

func (c *vc17Chan) fail(t *rapid.T, f string, a ...any) {
	t.Helper()
	t.Fatalf("%s\nparams: %v\nbalances(model): raw=%v close=%v opener=%s\n"+
		"trace:\n  %s", fmt.Sprintf(f, a...), c.p, c.raw, c.bal,
		vc17Names[c.op], strings.Join(c.s.Trace, "\n  "))
}

// vc17Setup builds a channel pair and brings it into a generated HTLC-free
// state. It returns nil if the honest schedule ended in a documented
// constraint race (the case is then not evaluated).
func vc17Setup(t *rapid.T, types []string, maxSteps int) *vc17Chan {
	p := chansim.DrawParams(t, types)
	s := chansim.New(t, p)
	c := &vc17Chan{s: s, p: p, op: p.Opener()}
	ok := false
	defer func() {
		if !ok {
			s.Close()
		}
	}()

	if err := s.Run(t, chansim.RunOpts{
		MinSteps: 0, MaxSteps: maxSteps, Cuts: true, CutWeight: 1,
	}); err != nil {
		c.fail(t, "%v", err)
	}
	for i := 0; i < 50 && s.Aborted == ""; i++ {
		progressed := false
		for y := 0; y < 2; y++ {
			for _, h := range s.Resolvable(y) {
				kind := []chansim.UpdKind{
					chansim.USettle, chansim.UFail,
				}[rapid.IntRange(0, 1).Draw(t, "finalRes")]
				if err := s.DoResolve(y, h, kind); err != nil {
					c.fail(t, "%v", err)
				}
				progressed = true
			}
		}
		if err := s.Drain(s.CheckAll); err != nil {
			c.fail(t, "%v", err)
		}
		if !progressed {
			break
		}
	}
	if s.Aborted != "" {
		return nil
	}
	if len(s.LiveOffered(0))+len(s.LiveOffered(1)) != 0 {
		c.fail(t, "harness: HTLCs still live after final resolution")
	}

	// Balance shaping: one more payment that lands the receiver's balance
	// within +-2 sat of a dust boundary -- its own channel dust limit
	// (output trimming) or a script dust limit (294/330/354 sat: which
	// closing_complete signature field the RBF flow uses).
	// Only the non-opener can sit that low (the opener keeps its reserve),
	// and only a payment towards it can move it there.
	shaped := ""
	{
		y := 1 - c.op
		full := [2]int{len(s.M.U[0]), len(s.M.U[1])}
		cur := int64(s.Expect(0, s.M.RevsSent[0], full).Stored[y])
		// (every target is >= 198 sat, so the payment is positive)
		if cur < 190_000 && rapid.IntRange(0, 3).Draw(t, "shape") != 0 {
			targets := []int64{int64(p.Dust[y]), 294, 330, 354}
			target := targets[rapid.IntRange(0, len(targets)-1).Draw(t,
				"shapeTarget")]
			if rapid.Bool().Draw(t, "shapeOff") {
				target += int64(rapid.IntRange(-2, 2).Draw(t,
					"shapeDelta"))
			}
			amt := target*1000 + int64(rapid.IntRange(0, 999).Draw(t,
				"shapeMsat")) - cur
			ok, err := s.DoAdd(1-y, lnwire.MilliSatoshi(amt), 510, nil)
			if err != nil {
				c.fail(t, "%v", err)
			}
			if err := s.Drain(s.CheckAll); err != nil {
				c.fail(t, "%v", err)
			}
			if ok && s.Aborted == "" {
				for _, h := range s.Resolvable(y) {
					err := s.DoResolve(y, h, chansim.USettle)
					if err != nil {
						c.fail(t, "%v", err)
					}
				}
				if err := s.Drain(s.CheckAll); err != nil {
					c.fail(t, "%v", err)
				}
				shaped = "balance_shaped_to_dust_boundary"
			}
			if s.Aborted != "" {
				return nil
			}
			if len(s.LiveOffered(0))+len(s.LiveOffered(1)) != 0 {
				c.fail(t, "harness: shaping HTLC still live")
			}
		}
	}

	full := [2]int{len(s.M.U[0]), len(s.M.U[1])}
	exp := s.Expect(0, s.M.RevsSent[0], full)
	for z := 0; z < 2; z++ {
		c.raw[z] = btcutil.Amount(uint64(exp.Stored[z]) / 1000)
		c.bal[z] = c.raw[z]
	}
	c.bal[c.op] += exp.CommitFee
	if p.ChanType.HasAnchors() {
		c.bal[c.op] += 2 * chansim.AnchorSize
	}

	c.labels = []string{
		"type=" + p.TypeName, fmt.Sprintf("openerA=%v", p.InitiatorA),
	}
	for l := range s.Labels {
		c.labels = append(c.labels, "sim:"+l)
	}
	if shaped != "" {
		c.labels = append(c.labels, shaped)
	}
	sort.Strings(c.labels)
	for z := 0; z < 2; z++ {
		if c.bal[z] < p.Dust[z] {
			c.labels = append(c.labels, "balance_below_own_dust")
		}
	}

	ok = true
	return c
}

// load returns both parties' channels freshly loaded from their databases.
func (c *vc17Chan) load(t *rapid.T) [2]*lnwallet.LightningChannel {
	var chans [2]*lnwallet.LightningChannel
	for x := 0; x < 2; x++ {
		ch, err := c.s.Sides[x].LoadFresh()
		if err != nil {
			c.fail(t, "reload %s: %v", vc17Names[x], err)
		}
		chans[x] = ch
	}
	return chans
}

// vc17TxCheck is the transaction-level oracle of C17 applied to one completed
// closing transaction: valid spend of the funding output, one input, each
// party's output == its balance (fee taken from payer), outputs below the
// owner's dust limit omitted, nothing else in the transaction, outputs + fee
// (+ trimmed) == capacity up to the two sub-satoshi remainders.
type vc17TxCheck struct {
	fee     btcutil.Amount
	payer   int
	scripts [2][]byte

	// trimmed reports (after check) that an output was omitted as dust.
	trimmed bool
}

func (k *vc17TxCheck) check(c *vc17Chan, tx *wire.MsgTx,
	ch *lnwallet.LightningChannel) error {

	if tx == nil {
		return fmt.Errorf("no closing transaction")
	}
	if len(tx.TxIn) != 1 ||
		tx.TxIn[0].PreviousOutPoint != ch.ChannelPoint() {

		return fmt.Errorf("closing tx does not spend exactly the "+
			"funding outpoint: %v", tx.TxIn)
	}
	if err := chansim.VerifyInput(tx, 0, ch.FundingTxOut()); err != nil {
		return fmt.Errorf("closing tx invalid against the funding "+
			"output: %w", err)
	}

	want := c.bal
	want[k.payer] -= k.fee
	if want[k.payer] < 0 {
		return fmt.Errorf("closing tx built with fee %d above the "+
			"payer's (%s) balance %d", k.fee, vc17Names[k.payer],
			c.bal[k.payer])
	}

	var outs btcutil.Amount
	got := map[string][]int64{}
	for _, o := range tx.TxOut {
		outs += btcutil.Amount(o.Value)
		got[string(o.PkScript)] = append(got[string(o.PkScript)], o.Value)
	}
	if outs+k.fee > c.p.Capacity {
		return fmt.Errorf("outputs %d + fee %d exceed capacity %d", outs,
			k.fee, c.p.Capacity)
	}

	same := bytes.Equal(k.scripts[0], k.scripts[1])
	var trimmed btcutil.Amount
	nOut := 0
	for x := 0; x < 2; x++ {
		has := want[x] >= c.p.Dust[x]
		if !has {
			trimmed += want[x]
			k.trimmed = true
		} else {
			nOut++
		}
		if same {
			continue
		}
		vals := got[string(k.scripts[x])]
		if has != (len(vals) == 1) || len(vals) > 1 {
			return fmt.Errorf("%s output present %d times; balance "+
				"after fee %d, own dust limit %d (fee %d paid by %s)",
				vc17Names[x], len(vals), want[x], c.p.Dust[x], k.fee,
				vc17Names[k.payer])
		}
		if has && btcutil.Amount(vals[0]) != want[x] {
			return fmt.Errorf("%s output %d sat, expected %d (balance "+
				"%d, fee %d paid by %s)", vc17Names[x], vals[0],
				want[x], c.bal[x], k.fee, vc17Names[k.payer])
		}
	}
	if len(tx.TxOut) != nOut {
		return fmt.Errorf("closing tx has %d outputs, expected %d",
			len(tx.TxOut), nOut)
	}
	if same && nOut > 0 {
		var sum btcutil.Amount
		for x := 0; x < 2; x++ {
			if want[x] >= c.p.Dust[x] {
				sum += want[x]
			}
		}
		if outs != sum {
			return fmt.Errorf("outputs sum %d, expected %d", outs, sum)
		}
	}
	slack := c.p.Capacity - outs - k.fee - trimmed
	if slack < 0 || slack > 1 {
		return fmt.Errorf("outputs %d + fee %d + trimmed %d vs capacity "+
			"%d (slack %d)", outs, k.fee, trimmed, c.p.Capacity, slack)
	}
	return nil
}

func vc17SameTx(a, b *wire.MsgTx) bool {
	var ba, bb bytes.Buffer
	_ = a.Serialize(&ba)
	_ = b.Serialize(&bb)
	return bytes.Equal(ba.Bytes(), bb.Bytes())
}

func vc17TxHex(tx *wire.MsgTx) string {
	if tx == nil {
		return "<nil>"
	}
	var b bytes.Buffer
	_ = tx.Serialize(&b)
	return fmt.Sprintf("%x", b.Bytes())
}
