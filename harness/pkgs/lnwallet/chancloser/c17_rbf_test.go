//go:build verif

package chancloser

// C17 part 3: the RBF cooperative close state machine (rbf_coop_states.go,
// rbf_coop_transitions.go), driven through the states' ProcessEvent functions
// directly. The harness plays the role of protofsm's executor (same event
// ordering as StateMachine.applyEvents: external daemon events of a
// transition are executed, then its internal events are queued behind the
// ones already pending) and of the transport: two state machines, one per
// party, each with
//   - a real lnwallet.LightningChannel from the simulator as CloseSigner,
//   - a ChanStateObserver that mirrors peer/chan_observer.go over that channel
//     (with or without a link),
//   - the harness's mirror of peer.MusigChanCloser as Local/RemoteMusigSession
//     for taproot channels,
//   - a CoopFeeEstimator stub that maps each generated fee rate to a
//     generated absolute fee,
//   - the real RbfMsgMapper to turn the peer's wire messages (after an
//     encode/decode round trip) into events.
//
// Generated: channel state (simulator), who asks for the close (SendShutdown
// on A, B or both), delivery scripts (given in the request or obtained from
// NewDeliveryScript), link present or not (flush notification needed or
// balances final at once), the absolute fee of every offer (zero, small,
// around the closer's balance, around its dust limit, arbitrary), up to two
// RBF bumps per party, and the interleaving of message
// deliveries, post-send events, flush notifications and bumps.
//
// Covered transitions: ChannelActive -> ShutdownPending -> ChannelFlushing ->
// ClosingNegotiation{LocalCloseStart -> LocalOfferSent -> ClosePending,
// RemoteCloseStart -> ClosePending}, ClosePending -> LocalCloseStart /
// RemoteCloseStart (RBF iterations), LocalCloseStart -> CloseErr, early
// offers stashed in ShutdownPending / ChannelFlushing.

import (
	"fmt"
	"strings"
	"testing"

	"github.com/btcsuite/btcd/btcutil/v2"
	"github.com/btcsuite/btcd/chaincfg/v2"
	"github.com/btcsuite/btcd/mempool"
	"github.com/btcsuite/btcd/wire/v2"
	"github.com/lightningnetwork/lnd/channeldb"
	"github.com/lightningnetwork/lnd/fn/v2"
	"github.com/lightningnetwork/lnd/internal/verif/vstats"
	"github.com/lightningnetwork/lnd/lntypes"
	"github.com/lightningnetwork/lnd/lnwallet"
	"github.com/lightningnetwork/lnd/lnwallet/chainfee"
	"github.com/lightningnetwork/lnd/lnwire"
	"github.com/lightningnetwork/lnd/msgmux"
	"github.com/lightningnetwork/lnd/protofsm"
	"pgregory.net/rapid"
)

// vc17RbfTypes: the RBF closer is refused for channels with a tapscript root
// (peer.initRbfChanCloser), so the overlay type is not generated.
var vc17RbfTypes = []string{
	"legacy", "tweakless", "anchors", "anchors-zero-fee", "lease",
	"taproot", "taproot-final",
}

// vc17RbfEst maps fee rates to the generated absolute fees.
type vc17RbfEst struct {
	fees    map[chainfee.SatPerKWeight]btcutil.Amount
	unknown []chainfee.SatPerKWeight
}

func (e *vc17RbfEst) EstimateFee(_ channeldb.ChannelType, _, _ *wire.TxOut,
	rate chainfee.SatPerKWeight) btcutil.Amount {

	f, ok := e.fees[rate]
	if !ok {
		e.unknown = append(e.unknown, rate)
	}
	return f
}

// vc17Observer mirrors peer.chanObserver over the real channel. hasLink
// selects between the "active link" and the "no link (restart)" behaviour of
// FinalBalances.
type vc17Observer struct {
	ch      *lnwallet.LightningChannel
	hasLink bool

	inDisabled, outDisabled bool
	shutdownMarked          int
	coopMarked              int
}

func (o *vc17Observer) NoDanglingUpdates() bool { return !o.ch.OweCommitment() }

func (o *vc17Observer) DisableIncomingAdds() error {
	o.inDisabled = true
	return nil
}

func (o *vc17Observer) DisableOutgoingAdds() error {
	o.outDisabled = true
	return nil
}

func (o *vc17Observer) DisableChannel() error { return nil }

func (o *vc17Observer) MarkCoopBroadcasted(tx *wire.MsgTx, local bool) error {
	party := lntypes.Remote
	if local {
		party = lntypes.Local
	}
	o.coopMarked++
	return o.ch.MarkCoopBroadcasted(tx, party)
}

func (o *vc17Observer) MarkShutdownSent(addr []byte, isInitiator bool) error {
	o.shutdownMarked++
	return o.ch.MarkShutdownSent(channeldb.NewShutdownInfo(addr, isInitiator))
}

func (o *vc17Observer) FinalBalances() fn.Option[ShutdownBalances] {
	if o.hasLink &&
		!(o.inDisabled && o.outDisabled && o.ch.IsChannelClean()) {

		return fn.None[ShutdownBalances]()
	}
	snap := o.ch.StateSnapshot()
	return fn.Some(ShutdownBalances{
		LocalBalance:  snap.LocalBalance,
		RemoteBalance: snap.RemoteBalance,
	})
}

var _ ChanStateObserver = (*vc17Observer)(nil)

// vc17Offer is one closing_complete a party sent.
type vc17Offer struct {
	fee      btcutil.Amount
	lockTime uint32
}

type vc17RbfSide struct {
	ix     int
	ch     *lnwallet.LightningChannel
	env    *Environment
	est    *vc17RbfEst
	obs    *vc17Observer
	mapper *RbfMsgMapper
	state  RbfState

	// selfq: events the daemon feeds back (post-send events, the user's
	// requests); netq: wire messages to the peer, in order.
	selfq []ProtocolEvent
	netq  []lnwire.Message

	sawFlushing, flushSent bool
	inNegotiation          bool

	// idealFee is the absolute fee of the first offer; which of the two
	// generated values applies depends on whether the user's SendShutdown
	// was taken.
	reqFee, defFee btcutil.Amount
	tookRequest    bool
	bumpFees       []btcutil.Amount
	bumpRates      []chainfee.SatPerVByte

	// expected offers (model) and what was observed.
	wantOffers []btcutil.Amount
	offers     []vc17Offer
	closerTxs  []*wire.MsgTx // own offers completed (ClosePending local)
	closeeTxs  []*wire.MsgTx // peer's offers countersigned
	closeeFees []btcutil.Amount
	broadcasts []*wire.MsgTx
	closeErrs  int

	dead   error
	deadOn string
}

func (sd *vc17RbfSide) negotiation() *ClosingNegotiation {
	n, _ := sd.state.(*ClosingNegotiation)
	return n
}

func TestVerifC17RbfCoop(t *testing.T) {
	st := vstats.New("TestVerifC17RbfCoop")
	defer st.Flush()
	maxSteps := vstats.EnvInt("VERIF_STEPS", 12)
	perSim := vstats.EnvInt("VERIF_C17_PER_SIM", 4)
	lockTimes := vstats.EnvInt("VERIF_C17_LOCKTIME", 0) != 0

	rapid.Check(t, func(t *rapid.T) {
		c := vc17Setup(t, vc17RbfTypes, maxSteps)
		if c == nil {
			st.Count("sim_aborted", 1)
			return
		}
		defer c.s.Close()

		n := rapid.IntRange(1, perSim).Draw(t, "closes")
		for k := 0; k < n; k++ {
			vc17RbfCase(t, st, c, k, lockTimes)
		}
	})
}

// vc17DrawRbfFee draws the absolute fee of an offer by party x.
func vc17DrawRbfFee(t *rapid.T, c *vc17Chan, x int, label string) btcutil.Amount {
	raw := int64(c.raw[x])
	var f int64
	switch rapid.IntRange(0, 7).Draw(t, label+"Kind") {
	case 0:
		f = 0
	case 1, 2:
		f = rapid.Int64Range(1, 5000).Draw(t, label+"Small")
	case 3, 4: // right at what the closer is taken to be able to pay
		f = raw + rapid.Int64Range(-2, 2).Draw(t, label+"NearBal")
	case 5: // leaves the closer's output around its dust limit
		f = int64(c.bal[x]) - int64(c.p.Dust[x]) +
			rapid.Int64Range(-2, 2).Draw(t, label+"NearDust")
	case 6:
		f = rapid.Int64Range(0, raw+1000).Draw(t, label+"Any")
	default:
		f = rapid.Int64Range(170, 17000).Draw(t, label+"Realistic")
	}
	if f < 0 {
		f = 0
	}
	return btcutil.Amount(f)
}

func vc17RbfCase(t *rapid.T, st *vstats.Collector, c *vc17Chan, k int,
	lockTimes bool) {

	p := c.p
	taproot := p.ChanType.IsTaproot()
	chans := c.load(t)
	scripts := [2][]byte{
		vc17DrawScript(t, "scriptA"), vc17DrawScript(t, "scriptB"),
	}

	var trace []string
	tracef := func(f string, a ...any) {
		trace = append(trace, fmt.Sprintf(f, a...))
	}
	var sides [2]*vc17RbfSide
	fail := func(f string, a ...any) {
		var extra []string
		for _, sd := range sides {
			if sd == nil {
				continue
			}
			extra = append(extra, fmt.Sprintf("%s: first-offer fee "+
				"request=%d default=%d bumps=%v link=%v locktime=%d "+
				"state=%v", vc17Names[sd.ix], sd.reqFee, sd.defFee,
				sd.bumpFees, sd.obs.hasLink, sd.env.BlockHeight,
				sd.state))
		}
		c.fail(t, "rbf close %d: %s\n%s\nscripts %x / %x\nevents:\n  %s",
			k, fmt.Sprintf(f, a...), strings.Join(extra, "\n"),
			scripts[0], scripts[1], strings.Join(trace, "\n  "))
	}

	// ---- the two state machines ----------------------------------------
	closeInit := rapid.IntRange(0, 2).Draw(t, "closeInit") // A, B, both
	for x := 0; x < 2; x++ {
		x := x
		ch := chans[x]
		if !ch.IsChannelClean() {
			fail("harness: drained channel of %s is not clean",
				vc17Names[x])
		}
		peerPub := *c.s.Sides[1-x].Keys[0].PubKey()
		sd := &vc17RbfSide{
			ix: x, ch: ch,
			est: &vc17RbfEst{
				fees: map[chainfee.SatPerKWeight]btcutil.Amount{},
			},
			obs: &vc17Observer{
				ch: ch, hasLink: rapid.Bool().Draw(t, "hasLink"),
			},
			state: &ChannelActive{},
		}
		// Distinct fee rates (sat/vb) for: the user's request, the
		// default, bump 1, bump 2. The estimator stub decides what they
		// cost.
		reqRate := chainfee.SatPerVByte(10 + x)
		defRate := chainfee.SatPerVByte(20 + x)
		sd.reqFee = vc17DrawRbfFee(t, c, x, "reqFee")
		sd.defFee = vc17DrawRbfFee(t, c, x, "defFee")
		sd.est.fees[reqRate.FeePerKWeight()] = sd.reqFee
		sd.est.fees[defRate.FeePerKWeight()] = sd.defFee
		nb := rapid.IntRange(0, 2).Draw(t, "bumps")
		for i := 0; i < nb; i++ {
			r := chainfee.SatPerVByte(30 + 10*i + x)
			f := vc17DrawRbfFee(t, c, x, "bumpFee")
			sd.bumpRates = append(sd.bumpRates, r)
			sd.bumpFees = append(sd.bumpFees, f)
			sd.est.fees[r.FeePerKWeight()] = f
		}

		// Environment.BlockHeight is what a closer announces as the lock
		// time of its offer. The only constructor (peer.initRbfChanCloser)
		// leaves it zero, and LocalCloseStart signs a transaction with
		// lock time zero whatever this field says, so zero is the only
		// value of the real callers' domain (see notes/C17b.md).
		// VERIF_C17_LOCKTIME=1 generates non-zero values anyway (repro
		// of that latent mismatch; the check then fails).
		var lockTime uint32
		if lockTimes && rapid.Bool().Draw(t, "lockTimeSet") {
			lockTime = uint32(rapid.IntRange(1, vc17Height).Draw(t,
				"lockTime"))
		}
		sd.env = &Environment{
			ChainParams:    chaincfg.RegressionNetParams,
			ChanPeer:       peerPub,
			ChanPoint:      ch.ChannelPoint(),
			ChanID:         lnwire.NewChanIDFromOutPoint(ch.ChannelPoint()),
			Scid:           ch.ShortChanID(),
			ChanType:       ch.ChanType(),
			BlockHeight:    lockTime,
			DefaultFeeRate: defRate,
			ThawHeight:     fn.Some(p.Thaw),
			NewDeliveryScript: func() (lnwire.DeliveryAddress, error) {
				return scripts[x], nil
			},
			FeeEstimator: sd.est,
			ChanObserver: sd.obs,
			CloseSigner:  ch,
		}
		if taproot {
			c.nonce += 2
			sd.env.LocalMusigSession = vc17NewMusig(ch, p.Seed, c.nonce)
			sd.env.RemoteMusigSession = vc17NewMusig(ch, p.Seed, c.nonce+1)
		}
		sd.mapper = NewRbfMsgMapper(
			func() uint32 { return vc17Height }, sd.env.ChanID, peerPub,
		)
		if closeInit == 2 || closeInit == x {
			addr := fn.None[lnwire.DeliveryAddress]()
			if rapid.Bool().Draw(t, "addrInRequest") {
				addr = fn.Some(lnwire.DeliveryAddress(scripts[x]))
			}
			sd.selfq = append(sd.selfq, &SendShutdown{
				DeliveryAddr: addr, IdealFeeRate: reqRate,
			})
		}
		sides[x] = sd
	}

	// payable / hasOutputs: the model's view of an offer of fee by x.
	payable := func(x int, fee btcutil.Amount) bool { return fee <= c.raw[x] }
	hasOutputs := func(x int, fee btcutil.Amount) bool {
		w := c.bal
		w[x] -= fee
		return w[0] >= p.Dust[0] || w[1] >= p.Dust[1]
	}

	// ---- executor --------------------------------------------------------
	apply := func(x int, ev ProtocolEvent, why string) {
		sd := sides[x]
		queue := []ProtocolEvent{ev}
		for len(queue) > 0 && sd.dead == nil {
			e := queue[0]
			queue = queue[1:]
			from := sd.state.String()
			tr, err := sd.state.ProcessEvent(e, sd.env)
			if err != nil {
				sd.dead, sd.deadOn = err, fmt.Sprintf("%T in %s", e, from)
				tracef("%s %s: %T in %s -> ERROR %v", vc17Names[x], why,
					e, from, err)
				return
			}
			var sentSig *lnwire.ClosingSig
			var bcast *wire.MsgTx
			tr.NewEvents.WhenSome(func(em RbfEvent) {
				for _, d := range em.ExternalEvents {
					switch de := d.(type) {
					case *protofsm.SendMsgEvent[ProtocolEvent]:
						ok := fn.MapOptionZ(de.SendWhen,
							func(pr protofsm.SendPredicate) bool {
								return pr()
							})
						if de.SendWhen.IsSome() && !ok {
							fail("harness: send predicate false " +
								"on a clean channel")
						}
						if !de.TargetPeer.IsEqual(&sd.env.ChanPeer) {
							fail("%s sends to a foreign peer",
								vc17Names[x])
						}
						for _, m := range de.Msgs {
							w, err := vc17Wire(m)
							if err != nil {
								fail("%s: %v", vc17Names[x], err)
							}
							sd.netq = append(sd.netq, w)
							switch mm := m.(type) {
							case *lnwire.ClosingComplete:
								sd.offers = append(sd.offers,
									vc17Offer{mm.FeeSatoshis,
										mm.LockTime})
								tracef("%s -> closing_complete "+
									"fee=%d locktime=%d",
									vc17Names[x], mm.FeeSatoshis,
									mm.LockTime)
							case *lnwire.ClosingSig:
								sentSig = mm
								tracef("%s -> closing_sig fee=%d",
									vc17Names[x], mm.FeeSatoshis)
							default:
								tracef("%s -> %T", vc17Names[x], m)
							}
						}
						de.PostSendEvent.WhenSome(func(pe ProtocolEvent) {
							sd.selfq = append(sd.selfq, pe)
						})

					case *protofsm.BroadcastTxn:
						bcast = de.Tx.Copy()
						sd.broadcasts = append(sd.broadcasts, bcast)

					default:
						fail("harness: unexpected daemon event %T", d)
					}
				}
				queue = append(queue, em.InternalEvent...)
			})
			sd.state = tr.NextState
			tracef("%s %s: %T: %s -> %s", vc17Names[x], why, e, from,
				sd.state)

			if _, ok := sd.state.(*ChannelFlushing); ok {
				sd.sawFlushing = true
			}
			neg := sd.negotiation()
			if neg == nil {
				continue
			}
			if !sd.inNegotiation {
				// First time in ClosingNegotiation: the first
				// offer is due, if the party can pay for it.
				sd.inNegotiation = true
				first := sd.defFee
				if sd.tookRequest {
					first = sd.reqFee
				}
				if payable(x, first) {
					sd.wantOffers = append(sd.wantOffers, first)
				}
			}
			if _, ok := e.(*LocalSigReceived); ok {
				cp, ok := neg.PeerState.Local.(*ClosePending)
				if !ok || cp.Party != lntypes.Local || bcast == nil {
					fail("%s: closing_sig accepted but local state "+
						"is %v (broadcast=%v)", vc17Names[x],
						neg.PeerState.Local, bcast != nil)
				}
				if !vc17SameTx(cp.CloseTx, bcast) {
					fail("%s broadcasts a different tx than its "+
						"ClosePending state holds", vc17Names[x])
				}
				sd.closerTxs = append(sd.closerTxs, cp.CloseTx)
			}
			if sentSig != nil {
				cp, ok := neg.PeerState.Remote.(*ClosePending)
				if !ok || cp.Party != lntypes.Remote || bcast == nil {
					fail("%s: closing_sig sent but remote state is "+
						"%v (broadcast=%v)", vc17Names[x],
						neg.PeerState.Remote, bcast != nil)
				}
				if !vc17SameTx(cp.CloseTx, bcast) {
					fail("%s broadcasts a different tx than its "+
						"ClosePending state holds", vc17Names[x])
				}
				sd.closeeTxs = append(sd.closeeTxs, cp.CloseTx)
				sd.closeeFees = append(sd.closeeFees,
					sentSig.FeeSatoshis)
			}
			if _, ok := neg.PeerState.Local.(*CloseErr); ok {
				if _, ok := e.(*SendOfferEvent); ok {
					sd.closeErrs++
				}
			}
		}
	}

	// ---- schedule --------------------------------------------------------
	bumpsDone := [2]int{}
	for step := 0; step < 400; step++ {
		if sides[0].dead != nil || sides[1].dead != nil {
			break
		}
		type action struct {
			kind string
			x    int
		}
		var acts []action
		for x := 0; x < 2; x++ {
			sd := sides[x]
			if len(sd.netq) > 0 {
				acts = append(acts, action{"net", x})
			}
			if len(sd.selfq) > 0 {
				acts = append(acts, action{"self", x})
			}
			if sd.obs.hasLink && sd.sawFlushing && !sd.flushSent {
				acts = append(acts, action{"flush", x})
			}
			if neg := sd.negotiation(); neg != nil &&
				bumpsDone[x] < len(sd.bumpRates) {

				// The rpc path waits until the local half sits
				// in ClosePending before it bumps.
				if _, ok := neg.PeerState.Local.(*ClosePending); ok {
					acts = append(acts, action{"bump", x})
				}
			}
		}
		if len(acts) == 0 {
			break
		}
		a := acts[rapid.IntRange(0, len(acts)-1).Draw(t, "next")]
		sd := sides[a.x]
		switch a.kind {
		case "net":
			msg := sd.netq[0]
			sd.netq = sd.netq[1:]
			y := 1 - a.x
			ev := sides[y].mapper.MapMsg(msgmux.PeerMsg{
				Message: msg, PeerPub: sides[y].env.ChanPeer,
			})
			if ev.IsNone() {
				fail("%s's message %T is not mapped to an event by %s",
					vc17Names[a.x], msg, vc17Names[y])
			}
			ev.WhenSome(func(e ProtocolEvent) {
				apply(y, e, fmt.Sprintf("<- %T", msg))
			})

		case "self":
			ev := sd.selfq[0]
			sd.selfq = sd.selfq[1:]
			if _, ok := ev.(*SendShutdown); ok {
				// peer.Brontide only forwards the user's request
				// while the machine is still in ChannelActive.
				if _, ok := sd.state.(*ChannelActive); !ok {
					tracef("%s: user's close request dropped in %s",
						vc17Names[a.x], sd.state)
					break
				}
				sd.tookRequest = true
			}
			apply(a.x, ev, "self")

		case "flush":
			sd.flushSent = true
			snap := sd.ch.StateSnapshot()
			apply(a.x, &ChannelFlushed{ShutdownBalances{
				LocalBalance:  snap.LocalBalance,
				RemoteBalance: snap.RemoteBalance,
			}}, "link flushed")

		case "bump":
			i := bumpsDone[a.x]
			bumpsDone[a.x]++
			fee := sd.bumpFees[i]
			if payable(a.x, fee) {
				sd.wantOffers = append(sd.wantOffers, fee)
			}
			nErr := sd.closeErrs
			apply(a.x, &SendOfferEvent{TargetFeeRate: sd.bumpRates[i]},
				fmt.Sprintf("bump fee=%d", fee))
			if sd.dead == nil && !payable(a.x, fee) &&
				sd.closeErrs != nErr+1 {

				fail("%s: bump to fee %d above its balance %d did "+
					"not end in CloseErr", vc17Names[a.x], fee,
					c.raw[a.x])
			}
		}
	}

	// ---- verdict ---------------------------------------------------------
	var labels []string
	label := func(l string) { labels = append(labels, "rbf:"+l) }
	for _, l := range c.labels {
		label(l)
	}
	label(fmt.Sprintf("close_asked_by=%d", closeInit))
	for x := 0; x < 2; x++ {
		if len(sides[x].est.unknown) > 0 {
			fail("%s asked the estimator for fee rates nobody "+
				"configured: %v", vc17Names[x], sides[x].est.unknown)
		}
	}

	// A party dies only when its own offer would produce a transaction
	// without outputs (the fee eats the closer's output and the peer's is
	// dust): lnwallet refuses to build that.
	deadSide := -1
	for x := 0; x < 2; x++ {
		sd := sides[x]
		if sd.dead == nil {
			continue
		}
		deadSide = x
		var lastWant btcutil.Amount = -1
		if n := len(sd.wantOffers); n > 0 && n == len(sd.offers)+1 {
			lastWant = sd.wantOffers[n-1]
		}
		if lastWant < 0 || hasOutputs(x, lastWant) ||
			!strings.HasPrefix(sd.deadOn, "*chancloser.SendOfferEvent") {

			fail("%s's state machine failed on %s: %v", vc17Names[x],
				sd.deadOn, sd.dead)
		}
		label("no_outputs_refused")
	}

	nOffers := 0
	trimmedAny, nearBal, closeErr := false, false, false
	for x := 0; x < 2; x++ {
		sd, peer := sides[x], sides[1-x]
		if sd.closeErrs > 0 {
			closeErr = true
		}
		// Offers made == offers the model expects (in order), except
		// the one a party died on.
		want := sd.wantOffers
		if sd.dead != nil {
			want = want[:len(want)-1]
		}
		if deadSide < 0 || deadSide == x {
			if len(sd.offers) != len(want) {
				fail("%s made %d offers %v, model expects %v "+
					"(balance %d)", vc17Names[x], len(sd.offers),
					sd.offers, want, c.raw[x])
			}
		}
		for i, o := range sd.offers {
			if i < len(want) && o.fee != want[i] {
				fail("%s's offer %d has fee %d, expected %d",
					vc17Names[x], i, o.fee, want[i])
			}
			if o.lockTime != sd.env.BlockHeight {
				fail("%s's offer %d has lock time %d, expected %d",
					vc17Names[x], i, o.lockTime, sd.env.BlockHeight)
			}
		}
		if deadSide < 0 {
			if len(sd.closerTxs) != len(sd.offers) ||
				len(peer.closeeTxs) != len(sd.offers) {

				fail("%s made %d offers; %d completed by itself, %d "+
					"countersigned by %s", vc17Names[x],
					len(sd.offers), len(sd.closerTxs),
					len(peer.closeeTxs), vc17Names[1-x])
			}
			if !sd.inNegotiation {
				fail("%s never reached the negotiation (state %v)",
					vc17Names[x], sd.state)
			}
		}
		// Every offer that was countersigned / completed.
		for i := range peer.closeeTxs {
			o := sd.offers[i]
			tx := peer.closeeTxs[i]
			if peer.closeeFees[i] != o.fee {
				fail("%s countersigned fee %d for %s's offer of %d",
					vc17Names[1-x], peer.closeeFees[i], vc17Names[x],
					o.fee)
			}
			chk := &vc17TxCheck{fee: o.fee, payer: x, scripts: scripts}
			if err := chk.check(c, tx, peer.ch); err != nil {
				fail("%s's offer %d (fee %d) as completed by %s: %v\n"+
					"tx: %s", vc17Names[x], i, o.fee, vc17Names[1-x],
					err, vc17TxHex(tx))
			}
			if tx.TxIn[0].Sequence != mempool.MaxRBFSequence {
				fail("closing tx sequence %x does not signal RBF",
					tx.TxIn[0].Sequence)
			}
			if tx.LockTime != o.lockTime {
				fail("closing tx lock time %d, offer said %d",
					tx.LockTime, o.lockTime)
			}
			if i < len(sd.closerTxs) {
				if !vc17SameTx(tx, sd.closerTxs[i]) {
					fail("%s's offer %d: the two parties hold "+
						"different transactions:\n%s: %s\n%s: %s",
						vc17Names[x], i, vc17Names[x],
						vc17TxHex(sd.closerTxs[i]), vc17Names[1-x],
						vc17TxHex(tx))
				}
				if err := chk.check(c, sd.closerTxs[i], sd.ch); err != nil {
					fail("%s's offer %d as completed by itself: %v",
						vc17Names[x], i, err)
				}
			}
			nOffers++
			if chk.trimmed {
				trimmedAny = true
			}
			if o.fee >= c.raw[x]-1 {
				nearBal = true
			}
		}
		if len(sd.broadcasts) != len(sd.closerTxs)+len(sd.closeeTxs) {
			fail("%s broadcast %d transactions, completed %d",
				vc17Names[x], len(sd.broadcasts),
				len(sd.closerTxs)+len(sd.closeeTxs))
		}
		if sd.obs.coopMarked != len(sd.broadcasts) {
			fail("%s marked %d coop broadcasts for %d transactions",
				vc17Names[x], sd.obs.coopMarked, len(sd.broadcasts))
		}
	}

	if trimmedAny {
		label("output_trimmed")
	}
	if nearBal {
		label("fee_within_1_of_balance")
	}
	if closeErr {
		label("close_err_cannot_pay")
	}
	label(fmt.Sprintf("offers_completed=%d", vc17Min(nOffers, 4)))
	rbf := len(sides[0].closerTxs) > 1 || len(sides[1].closerTxs) > 1
	if rbf {
		label("rbf_iteration")
	}
	if len(sides[0].closerTxs) > 0 && len(sides[1].closerTxs) > 0 {
		label("both_parties_closer")
	}
	label(fmt.Sprintf("links=%v/%v", sides[0].obs.hasLink,
		sides[1].obs.hasLink))
	early := false
	for _, l := range trace {
		if strings.Contains(l, "OfferReceivedEvent: ShutdownPending") ||
			strings.Contains(l, "OfferReceivedEvent: ChannelFlushing") {

			early = true
		}
	}
	if early {
		label("early_offer_stashed")
	}
	nontrivial := nOffers > 0 &&
		(trimmedAny || nearBal || rbf || closeErr || early) ||
		deadSide >= 0
	var sample any
	if st.WantSample() {
		sample = map[string]any{
			"params": p.String(), "raw": c.raw, "close": c.bal,
			"offersA": sides[0].offers, "offersB": sides[1].offers,
			"events": trace,
		}
	}
	st.Case(vstats.FP(p.String(), strings.Join(c.s.Trace, "|"), k,
		scripts[0], scripts[1], strings.Join(trace, "|")), nontrivial,
		labels, sample)
}

func vc17Min(a, b int) int {
	if a < b {
		return a
	}
	return b
}
