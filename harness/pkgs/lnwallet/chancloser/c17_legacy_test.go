//go:build verif

package chancloser

// C17 part 2: legacy cooperative close fee negotiation between two honest
// nodes. Two real ChanCloser instances run over a simulator channel pair (real
// lnwallet.LightningChannel values as the Channel; the harness's mirror of
// peer.MusigChanCloser for taproot). Ideal fees, fee caps, delivery scripts,
// who asks for the close and the interleaving of message deliveries with the
// two "channel flushed" notifications are generated; Shutdown / ClosingSigned
// travel through lnd's wire encoding in per-direction FIFO order.
//
// Oracle (see lib/props.d/C17.py for the rule text):
//   - never more than vc17MaxRounds ClosingSigned deliveries, never stuck;
//   - ideal fees >= 100 sat, affordable, non-opener's ideal within the opener's
//     cap: no error, both reach closeFinished, byte-identical ClosingTx, valid
//     against the funding output, broadcast once each, agreed fee was put in a
//     ClosingSigned by both, lies between the two ideal fees and within the
//     opener's cap; outputs per the part 1 model with the opener paying;
//   - non-opener's ideal above the opener's cap: either the same agreement or
//     ErrProposalExceedsMaxFee from the opener and nobody broadcasts;
//   - if one party finishes (broadcasts), the other finishes with the same tx.

import (
	"errors"
	"fmt"
	"strings"
	"testing"

	"github.com/btcsuite/btcd/btcutil/v2"
	"github.com/btcsuite/btcd/chaincfg/v2"
	"github.com/btcsuite/btcd/wire/v2"
	"github.com/lightningnetwork/lnd/channeldb"
	"github.com/lightningnetwork/lnd/internal/verif/vstats"
	"github.com/lightningnetwork/lnd/lntypes"
	"github.com/lightningnetwork/lnd/lnwallet"
	"github.com/lightningnetwork/lnd/lnwallet/chainfee"
	"github.com/lightningnetwork/lnd/lnwire"
	"pgregory.net/rapid"
)

const (
	// vc17MaxRounds bounds the ClosingSigned deliveries of one negotiation.
	vc17MaxRounds = 64

	// vc17MaxRatio bounds the generated ratio between the two ideal fees.
	// Each counter proposal moves the sender's fee by at least ~8.3% towards
	// the peer (10% with integer division on fees >= 100 sat) and a fee
	// within 30% is accepted, so a ratio R needs at most
	// ln(R/1.3)/ln(1/0.917) ~ 40 counter proposals for R = 40, plus the two
	// opening offers and the echo.
	vc17MaxRatio = 40
)

// vc17Est is the CoopFeeEstimator stub: the absolute fee for a rate is the
// rate's numeric value, so the harness chooses ideal fee and fee cap in
// satoshis through the closer's fee rate parameters.
type vc17Est struct {
	calls int
}

func (e *vc17Est) EstimateFee(_ channeldb.ChannelType, _, _ *wire.TxOut,
	rate chainfee.SatPerKWeight) btcutil.Amount {

	e.calls++
	return btcutil.Amount(rate)
}

type vc17LegacySide struct {
	ch  *lnwallet.LightningChannel
	cc  *ChanCloser
	est *vc17Est

	// flushHook: a Shutdown was received, so the link's flush hook is
	// registered and BeginNegotiation will be called once.
	flushHook bool
	begun     bool

	sentFees   []btcutil.Amount
	broadcasts []*wire.MsgTx
	err        error
	errAt      string
}

func TestVerifC17Negotiation(t *testing.T) {
	st := vstats.New("TestVerifC17Negotiation")
	defer st.Flush()
	maxSteps := vstats.EnvInt("VERIF_STEPS", 12)
	perSim := vstats.EnvInt("VERIF_C17_PER_SIM", 4)

	rapid.Check(t, func(t *rapid.T) {
		// Taproot channels have no negotiation (the non-opener accepts
		// the first offer); they get a sixth of the channel states.
		types := vc17NonTaprootTypes
		if rapid.IntRange(0, 5).Draw(t, "taprootTypes") == 0 {
			types = vc17TaprootTypes
		}
		c := vc17Setup(t, types, maxSteps)
		if c == nil {
			st.Count("sim_aborted", 1)
			return
		}
		defer c.s.Close()

		n := rapid.IntRange(1, perSim).Draw(t, "negotiations")
		for k := 0; k < n; k++ {
			vc17LegacyCase(t, st, c, k)
		}
	})
}

var (
	vc17NonTaprootTypes = []string{
		"legacy", "tweakless", "anchors", "anchors-zero-fee", "lease",
	}
	vc17TaprootTypes = []string{
		"taproot", "taproot-final", "taproot-overlay",
	}
)

// vc17DrawRatio draws the ratio hi/lo of the two ideal fees as a rational
// num/den in [1, vc17MaxRatio].
func vc17DrawRatio(t *rapid.T) (int64, int64) {
	switch rapid.IntRange(0, 7).Draw(t, "ratioKind") {
	case 0:
		return 1, 1
	case 1: // within the 30% acceptance band
		return int64(rapid.IntRange(1000, 1300).Draw(t, "ratioNear")), 1000
	case 2: // around the band's edge
		return int64(rapid.IntRange(1290, 1320).Draw(t, "ratioEdge")), 1000
	case 3, 4, 5: // needs several rounds, inside a default 3x cap
		return int64(rapid.IntRange(1300, 3100).Draw(t, "ratioMid")), 1000
	default:
		return int64(rapid.IntRange(3000, 1000*vc17MaxRatio).Draw(t,
			"ratioWide")), 1000
	}
}

func vc17LegacyCase(t *rapid.T, st *vstats.Collector, c *vc17Chan, k int) {
	p := c.p
	F, N := c.op, 1-c.op // opener (pays, sends the first offer), non-opener
	taproot := p.ChanType.IsTaproot()
	chans := c.load(t)
	scripts := [2][]byte{
		vc17DrawScript(t, "scriptA"), vc17DrawScript(t, "scriptB"),
	}

	// ---- ideal fees -----------------------------------------------------
	payerBal := int64(c.bal[F])
	var hi int64
	feeKind := rapid.IntRange(0, 5).Draw(t, "feeKind")
	switch feeKind {
	case 0, 1:
		hi = rapid.Int64Range(100, 30000).Draw(t, "feeSmall")
	case 2: // the higher ideal fee is right at the payer's balance
		hi = payerBal + rapid.Int64Range(-2, 2).Draw(t, "feeNearBal")
	case 3: // leaves the payer right around its own dust limit
		hi = payerBal - int64(p.Dust[F]) +
			rapid.Int64Range(-2, 2).Draw(t, "feeNearDust")
	case 4:
		hi = rapid.Int64Range(100, vc17Max64(100, payerBal)).Draw(t, "feeAny")
	default: // realistic: 1..100 sat/vb on a ~170 vb transaction
		hi = rapid.Int64Range(170, 17000).Draw(t, "feeRealistic")
	}
	if hi < 100 {
		hi = 100
	}
	num, den := vc17DrawRatio(t)
	lo := hi * den / num
	if lo < 100 {
		lo = 100
	}
	if hi > lo*vc17MaxRatio {
		hi = lo * vc17MaxRatio
	}
	var ideal [2]btcutil.Amount
	hiSide := rapid.IntRange(0, 1).Draw(t, "higherIdeal")
	ideal[hiSide], ideal[1-hiSide] = btcutil.Amount(hi), btcutil.Amount(lo)

	// ---- who asks for the close, fee caps --------------------------------
	// Only a party that was asked to close by its user has a close request
	// and with it a configured cap (rpcserver rejects a cap below the fee
	// rate); a pure responder has none and uses 3x its ideal fee.
	closeInit := rapid.IntRange(0, 2).Draw(t, "closeInit") // A, B, both
	var requester [2]bool
	if closeInit == 2 {
		requester = [2]bool{true, true}
	} else {
		requester[closeInit] = true
	}
	var maxCfg [2]btcutil.Amount
	for x := 0; x < 2; x++ {
		if !requester[x] {
			continue
		}
		switch rapid.IntRange(0, 5).Draw(t, "maxFeeKind") {
		case 0, 1: // not set: default multiplier
		case 2: // exactly the ideal fee
			maxCfg[x] = ideal[x]
		case 5: // exactly the peer's ideal fee (cap boundary)
			maxCfg[x] = ideal[x]
			if ideal[1-x] > ideal[x] {
				maxCfg[x] = ideal[1-x] + btcutil.Amount(
					rapid.IntRange(-1, 1).Draw(t, "maxFeeEdge"))
			}
		case 3:
			maxCfg[x] = ideal[x] * btcutil.Amount(rapid.IntRange(
				1000, 3000).Draw(t, "maxFeeNear")) / 1000
		default:
			maxCfg[x] = ideal[x] * btcutil.Amount(rapid.IntRange(
				1, 50).Draw(t, "maxFeeWide"))
		}
	}
	capF := ideal[F] * defaultMaxFeeMultiplier
	if maxCfg[F] > 0 {
		capF = maxCfg[F]
	}

	// ---- domain ----------------------------------------------------------
	// For taproot channels the non-opener accepts the opener's first offer;
	// its own ideal fee plays no role.
	feeLo, feeHi := btcutil.Amount(lo), btcutil.Amount(hi)
	if taproot {
		feeLo, feeHi = ideal[F], ideal[F]
	}
	affordable := feeHi <= c.bal[F]
	hasOutputs := c.bal[N] >= p.Dust[N] || c.bal[F]-feeHi >= p.Dust[F]
	withinCap := taproot || ideal[N] <= capF
	inDomain := affordable && hasOutputs

	// ---- closers ---------------------------------------------------------
	var sides [2]*vc17LegacySide
	for x := 0; x < 2; x++ {
		x := x
		sd := &vc17LegacySide{ch: chans[x], est: &vc17Est{}}
		party := lntypes.Remote
		if requester[x] {
			party = lntypes.Local
		}
		c.nonce++
		cfg := ChanCloseCfg{
			Channel:      chans[x],
			MusigSession: vc17NewMusig(chans[x], p.Seed, c.nonce),
			BroadcastTx: func(tx *wire.MsgTx, _ string) error {
				sd.broadcasts = append(sd.broadcasts, tx.Copy())
				return nil
			},
			DisableChannel: func(wire.OutPoint) error { return nil },
			Disconnect:     func() error { return nil },
			MaxFee:         chainfee.SatPerKWeight(maxCfg[x]),
			ChainParams:    &chaincfg.RegressionNetParams,
			Quit:           make(chan struct{}),
			FeeEstimator:   sd.est,
		}
		sd.cc = NewChanCloser(
			cfg, DeliveryAddrWithKey{DeliveryAddress: scripts[x]},
			chainfee.SatPerKWeight(ideal[x]), vc17Height, nil, party,
		)
		sides[x] = sd
	}

	var trace []string
	tracef := func(f string, a ...any) {
		trace = append(trace, fmt.Sprintf(f, a...))
	}
	fail := func(f string, a ...any) {
		c.fail(t, "negotiation %d: %s\nideal A=%d B=%d, configured max A=%d "+
			"B=%d (opener's cap %d), close asked by %v, scripts %x / %x\n"+
			"exchange:\n  %s", k, fmt.Sprintf(f, a...), ideal[0], ideal[1],
			maxCfg[0], maxCfg[1], capF, requester, scripts[0], scripts[1],
			strings.Join(trace, "\n  "))
	}

	// q[x] is the in-order stream of messages from x to its peer.
	var q [2][]lnwire.Message
	send := func(x int, m lnwire.Message) {
		w, err := vc17Wire(m)
		if err != nil {
			fail("%s: %v", vc17Names[x], err)
		}
		if cs, ok := m.(*lnwire.ClosingSigned); ok {
			sides[x].sentFees = append(sides[x].sentFees, cs.FeeSatoshis)
			tracef("%s -> closing_signed fee=%d", vc17Names[x],
				cs.FeeSatoshis)
		} else {
			tracef("%s -> shutdown", vc17Names[x])
		}
		q[x] = append(q[x], w)
	}

	// The requesting parties send their Shutdown.
	order := []int{0, 1}
	if closeInit == 2 && rapid.Bool().Draw(t, "bFirst") {
		order = []int{1, 0}
	}
	for _, x := range order {
		if !requester[x] {
			continue
		}
		msg, err := sides[x].cc.ShutdownChan()
		if err != nil {
			fail("%s ShutdownChan: %v", vc17Names[x], err)
		}
		if string(msg.Address) != string(scripts[x]) {
			fail("%s announces a delivery script it was not given",
				vc17Names[x])
		}
		send(x, msg)
	}

	rounds := 0
	failed := false
	for step := 0; step < 400 && !failed; step++ {
		type action struct {
			kind string
			x    int
		}
		var acts []action
		for x := 0; x < 2; x++ {
			if len(q[x]) > 0 {
				acts = append(acts, action{"deliver", x})
			}
			if sides[x].flushHook && !sides[x].begun {
				acts = append(acts, action{"flushed", x})
			}
		}
		if len(acts) == 0 {
			break
		}
		a := acts[rapid.IntRange(0, len(acts)-1).Draw(t, "next")]
		switch a.kind {
		case "flushed":
			sd := sides[a.x]
			sd.begun = true
			out, err := sd.cc.BeginNegotiation()
			tracef("%s channel flushed, BeginNegotiation -> err=%v",
				vc17Names[a.x], err)
			if err != nil {
				sd.err, sd.errAt = err, "BeginNegotiation"
				failed = true
				break
			}
			out.WhenSome(func(m lnwire.ClosingSigned) { send(a.x, &m) })

		case "deliver":
			y := 1 - a.x
			sd := sides[y]
			msg := q[a.x][0]
			q[a.x] = q[a.x][1:]
			switch m := msg.(type) {
			case *lnwire.Shutdown:
				out, err := sd.cc.ReceiveShutdown(*m)
				tracef("%s <- shutdown, err=%v", vc17Names[y], err)
				if err != nil {
					sd.err, sd.errAt = err, "ReceiveShutdown"
					failed = true
					break
				}
				sd.flushHook = true
				out.WhenSome(func(m lnwire.Shutdown) {
					if string(m.Address) != string(scripts[y]) {
						fail("%s answers with a delivery script "+
							"it was not given", vc17Names[y])
					}
					send(y, &m)
				})

			case *lnwire.ClosingSigned:
				rounds++
				if rounds > vc17MaxRounds {
					fail("no agreement after %d closing_signed "+
						"messages", vc17MaxRounds)
				}
				out, err := sd.cc.ReceiveClosingSigned(*m)
				tracef("%s <- closing_signed fee=%d, err=%v state=%d",
					vc17Names[y], m.FeeSatoshis, err, sd.cc.state)
				if err != nil {
					sd.err, sd.errAt = err, "ReceiveClosingSigned"
					failed = true
					break
				}
				out.WhenSome(func(m lnwire.ClosingSigned) { send(y, &m) })

			default:
				fail("unexpected message %T", msg)
			}
		}
	}

	// ---- verdict ---------------------------------------------------------
	var labels []string
	label := func(l string) { labels = append(labels, "neg:"+l) }
	for _, l := range c.labels {
		label(l)
	}
	label(fmt.Sprintf("close_asked_by=%d", closeInit))
	fin := [2]bool{
		sides[0].cc.state == closeFinished, sides[1].cc.state == closeFinished,
	}
	fp := vstats.FP(p.String(), strings.Join(c.s.Trace, "|"), k, ideal,
		maxCfg, closeInit, scripts[0], scripts[1], strings.Join(trace, "|"))
	sample := func(outcome string) any {
		if !st.WantSample() {
			return nil
		}
		return map[string]any{
			"params": p.String(), "ideal": ideal, "max": maxCfg,
			"opener_cap": capF, "payer_balance": c.bal[F],
			"closing_signed_msgs": rounds, "outcome": outcome,
			"exchange": trace,
		}
	}

	var errSide = -1
	for x := 0; x < 2; x++ {
		if sides[x].err != nil {
			errSide = x
		}
	}
	if errSide >= 0 {
		sd := sides[errSide]
		if fin[0] || fin[1] {
			fail("%s failed (%s: %v) although %s already broadcast the "+
				"closing transaction", vc17Names[errSide], sd.errAt,
				sd.err, vc17Names[1-errSide])
		}
		for x := 0; x < 2; x++ {
			if len(sides[x].broadcasts) != 0 {
				fail("%s broadcast without finishing", vc17Names[x])
			}
		}
		switch {
		case !inDomain:
			// Unaffordable ideal fee or nothing left to pay out:
			// outside the property's domain; a refusal is fine.
			st.Count("outside_domain", 1)
			label("outside_domain_refused")
			st.Case(fp, false, labels, nil)
			return

		case withinCap:
			fail("honest negotiation within the caps failed: %s %s: %v",
				vc17Names[errSide], sd.errAt, sd.err)

		default:
			if errSide != F ||
				!errors.Is(sd.err, ErrProposalExceedsMaxFee) {

				fail("non-opener's ideal fee %d is above the "+
					"opener's cap %d: expected agreement or "+
					"ErrProposalExceedsMaxFee from the opener, got "+
					"%s %s: %v", ideal[N], capF, vc17Names[errSide],
					sd.errAt, sd.err)
			}
			label("outside_cap_error")
			st.Case(fp, true, labels, sample("ErrProposalExceedsMaxFee"))
			return
		}
	}

	if !fin[0] || !fin[1] {
		fail("negotiation stuck: nothing in flight, finished A=%v B=%v "+
			"(states %d/%d)", fin[0], fin[1], sides[0].cc.state,
			sides[1].cc.state)
	}

	var txs [2]*wire.MsgTx
	for x := 0; x < 2; x++ {
		tx, err := sides[x].cc.ClosingTx()
		if err != nil {
			fail("%s ClosingTx: %v", vc17Names[x], err)
		}
		txs[x] = tx
		if len(sides[x].broadcasts) != 1 ||
			!vc17SameTx(sides[x].broadcasts[0], tx) {

			fail("%s broadcast %d transactions, expected exactly its "+
				"ClosingTx", vc17Names[x], len(sides[x].broadcasts))
		}
	}
	if !vc17SameTx(txs[0], txs[1]) {
		fail("closing transactions differ:\nA: %s\nB: %s",
			vc17TxHex(txs[0]), vc17TxHex(txs[1]))
	}

	// The agreed fee: the last ClosingSigned of both parties names it.
	var agreed btcutil.Amount
	for x := 0; x < 2; x++ {
		sf := sides[x].sentFees
		if len(sf) == 0 {
			fail("%s finished without ever signing", vc17Names[x])
		}
		if x == 0 {
			agreed = sf[len(sf)-1]
		} else if sf[len(sf)-1] != agreed {
			fail("final closing_signed fees differ: A=%d B=%d", agreed,
				sf[len(sf)-1])
		}
	}
	if agreed < feeLo || agreed > feeHi {
		fail("agreed fee %d outside [%d, %d] spanned by the ideal fees",
			agreed, feeLo, feeHi)
	}
	if agreed > capF {
		fail("agreed fee %d above the opener's cap %d", agreed, capF)
	}
	if !inDomain && agreed > c.bal[F] {
		fail("agreed fee %d above the payer's balance %d", agreed, c.bal[F])
	}

	chk := &vc17TxCheck{fee: agreed, payer: F, scripts: scripts}
	for x := 0; x < 2; x++ {
		if err := chk.check(c, txs[x], chans[x]); err != nil {
			fail("%s: %v\ntx: %s", vc17Names[x], err, vc17TxHex(txs[x]))
		}
	}

	nearBal := agreed >= c.bal[F]-1
	if nearBal {
		label("fee_within_1_of_balance")
	}
	if chk.trimmed {
		label("output_trimmed")
	}
	// A negotiation "round" in the sense of the non-trivial rule is a fee
	// proposal: the plain offer/accept/echo exchange has one or two.
	distinct := map[btcutil.Amount]bool{}
	for x := 0; x < 2; x++ {
		for _, f := range sides[x].sentFees {
			distinct[f] = true
		}
	}
	proposals := len(distinct)
	switch {
	case proposals >= 10:
		label("proposals>=10")
	case proposals >= 3:
		label("proposals_3_9")
	default:
		label(fmt.Sprintf("proposals=%d", proposals))
	}
	if !withinCap {
		label("outside_cap_agreed")
	}
	if !inDomain {
		st.Count("outside_domain", 1)
		label("outside_domain_agreed")
	}
	nontrivial := proposals >= 3 || nearBal || chk.trimmed
	st.Case(fp, nontrivial, labels, sample(fmt.Sprintf("agreed %d", agreed)))
}

func vc17Max64(a, b int64) int64 {
	if a > b {
		return a
	}
	return b
}
