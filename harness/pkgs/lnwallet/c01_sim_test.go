//go:build verif

package lnwallet_test

// C01: both peers always agree on every commitment; no value is created or
// lost. Oracle: a BOLT-2 bookkeeping model (internal/verif/chansim) predicts
// for every persisted commitment of both sides its balances, HTLC set, fee
// and output values; every honest message must be accepted; both parties'
// views of one commitment must be the same transaction; conservation to the
// msat; mirror images at quiescence.

import (
	"fmt"
	"sort"
	"strings"
	"testing"

	"github.com/lightningnetwork/lnd/internal/verif/chansim"
	"github.com/lightningnetwork/lnd/internal/verif/vstats"
	"pgregory.net/rapid"
)

func simLabels(s *chansim.Sim) []string {
	ls := []string{"type=" + s.P.TypeName, fmt.Sprintf("openerA=%v", s.P.InitiatorA)}
	for l := range s.Labels {
		ls = append(ls, l)
	}
	if s.Aborted != "" {
		ls = append(ls, "aborted_by_constraint")
	}
	sort.Strings(ls)
	return ls
}

func simSample(s *chansim.Sim) any {
	tr := s.Trace
	if len(tr) > 60 {
		tr = append(append([]string{}, tr[:50]...), fmt.Sprintf("... %d more", len(tr)-50))
	}
	return map[string]any{"params": s.P.String(), "trace": tr}
}

func TestVerifC01Agreement(t *testing.T) {
	st := vstats.New("TestVerifC01Agreement")
	defer st.Flush()
	maxSteps := vstats.EnvInt("VERIF_STEPS", 40)

	rapid.Check(t, func(t *rapid.T) {
		p := chansim.DrawParams(t, nil)
		s := chansim.New(t, p)
		defer s.Close()

		sigWithHtlc := false
		err := s.Run(t, chansim.RunOpts{
			MinSteps: 5, MaxSteps: maxSteps,
			AfterStep: func(s *chansim.Sim, a string) error {
				for x := 0; x < 2; x++ {
					for _, rec := range s.M.Sigs[x] {
						if len(rec.Msg.HtlcSigs) > 0 &&
							s.M.RevsSent[1-x] >= rec.Height {

							sigWithHtlc = true
						}
					}
				}
				return nil
			},
		})
		if err != nil {
			t.Fatalf("%v\nparams: %v\ntrace:\n  %s", err, p,
				strings.Join(s.Trace, "\n  "))
		}
		// terminal negative control: a commitment_signed with one wrong
		// htlc signature must be refused (nothing follows it)
		if _, err := s.TamperedSigEpilogue(); err != nil {
			t.Fatalf("%v\nparams: %v\ntrace:\n  %s", err, p,
				strings.Join(s.Trace, "\n  "))
		}
		nontrivial := sigWithHtlc && s.Labels["both_queues_nonempty"]
		st.Case(vstats.FP(p.String(), strings.Join(s.Trace, "|")),
			nontrivial, simLabels(s), simSample(s))
	})
}
