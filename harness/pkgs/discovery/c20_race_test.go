//go:build verif

package discovery

// C20, a remote channel_announcement racing with the local insertion of the
// same (own, not yet announced) channel.
//
// handleChanAnnouncement asks Graph.IsKnownEdge(scid) BEFORE it takes the
// per-channel mutex. If the funding manager's proof-less edge is inserted
// between that answer and the remote announcement's AddEdge, AddEdge is
// refused as "already known" (graph.ErrIgnored, Builder.AddEdge) and
// processRejectedEdge may take the PROOF of the received announcement for the
// stored edge. The statement's clause is the oracle: the proof may be attached
// to the stored edge, and the announcement relayed, only if all four
// signatures verify over the announcement digest under the STORED edge's node
// and bitcoin keys; anything else leaves the graph as the local insertion
// left it and nothing is relayed.
//
// The schedule is owned by the harness, there is no goroutine race:
// c20RaceGraph (the fixture graph wrapped) answers the armed IsKnownEdge call
// with false and, as a side effect of that very call, inserts the edge the
// funding manager adds (NewV1Channel of the TRUE keys, capacity, channel point,
// AuthProof nil; optionally together with this node's first channel_update).
// AddEdge of a known channel is answered with graph.ErrIgnored, as the real
// Builder does. No other interleaving of concurrent announcements is explored.

import (
	"bytes"
	"context"
	"fmt"
	"sort"
	"sync"
	"testing"
	"time"

	"github.com/btcsuite/btcd/btcec/v2"
	"github.com/btcsuite/btcd/btcec/v2/ecdsa"
	"github.com/btcsuite/btcd/btcutil/v2"
	"github.com/btcsuite/btcd/chainhash/v2"
	"github.com/btcsuite/btcd/wire/v2"
	"github.com/lightningnetwork/lnd/batch"
	"github.com/lightningnetwork/lnd/graph"
	"github.com/lightningnetwork/lnd/graph/db/models"
	"github.com/lightningnetwork/lnd/internal/verif/vstats"
	"github.com/lightningnetwork/lnd/lnwire"
	"github.com/lightningnetwork/lnd/routing/route"
	"pgregory.net/rapid"
)

// c20RaceGraph injects the racing local insertion.
type c20RaceGraph struct {
	*c20Graph

	rmu sync.Mutex
	// armed: the next IsKnownEdge(scid) of an unknown channel inserts
	// edge (and pol, if any) and answers false.
	armed map[uint64]bool
	edge  map[uint64]*models.ChannelEdgeInfo
	pol   map[uint64]*models.ChannelEdgePolicy

	fired   int // local insertions performed
	refused int // AddEdge calls answered "already known"
}

var _ c20GraphView = (*c20RaceGraph)(nil)

func (g *c20RaceGraph) IsKnownEdge(scid lnwire.ShortChannelID) bool {
	id := scid.ToUint64()
	g.rmu.Lock()
	armed := g.armed[id]
	delete(g.armed, id)
	e, p := g.edge[id], g.pol[id]
	g.rmu.Unlock()

	known := g.c20Graph.IsKnownEdge(scid)
	if !armed || known || e == nil {
		return known
	}

	// The answer is "unknown"; right after it the funding manager's
	// announcement of the channel is processed.
	cp := *e
	if err := g.c20Graph.AddEdge(context.Background(), &cp); err != nil {
		panic("c20 race: local insertion refused: " + err.Error())
	}
	if p != nil {
		pp := *p
		_ = g.c20Graph.UpdateEdge(context.Background(), &pp)
	}
	g.rmu.Lock()
	g.fired++
	g.rmu.Unlock()

	return false
}

// AddEdge: a channel that is already stored is answered like Builder.AddEdge
// does ("ignoring msg for known chan_id", ErrIgnored); the fixture's mock
// returns an untyped error there.
func (g *c20RaceGraph) AddEdge(ctx context.Context,
	info *models.ChannelEdgeInfo, ops ...batch.SchedulerOption) error {

	scid := lnwire.NewShortChanIDFromInt(info.ChannelID)
	if g.c20Graph.IsKnownEdge(scid) {
		g.rmu.Lock()
		g.refused++
		g.rmu.Unlock()

		return graph.NewErrf(graph.ErrIgnored, "ignoring msg for known "+
			"chan_id=%v", info.ChannelID)
	}

	return g.c20Graph.AddEdge(ctx, info, ops...)
}

func (g *c20RaceGraph) counters() (int, int) {
	g.rmu.Lock()
	defer g.rmu.Unlock()

	return g.fired, g.refused
}

// c20RaceMsg is one remote channel_announcement for the own channel.
type c20RaceMsg struct {
	class string
	ann   *lnwire.ChannelAnnouncement1
	// selfConsistent: all four signatures verify under the keys the
	// message itself states (harness construction).
	selfConsistent bool
	// fundable: the bitcoin keys are the ones of the funding output.
	fundable bool
	// statesOwnKey: NodeID1 or NodeID2 is this node's key; lnd drops such
	// a remote announcement on entry ("ignoring remote
	// ChannelAnnouncement1 for own channel").
	statesOwnKey bool
	// eligible: all four signatures verify over the digest of the stored
	// edge's announcement under the stored edge's keys (computed with
	// btcec by the harness).
	eligible bool
}

func TestVerifC20RacingLocal(t *testing.T) {
	st := vstats.New("TestVerifC20RacingLocal")
	defer st.Flush()
	wps := c20WPS(t)
	bg := context.Background()

	rapid.Check(t, func(rt *rapid.T) {
		u := c20DrawUniverse(rt, 1, true, false)
		c := u.chans[0]
		scid := c.scid.ToUint64()
		H := c.scid.BlockHeight
		// selfSide -1: this node is not a party of the proof-less channel
		// (the only way a remote announcement that states the stored
		// keys gets as far as the graph: lnd drops remote announcements
		// that state its own node key on entry).
		selfSide := rapid.SampledFrom([]int{0, 1, 0, 1, -1}).
			Draw(rt, "selfSide")
		selfPriv := c20SelfPriv
		polSide := 0
		if selfSide >= 0 {
			selfPriv = c.nodePriv[selfSide]
			polSide = selfSide
		}
		tip := u.best
		if tip < H {
			tip = H
		}
		u.chain.setBest(int32(tip))

		// ---------------------------------------------------------
		// the authentic announcement = the announcement of the edge
		// the funding manager stores
		annMsg, err := c.ann.parse()
		if err != nil {
			rt.Fatalf("harness: %v", err)
		}
		trueAnn := annMsg.(*lnwire.ChannelAnnouncement1)
		trueData, err := trueAnn.DataToSign()
		if err != nil {
			rt.Fatalf("harness: %v", err)
		}
		storedDigest := chainhash.DoubleHashB(trueData)
		storedPubs := [4]*btcec.PublicKey{
			c.nodePriv[0].PubKey(), c.nodePriv[1].PubKey(),
			c.btc[0].PubKey(), c.btc[1].PubKey(),
		}
		fh, err := u.chain.GetBlockHash(int64(H))
		if err != nil {
			rt.Fatalf("harness: funding block: %v", err)
		}
		fb, err := u.chain.GetBlock(fh)
		if err != nil {
			rt.Fatalf("harness: funding block: %v", err)
		}
		op := wire.OutPoint{
			Hash:  fb.Transactions[c.scid.TxIndex].TxHash(),
			Index: uint32(c.scid.TxPosition),
		}
		localEdge, err := models.NewV1Channel(
			scid, trueAnn.ChainHash, trueAnn.NodeID1, trueAnn.NodeID2,
			&models.ChannelV1Fields{
				BitcoinKey1Bytes: trueAnn.BitcoinKey1,
				BitcoinKey2Bytes: trueAnn.BitcoinKey2,
				ExtraOpaqueData:  trueAnn.ExtraOpaqueData,
			},
			models.WithFeatures(trueAnn.Features),
		)
		if err != nil {
			rt.Fatalf("harness: local edge: %v", err)
		}
		localEdge.Capacity = btcutil.Amount(c.capacity)
		localEdge.ChannelPoint = op

		// This node's first channel_update, stored with the edge in a
		// drawn half of the cases.
		withPolicy := rapid.Bool().Draw(rt, "withPolicy")
		var (
			localPol *models.ChannelEdgePolicy
			polKey   string
		)
		if withPolicy {
			f := c20DrawUpdFields(rt, c.capacity, polSide,
				u.baseTS+10, "localcu")
			f.extra = nil
			m := c20MakeCU(c.scid, f, c.nodePriv[polSide])
			if ok, why := m.fill(); !ok {
				rt.Fatalf("harness: %s", why)
			}
			parsed, _ := m.parse()
			localPol, err = models.ChanEdgePolicyFromWire(
				scid, parsed.(*lnwire.ChannelUpdate1),
			)
			if err != nil {
				rt.Fatalf("harness: %v", err)
			}
			polKey = m.key
		}

		// ---------------------------------------------------------
		// generated remote announcements
		strangers := [4]*btcec.PrivateKey{
			c20PrivFrom(u.seed, "race/stranger/0"),
			c20PrivFrom(u.seed, "race/stranger/1"),
			c20PrivFrom(u.seed, "race/stranger/2"),
			c20PrivFrom(u.seed, "race/stranger/3"),
		}
		verify := func(raw []byte, digest []byte,
			pub *btcec.PublicKey) bool {

			ws, err := lnwire.NewSigFromWireECDSA(raw)
			if err != nil {
				return false
			}
			sig, err := ws.ToSignature()
			if err != nil {
				return false
			}

			return sig.Verify(digest, pub)
		}
		sigsOf := func(a *lnwire.ChannelAnnouncement1) [4][]byte {
			return [4][]byte{
				a.NodeSig1.RawBytes(), a.NodeSig2.RawBytes(),
				a.BitcoinSig1.RawBytes(), a.BitcoinSig2.RawBytes(),
			}
		}
		setSig := func(a *lnwire.ChannelAnnouncement1, i int, raw []byte) {
			s := c20asSig(raw)
			switch i {
			case 0:
				a.NodeSig1 = s
			case 1:
				a.NodeSig2 = s
			case 2:
				a.BitcoinSig1 = s
			default:
				a.BitcoinSig2 = s
			}
		}
		fresh := func() *lnwire.ChannelAnnouncement1 {
			m, err := c.ann.parse()
			if err != nil {
				rt.Fatalf("harness: %v", err)
			}

			return m.(*lnwire.ChannelAnnouncement1)
		}
		resign := func(a *lnwire.ChannelAnnouncement1,
			keys [4]*btcec.PrivateKey) {

			data, err := a.DataToSign()
			if err != nil {
				rt.Fatalf("harness: %v", err)
			}
			for i, k := range keys {
				setSig(a, i, c20SigOver(k, data))
			}
		}
		trueKeys := [4]*btcec.PrivateKey{
			c.nodePriv[0], c.nodePriv[1], c.btc[0], c.btc[1],
		}
		selfPub := c20Pub(selfPriv)
		finish := func(class string,
			a *lnwire.ChannelAnnouncement1) *c20RaceMsg {

			data, err := a.DataToSign()
			if err != nil {
				rt.Fatalf("harness: %v", err)
			}
			digest := chainhash.DoubleHashB(data)
			m := &c20RaceMsg{class: class, ann: a,
				selfConsistent: true, eligible: true}
			stated := [4][33]byte{a.NodeID1, a.NodeID2, a.BitcoinKey1,
				a.BitcoinKey2}
			for i, raw := range sigsOf(a) {
				// the statement's clause, on the stored edge's keys
				if !verify(raw, digest, storedPubs[i]) {
					m.eligible = false
				}
				pk, err := btcec.ParsePubKey(stated[i][:])
				if err != nil || !verify(raw, digest, pk) {
					m.selfConsistent = false
				}
			}
			m.fundable = a.BitcoinKey1 == trueAnn.BitcoinKey1 &&
				a.BitcoinKey2 == trueAnn.BitcoinKey2
			m.statesOwnKey = a.NodeID1 == selfPub || a.NodeID2 == selfPub

			return m
		}
		defects := []string{
			"none", "none", "stranger_node_sig", "swapped_ids_resigned",
			"none", "wrong_bitcoin_key", "garbage_sig",
			"swapped_ids_old_sigs", "bitcoin_sigs_swapped",
			"foreign_node_sig_pair", "true_sigs_under_stated_ids",
		}
		mkMsg := func(l string) *c20RaceMsg {
			// Base: the announcement re-stated under other node
			// key(s) and signed for the keys it states (rep 3: the
			// true keys, i.e. the authentic announcement).
			// rep 0/1: NodeID1/NodeID2 replaced, 2: both.
			rep := rapid.IntRange(0, 3).Draw(rt, l+"rep")
			if selfSide >= 0 && rep == 1-selfSide &&
				rapid.Bool().Draw(rt, l+"repself") {

				// (a message that still states this node's key is
				// dropped on entry; lean towards the other ones)
				rep = selfSide
			}
			defect := defects[rapid.IntRange(0, len(defects)-1).
				Draw(rt, l+"defect")]
			a := fresh()
			keys := trueKeys
			if rep == 0 || rep == 2 {
				keys[0] = strangers[0]
				a.NodeID1 = c20Pub(strangers[0])
			}
			if rep == 1 || rep == 2 {
				keys[1] = strangers[1]
				a.NodeID2 = c20Pub(strangers[1])
			}
			class := fmt.Sprintf("ids=%s/%s", [...]string{
				"other1", "other2", "otherboth", "true"}[rep], defect)
			if defect == "true_sigs_under_stated_ids" {
				// the authentic signatures, not made for these ids
				return finish(class, a)
			}
			resign(a, keys)
			data, _ := a.DataToSign()
			switch defect {
			case "swapped_ids_resigned":
				a.NodeID1, a.NodeID2 = a.NodeID2, a.NodeID1
				keys[0], keys[1] = keys[1], keys[0]
				resign(a, keys)

			case "swapped_ids_old_sigs":
				a.NodeID1, a.NodeID2 = a.NodeID2, a.NodeID1

			case "stranger_node_sig":
				i := rapid.IntRange(0, 1).Draw(rt, l+"slot")
				setSig(a, i, c20SigOver(strangers[2], data))

			case "foreign_node_sig_pair":
				setSig(a, 0, c20SigOver(strangers[2], data))
				setSig(a, 1, c20SigOver(strangers[3], data))

			case "wrong_bitcoin_key":
				i := rapid.IntRange(0, 1).Draw(rt, l+"slot")
				keys[2+i] = strangers[2+i]
				if i == 0 {
					a.BitcoinKey1 = c20Pub(strangers[2])
				} else {
					a.BitcoinKey2 = c20Pub(strangers[3])
				}
				resign(a, keys)

			case "bitcoin_sigs_swapped":
				a.BitcoinSig1, a.BitcoinSig2 = a.BitcoinSig2,
					a.BitcoinSig1

			case "garbage_sig":
				i := rapid.IntRange(0, 3).Draw(rt, l+"slot")
				raw := rapid.SliceOfN(rapid.Byte(), 64, 64).
					Draw(rt, l+"garbage")
				setSig(a, i, raw)
			}

			return finish(class, a)
		}

		// ---------------------------------------------------------
		// gossiper over the wrapped graph
		rg := &c20RaceGraph{
			c20Graph: &c20Graph{newMockRouter(t, tip)},
			armed:    map[uint64]bool{},
			edge:     map[uint64]*models.ChannelEdgeInfo{scid: localEdge},
			pol:      map[uint64]*models.ChannelEdgePolicy{},
		}
		if localPol != nil {
			rg.pol[scid] = localPol
		}
		ctx, err := c20NewCtxOpts(t, wps, u.chain, tip, rg, c20CtxOpts{
			self: selfPriv,
		})
		if err != nil {
			rt.Fatalf("harness: gossiper start: %v", err)
		}
		cctx, cancel := context.WithCancel(bg)
		defer func() {
			cancel()
			ctx.stop()
		}()

		// ---------------------------------------------------------
		// model
		var (
			known     bool
			proofSigs *[4][]byte // DER, nil: no proof
			labels    = map[string]bool{}
			fp        = []any{u.seed, selfSide, withPolicy}
			events    []string
			nontriv   bool
		)
		fail := func(format string, args ...any) {
			var b bytes.Buffer
			for i, e := range events {
				fmt.Fprintf(&b, "\n    %2d. %s", i+1, e)
			}
			rt.Fatalf("C20 racing local insertion (self=node%d, scid "+
				"%d, stored policy=%v): %s\n  history:%s", selfSide+1,
				scid, withPolicy, fmt.Sprintf(format, args...),
				b.String())
		}
		derOf := func(a *lnwire.ChannelAnnouncement1) [4][]byte {
			return [4][]byte{
				a.NodeSig1.ToSignatureBytes(),
				a.NodeSig2.ToSignatureBytes(),
				a.BitcoinSig1.ToSignatureBytes(),
				a.BitcoinSig2.ToSignatureBytes(),
			}
		}
		proofOf := func(p *models.ChannelAuthProof) [4][]byte {
			return [4][]byte{
				p.NodeSig1Bytes.UnwrapOr(nil),
				p.NodeSig2Bytes.UnwrapOr(nil),
				p.BitcoinSig1Bytes.UnwrapOr(nil),
				p.BitcoinSig2Bytes.UnwrapOr(nil),
			}
		}
		sameSigs := func(a, b [4][]byte) bool {
			for i := range a {
				if !bytes.Equal(a[i], b[i]) {
					return false
				}
			}

			return true
		}

		deliver := func(i int) bool {
			l := fmt.Sprintf("d%d", i)
			m := mkMsg(l)
			// A self-consistent announcement under other node keys
			// over the real funding output would legitimately enter
			// an EMPTY graph under the keys it states; this test is
			// about the own channel, so such a message always races
			// with the local insertion.
			forgedButEnterable := m.selfConsistent && !m.eligible &&
				m.fundable && !m.statesOwnKey
			race := rapid.IntRange(0, 3).Draw(rt, l+"race") > 0 ||
				forgedButEnterable
			peer := &mockPeer{pk: c20PrivFrom(u.seed,
				fmt.Sprintf("race/peer/%d", i)).PubKey()}
			fp = append(fp, m.class, race, fmt.Sprintf("%x", derOf(m.ann)))

			before := ctx.graph.snap()
			firedBefore, refusedBefore := rg.counters()
			rg.rmu.Lock()
			if race {
				rg.armed[scid] = true
			}
			rg.rmu.Unlock()

			p := ctx.send(cctx, m.ann, peer)
			out, rerr := ctx.await(p, c20Deadline, false)
			rg.rmu.Lock()
			delete(rg.armed, scid)
			rg.rmu.Unlock()
			if out == c20TimedOut {
				return false
			}
			fired, refused := rg.counters()
			inserted := fired > firedBefore
			reachedRejected := refused > refusedBefore
			events = append(events, fmt.Sprintf("remote "+
				"channel_announcement %s (eligible=%v) race=%v: "+
				"local edge inserted during IsKnownEdge=%v, AddEdge "+
				"refused as known=%v, err=%v", m.class, m.eligible,
				race, inserted, reachedRejected, c20zgShortErr(rerr)))

			// --- reference model
			wasKnown := known
			hadProof := proofSigs != nil
			mayAttach := false  // the received proof may be on the edge
			mustAttach := false // ... and has to be
			switch {
			case !wasKnown && inserted:
				known = true
				mayAttach = m.eligible
				// processRejectedEdge's documented job: "If the
				// received announcement contains a proof, we can
				// add this proof to our edge".
				mustAttach = m.eligible
				labels["race_"+m.class] = true

			case m.statesOwnKey:
				// dropped on entry, whatever the graph holds
				if inserted || reachedRejected {
					fail("harness: a remote announcement stating " +
						"this node's key reached the graph")
				}
				labels["dropped_states_own_key"] = true

			case !wasKnown && before.zombies[scid]:
				// An earlier announcement with a funding output
				// that does not match put the scid into the zombie
				// index (lnd's choice, outside the statement; see
				// the Histories assumptions): everything for it is
				// ignored from then on.
				if inserted || reachedRejected {
					fail("harness: zombie scid reached AddEdge")
				}
				labels["ignored_scid_in_zombie_index"] = true

			case !wasKnown && race:
				fail("harness: armed IsKnownEdge was never asked")

			case !wasKnown:
				// ordinary path into an empty graph
				if m.eligible && m.selfConsistent && m.fundable {
					known = true
					mayAttach, mustAttach = true, true
				}
				labels["norace_"+m.class] = true

			default:
				// already stored: not fresh. lnd ignores it; the
				// statement would allow an eligible proof.
				mayAttach = m.eligible && !hadProof
				labels["known_"+m.class] = true
			}

			// --- graph
			after := ctx.graph.snap()
			allowed := map[string]bool{}
			if known && (!wasKnown || mayAttach) {
				allowed[fmt.Sprintf("chan:%d", scid)] = true
			}
			if inserted && withPolicy {
				allowed[fmt.Sprintf("pol:%d/%d", scid, polSide)] = true
			}
			for _, d := range before.diff(after) {
				if !allowed[d] {
					fail("graph changed (%s) although no authentic, "+
						"fresh message accounts for it", d)
				}
			}
			info, has := ctx.graph.info(scid)
			if has != known {
				fail("channel in graph=%v, reference model %v", has,
					known)
			}
			if !has {
				return true
			}
			bk1 := info.BitcoinKey1Bytes.UnwrapOr(route.Vertex{})
			bk2 := info.BitcoinKey2Bytes.UnwrapOr(route.Vertex{})
			if [33]byte(info.NodeKey1Bytes) != [33]byte(trueAnn.NodeID1) ||
				[33]byte(info.NodeKey2Bytes) != [33]byte(trueAnn.NodeID2) ||
				[33]byte(bk1) != [33]byte(trueAnn.BitcoinKey1) ||
				[33]byte(bk2) != [33]byte(trueAnn.BitcoinKey2) {

				fail("the stored edge's keys changed")
			}
			switch {
			case info.AuthProof == nil && hadProof:
				fail("the stored proof disappeared")

			case info.AuthProof == nil && mustAttach:
				fail("all four signatures of the received "+
					"announcement verify under the stored edge's "+
					"keys, but the proof was not attached (err=%v)",
					rerr)

			case info.AuthProof == nil:
				if reachedRejected && !m.eligible {
					labels["forged_proof_refused_for_stored_edge"] =
						true
					nontriv = true
				}

			case hadProof:
				if !sameSigs(proofOf(info.AuthProof), *proofSigs) {
					fail("the stored proof was replaced")
				}

			default:
				// a proof appeared with this message
				got := proofOf(info.AuthProof)
				for i, raw := range got {
					name := [4]string{"node_signature_1",
						"node_signature_2", "bitcoin_signature_1",
						"bitcoin_signature_2"}[i]
					sig, err := ecdsa.ParseDERSignature(raw)
					if err != nil || !sig.Verify(storedDigest,
						storedPubs[i]) {

						fail("a proof was attached to the stored "+
							"edge whose %s does not verify over "+
							"the announcement digest under the "+
							"stored edge's key", name)
					}
				}
				if !mayAttach {
					fail("a proof was attached although the " +
						"reference model does not allow it")
				}
				if !sameSigs(got, derOf(m.ann)) {
					fail("the attached proof is not the received one")
				}
				proofSigs = &got
				if inserted {
					labels["proof_attached_via_rejected_edge"] = true
				} else {
					labels["proof_via_ordinary_path"] = true
				}
			}

			return true
		}

		n := rapid.IntRange(1, 3).Draw(rt, "nDeliveries")
		for i := 0; i < n; i++ {
			if !deliver(i) {
				st.Count("inconclusive", 1)
				return
			}
		}

		// ---------------------------------------------------------
		// relay
		if proofSigs != nil {
			deadline := time.Now().Add(2 * time.Second)
			seen := false
			for !seen && time.Now().Before(deadline) {
				for _, b := range ctx.broadcasts() {
					if k, ok := c20KeyOf(b); ok && k == c.ann.key {
						seen = true
					}
				}
				if !seen {
					time.Sleep(200 * time.Microsecond)
				}
			}
			if seen {
				labels["announcement_relayed_with_proof"] = true
			} else {
				st.Count("relay_not_observed", 1)
			}
		}
		time.Sleep(3 * c20Trickle)
		for _, b := range ctx.broadcasts() {
			k, _ := c20KeyOf(b)
			switch x := b.(type) {
			case *lnwire.ChannelAnnouncement1:
				if x.ShortChannelID != c.scid {
					continue
				}
				if proofSigs == nil {
					fail("a channel_announcement of the channel was " +
						"relayed although no proof that verifies " +
						"under the stored keys was received")
				}
				if k != c.ann.key {
					fail("a channel_announcement was relayed that is " +
						"not the authentic one (signatures or signed " +
						"data differ)")
				}
			case *lnwire.ChannelUpdate1:
				if x.ShortChannelID != c.scid {
					continue
				}
				if proofSigs == nil {
					fail("a channel_update of the unannounced " +
						"channel was relayed")
				}
				if k != polKey {
					fail("a channel_update was relayed that was " +
						"never stored")
				}
				labels["stored_update_relayed_with_proof"] = true
			}
		}
		if proofSigs == nil {
			labels["end_without_proof"] = true
		}

		ll := make([]string, 0, len(labels)+2)
		for k := range labels {
			ll = append(ll, "race:"+k)
		}
		sort.Strings(ll)
		ll = append(ll, fmt.Sprintf("race:self_is_node%d", selfSide+1),
			fmt.Sprintf("race:stored_policy=%v", withPolicy))
		var sample any
		if st.WantSample() {
			sample = map[string]any{"seed": u.seed, "events": events}
		}
		st.Case(vstats.FP(fp...), nontriv, ll, sample)
	})
}
